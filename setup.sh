#!/bin/sh
# Build the framework from files on disk only (offline): harness (from /repo's working tree, with the
# add-only overlay), regenerated constants, full .vo build of the Coq development.
set -e
cd "$(dirname "$0")"
export GOFLAGS=-mod=mod GOPROXY=off GOSUMDB=off GOTOOLCHAIN=local
python3 - <<'PY'
import sys
sys.path.insert(0, "lib")
import vlib
ok, out = vlib.harness_build()
if not ok:
    print(out); sys.exit(1)
vlib.gen_consts()
ok, out = vlib.coq_build(clean=True)
print(out[-2000:])
hits = vlib.forbidden_tokens()
if hits:
    print("forbidden tokens:", hits); sys.exit(1)
sys.exit(0 if ok else 1)
PY
