# DMap-level scenarios on real in-process clusters (harness `dmapops`): running, the property predicates
# (evaluated on the implementation's observations alone) and helpers shared by C01/C04/C09/C10/C15/C19.
import json

import vlib

MARGIN = 40          # ms: safety margin around every deadline


def run_cluster(cluster_cfg, scenarios, timeout=900):
    """One harness process = one cluster; scenarios run sequentially on it. Returns {id: result}."""
    inp = json.dumps(cluster_cfg) + "\n" + "".join(json.dumps({"id": s["id"], "ops": s["ops"]}) + "\n" for s in scenarios)
    p = vlib.harness(["dmapops"], input=inp, timeout=timeout)
    out = {}
    for line in p.stdout.splitlines():
        line = line.strip()
        if line.startswith("{"):
            r = json.loads(line)
            out[r["id"]] = r
    if p.returncode != 0 and len(out) < len(scenarios):
        raise vlib.CheckError("dmapops harness failed rc=%d after %d/%d scenarios: %s" % (p.returncode, len(out), len(scenarios), p.stderr[-1500:]))
    return out


def run_groups(groups, jobs=8, timeout=900):
    """groups: list of (cluster_cfg, scenarios). Runs the groups in parallel (one cluster each)."""
    from concurrent.futures import ThreadPoolExecutor
    res = {}
    with ThreadPoolExecutor(max_workers=jobs) as ex:
        futs = [ex.submit(run_cluster, cfg, scs, timeout) for cfg, scs in groups]
        for f in futs:
            res.update(f.result())
    return res


class Discard(Exception):
    """the run came too close to a deadline: the case is not judged"""


class Ref:
    """Reference semantics of one DMap namespace: (dmap, key) -> value with an optional expiry deadline known
    up to the invocation/response window of the operation that set it.  This IS the property statement of
    C09/C15 (and the sequential part of C01/C07/C08): nothing here looks at the implementation."""

    def __init__(self, default_ttl=None):
        self.m = {}                      # (d,k) -> {"val": bytes, "dl": None | (lo, hi)}
        self.default_ttl = default_ttl or {}     # dmap -> ms

    def visible(self, d, k, t0, t1):
        e = self.m.get((d, k))
        if e is None:
            return False
        if e["dl"] is None:
            return True
        lo, hi = e["dl"]
        if t1 + MARGIN < lo:
            return True
        if t0 - MARGIN > hi:
            return False
        raise Discard()

    def purge(self, d, k, t0, t1):
        if (d, k) in self.m and not self.visible(d, k, t0, t1):
            del self.m[(d, k)]

    def deadline(self, op, t0, t1):
        if op.get("ex"):
            return (t0 + op["ex"], t1 + op["ex"])
        if op.get("px"):
            return (t0 + op["px"], t1 + op["px"])
        for f in ("exat", "pxat"):
            if op.get(f):
                if op.get("rel"):
                    return (t0 + op[f], t1 + op[f])
                return (op[f], op[f])
        dt = self.default_ttl.get(op["d"])
        if dt:
            return (t0 + dt, t1 + dt)
        return None

    def step(self, op, ob):
        """returns the expected observation (dict with the fields that are specified)"""
        t0, t1 = ob["t0"], ob["t1"]
        d, k = op.get("d"), op.get("k")
        o = op["op"]
        if o == "put":
            vis = self.visible(d, k, t0, t1)
            if op.get("nx") and vis:
                return {"r": "keyfound"}
            if op.get("xx") and not vis:
                return {"r": "notfound"}
            self.m[(d, k)] = {"val": bytes.fromhex(op["v"]), "dl": self.deadline(op, t0, t1)}
            return {"r": "ok"}
        if o == "get":
            if not self.visible(d, k, t0, t1):
                return {"r": "notfound"}
            e = self.m[(d, k)]
            return {"r": "ok", "val": e["val"].hex(), "dl": e["dl"]}
        if o in ("del", "mdel"):
            keys = [k] if o == "del" else op["ks"]
            for kk in keys:
                self.m.pop((d, kk), None)
            return {"r": "ok", "n": len(keys)}
        if o == "expire":
            if not self.visible(d, k, t0, t1):
                return {"r": "notfound"}
            self.m[(d, k)]["dl"] = (t0 + op["ms"], t1 + op["ms"])
            return {"r": "ok"}
        if o == "getput":
            old = self.m[(d, k)]["val"].hex() if self.visible(d, k, t0, t1) else None
            self.m[(d, k)] = {"val": bytes.fromhex(op["v"]), "dl": self.deadline({"d": d}, t0, t1)}
            return {"r": "ok", "old": old}
        if o in ("incr", "decr"):
            base = 0
            dl = None
            if self.visible(d, k, t0, t1):
                e = self.m[(d, k)]
                dl = e["dl"]
                try:
                    base = int(e["val"].decode())
                except Exception:
                    base = 0
            new = base + op["delta"] if o == "incr" else base - op["delta"]
            if dl is not None:
                dl = (dl[0] - 3, dl[1] + 3)      # re-encoded as PX = time.Until(ttl): millisecond rounding
            else:
                dl = self.deadline({"d": d}, t0, t1)
            self.m[(d, k)] = {"val": str(new).encode(), "dl": dl}
            return {"r": "ok", "n": new}
        if o == "destroy":
            for (dd, kk) in list(self.m):
                if dd == d:
                    del self.m[(dd, kk)]
            return {"r": "ok"}
        if o == "scan":
            return None
        return None


def compare_obs(op, ob, exp):
    """None if the implementation's observation matches the expectation, else a message"""
    if exp is None:
        return None
    if ob.get("r") != exp["r"]:
        return "%s through %s returned %s, expected %s" % (op["op"], op.get("c"), ob.get("r"), exp["r"])
    if exp["r"] != "ok":
        return None
    if "val" in exp and ob.get("val") != exp["val"]:
        return "%s through %s returned value %s, expected %s" % (op["op"], op.get("c"), ob.get("val"), exp["val"])
    if "n" in exp and ob.get("n") != exp["n"]:
        return "%s through %s returned %s, expected %s" % (op["op"], op.get("c"), ob.get("n"), exp["n"])
    if "old" in exp and ob.get("old") != exp["old"]:
        return "%s through %s returned old value %s, expected %s" % (op["op"], op.get("c"), ob.get("old"), exp["old"])
    if "dl" in exp and "ttl" in ob:
        dl = exp["dl"]
        if dl is None and ob["ttl"] != 0:
            return "get returned ttl %d for a key without expiry" % ob["ttl"]
        if dl is not None and not (dl[0] - 2 <= ob["ttl"] <= dl[1] + 2):
            return "get returned ttl %d, expected within [%d, %d]" % (ob["ttl"], dl[0], dl[1])
    return None


def check_semantics(sc, obs, default_ttl=None):
    """Evaluate the reference semantics on a sequential scenario. Returns None | (step, msg) | 'discard'."""
    ref = Ref(default_ttl)
    try:
        for i, (op, ob) in enumerate(zip(sc["ops"], obs)):
            if str(ob.get("r", "")).startswith("harness:"):
                raise vlib.CheckError("harness error: " + ob["r"])
            if op["op"] in ("sleep", "dump", "stats", "keyinfo", "evict", "janitor", "compact", "lock", "unlock", "lease"):
                continue
            exp = ref.step(op, ob)
            msg = compare_obs(op, ob, exp)
            if msg:
                return (i, msg)
    except Discard:
        return "discard"
    return None


def check_mirror(sc, obs, replicas, members):
    """C04: after every acknowledged mutating operation every backup copy equals the primary copy
    (value, ttl, timestamp, presence) and there are exactly min(R, N) copies of a present key."""
    want = min(replicas, members)
    for i, (op, ob) in enumerate(zip(sc["ops"], obs)):
        if op["op"] != "dump":
            continue
        copies = ob.get("copies", [])
        prim = [c for c in copies if c["kind"] == "p"]
        baks = [c for c in copies if c["kind"] == "b"]
        if len(prim) > 1:
            return (i, "key %s has %d primary copies" % (op["k"], len(prim)))
        if not prim:
            if baks:
                return (i, "key %s: primary copy absent but %d backup copies present (%s)" % (op["k"], len(baks), baks[0]["val"][:16]))
            continue
        p = prim[0]
        if len(baks) != want - 1:
            return (i, "key %s: %d backup copies, expected %d" % (op["k"], len(baks), want - 1))
        for b in baks:
            for f in ("val", "ttl", "ts"):
                if b[f] != p[f]:
                    return (i, "key %s: backup copy on member %d differs from the primary in %s (%s vs %s)" % (op["k"], b["m"], f, str(b[f])[:24], str(p[f])[:24]))
    return None
