# DMap-level scenarios on real in-process clusters (harness `dmapops`): running, the property predicates
# (evaluated on the implementation's observations alone) and helpers shared by C01/C04/C09/C10/C15/C19.
import json

import vlib

MARGIN = 40          # ms: safety margin around every deadline


def run_cluster(cluster_cfg, scenarios, timeout=900):
    """One harness process = one cluster; scenarios run sequentially on it. Returns {id: result}."""
    inp = json.dumps(cluster_cfg) + "\n" + "".join(json.dumps({"id": s["id"], "ops": s["ops"]}) + "\n" for s in scenarios)
    p = vlib.harness(["dmapops"], input=inp, timeout=timeout)
    out = {}
    for line in p.stdout.splitlines():
        line = line.strip()
        if line.startswith("{"):
            r = json.loads(line)
            out[r["id"]] = r
    if p.returncode != 0 and len(out) < len(scenarios):
        raise vlib.CheckError("dmapops harness failed rc=%d after %d/%d scenarios: %s" % (p.returncode, len(out), len(scenarios), p.stderr[-1500:]))
    return out


def run_groups(groups, jobs=8, timeout=900):
    """groups: list of (cluster_cfg, scenarios). Runs the groups in parallel (one cluster each)."""
    from concurrent.futures import ThreadPoolExecutor
    res = {}
    with ThreadPoolExecutor(max_workers=jobs) as ex:
        futs = [ex.submit(run_cluster, cfg, scs, timeout) for cfg, scs in groups]
        for f in futs:
            res.update(f.result())
    return res


class Discard(Exception):
    """the run came too close to a deadline: the case is not judged"""


class Ref:
    """Reference semantics of one DMap namespace: (dmap, key) -> value with an optional expiry deadline known
    up to the invocation/response window of the operation that set it.  This IS the property statement of
    C09/C15 (and the sequential part of C01/C07/C08): nothing here looks at the implementation."""

    def __init__(self, default_ttl=None):
        self.m = {}                      # (d,k) -> {"val": bytes, "dl": None | (lo, hi)}
        self.default_ttl = default_ttl or {}     # dmap -> ms

    def visible(self, d, k, t0, t1):
        e = self.m.get((d, k))
        if e is None:
            return False
        if e["dl"] is None:
            return True
        lo, hi = e["dl"]
        if t1 + MARGIN < lo:
            return True
        if t0 - MARGIN > hi:
            return False
        raise Discard()

    def purge(self, d, k, t0, t1):
        if (d, k) in self.m and not self.visible(d, k, t0, t1):
            del self.m[(d, k)]

    def deadline(self, op, t0, t1):
        if op.get("ex"):
            return (t0 + op["ex"], t1 + op["ex"])
        if op.get("px"):
            return (t0 + op["px"], t1 + op["px"])
        for f in ("exat", "pxat"):
            if op.get(f):
                if op.get("rel"):
                    return (t0 + op[f], t1 + op[f])
                return (op[f], op[f])
        dt = self.default_ttl.get(op["d"])
        if dt:
            return (t0 + dt, t1 + dt)
        return None

    def step(self, op, ob):
        """returns the expected observation (dict with the fields that are specified)"""
        t0, t1 = ob["t0"], ob["t1"]
        d, k = op.get("d"), op.get("k")
        o = op["op"]
        if o == "put":
            vis = self.visible(d, k, t0, t1)
            if op.get("nx") and vis:
                return {"r": "keyfound"}
            if op.get("xx") and not vis:
                return {"r": "notfound"}
            self.m[(d, k)] = {"val": bytes.fromhex(op["v"]), "dl": self.deadline(op, t0, t1)}
            return {"r": "ok"}
        if o == "get":
            if not self.visible(d, k, t0, t1):
                return {"r": "notfound"}
            e = self.m[(d, k)]
            return {"r": "ok", "val": e["val"].hex(), "dl": e["dl"]}
        if o in ("del", "mdel"):
            keys = [k] if o == "del" else op["ks"]
            for kk in keys:
                self.m.pop((d, kk), None)
            return {"r": "ok", "n": len(keys)}
        if o == "expire":
            if not self.visible(d, k, t0, t1):
                return {"r": "notfound"}
            self.m[(d, k)]["dl"] = (t0 + op["ms"], t1 + op["ms"])
            return {"r": "ok"}
        if o == "getput":
            old = self.m[(d, k)]["val"].hex() if self.visible(d, k, t0, t1) else None
            self.m[(d, k)] = {"val": bytes.fromhex(op["v"]), "dl": self.deadline({"d": d}, t0, t1)}
            return {"r": "ok", "old": old}
        if o in ("incr", "decr"):
            base = 0
            dl = None
            if self.visible(d, k, t0, t1):
                e = self.m[(d, k)]
                dl = e["dl"]
                try:
                    base = int(e["val"].decode())
                except Exception:
                    base = 0
            new = base + op["delta"] if o == "incr" else base - op["delta"]
            if dl is not None:
                dl = (dl[0] - 3, dl[1] + 3)      # re-encoded as PX = time.Until(ttl): millisecond rounding
            else:
                dl = self.deadline({"d": d}, t0, t1)
            self.m[(d, k)] = {"val": str(new).encode(), "dl": dl}
            return {"r": "ok", "n": new}
        if o == "destroy":
            for (dd, kk) in list(self.m):
                if dd == d:
                    del self.m[(dd, kk)]
            return {"r": "ok"}
        if o == "scan":
            return None
        return None


def compare_obs(op, ob, exp):
    """None if the implementation's observation matches the expectation, else a message"""
    if exp is None:
        return None
    if ob.get("r") != exp["r"]:
        return "%s through %s returned %s, expected %s" % (op["op"], op.get("c"), ob.get("r"), exp["r"])
    if exp["r"] != "ok":
        return None
    if "val" in exp and ob.get("val") != exp["val"]:
        return "%s through %s returned value %s, expected %s" % (op["op"], op.get("c"), ob.get("val"), exp["val"])
    if "n" in exp and ob.get("n") != exp["n"]:
        return "%s through %s returned %s, expected %s" % (op["op"], op.get("c"), ob.get("n"), exp["n"])
    if "old" in exp and ob.get("old") != exp["old"]:
        return "%s through %s returned old value %s, expected %s" % (op["op"], op.get("c"), ob.get("old"), exp["old"])
    if "dl" in exp and "ttl" in ob:
        dl = exp["dl"]
        if dl is None and ob["ttl"] != 0:
            return "get returned ttl %d for a key without expiry" % ob["ttl"]
        if dl is not None and not (dl[0] - 2 <= ob["ttl"] <= dl[1] + 2):
            return "get returned ttl %d, expected within [%d, %d]" % (ob["ttl"], dl[0], dl[1])
    return None


def expand(ops, obs):
    """(index, op, observation) with the commands of a pipebatch (several commands queued in one pipeline, different keys)
    as individual operations through the path "pipe"; they carry the batch's invocation/response instants"""
    for i, (op, ob) in enumerate(zip(ops, obs)):
        if op["op"] == "pipebatch":
            if ob.get("r") != "ok" or not ob.get("results"):
                yield i, {"op": "put", "c": "pipe", "d": op["d"], "k": op["batch"][0]["k"], "v": op["batch"][0].get("v", "")}, ob
                continue
            for it, iob in zip(op["batch"], ob["results"]):
                b2 = dict(iob)
                for f in ("t0", "t1", "n0", "n1"):
                    b2.setdefault(f, ob.get(f))
                yield i, dict(it, d=op["d"], c="pipe"), b2
        else:
            yield i, op, ob


def check_semantics(sc, obs, default_ttl=None):
    """Evaluate the reference semantics on a sequential scenario. Returns None | (step, msg) | 'discard'."""
    ref = Ref(default_ttl)
    try:
        for i, op, ob in expand(sc["ops"], obs):
            if str(ob.get("r", "")).startswith("harness:"):
                raise vlib.CheckError("harness error: " + ob["r"])
            if op["op"] in ("sleep", "dump", "stats", "keyinfo", "evict", "janitor", "compact", "lock", "unlock", "lease"):
                continue
            if op.get("cx") and ob.get("r") != "ok":
                continue        # a call made with an expired context may be refused: then it changes nothing (mirror: next dump)
            exp = ref.step(op, ob)
            msg = compare_obs(op, ob, exp)
            if msg:
                return (i, msg)
    except Discard:
        return "discard"
    return None


def check_mirror(sc, obs, replicas, members):
    """C04: after every acknowledged mutating operation every backup copy equals the primary copy
    (value, ttl, timestamp, presence) and there are exactly min(R, N) copies of a present key."""
    want = min(replicas, members)
    for i, (op, ob) in enumerate(zip(sc["ops"], obs)):
        if op["op"] != "dump":
            continue
        copies = ob.get("copies", [])
        prim = [c for c in copies if c["kind"] == "p"]
        baks = [c for c in copies if c["kind"] == "b"]
        if len(prim) > 1:
            return (i, "key %s has %d primary copies" % (op["k"], len(prim)))
        if not prim:
            if baks:
                return (i, "key %s: primary copy absent but %d backup copies present (%s)" % (op["k"], len(baks), baks[0]["val"][:16]))
            continue
        p = prim[0]
        if len(baks) != want - 1:
            return (i, "key %s: %d backup copies, expected %d" % (op["k"], len(baks), want - 1))
        for b in baks:
            for f in ("val", "ttl", "ts"):
                if b[f] != p[f]:
                    return (i, "key %s: backup copy on member %d differs from the primary in %s (%s vs %s)" % (op["k"], b["m"], f, str(b[f])[:24], str(p[f])[:24]))
    return None


# ------------------------------------------------------------------------------------------
# Coq side (Model/DMapRun.v)
# ------------------------------------------------------------------------------------------

from vlib import cN, cZ, cnat, cbool, clist, cbytes, copt

COQ_HEADER = """From Coq Require Import List NArith ZArith Bool.
Require Import Olric.Model.Codec Olric.Model.DMap Olric.Model.DMapRun.
Import ListNotations.
"""

RCODES = {"ok": "ROk", "notfound": "RNotFound", "keyfound": "RKeyFound", "nosuchlock": "RNoSuchLock", "locknotacquired": "RKeyFound"}


def hb(x):
    return cbytes(bytes.fromhex(x))


def with_keyinfo(ops):
    """prepend a keyinfo op for every (dmap, key) the scenario touches"""
    seen = []
    for o in ops:
        ks = []
        if o.get("k") is not None and o.get("d"):
            ks.append(o["k"])
        for k in o.get("ks", []) or []:
            ks.append(k)
        for it in o.get("batch", []) or []:
            ks.append(it["k"])
        for k in ks:
            if (o["d"], k) not in seen:
                seen.append((o["d"], k))
    return [{"op": "keyinfo", "d": d, "k": k} for d, k in seen] + ops


def exp_of(op, t0):
    if op.get("ex"):
        return "(ERel %s)" % cZ(op["ex"])
    if op.get("px"):
        return "(ERel %s)" % cZ(op["px"])
    for f in ("exat", "pxat"):
        if op.get(f):
            return "(ERel %s)" % cZ(op[f]) if op.get("rel") else "(EAbs %s)" % cZ(op[f])
    return "ENone"


def case_to_coq(cfg, ops, obs, default_ttl=None, max_idle=None):
    """returns the Coq term (ccfg, list cstep) or None when the scenario has an observation without model
    counterpart"""
    routes = []
    steps = []
    # a stored expiry is known up to the invocation/response window of the operation that set it
    maxtol = max([ob["t1"] - ob["t0"] for op, ob in zip(ops, obs) if op["op"] not in ("sleep",) and "t0" in ob] + [0]) + 3
    tokmap = {}            # impl token value (hex) -> handle name
    lockkey = {}           # handle -> (d,k)
    allkeys = []
    lastlock = {}          # (d,k) -> handle of the latest acknowledged Lock

    def tr(dk, val):
        """a lock token is random: name it by the handle that acquired the key"""
        if val is None:
            return None
        if len(val) == 32 and dk in lastlock:
            if val not in tokmap:
                tokmap[val] = lastlock[dk]
        if val in tokmap:
            return tokmap[val].encode().hex()
        return val

    for _, op, ob in expand(ops, obs):
        o = op["op"]
        if o == "keyinfo":
            routes.append("(%s, %s, %s, %s)" % (hb(op["d"].encode().hex()), hb(op["k"]), cnat(ob["owner"]), clist(cnat(b) for b in (ob.get("backups") or []))))
            allkeys.append((op["d"], op["k"]))
            continue
        if o in ("sleep", "stats", "scan", "janitor", "compact") or ob.get("r") == "harness:no such lock handle":
            continue
        if op.get("cx") and ob.get("r") != "ok":
            continue
        t0, t1 = ob["t0"], ob["t1"]
        tol = maxtol
        d = hb(op["d"].encode().hex()) if op.get("d") else None
        r = ob.get("r")
        coqop = None
        coqobs = None
        if o == "put":
            coqop = "COp (DPut %s %s %s {| nx := %s; xx := %s; pexp := %s |})" % (d, hb(op["k"]), hb(op["v"]), cbool(op.get("nx", False)), cbool(op.get("xx", False)), exp_of(op, t0))
        elif o == "get":
            coqop = "COp (DGet %s %s)" % (d, hb(op["k"]))
            if r == "ok":
                coqobs = "BRes (RVal %s %s)" % (hb(tr((op["d"], op["k"]), ob["val"])), cZ(ob.get("ttl", -1)))
        elif o in ("del", "mdel"):
            ks = [op["k"]] if o == "del" else op["ks"]
            coqop = "COp (DDel %s %s)" % (d, clist(hb(k) for k in ks))
            if r == "ok":
                coqobs = "BRes (RCount %s)" % cnat(ob["n"])
        elif o == "expire":
            coqop = "COp (DExpire %s %s %s)" % (d, hb(op["k"]), cZ(op["ms"]))
        elif o == "getput":
            coqop = "COp (DGetPut %s %s %s)" % (d, hb(op["k"]), hb(op["v"]))
            if r == "ok":
                old = tr((op["d"], op["k"]), ob.get("old"))
                coqobs = "BRes (ROld %s)" % copt(hb(old) if old is not None else None)
        elif o in ("incr", "decr"):
            delta = op["delta"] if o == "incr" else -op["delta"]
            coqop = "COp (DIncr %s %s %s)" % (d, hb(op["k"]), cZ(delta))
            if r == "ok":
                coqobs = "BRes (RInt %s)" % cZ(ob["n"])
        elif o == "lock":
            coqop = "COp (DLock %s %s %s %s)" % (d, hb(op["k"]), hb(op["tok"].encode().hex()), cZ(op.get("ms", 0)))
            lockkey[op["tok"]] = (op["d"], op["k"])
            if r == "ok":
                lastlock[(op["d"], op["k"])] = op["tok"]
        elif o in ("unlock", "lease"):
            if op.get("forge"):
                dk = (op["d"], op["k"])
                tok = hb(op["forge"])
            else:
                dk = lockkey.get(op["tok"])
                tok = hb(op["tok"].encode().hex())
            if dk is None:
                return None
            if o == "unlock":
                coqop = "COp (DUnlock %s %s %s)" % (hb(dk[0].encode().hex()), hb(dk[1]), tok)
            else:
                coqop = "COp (DLease %s %s %s %s)" % (hb(dk[0].encode().hex()), hb(dk[1]), tok, cZ(op["ms"]))
        elif o == "destroy":
            coqop = "COp (DDestroy %s)" % d
        elif o == "evict":
            coqop = "COp (DEvict %s %s)" % (cnat(op["m"]), clist("(%s, %s)" % (hb(dd.encode().hex()), hb(kk)) for dd, kk in allkeys))
        elif o == "dump":
            coqop = "CDump %s %s" % (d, hb(op["k"]))
            items = []
            for c in sorted(ob.get("copies", []), key=lambda c: (c["m"], c["kind"] == "b")):
                if c["ttl"] != 0 and c["ttl"] <= t0:
                    continue        # expired: may or may not have been evicted yet
                val = tr((op["d"], op["k"]), c["val"])
                items.append("(%s, %s, %s, %s)" % (cnat(c["m"]), cbool(c["kind"] == "b"), hb(val), cZ(c["ttl"])))
            coqobs = "BCopies %s" % clist(items)
        else:
            return None
        if coqobs is None:
            if r in RCODES:
                coqobs = "BRes %s" % RCODES[r]
            else:
                return None
        steps.append("{| c_now := %s; c_tol := %s; c_op := %s; c_obs := %s |}" % (cZ(t0), cZ(tol), coqop, coqobs))
    ttl = clist("(%s, %s)" % (hb(dn.encode().hex()), cZ(ms)) for dn, ms in (default_ttl or {}).items())
    idle = clist("(%s, %s)" % (hb(dn.encode().hex()), cZ(ms)) for dn, ms in (max_idle or {}).items())
    ccfg = "{| c_members := %s; c_replicas := %s; c_routes := %s; c_ttl := %s; c_idle := %s |}" % (
        cnat(cfg["members"]), cnat(cfg.get("replicas", 1)), clist(routes), ttl, idle)
    return "(%s, %s)" % (ccfg, clist(steps))


def coq_compare(prefix, cases, shard=20, jobs=16):
    """cases: list of (id, coq_term). Returns list of (id, step_index_among_modelled_steps)."""
    shards = [cases[i:i + shard] for i in range(0, len(cases), shard)]
    texts = [COQ_HEADER + "Definition cases : list (ccfg * list cstep) := [\n" + ";\n".join(t for _, t in sh) +
             "\n].\nDefinition M := Eval vm_compute in mismatches cases 0.\nPrint M.\n" for sh in shards]
    outs = vlib.coq_eval_shards(prefix, texts, jobs=jobs)
    import re
    mism = []
    secs = 0.0
    for sh, (rc, out, err, dt) in zip(shards, outs):
        secs += dt
        if rc != 0 or "M =" not in out:
            raise vlib.CheckError("coqc failed on generated DMap cases: " + (err or out)[-2000:])
        flat = " ".join(out.split("M =", 1)[1].rsplit(":", 1)[0].split())
        for m in re.finditer(r"\((\d+)(?:%nat)?, (\d+)(?:%nat)?\)", flat):
            mism.append((sh[int(m.group(1))][0], int(m.group(2))))
    return mism, secs


def model_trace(term):
    txt = COQ_HEADER + "Definition T := Eval vm_compute in let c := %s in run_obs (fst c) [] (snd c) 0.\nPrint T.\n" % term
    rc, out, err, dt = vlib.coq_eval("dtrace_%d" % __import__("os").getpid(), txt)
    if rc != 0:
        return "coqc failed: " + err[-500:]
    return " ".join(out.split("T =", 1)[-1].split())[:6000]


# ------------------------------------------------------------------------------------------
# generators
# ------------------------------------------------------------------------------------------

ALLPATHS = ["emb@owner", "emb@other", "emb@backup", "cc", "raw@owner", "raw@other", "pipe"]


def hx(s):
    return s.encode().hex()


def gen_seq(rng, dname, nops, nkeys=3, paths=None, dump=True, short_ttl=True, locks=True, evict_members=0, pad=None, past=0.0):
    """random sequence of mutating operations and reads on a few keys of one DMap, every client path"""
    paths = paths or ALLPATHS
    keys = [hx("%s-k%d" % (dname, i)) for i in range(nkeys)]
    ops = []
    handles = 0
    held = []
    for _ in range(nops):
        k = rng.choice(keys)
        c = rng.choice(paths)
        w = rng.random()
        if w < 0.30:
            op = {"op": "put", "c": c, "d": dname, "k": k, "v": hx("v%d" % rng.randrange(1000) + ("p" * rng.choice(pad) if pad else ""))}
            x = rng.random()
            if x < 0.15:
                op["nx"] = True
            elif x < 0.30:
                op["xx"] = True
            y = rng.random()
            ttl = 60000 if (not short_ttl or rng.random() < 0.6) else 200
            if y < 0.12:
                op["ex"] = 60000 if c.startswith("raw") or ttl == 60000 else 200
                if c.startswith("raw"):
                    op["ex"] = 60000
            elif y < 0.30:
                op["px"] = ttl
            elif y < 0.38:
                op["exat"], op["rel"] = 60000, True
            elif y < 0.46:
                op["pxat"], op["rel"] = ttl, True
            if past and rng.random() < past:
                # an absolute expiry that has already passed when the write is made: acknowledged, the key reads as absent
                # afterwards, and every copy - not only the owner's - has to carry the write (seeded/C04-g)
                for f in ("ex", "px", "exat", "pxat"):
                    op.pop(f, None)
                op[rng.choice(["pxat", "exat"])], op["rel"] = -rng.choice([3000, 5000]), True
            ops.append(op)
        elif w < 0.40:
            ops.append({"op": "get", "c": c, "d": dname, "k": k})
        elif w < 0.50:
            ops.append({"op": "del", "c": c, "d": dname, "k": k})
        elif w < 0.58:
            ops.append({"op": "expire", "c": c, "d": dname, "k": k, "ms": rng.choice([60000, 200] if short_ttl else [60000])})
        elif w < 0.66:
            ops.append({"op": "getput", "c": c, "d": dname, "k": k, "v": hx("g%d" % rng.randrange(1000) + ("p" * rng.choice(pad) if pad else ""))})
        elif w < 0.78:
            cc = c if c != "pipe" or True else "cc"
            ops.append({"op": rng.choice(["incr", "decr"]), "c": cc, "d": dname, "k": k, "delta": rng.randrange(1, 50)})
        elif w < 0.84 and short_ttl:
            ops.append({"op": "sleep", "ms": 200 + 2 * MARGIN + 40})
        elif w < 0.90 and evict_members:
            ops.append({"op": "evict", "m": rng.randrange(evict_members)})
        elif locks:
            lk = hx("%s-lock%d" % (dname, rng.randrange(2)))
            lc = rng.choice([p for p in paths if p != "pipe"])
            x = rng.random()
            if x < 0.5 or not held:
                handles += 1
                h = "%s-h%d" % (dname, handles)
                lop = {"op": "lock", "c": lc, "d": dname, "k": lk, "ms": rng.choice([0, 60000, 60500]), "dl": 20, "tok": h}
                if lc.startswith("raw") and lop["ms"] and rng.random() < 0.5:
                    lop["ex"] = 1           # DM.LOCK ... EX <seconds, fractional> instead of PX <ms>
                ops.append(lop)
                held.append((h, lk))
                k = lk
            elif x < 0.75:
                h, k = rng.choice(held)
                ops.append({"op": "unlock", "tok": h})
            else:
                h, k = rng.choice(held)
                ops.append({"op": "lease", "tok": h, "ms": 60000})
        else:
            continue
        if ops[-1]["op"] in ("put", "expire", "getput", "incr", "decr") and ops[-1]["c"].startswith("emb") and rng.random() < 0.1:
            # the caller's context is past its deadline when the call is made: the operation may be refused (and then changes
            # nothing); when it is acknowledged it has to be complete on every copy
            ops[-1]["cx"] = "expired"
        if dump and ops[-1]["op"] not in ("sleep", "evict"):
            ops.append({"op": "dump", "d": dname, "k": k})
    if dump:
        for k in keys:
            ops.append({"op": "get", "c": "emb@owner", "d": dname, "k": k})
            ops.append({"op": "dump", "d": dname, "k": k})
    return ops


def judge_seq(sc, obs, cfg):
    """reference semantics (locks included) + mirror"""
    v = check_semantics_locks(sc, obs, sc.get("default_ttl"))
    if v:
        return v
    return check_mirror(sc, obs, cfg.get("replicas", 1), cfg["members"])


def check_semantics_locks(sc, obs, default_ttl=None):
    """check_semantics extended with Lock / Unlock / Lease (tokens are named by their handle)"""
    ref = Ref(default_ttl)
    holder = {}                 # handle -> (d, k)
    try:
        for i, op, ob in expand(sc["ops"], obs):
            if ob.get("r") == "harness:no such lock handle":
                continue            # Unlock/Lease of a handle whose Lock was refused: nothing was sent
            if str(ob.get("r", "")).startswith("harness:"):
                raise vlib.CheckError("harness error: " + ob["r"])
            o = op["op"]
            if o in ("sleep", "dump", "stats", "keyinfo", "janitor", "compact", "scan"):
                continue
            t0, t1 = ob["t0"], ob["t1"]
            if o == "evict":
                continue
            if op.get("cx") and ob.get("r") != "ok":
                continue        # refused because of the caller's expired context: changes nothing
            if o == "lock":
                d, k = op["d"], op["k"]
                vis = ref.visible(d, k, t0, t1)
                if vis:
                    exp = "locknotacquired"
                    if ob.get("r") == exp and (t1 - t0) + 2 < op["dl"]:
                        return (i, "Lock failed after %d ms, before its deadline of %d ms" % (t1 - t0, op["dl"]))
                else:
                    exp = "ok"
                    ref.m[(d, k)] = {"val": ("tok:" + op["tok"]).encode(), "dl": (t0 + op["ms"], t1 + op["ms"]) if op.get("ms") else None}
                    holder[op["tok"]] = (d, k)
                if ob.get("r") != exp:
                    return (i, "lock through %s returned %s, expected %s" % (op.get("c"), ob.get("r"), exp))
                continue
            if o in ("unlock", "lease"):
                if op.get("forge"):
                    d, k = op["d"], op["k"]
                    mine = False
                else:
                    d, k = holder.get(op["tok"], (None, None))
                    mine = d is not None and ref.visible(d, k, t0, t1) and ref.m[(d, k)]["val"] == ("tok:" + op["tok"]).encode()
                exp = "ok" if mine else "nosuchlock"
                if ob.get("r") != exp:
                    return (i, "%s with %s token returned %s, expected %s" % (o, "the holder's" if mine else "a stale/forged", ob.get("r"), exp))
                if mine:
                    if o == "unlock":
                        del ref.m[(d, k)]
                    else:
                        ref.m[(d, k)]["dl"] = (t0 + op["ms"], t1 + op["ms"])
                continue
            exp = ref.step(op, ob)
            # a lock key read through get: value is a random token
            if o == "get" and exp and exp.get("r") == "ok" and exp.get("val", "").startswith("tok:".encode().hex()):
                exp = {"r": "ok"}
            if o == "getput" and exp and (exp.get("old") or "").startswith("tok:".encode().hex()):
                exp = {"r": "ok"}
            msg = compare_obs(op, ob, exp)
            if msg:
                return (i, msg)
    except Discard:
        return "discard"
    return None


def mirror_lengths(stats_ob, replicas, members):
    """C04 on fragment level, from a `stats` observation: with R copies on a stable cluster every partition's backup
    fragments hold as many keys as its primary fragment (eviction and Delete remove a key from every copy)."""
    if min(replicas, members) < 2:
        return None
    prim, back = {}, {}
    for s in stats_ob.get("stats") or []:
        for part, ln, inuse in s.get("parts") or []:
            if s["kind"] == "p":
                prim[part] = prim.get(part, 0) + ln
            else:
                back.setdefault(part, []).append((s["m"], ln))
    for part, bs in sorted(back.items()):
        for m, ln in bs:
            if ln != prim.get(part, 0):
                return "partition %d: the backup fragment on member %d holds %d keys, the primary fragment %d" % (part, m, ln, prim.get(part, 0))
    return None
