# Storage-engine scenarios: generation, execution on the real kvstore (harness `store`), the property's
# own predicate (a reference map evaluated on the implementation's observations, independent of the Coq
# model), and the comparison with the Gallina model evaluated by vm_compute (Model/StoreRun.v).
import itertools
import json
import re

import vlib
from vlib import cN, cZ, cnat, cbool, clist, cbytes, copt

META = 29


def esize(k, v):
    return len(k) + len(v) + META


# ------------------------------------------------------------------------------------------
# running the implementation
# ------------------------------------------------------------------------------------------

def run_impl(scenarios, timeout=900):
    """scenarios: list of dicts (id,size,fork,expired,ops). Returns {id: result}."""
    results = {}
    pending = list(scenarios)
    while pending:
        inp = "".join(json.dumps(s) + "\n" for s in pending)
        p = vlib.harness(["store"], input=inp, timeout=timeout)
        got = []
        for line in p.stdout.splitlines():
            line = line.strip()
            if not line:
                continue
            r = json.loads(line)
            results[r["id"]] = r
            got.append(r["id"])
        if p.returncode == 0:
            break
        if p.returncode == 7:
            # the last reported scenario hung; continue after it
            done = set(got)
            pending = [s for s in pending if s["id"] not in done]
            continue
        raise vlib.CheckError("store harness failed rc=%d: %s" % (p.returncode, p.stderr[-2000:]))
    return results


# ------------------------------------------------------------------------------------------
# the property predicate (C11/C12/C17/C20 wording), evaluated on the implementation alone
# ------------------------------------------------------------------------------------------

def refmap_check(sc, obs, bounds=True):
    """Returns None when every observation is what a map would return, else (step, message)."""
    size = sc["size"]
    maps = {"a": {}, "b": {}}
    paged = {}        # store -> open paged iteration: {"start": {hkey: key}, "touched": set, "yielded": [keys]}
    for i, op in enumerate(sc["ops"]):
        if i >= len(obs):
            return (i, "no observation (scenario aborted)")
        ob = obs[i]
        if op[0] in ("put", "putraw", "del", "updttl") and len(op) > 2 and op[1] in paged:
            paged[op[1]]["touched"].add(int(op[2]))
        if op[0] == "xfer":
            paged.clear()
        if op[0] == "scanreset":
            paged.pop(op[1], None)
            continue
        if op[0] == "scanpage":
            # an iteration kept open across other operations (compaction included): every entry that is present from the
            # first page to the last and never written or deleted in between is handed out at least once
            if ob[0] != "page" or ob[2] is None:
                return (i, "scan page failed: %s" % (ob[1:],))
            w_ = op[1]
            if ob[1] == 0 or w_ not in paged:
                paged[w_] = {"start": {h: e[0].hex() for h, e in maps[w_].items()} if ob[1] == 0 else {}, "touched": set(), "yielded": []}
            paged[w_]["yielded"] += ob[3] or []
            if ob[2] == 0:
                it = paged.pop(w_)
                need = {}
                for h, k in it["start"].items():
                    if h not in it["touched"]:
                        need[k] = need.get(k, 0) + 1
                for k, n in need.items():
                    got = it["yielded"].count(k)
                    if got < n:
                        return (i, "a paged scan (COUNT %d, other operations between its pages) handed out key %s %d times; %d entries with that key "
                                   "were present and untouched from its first page to its last" % (op[2], k, got, n))
            continue
        if ob[0] == "hang":
            return (i, "operation %s did not return (watchdog)" % op[0])
        if ob[0] == "panic":
            return (i, "operation %s panicked: %s" % (op[0], ob[1]))
        name = op[0]
        m = maps.get(op[1]) if len(op) > 1 and op[1] in ("a", "b") else None
        if name in ("put", "putraw"):
            h, k, v, ttl, ts = int(op[2]), bytes.fromhex(op[3]), bytes.fromhex(op[4]), op[5], op[6]
            toolarge = esize(k, v) >= size
            longkey = len(k) >= 256 and name == "put"
            if toolarge or longkey:
                allowed = set()
                if toolarge:
                    allowed.add("entrytoolarge")
                if longkey:
                    allowed.add("keytoolarge")
                if ob[1] not in allowed:
                    return (i, "%s of an entry that must be rejected (%s) returned %s" % (name, "/".join(sorted(allowed)), ob[1]))
            else:
                if ob[1] != "nil":
                    return (i, "%s of a fitting entry returned %s" % (name, ob[1]))
                m[h] = (k, v, ttl, ts)
        elif name in ("get", "getraw"):
            h = int(op[2])
            if h in m:
                k, v, ttl, ts = m[h]
                exp = ["entry", "nil", k.hex(), v.hex(), ttl, ts]
            else:
                exp = ["entry", "notfound"]
            if ob != exp:
                return (i, "%s(%d) returned %s, the map holds %s" % (name, h, ob[1:], exp[1:]))
        elif name == "getkey":
            h = int(op[2])
            exp = ["key", "nil", m[h][0].hex()] if h in m else ["key", "notfound"]
            if ob != exp:
                return (i, "getkey(%d) returned %s, expected %s" % (h, ob[1:], exp[1:]))
        elif name == "getttl":
            h = int(op[2])
            exp = ["ttl", "nil", m[h][2]] if h in m else ["ttl", "notfound"]
            if ob != exp:
                return (i, "getttl(%d) returned %s, expected %s" % (h, ob[1:], exp[1:]))
        elif name == "check":
            h = int(op[2])
            if ob != ["bool", h in m]:
                return (i, "check(%d) returned %s, expected %s" % (h, ob[1], h in m))
        elif name == "del":
            h = int(op[2])
            if ob[1] != "nil":
                return (i, "delete returned %s" % ob[1])
            m.pop(h, None)
        elif name == "updttl":
            h = int(op[2])
            if h in m:
                if ob[1] != "nil":
                    return (i, "updatettl on a present key returned %s" % ob[1])
                k, v, _, _ = m[h]
                m[h] = (k, v, op[3], op[4])
            elif ob[1] != "notfound":
                return (i, "updatettl on an absent key returned %s" % ob[1])
        elif name in ("stats", "len"):
            ln = ob[4] if name == "stats" else ob[1]
            inuse = ob[2]
            if ln != len(m):
                return (i, "reported entry count %d, %d keys are present" % (ln, len(m)))
            live = sum(esize(k, v) for (k, v, _, _) in m.values())
            if inuse != live:
                return (i, "in-use bytes %d, live entries occupy %d" % (inuse, live))
            if name == "stats" and bounds:
                alloc, garb, tables = ob[1], ob[3], ob[5]
                if alloc != tables * size:
                    return (i, "allocated %d with %d tables of %d" % (alloc, tables, size))
                if inuse + garb > alloc:
                    return (i, "inuse+garbage %d exceeds allocated %d" % (inuse + garb, alloc))
        elif name == "range":
            exp = [[str(h), k.hex(), v.hex(), ttl, ts] for h, (k, v, ttl, ts) in sorted(m.items())]
            if ob[1] != exp and not (ob[1] is None and exp == []):
                return (i, "iteration visited %s, present: %s" % (ob[1], exp))
        elif name == "compact":
            if not isinstance(ob[1], bool):
                return (i, "compaction failed: %s" % ob[1])
        elif name == "compactall":
            if ob[1] is None:
                return (i, "compaction did not report completion within 400 calls")
            bound = 2 * len(m) + sc.get("_maxtables", 64) + 1
            if ob[1] > bound:
                return (i, "compaction needed %d calls" % ob[1])
        elif name == "scanall":
            pat = op[3]
            exp = sorted(k.hex() for (k, _, _, _) in m.values() if pat == 0 or (pat <= 256 and len(k) > 0 and k[0] == pat - 1) or (pat > 256 and (pat - 257) in k))
            if ob[1] is None:
                return (i, "scan did not terminate within 400 pages")
            if ob[1] != exp:
                return (i, "full scan (count=%d pat=%d) yielded %s, present keys: %s" % (op[2], pat, ob[1], exp))
        elif name == "xfer":
            if ob[1] is True:
                a, b = maps["a"], maps["b"]
                for hs in ob[2]:
                    h = int(hs)
                    if h not in a:
                        return (i, "transfer shipped hkey %d which the source does not hold" % h)
                    b[h] = a.pop(h)
            elif ob[1] is not False:
                return (i, "transfer failed: %s" % ob[1])
        else:
            raise ValueError(name)
    return None


# ------------------------------------------------------------------------------------------
# Coq side
# ------------------------------------------------------------------------------------------

def w(x):
    return "A" if x == "a" else "B"


def cview(k, v, ttl, ts):
    return "(%s, %s, %s, %s)" % (cbytes(bytes.fromhex(k)), cbytes(bytes.fromhex(v)), cZ(ttl), cZ(ts))


CODES = {"nil": "CNil", "keytoolarge": "CKeyTooLarge", "entrytoolarge": "CEntryTooLarge", "notfound": "CNotFound"}


def op_to_coq(op, ob=None):
    n = op[0]
    if n == "compact":
        ord_ = ob[2] if ob is not None and len(ob) > 2 and ob[2] else []
        return "OCompact %s %s" % (w(op[1]), clist(cN(int(h)) for h in ord_))
    if n == "compactall":
        ords = ob[2] if ob is not None and len(ob) > 2 and ob[2] else []
        return "OCompactAll %s %s" % (w(op[1]), clist(clist(cN(int(h)) for h in o) for o in ords))
    if n == "put":
        return "OPut %s %s %s %s %s %s" % (w(op[1]), cN(int(op[2])), cbytes(bytes.fromhex(op[3])), cbytes(bytes.fromhex(op[4])), cZ(op[5]), cZ(op[6]))
    if n == "putraw":
        return "OPutRaw %s %s %s %s %s %s" % (w(op[1]), cN(int(op[2])), cbytes(bytes.fromhex(op[3])), cbytes(bytes.fromhex(op[4])), cZ(op[5]), cZ(op[6]))
    simple = {"get": "OGet", "getraw": "OGetRaw", "getkey": "OGetKey", "getttl": "OGetTTL", "check": "OCheck", "del": "ODel"}
    if n in simple:
        return "%s %s %s" % (simple[n], w(op[1]), cN(int(op[2])))
    if n == "updttl":
        return "OUpdTTL %s %s %s %s" % (w(op[1]), cN(int(op[2])), cZ(op[3]), cZ(op[4]))
    nullary = {"stats": "OStats", "len": "OLen", "range": "ORange"}
    if n in nullary:
        return "%s %s" % (nullary[n], w(op[1]))
    if n == "scanall":
        return "OScanAll %s %s %s" % (w(op[1]), cnat(op[2]), cN(op[3]))
    if n == "xfer":
        order = ob[3] if ob is not None and len(ob) > 3 and ob[3] else []
        return "OXfer %s" % clist(cN(int(h)) for h in order)
    raise ValueError(n)


def obs_to_coq(ob):
    """None when the observation has no model counterpart (hang, panic, unexpected error)."""
    t = ob[0]
    if t == "code":
        return "BCode %s" % CODES[ob[1]] if ob[1] in CODES else None
    if t == "entry":
        if ob[1] == "nil":
            return "BEntry (Some %s)" % cview(*ob[2:6])
        return "BEntry None" if ob[1] == "notfound" else None
    if t == "key":
        if ob[1] == "nil":
            return "BKey (Some %s)" % cbytes(bytes.fromhex(ob[2]))
        return "BKey None" if ob[1] == "notfound" else None
    if t == "ttl":
        if ob[1] == "nil":
            return "BTTL (Some %s)" % cZ(ob[2])
        return "BTTL None" if ob[1] == "notfound" else None
    if t == "bool":
        return "BBool %s" % cbool(ob[1])
    if t == "stats":
        if any(isinstance(x, int) and x < 0 for x in ob[1:6]):
            return "BCode CNil"        # a negative counter: no model answer can equal it (the mismatch is then reported with this step)
        return "BStats %s %s %s %s %s" % tuple(cN(x) for x in ob[1:6])
    if t == "len":
        return "BLen %s %s" % (cN(ob[1]), cN(ob[2]))
    if t == "range":
        items = ob[1] or []
        return "BRange %s" % clist("(%s, %s)" % (cN(int(x[0])), cview(*x[1:5])) for x in items)
    if t == "done":
        return "BDone %s" % cbool(ob[1]) if isinstance(ob[1], bool) else None
    if t == "steps":
        return "BSteps %s" % copt(cN(ob[1]) if ob[1] is not None else None)
    if t == "keys":
        if ob[1] is None:
            return "BKeys None"
        return "BKeys (Some %s)" % clist(cbytes(bytes.fromhex(k)) for k in ob[1])
    if t == "xfer":
        return "BXfer %s" % cbool(ob[1]) if isinstance(ob[1], bool) else None
    return None


def case_to_coq(sc, obs):
    """Coq term for one case, truncated at the first observation that has no model counterpart."""
    pairs = []
    for op, ob in zip(sc["ops"], obs):
        if op[0] in ("scanpage", "scanreset"):
            continue        # an iteration kept open across other operations: judged by paged_scan_check, no model step
        o = obs_to_coq(ob)
        if o is None:
            break
        pairs.append("(%s, %s)" % (op_to_coq(op, ob), o))
    cfg = "{| c_size := %s; c_fork := %s; c_expired := %s; c_eqsize := %s |}" % (
        cN(sc["size"]), cbool(sc.get("fork", False)), cbool(sc.get("expired", False)), cbool(sc.get("eqsize", False)))
    return "(%s, %s)" % (cfg, clist(pairs))


HEADER = """From Coq Require Import List NArith ZArith Bool.
Require Import Olric.Gen.Consts Olric.Model.Codec Olric.Model.Store Olric.Model.StoreRun.
Import ListNotations.
"""


def coq_compare(prefix, scenarios, results, shard=250, jobs=16):
    """Evaluate the model on every (scenario, impl observations) pair inside Coq.
    Returns (mismatches, seconds) with mismatches = list of (scenario id, step, model obs text)."""
    ids = [s["id"] for s in scenarios if s["id"] in results]
    byid = {s["id"]: s for s in scenarios}
    shards = [ids[i:i + shard] for i in range(0, len(ids), shard)]
    texts = []
    for sh in shards:
        cases = [case_to_coq(byid[i], results[i]["obs"]) for i in sh]
        texts.append(HEADER + "Definition cases : list (cfg * list (op * obs)) := [\n" + ";\n".join(cases) +
                     "\n].\nDefinition M := Eval vm_compute in mismatches cases 0.\nPrint M.\n")
    outs = vlib.coq_eval_shards(prefix, texts, jobs=jobs)
    mism = []
    secs = 0.0
    for sh, (rc, out, err, dt) in zip(shards, outs):
        secs += dt
        if rc != 0:
            raise vlib.CheckError("coqc failed on generated cases: " + err[-3000:])
        body = out.split("M =", 1)[1] if "M =" in out else None
        if body is None:
            raise vlib.CheckError("no result in coq output: " + out[-500:] + err[-500:])
        body = body.rsplit(":", 1)[0]
        flat = " ".join(body.split())
        for m in re.finditer(r"\((\d+)(?:%nat)?, (\d+)(?:%nat)?\)", flat):
            mism.append((sh[int(m.group(1))], int(m.group(2)), None))
    return mism, secs


def model_trace(sc):
    """the model's observations for one scenario, as Coq prints them (for replay files)"""
    cfg = "{| c_size := %s; c_fork := %s; c_expired := %s; c_eqsize := %s |}" % (
        cN(sc["size"]), cbool(sc.get("fork", False)), cbool(sc.get("expired", False)), cbool(sc.get("eqsize", False)))
    txt = HEADER + "Definition T := Eval vm_compute in let c := %s in run_obs c (init c) %s.\nPrint T.\n" % (
        cfg, clist(op_to_coq(o, b) for o, b in zip(sc["ops"], sc.get("_obs") or [None] * len(sc["ops"]))))
    rc, out, err, dt = vlib.coq_eval("trace_%d" % __import__("os").getpid(), txt)
    if rc != 0:
        return "coqc failed: " + err[-500:]
    return " ".join(out.split("T =", 1)[-1].split())


# ------------------------------------------------------------------------------------------
# generators
# ------------------------------------------------------------------------------------------

def mk_put(rng, wh, h, klen, vlen, raw=False, ts=None):
    k = bytes([97 + (h % 3)]) + bytes([(h * 7) % 256]) * max(klen - 1, 0) if klen > 0 else b""
    v = bytes([rng.randrange(256)]) * vlen      # one repeated byte: compact in the generated Coq file
    ttl = rng.choice([0, 0, 1758600000123, -1])
    if ts is None:
        ts = rng.randrange(1, 1 << 40)
    return ["putraw" if raw else "put", wh, str(h), k.hex(), v.hex(), ttl, ts]


def gen_paged_scan(rng, sid):
    """an iteration kept open, page by page, while entries it has already handed out are deleted and compaction recycles the
    table the cursor stands in (and other tables)"""
    size = rng.choice([257, 509])
    nk = rng.choice([24, 36])
    vlen = rng.choice([40, 60])
    ops = []
    ts = 1
    for h in range(1, nk + 1):
        k = bytes([97 + h % 3, h])          # distinct keys
        ops.append(["put", "a", str(h), k.hex(), (bytes([rng.randrange(256)]) * vlen).hex(), 0, ts])
        ts += 1
    cnt = rng.choice([2, 3, 5])
    pages_before = rng.randrange(2, max(3, nk // cnt - 2))
    ops.append(["scanreset", "a"])
    for _ in range(pages_before):
        ops.append(["scanpage", "a", cnt])
    # delete a run of hkeys in the middle (written one after the other: they share tables), then compact to completion
    lo = rng.randrange(2, nk // 2)
    for h in range(lo, min(nk, lo + rng.randrange(4, 12))):
        ops.append(["del", "a", str(h)])
    ops.append([rng.choice(["compactall", "compact"]), "a"])
    for _ in range(nk // cnt + 6):
        ops.append(["scanpage", "a", cnt])
    ops += [["stats", "a"], ["range", "a"], ["scanall", "a", 3, 0]]
    return {"id": sid, "size": size, "fork": True, "expired": rng.random() < 0.5, "eqsize": False, "ops": ops}


def gen_random(rng, sid, size=None, nops=None, eqsize=None, xfer=True, weights=None):
    size = size or rng.choice([67, 101, 127, 257, 1021])
    eqsize = rng.random() < 0.5 if eqsize is None else eqsize
    nkeys = rng.choice([2, 3, 5, 8])
    hkeys = [rng.randrange(1, 1 << 63) if rng.random() < 0.3 else rng.randrange(1, 50) for _ in range(nkeys)]
    hkeys = list(dict.fromkeys(hkeys))
    cap = size - 1
    if eqsize:
        # every entry occupies the same number of bytes; pick it so that a table holds 1..4 entries
        per = rng.choice([1, 2, 3, 4])
        total = max(META + 1, min(cap, cap // per))
        sizes = [total]
    else:
        sizes = sorted(set([META + 1, META + 2, max(META + 1, cap // 3), max(META + 1, cap // 2), cap - 1, cap, cap + 1, cap + 2]))
    nops = nops or rng.randrange(8, 60)
    ops = []
    W = weights or {"put": 30, "putraw": 8, "get": 8, "getraw": 3, "getkey": 2, "getttl": 2, "check": 3, "del": 12,
                    "updttl": 4, "stats": 4, "len": 3, "range": 3, "compact": 8, "compactall": 3, "scanall": 5, "xfer": 2 if xfer else 0}
    names = list(W)
    wts = [W[n] for n in names]
    for _ in range(nops):
        n = rng.choices(names, wts)[0]
        wh = "a" if (not xfer or rng.random() < 0.8) else "b"
        h = rng.choice(hkeys)
        if n in ("put", "putraw"):
            tot = rng.choice(sizes)
            if not eqsize and rng.random() < 0.03 and n == "put":
                klen, vlen = rng.choice([255, 256, 257]), 0   # key-length boundary (may also be too large)
            else:
                klen = rng.choice([1, 1, 2, 5]) if tot - META >= 5 else 1
                klen = min(klen, tot - META)
                vlen = tot - META - klen
            ops.append(mk_put(rng, wh, h, klen, vlen, raw=(n == "putraw")))
        elif n in ("get", "getraw", "getkey", "getttl", "check", "del"):
            ops.append([n, wh, str(h)])
        elif n == "updttl":
            ops.append([n, wh, str(h), rng.choice([0, 1758600000999]), rng.randrange(1, 1 << 40)])
        elif n in ("stats", "len", "range", "compact", "compactall"):
            ops.append([n, wh])
        elif n == "scanall":
            ops.append([n, wh, rng.choice([1, 1, 2, 3, 10, 1000]), rng.choice([0, 0, 98, 99, 123, 257 + 98, 257 + 49, 257 + 48])])
        elif n == "xfer":
            ops.append(["xfer"])
    # always end with full observations
    for wh in (["a", "b"] if xfer else ["a"]):
        ops += [["stats", wh], ["range", wh], ["scanall", wh, 1, 0]]
    sc = {"id": sid, "size": size, "fork": rng.random() < 0.7, "expired": rng.random() < 0.5, "eqsize": eqsize, "ops": ops}
    if sc["fork"] and rng.random() < 0.3:
        # the engine instance the store is forked from was built with another table size (D47)
        sc["parent_size"] = rng.choice([1 << 20, 4096, 61])
    return sc


def exhaustive_alphabet(size):
    """2 hkeys x 2 sizes; a table of `size` holds two small entries or one big one."""
    small = (size - 1) // 2          # two fit
    big = size - 1                   # exactly the capacity
    al = []
    for h in (1, 2):
        for tot in (small, big):
            k = bytes([96 + h])
            v = bytes([h] * (tot - META - 1))
            al.append(["put", "a", str(h), k.hex(), v.hex(), 0, 0])   # ts filled in per position
        al.append(["del", "a", str(h)])
    al.append(["putraw", "a", "1", b"a".hex(), bytes([9] * (small - META - 1)).hex(), 0, 0])
    al.append(["compact", "a"])
    al.append(["xfer"])
    return al


def gen_exhaustive(size, length, first_id=0):
    al = exhaustive_alphabet(size)
    tail = [["stats", "a"], ["range", "a"], ["get", "a", "1"], ["get", "a", "2"], ["scanall", "a", 1, 0],
            ["range", "b"], ["compactall", "a"], ["stats", "a"], ["range", "a"], ["scanall", "a", 2, 0]]
    out = []
    sid = first_id
    for L in range(1, length + 1):
        for seq in itertools.product(range(len(al)), repeat=L):
            ops = []
            for pos, ix in enumerate(seq):
                op = list(al[ix])
                if op[0] in ("put", "putraw"):
                    op[6] = pos + 1
                ops.append(op)
            out.append({"id": sid, "size": size, "fork": True, "expired": False, "eqsize": False, "ops": ops + tail})
            sid += 1
    return out


# ------------------------------------------------------------------------------------------
# shrinking
# ------------------------------------------------------------------------------------------

def shrink(sc, still_fails, max_rounds=200):
    """Delta-debug the op list of `sc` while `still_fails(scenario)` holds. Returns the minimal scenario."""
    ops = list(sc["ops"])
    n = 2
    rounds = 0
    while len(ops) >= 2 and rounds < max_rounds:
        chunk = max(1, len(ops) // n)
        reduced = False
        for i in range(0, len(ops), chunk):
            cand = ops[:i] + ops[i + chunk:]
            if not cand:
                continue
            rounds += 1
            c = dict(sc)
            c["ops"] = cand
            if still_fails(c):
                ops = cand
                n = max(n - 1, 2)
                reduced = True
                break
        if not reduced:
            if chunk == 1:
                break
            n = min(len(ops), n * 2)
    c = dict(sc)
    c["ops"] = ops
    return c
