# Shared driver for the DMap-level checks (C01 sequential part, C04, C09, C15, C19): run scenarios on real
# clusters, judge the implementation's observations with the property predicate, compare with Model/DMap.v
# inside Coq, shrink, report, write evidence.
import json

import dmaplib
import vlib


def strip(sc):
    return {k: v for k, v in sc.items() if not k.startswith("_")}


def run_dmap_check(res, pid, gen_groups, judge, rule, nontrivial=None, use_model=True, classify=None,
                   max_shrink_runs=30, shard=12):
    proofs_ok = vlib.common_obligations(res, pid)
    if getattr(res, "harness_error", None):
        res.violation({"kind": "harness-build", "failed": "correspondence: the harness no longer compiles against /repo",
                       "detail": res.harness_error[-3000:]}, no_input=True)
        res.coverage.update({"evaluations": 0, "distinct_nontrivial": 0})
        return
    groups = gen_groups(res)
    for cfg, scs in groups:
        for sc in scs:
            sc["ops"] = dmaplib.with_keyinfo(sc["ops"])
            sc["_cfg"] = cfg
    results = dmaplib.run_groups(groups)
    allsc = [sc for _, scs in groups for sc in scs]
    judged, discarded, failures = 0, 0, []
    hist, rhist, paths = {}, {}, {}
    nt = 0
    cases = []
    for sc in allsc:
        r = results.get(sc["id"])
        if r is None:
            raise vlib.CheckError("no result for scenario %d" % sc["id"])
        obs = r["obs"]
        for op, ob in zip(sc["ops"], obs):
            hist[op["op"]] = hist.get(op["op"], 0) + 1
            rhist[str(ob.get("r"))[:24]] = rhist.get(str(ob.get("r"))[:24], 0) + 1
            if op.get("c"):
                paths[op["c"]] = paths.get(op["c"], 0) + 1
        v = judge(sc, obs, sc["_cfg"])
        if v == "discard":
            discarded += 1
            continue
        judged += 1
        if nontrivial is None or nontrivial(sc, obs):
            nt += 1
        if v:
            failures.append((sc, v))
            continue
        if use_model:
            term = dmaplib.case_to_coq(sc["_cfg"], sc["ops"], obs, sc.get("default_ttl"), sc.get("max_idle"))
            if term is not None:
                cases.append((sc["id"], term))
    mism, secs = ([], 0.0)
    if cases:
        mism, secs = dmaplib.coq_compare(pid.lower(), cases, shard=shard)
    byid = {sc["id"]: sc for sc in allsc}

    def rerun(sc):
        ops = dmaplib.with_keyinfo([o for o in sc["ops"] if o["op"] != "keyinfo"])
        c = dict(strip(sc), ops=ops, id=0)
        rr = dmaplib.run_cluster(sc["_cfg"], [c])[0]
        return c, rr["obs"]

    reported = set()
    for sc, v in failures[:6]:
        # delta-debug the op list (each candidate needs its own run; bounded)
        ops = [o for o in sc["ops"] if o["op"] != "keyinfo"]
        budget = [max_shrink_runs]

        def fails(cand_ops):
            if budget[0] <= 0:
                return False
            budget[0] -= 1
            c, ob = rerun(dict(sc, ops=cand_ops))
            vv = judge(dict(sc, ops=c["ops"]), ob, sc["_cfg"])
            return bool(vv) and vv != "discard"
        n = 2
        while len(ops) >= 2 and budget[0] > 0:
            chunk = max(1, len(ops) // n)
            reduced = False
            for i in range(0, len(ops), chunk):
                cand = ops[:i] + ops[i + chunk:]
                if cand and fails(cand):
                    ops = cand
                    n = max(n - 1, 2)
                    reduced = True
                    break
            if not reduced:
                if chunk == 1:
                    break
                n = min(len(ops), n * 2)
        c, ob = rerun(dict(sc, ops=ops))
        vv = judge(dict(sc, ops=c["ops"]), ob, sc["_cfg"])
        if not vv or vv == "discard":
            c, ob, vv = dict(strip(sc), id=0), results[sc["id"]]["obs"], v     # keep the unshrunk failure
        key = json.dumps([o for o in c["ops"] if o["op"] != "keyinfo"], sort_keys=True)
        if key in reported:
            continue
        reported.add(key)
        klass = classify(vv[1], c) if classify else {"kind": "dmap"}
        kf = vlib.match_known(pid, klass)
        if kf:
            res.known_finding(kf["description"])
            continue
        res.violation({"kind": "impl-violates-property", "cluster": sc["_cfg"],
                       "scenario": {"ops": [o for o in c["ops"] if o["op"] != "keyinfo"], "default_ttl": sc.get("default_ttl"), "max_idle": sc.get("max_idle")},
                       "impl_trace": ob, "failed_step": vv[0], "predicate": {"name": pid + " predicate", "verdict": vv[1]}, "seed": res.seed})
    if mism and not res.violations:
        sid, step = mism[0]
        sc = byid[sid]
        term = dict(cases)[sid]
        res.violation({"kind": "model-vs-impl", "failed": "correspondence Model/DMapRun.v vs internal/dmap: modelled step %d" % step,
                       "cluster": sc["_cfg"], "scenario": {"ops": [o for o in sc["ops"] if o["op"] != "keyinfo"], "default_ttl": sc.get("default_ttl")},
                       "impl_trace": results[sid]["obs"], "model_trace": dmaplib.model_trace(term),
                       "note": "the property predicate holds on every explored implementation trace", "seed": res.seed}, no_input=True)
    if not proofs_ok and not res.violations:
        broken = [o for o in res.obligations if not o["ok"]]
        res.violation({"kind": "obligation-broken", "failed": [o["theorem"] for o in broken],
                       "detail": [o.get("detail", o.get("axioms")) for o in broken],
                       "note": "searched %d implementation traces with the property predicate, none failed" % judged}, no_input=True)
    sample = allsc[len(allsc) // 2]
    res.coverage.update({
        "evaluations": len(allsc), "distinct_nontrivial": nt, "rule": rule,
        "judged": judged, "discarded_for_timing": discarded, "predicate_failures": len(failures),
        "model_cases": len(cases), "model_vs_impl_mismatches": len(mism), "coq_eval_seconds": round(secs, 1),
        "op_histogram": hist, "result_histogram": rhist, "path_histogram": paths,
        "traces_validated_against_impl": len(allsc),
        "samples": [{"cluster": sample["_cfg"], "ops": [o for o in sample["ops"] if o["op"] != "keyinfo"][:25],
                     "impl_obs": results[sample["id"]]["obs"][:8]}],
    })
    res.assumptions += ["stable membership during a scenario", "operations keep a %d ms margin from every expiry deadline; closer runs are discarded and counted" % dmaplib.MARGIN,
                        "64-bit hash collisions between distinct keys of one DMap are outside the properties"]


def replay(res, path, judge):
    obj = json.load(open(path))
    sc = obj.get("scenario")
    if not sc:
        print("replay names a broken obligation / correspondence: %s" % obj.get("failed"))
        return 1
    ok, out = vlib.harness_build()
    if not ok:
        raise vlib.CheckError(out)
    ops = dmaplib.with_keyinfo(sc["ops"])
    c = dict(sc, ops=ops, id=0)
    rr = dmaplib.run_cluster(obj["cluster"], [c])[0]
    v = judge(c, rr["obs"], obj["cluster"])
    print(json.dumps({"impl_trace": rr["obs"][-12:], "verdict": v}, indent=1)[:5000])
    if v and v != "discard":
        print("VIOLATION property=%s replay=%s" % (res.pid, path))
        return 1
    return 0
