# C16 machinery: token alphabets, command table, vector generators, the two harness drivers (in-process `proto`,
# end-to-end `socketfuzz`), printing of cases for Model/ProtoRun.v and parsing of its verdicts.
import itertools
import json
import os
import re
import subprocess
from concurrent.futures import ThreadPoolExecutor

import vlib

PARTS = 7          # partition count of the child member
TABLE = 1 << 16    # its table size


def hx(t):
    return (t.encode() if isinstance(t, str) else t).hex()


# ------------------------------------------------------------------------------------------------
# alphabet
# ------------------------------------------------------------------------------------------------

COMMON = [
    b"", b"d", b"\x00\xff\r\n$", b"6b6579",                      # empty, plain, binary, hex-looking
    b"0", b"1", b"7", b"-1", b"+5", b"1.5",                      # in range ids, id == partition count, signs, float
    b"9223372036854775807", b"9223372036854775808",              # max int64, min overflow of int64 (still a uint64)
    b"18446744073709551615", b"18446744073709551616",            # max uint64, overflow of uint64
    b"12x", b"1e400",                                            # not a number, float out of range
]

KEYWORDS = {
    "dm.put": [b"EX", b"ex", b"PX", b"px", b"EXAT", b"pxat", b"NX", b"xx"],
    "dm.scan": [b"MATCH", b"match", b"COUNT", b"count", b"RC", b"rc", b"Count", b"EX"],
    "dm.lock": [b"EX", b"ex", b"PX", b"px", b"Px", b"NX", b"RC", b"COUNT"],
}
DEFAULT_KW = [b"RW", b"rw", b"RC", b"rc", b"LC", b"lc", b"CR", b"cr"]

# relevant sub-alphabet (8 tokens + the command's keywords) for the deeper enumerations
SMALL = [b"", b"d", b"1", b"-1", b"9223372036854775808", b"12x", b"1.5", b"\x00\xff\r\n$"]

# name registered in the member, a valid prefix (after the name), has an option tail worth enumerating
COMMANDS = [
    ("dm.put", [b"d", b"k", b"v"], True),
    ("dm.putentry", [b"d", b"k", b"v"], False),
    ("dm.get", [b"d", b"k"], True),
    ("dm.getentry", [b"d", b"k"], True),
    ("dm.del", [b"d", b"k"], False),
    ("dm.delentry", [b"d", b"k"], True),
    ("dm.pexpire", [b"d", b"k", b"100"], False),
    ("dm.expire", [b"d", b"k", b"1"], False),
    ("dm.destroy", [b"d"], True),
    ("dm.scan", [b"0", b"d", b"0"], True),
    ("dm.incr", [b"d", b"n", b"1"], False),
    ("dm.decr", [b"d", b"n", b"1"], False),
    ("dm.getput", [b"d", b"k", b"v"], True),
    ("dm.incrbyfloat", [b"d", b"f", b"1.5"], False),
    ("dm.lock", [b"d", b"k", b"0.01"], True),
    ("dm.unlock", [b"d", b"k", b"6b6579"], False),
    ("dm.locklease", [b"d", b"k", b"6b6579", b"1"], False),
    ("dm.plocklease", [b"d", b"k", b"6b6579", b"1"], False),
    ("ping", [], True),
    ("internal.node.movefragment", [b"x"], False),
    ("internal.node.updaterouting", [b"x", b"1"], False),
    ("internal.node.lengthofpart", [b"0"], True),
    ("stats", [], True),
    ("publish", [b"c", b"m"], False),
    ("publish.internal", [b"c", b"m"], False),
    ("subscribe", [b"c"], False),
    ("psubscribe", [b"c*"], False),
    ("pubsub channels", [], True),
    ("pubsub numpat", [], False),
    ("pubsub numsub", [b"c"], False),
    ("cluster.routingtable", [], False),
    ("cluster.members", [], False),
]
FN_INDEX = {c[0]: i for i, c in enumerate(COMMANDS)}
COQ_CMD = {
    "dm.put": "CPut", "dm.putentry": "CPutEntry", "dm.get": "CGet", "dm.getentry": "CGetEntry", "dm.del": "CDel",
    "dm.delentry": "CDelEntry", "dm.pexpire": "CPExpire", "dm.expire": "CExpire", "dm.destroy": "CDestroy",
    "dm.scan": "CScan", "dm.incr": "CIncr", "dm.decr": "CDecr", "dm.getput": "CGetPut", "dm.incrbyfloat": "CIncrByFloat",
    "dm.lock": "CLock", "dm.unlock": "CUnlock", "dm.locklease": "CLockLease", "dm.plocklease": "CPLockLease",
    "ping": "CPing", "internal.node.movefragment": "CMoveFragment", "internal.node.updaterouting": "CUpdateRouting",
    "internal.node.lengthofpart": "CLengthOfPart", "stats": "CStats", "publish": "CPublish",
    "publish.internal": "CPublishInternal", "subscribe": "CSubscribe", "psubscribe": "CPSubscribe",
    "pubsub channels": "CPubSubChannels", "pubsub numpat": "CPubSubNumpat", "pubsub numsub": "CPubSubNumsub",
    "cluster.routingtable": "CClusterRoutingTable", "cluster.members": "CClusterMembers",
}


def wire_name(fn):
    """the argument vector's head as a client writes it (pubsub commands are two tokens; the mux folds the case
    of the first one only)"""
    w = fn.split(" ")
    return [w[0].upper().encode()] + [x.encode() for x in w[1:]]


def alphabet(fn, small=False):
    kw = KEYWORDS.get(fn, DEFAULT_KW)
    base = SMALL if small else COMMON
    out = list(base)
    for k in kw:
        if k not in out:
            out.append(k)
    return out


def dedupe(toks):
    return list(dict.fromkeys(toks))


# ------------------------------------------------------------------------------------------------
# in-process requests
# ------------------------------------------------------------------------------------------------

def enum_request(rid, fn, prefix_toks, alpha, minfree, maxfree, full=True, kind="parse", **extra):
    al = dedupe(list(prefix_toks) + list(alpha))
    # the free positions range over `alpha` only; keep alpha first so indices 0..len(alpha)-1 are the free ones
    al = dedupe(list(alpha) + list(prefix_toks))
    req = {"id": rid, "k": kind, "fn": fn, "alpha": [hx(t) for t in al], "nfree": len(alpha),
           "prefix": [al.index(t) for t in prefix_toks], "minfree": minfree, "maxfree": maxfree, "full": full}
    req.update(extra)
    req["_alpha"] = al
    return req


def vec_request(rid, fn, vectors, full=True, kind="parse", **extra):
    al = dedupe([t for v in vectors for t in v])
    req = {"id": rid, "k": kind, "fn": fn, "alpha": [hx(t) for t in al], "nfree": len(al),
           "vecs": [[al.index(t) for t in v] for v in vectors], "full": full}
    req.update(extra)
    req["_alpha"] = al
    return req


def enum_count(req):
    if "vecs" in req:
        return len(req["vecs"])
    n = req["nfree"]
    return sum(n ** L for L in range(req["minfree"], req["maxfree"] + 1))


def enum_vector(req, i):
    """the i-th vector (token list) of a request, in the harness' enumeration order"""
    al = req["_alpha"]
    if "vecs" in req:
        return [al[j] for j in req["vecs"][i]]
    n = req["nfree"]
    for L in range(req["minfree"], req["maxfree"] + 1):
        c = n ** L
        if i < c:
            w = []
            for _ in range(L):
                w.append(i % n)
                i //= n
            return [al[j] for j in req["prefix"]] + [al[j] for j in reversed(w)]
        i -= c
    raise IndexError(i)


def _strip(req):
    return {k: v for k, v in req.items() if not k.startswith("_")}


def _run_proto_batch(reqs, timeout):
    """one harness process; restarts after a hang (exit status 7). Returns {id: result}."""
    results = {}
    consumed = {}       # id -> vectors of the request already reported
    hangs = {}
    pending = list(reqs)
    while pending:
        inp = "".join(json.dumps(_strip(r)) + "\n" for r in pending)
        p = vlib.harness(["proto"], input=inp, timeout=timeout)
        last = None
        for line in p.stdout.splitlines():
            line = line.strip()
            if not line:
                continue
            r = json.loads(line)
            last = r["id"]
            consumed[last] = consumed.get(last, 0) + r["n"]
            if last in results:
                old = results[last]            # continuation of a request that hung: merge
                old["n"] += r["n"]
                if r.get("runs"):
                    old["runs"] = (old.get("runs") or []) + r["runs"]
                for k, v in r["classes"].items():
                    old["classes"][k] = old["classes"].get(k, 0) + v
                # indices in `bad` are absolute already (the harness counts skipped vectors)
                old["bad"] = (old.get("bad") or []) + (r.get("bad") or [])
            else:
                results[last] = r
        if p.returncode == 0:
            break
        if p.returncode == 7 and last is not None:
            hangs[last] = hangs.get(last, 0) + 1
            rest = [r for r in pending if r["id"] not in results]
            cur = dict([r for r in pending if r["id"] == last][0])
            cur["start"] = consumed[last]
            if hangs[last] >= 4 or cur["start"] >= enum_count(cur):
                results[last]["incomplete"] = cur["start"] < enum_count(cur)
                pending = rest             # it hangs again and again: enough evidence
            else:
                pending = [cur] + rest
            continue
        raise vlib.CheckError("proto harness failed rc=%d: %s" % (p.returncode, p.stderr[-2000:]))
    return results


def run_proto(reqs, jobs=16, timeout=900):
    """run requests on `jobs` harness processes. Returns {id: result}."""
    if not reqs:
        return {}
    # balance by size
    order = sorted(reqs, key=lambda r: -enum_count(r))
    buckets = [[] for _ in range(min(jobs, len(order)))]
    loads = [0] * len(buckets)
    for r in order:
        i = loads.index(min(loads))
        buckets[i].append(r)
        loads[i] += enum_count(r) + 200
    out = {}
    with ThreadPoolExecutor(max_workers=len(buckets)) as ex:
        for res in ex.map(lambda b: _run_proto_batch(b, timeout), buckets):
            out.update(res)
    return out


# ------------------------------------------------------------------------------------------------
# Coq side (Model/ProtoRun.v)
# ------------------------------------------------------------------------------------------------

HEADER = """From Coq Require Import List NArith ZArith Bool.
Require Import Olric.Model.Proto Olric.Model.ProtoRun.
Import ListNotations.
Local Open Scope nat_scope.
"""

NUMCLS = {"ok": "NOk", "syn": "NSyntax", "rng": "NRange"}


def coq_ftab(ftab):
    out = []
    for cls, fid, dur in ftab:
        if cls == "ok":
            out.append("(NOk %d%%N, (%d)%%Z)" % (fid, dur))
        else:
            out.append("(%s, 0%%Z)" % ("@NSyntax N" if cls == "syn" else "@NRange N"))
    return "[" + ";".join(out) + "]"


def coq_alpha(al):
    return "[" + ";".join(vlib.cbytes(t) for t in al) + "]"


def coq_runs(runs):
    return "[" + ";".join("(%d,%s)" % (c, o) for c, o in runs) + "]"


def coq_spec(req):
    if "vecs" in req:
        return "(SList [%s])" % ";".join("[" + ";".join(str(j) for j in v) + "]" for v in req["vecs"])
    return "(SEnum [%s] %d %d %d)" % (";".join(str(j) for j in req["prefix"]), req["nfree"], req["minfree"], req["maxfree"])


def coq_case(req, res):
    if req["k"] == "parse":
        return "PCase %s %s %s %s %s" % (COQ_CMD[req["fn"]], coq_alpha(req["_alpha"]), coq_ftab(res.get("ftab") or []),
                                        coq_spec(req), coq_runs(res["runs"]))
    regs = "[" + ";".join(vlib.cbytes(r.encode()) for r in req["regs"]) + "]"
    pre = "None" if req.get("precond") is None else "(Some %s)" % vlib.cbool(req["precond"])
    return "DCase %s %s %s %s %s" % (regs, pre, coq_alpha(req["_alpha"]), coq_spec(req), coq_runs(res["runs"]))


def coq_compare(prefix, reqs, results, jobs=16, target=40000):
    """Evaluate the model on every request inside Coq. Returns (mismatches, seconds) with mismatches =
    list of (request id, vector index, model outcome text)."""
    # balance the requests over a multiple of `jobs` shards of at most about `target` vectors each
    todo = [r for r in sorted(reqs, key=lambda r: -enum_count(r))
            if r["id"] in results and results[r["id"]].get("runs") is not None]
    total = sum(enum_count(r) + 50 for r in todo)
    nb = jobs * max(1, -(-total // (jobs * target)))
    nb = max(1, min(nb, len(todo)))
    bins, loads = [[] for _ in range(nb)], [0] * nb
    for r in todo:
        i = loads.index(min(loads))
        bins[i].append(r)
        loads[i] += enum_count(r) + 50
    shards = [b_ for b_ in bins if b_]
    texts = []
    for sh in shards:
        cases = [coq_case(r, results[r["id"]]) for r in sh]
        texts.append(HEADER + "Definition cases : list rcase := [\n" + ";\n".join(cases) +
                     "\n].\nDefinition M := Eval vm_compute in mismatches cases 0.\nPrint M.\n")
    outs = vlib.coq_eval_shards(prefix, texts, jobs=jobs)
    mism = []
    secs = 0.0
    for sh, (rc, out, err, dt) in zip(shards, outs):
        secs += dt
        if rc != 0:
            raise vlib.CheckError("coqc failed on generated cases: " + err[-3000:])
        body = out.split("M =", 1)[1] if "M =" in out else ""
        body = body.rsplit(":", 1)[0]
        flat = " ".join(body.split())
        if flat.strip() in ("[]", "nil"):
            continue
        found = False
        for m in re.finditer(r"\((\d+)(?:%nat)?, (\d+)(?:%nat)?, (.*?)\)(?=; \(\d|\]$)", flat):
            mism.append((sh[int(m.group(1))]["id"], int(m.group(2)), m.group(3)))
            found = True
        if not found:
            mism.append((sh[0]["id"], -1, "unparsed coq output: " + flat[:300]))
    return mism, secs


def expand_runs(runs):
    for c, o in runs:
        for _ in range(c):
            yield o


# ------------------------------------------------------------------------------------------------
# socket level
# ------------------------------------------------------------------------------------------------

def shape_for_socket(vec, uid):
    """Keep a vector from blocking its connection legitimately: DM.LOCK waits `deadline` seconds for a key that
    is held; give such vectors a key of their own when the deadline is long (a wait the client asked for is not
    a wedge)."""
    if len(vec) >= 4 and vec[0].lower() == b"dm.lock":
        try:
            dl = float(vec[3].decode("latin1"))
        except ValueError:
            return vec
        if not (dl <= 0.05):
            vec = list(vec)
            vec[2] = b"k-%d" % uid
    return vec


def run_socket(items, timeout=1200):
    """items: list of dicts with id and one of v (token list) / pipe / raw (bytes) / special.
    Returns (header, {id: result}, final)."""
    lines = []
    for it in items:
        o = {"id": it["id"]}
        if "v" in it:
            o["v"] = [hx(t) for t in it["v"]]
        elif "pipe" in it:
            o["pipe"] = [[hx(t) for t in v] for v in it["pipe"]]
        elif "raw" in it:
            o["raw"] = it["raw"].hex()
        else:
            o.update({k: v for k, v in it.items() if not k.startswith("_")})
        if "timeout_ms" in it:
            o["timeout_ms"] = it["timeout_ms"]
        lines.append(json.dumps(o))
    p = vlib.harness(["socketfuzz", str(PARTS), str(TABLE)], input="\n".join(lines) + "\n", timeout=timeout)
    if p.returncode != 0:
        raise vlib.CheckError("socketfuzz harness failed rc=%d: %s" % (p.returncode, p.stderr[-2000:]))
    hdr, final, res = None, None, {}
    for line in p.stdout.splitlines():
        line = line.strip()
        if not line:
            continue
        r = json.loads(line)
        if "child" in r:
            hdr = r
        elif r.get("final"):
            final = r
        else:
            res[r["id"]] = r
    return hdr, res, final


def run_socket_parallel(items, jobs=8, timeout=1200):
    """split the items over several children (each `socketfuzz` process owns one member)."""
    if not items:
        return None, {}, []
    jobs = max(1, min(jobs, len(items) // 200 + 1))
    chunks = [items[i::jobs] for i in range(jobs)]
    hdr, res, finals = None, {}, []
    with ThreadPoolExecutor(max_workers=jobs) as ex:
        for h, r, f in ex.map(lambda c: run_socket(c, timeout), chunks):
            hdr = hdr or h
            res.update(r)
            finals.append(f)
    return hdr, res, finals
