# Shared by checks/c05.py and checks/c06.py: running cluster scenarios of the harness in parallel processes,
# environment-failure handling (an environment failure is a check error, never a verdict), Coq printers,
# known-finding lookup that also reads fixes/known_findings_additions.json.
import json
import os
import re
from concurrent.futures import ThreadPoolExecutor

import vlib
from vlib import cN, cZ, cnat, cbool, clist, cbytes, copt


def run_harness(sub, scenarios, jobs=12, timeout=600, retries=2):
    """Every scenario owns one cluster; run each in its own harness process, `jobs` at a time.
    Returns {id: result}. A scenario whose result carries `env` (cluster did not form, member did not come
    back, ...) or whose process failed is retried; if it keeps failing the check stops with CheckError."""
    results = {}

    def one(sc):
        last = None
        for _ in range(retries + 1):
            try:
                p = vlib.harness([sub], input=json.dumps(sc) + "\n", timeout=timeout)
            except Exception as e:  # timeout of the process
                last = "harness process: %s" % e
                continue
            line = p.stdout.strip().splitlines()[-1] if p.stdout.strip() else ""
            if p.returncode != 0 or not line:
                last = "harness rc=%d: %s" % (p.returncode, (p.stderr or "")[-1500:])
                # a crash of the process while the scenario ran may be the defect itself (a member panicked):
                # report it as such, the caller decides
                if "panic:" in (p.stderr or "") or "fatal error:" in (p.stderr or ""):
                    return sc["id"], {"id": sc["id"], "crash": (p.stderr or "")[-3000:]}
                continue
            r = json.loads(line)
            if r.get("env"):
                last = "environment: " + r["env"]
                continue
            return sc["id"], r
        raise vlib.CheckError("scenario %s could not be run (%s)" % (sc.get("id"), last))

    with ThreadPoolExecutor(max_workers=jobs) as ex:
        for sid, r in ex.map(one, scenarios):
            results[sid] = r
    return results


def coq_mismatches(prefix, header, ctype, cases, shard=80, jobs=16):
    """cases: list of (tag, coq_term). Returns (list of (tag, model_obs_text), seconds)."""
    shards = [cases[i:i + shard] for i in range(0, len(cases), shard)]
    texts = []
    for sh in shards:
        texts.append(header + "Definition cases : list %s := [\n" % ctype + ";\n".join(t for _, t in sh) +
                     "\n].\nDefinition M := Eval vm_compute in mismatches cases 0.\nPrint M.\n")
    outs = vlib.coq_eval_shards(prefix, texts, jobs=jobs)
    mism = []
    secs = 0.0
    for sh, (rc, out, err, dt) in zip(shards, outs):
        secs += dt
        if rc != 0:
            raise vlib.CheckError("coqc failed on generated cases: " + err[-3000:])
        body = out.split("M =", 1)[1] if "M =" in out else ""
        body = body.rsplit(":", 1)[0]
        flat = " ".join(body.split())
        if flat.strip() in ("[]", "nil"):
            continue
        found = False
        for m in re.finditer(r"\((\d+)(?:%nat)?, (.*?)\)(?=; \(\d|\]$)", flat):
            mism.append((sh[int(m.group(1))][0], m.group(2)))
            found = True
        if not found:
            mism.append((sh[0][0], "unparsed coq output: " + flat[:300]))
    return mism, secs


def centry(val, ttl, ts):
    return "(Build_entry %s %s %s)" % (cbytes(val), cZ(ttl), cZ(ts))


def all_findings():
    fs = list(vlib.known_findings())
    p = os.path.join(vlib.VERIF, "fixes", "known_findings_additions.json")
    if os.path.exists(p):
        have = {f.get("id") for f in fs}
        for f in json.load(open(p)).get("findings", []):
            if f.get("id") not in have:
                fs.append(f)
    return fs


def match_known(pid, klass):
    for f in all_findings():
        if f.get("status") != "open" or pid not in f.get("properties", []):
            continue
        m = f.get("matcher", {})
        if m and all(klass.get(k) == v for k, v in m.items()):
            return f
    return None


def corpus(pid):
    out = []
    d = os.path.join(vlib.VERIF, "corpus", pid)
    if os.path.isdir(d):
        for f in sorted(os.listdir(d)):
            if f.endswith(".json"):
                sc = json.load(open(os.path.join(d, f)))
                sc["_file"] = f
                out.append(sc)
    return out


def strip(sc):
    return {k: v for k, v in sc.items() if not k.startswith("_")}
