# Correspondence between real hand-over runs and Model/Balance.v + Model/BalanceCrash.v (see Model/BalanceRun.v).
# The harness op "hstate" dumps the owners lists and every copy on every member; this module abstracts each dump
# into the model's state of one partition, proposes the model operations an observed step amounts to, and lets Coq
# check (a) that the model's step function maps the state before to the state after and (b) that every state
# satisfies the invariant of the theorems and resolves reads to the last acknowledged entries.
import re

import vlib
from vlib import cN, cZ, clist

HEADER = ("From Coq Require Import List NArith ZArith Bool.\n"
          "Require Import Olric.Model.Balance Olric.Model.BalanceCrash Olric.Model.BalanceRun.\n"
          "Import ListNotations.\nLocal Open Scope Z_scope.\n")


class Numbering:
    def __init__(self):
        self.k, self.v = {}, {}

    def kid(self, key):
        return self.k.setdefault(key, len(self.k) + 1)

    def vid(self, val):
        return self.v.setdefault(val, len(self.v) + 1)


def abstract(hs, p, num, with_backup):
    """model state of partition p: (holders as list of (member, {kid: (vid, ts)}), bk dict or None, orphans)"""
    part = hs["parts"][p]
    owners = list(part["owners"] or [])
    holders = [(m, {}) for m in reversed(owners)]            # owner first, then the previous owners, latest first
    idx = {m: i for i, (m, _) in enumerate(holders)}
    backups = set(part["backups"] or [])
    bk = {} if (with_backup and backups) else None
    orphans = []
    for m, kind, pp, key, val, ts in hs["copies"]:
        if pp != p:
            continue
        e = (num.vid(val), ts)
        if kind == "p":
            if m in idx:
                holders[idx[m]][1][num.kid(key)] = e
            else:
                orphans.append((m, kind, key))
        else:
            if m in backups:
                if bk is not None:
                    k = num.kid(key)
                    if k not in bk or bk[k][1] <= ts:
                        bk[k] = e
            else:
                orphans.append((m, kind, key))
    return holders, bk, orphans


def c_ent(e):
    return "(%s, %s)" % (cN(e[0]), cZ(e[1]))


def c_frag(f):
    return clist(["(%s, %s)" % (cN(k), c_ent(e)) for k, e in sorted(f.items())])


def c_csys(holders, bk):
    return "(Build_csys %s %s)" % (clist([c_frag(f) for _, f in holders]), "None" if bk is None else "(Some %s)" % c_frag(bk))


def c_op(o):
    t = o[0]
    if t == "put":
        return "(COp (BPut %s %s %s))" % (cN(o[1]), cN(o[2]), cZ(o[3]))
    if t == "del":
        return "(COp (BDel %s))" % cN(o[1])
    if t == "join":
        return "(COp BJoin)"
    if t == "prune":
        return "(COp BPrune)"
    if t == "move":
        return "(COp (BMove %d %s))" % (o[1], clist([cN(k) for k in o[2]]))
    if t == "send":
        return "(CSend %d %s)" % (o[1], clist([cN(k) for k in o[2]]))
    if t == "crash":
        return "(CCrashHolder %d)" % o[1]
    if t == "crashbk":
        return "CCrashBackup"
    raise ValueError(o)


def keys_of(holders, bk):
    ks = set()
    for _, f in holders:
        ks |= set(f)
    if bk:
        ks |= set(bk)
    return ks


def candidates(op, ob, p, before, after, num, hs0, hs1):
    """candidate explanations (lists of model ops) of the step of partition p, or None = cannot be expressed (skipped)"""
    h0, b0, _ = before
    h1, b1, _ = after
    P = ("prune",)
    m0 = [m for m, _ in h0]
    m1 = [m for m, _ in h1]
    o = op["op"]
    generic = [[], [P]]
    if (b0 is None) != (b1 is None):
        return None                                          # the backup owners list became (non-)empty: not modelled
    if o == "put" and ob.get("part") == p:
        if ob.get("r") != "ok":
            return None
        k = num.kid(op["k"])
        if not h1 or k not in h1[0][1]:
            return [[("put", k, num.vid(op["v"]), 0)]]      # cannot match: reported by Coq as a mismatch
        e = h1[0][1][k]
        put = ("put", k, num.vid(op["v"]), e[1])
        return [[put], [put, P], [P, put]]
    if o == "del" and ob.get("part") == p:
        if ob.get("r") != "ok":
            return None
        d = ("del", num.kid(op["k"]))
        return [[d], [d, P]]
    if o in ("join", "push", "sync", "routing", "waitstable_light"):
        if m0 == m1:
            return generic
        J = ("join",)
        # a new owner which held nothing for the partition before, in front of the (possibly pruned) old holders
        if m1 and m1[0] not in m0 and [m for m in m1[1:]] == [m for m in m0 if m in m1[1:]]:
            return [[J], [P, J], [J, P], [P, J, P]]
        if set(m1) < set(m0) and m1 == [m for m in m0 if m in m1] and m1 and m0 and m1[0] == m0[0]:
            return [[P]]
        return None
    if o == "balance":
        mem = op.get("m")
        if mem in m0 and m0.index(mem) >= 1:
            i = m0.index(mem)
            gone = sorted(k for k in h0[i][1] if not (mem in m1 and k in h1[m1.index(mem)][1]))
            if gone:
                mv = ("move", i, gone)
                return [[mv], [mv, P]]
        return generic
    if o in ("get", "scan", "iterscan", "dump", "fragkeys", "hstate", "sleep", "put", "del"):
        return generic
    return None


def build_cases(sc, obs, with_backup, crash=False, exclude=(), arm_ops=("arm",), clear_on_stop=True):
    """walk one scenario: returns (tcases, scases, stats); each case = (tag, coq_text).
    crash: a member is lost somewhere after the "arm" operation: no transition cases from there on, and the state
    cases after it (returned separately under stats["crash_states"]) are to be judged by state_ok_crash"""
    num = Numbering()
    tcases, scases = [], []
    crash_states = []
    armed = False
    stats = {"transitions": 0, "skipped": 0, "states": 0, "orphans": 0, "moves": 0, "joins": 0}
    ref = {}                     # keyhex -> (part, (vid, ts)) | (part, None); absent = unknown
    prev = None                  # (index, hstate obs)
    pending = []                 # ops since the previous hstate
    settled = False              # a member was (or may have been) lost and the cluster has re-stabilised since
    for i, (op, ob) in enumerate(zip(sc["ops"], obs)):
        if op["op"] in arm_ops:
            armed = True
        if op["op"] in arm_ops or op["op"] == "stop":
            settled = False
        if op["op"] == "waitstable" and ob.get("r") == "ok":
            settled = True
        if op["op"] != "hstate":
            pending.append((i, op, ob))
            continue
        hs = ob
        if hs.get("r") != "ok" or not hs.get("views_equal"):
            # unusable dump (a routing push is in flight): what the operations since the last dump did is unknown
            for _, pop, _ in pending:
                if pop["op"] in ("put", "del"):
                    ref.pop(pop["k"], None)
            prev, pending = None, []
            continue
        nparts = len(hs["parts"])
        if prev is not None and len(pending) == 1 and not armed:
            j, pop, pob = pending[0]
            hs0 = prev[1]
            for p in range(nparts):
                before = abstract(hs0, p, num, with_backup)
                after = abstract(hs, p, num, with_backup)
                targeted = pob.get("part") == p and pop["op"] in ("put", "del")
                if not targeted and before[:2] == after[:2]:
                    continue
                c = candidates(pop, pob, p, before, after, num, hs0, hs)
                if c is None:
                    stats["skipped"] += 1
                    why = "%s: holders %s -> %s%s" % (pop["op"], [m for m, _ in before[0]], [m for m, _ in after[0]],
                                                     "" if (before[1] is None) == (after[1] is None) else " (backup list became %sempty)" % ("" if after[1] is None else "non-"))
                    why = re.sub(r"\d+", "m", why)
                    stats.setdefault("skip_reasons", {})
                    stats["skip_reasons"][why] = stats["skip_reasons"].get(why, 0) + 1
                    continue
                keys = sorted(keys_of(*before[:2]) | keys_of(*after[:2]) | ({num.kid(pop["k"])} if targeted else set()))
                stats["transitions"] += 1
                if any(o and o[0][0] == "move" for o in c):
                    stats["moves"] += 1
                if any(("join",) in o for o in c):
                    stats["joins"] += 1
                tid = len(tcases)
                tcases.append(((sc["id"], j, p), "(Build_tcase %s %s %s %s %s)" % (
                    cN(tid), clist([cN(k) for k in keys]), c_csys(before[0], before[1]),
                    clist([clist([c_op(x) for x in ops]) for ops in c]), c_csys(after[0], after[1]))))
        # reference bookkeeping for the ops since the previous dump
        for j, pop, pob in pending:
            if pop["op"] == "put":
                if pob.get("r") == "ok" and "part" in pob:
                    p = pob["part"]
                    st = abstract(hs, p, num, with_backup)
                    k = num.kid(pop["k"])
                    e = st[0][0][1].get(k) if st[0] else None
                    if e is not None and e[0] == num.vid(pop["v"]) and len(pending) == 1:
                        ref[pop["k"]] = (p, e)
                    else:
                        ref.pop(pop["k"], None)
                else:
                    ref.pop(pop["k"], None)
            elif pop["op"] == "del":
                if pob.get("r") == "ok" and "part" in pob:
                    ref[pop["k"]] = (pob["part"], None)
                else:
                    ref.pop(pop["k"], None)
            elif pop["op"] in ("stop",) and clear_on_stop:
                ref.clear()
        # state case per partition that has tracked keys
        for p in range(nparts):
            st = abstract(hs, p, num, with_backup)
            stats["orphans"] += len(st[2])
            rk = [(num.kid(k), v[1]) for k, v in ref.items() if v[0] == p and not (armed and k in exclude)]
            if not rk:
                continue
            changed = prev is None or abstract(prev[1], p, num, with_backup)[:2] != st[:2] or any(
                po.get("part") == p for _, _, po in pending)
            if not changed:
                continue
            if armed and not settled:
                # between the loss of a member and the re-stabilisation of the cluster a dump combines a routing table that
                # still names the lost member with the copies of the live members only: not a state of the model
                stats["crash_states_not_settled"] = stats.get("crash_states_not_settled", 0) + 1
                continue
            stats["states"] += 1
            sid = len(scases)
            (crash_states if armed else scases).append(((sc["id"], i, p), "(Build_scase %s %s %s)" % (
                cN(sid), c_csys(st[0], st[1]),
                clist(["(%s, %s)" % (cN(k), "None" if e is None else "Some %s" % c_ent(e)) for k, e in sorted(rk)]))))
        prev, pending = (i, hs), []
    stats["crash_states"] = crash_states
    return tcases, scases, stats


def coq_mismatches(prefix, ctype, fn, cases, shard=150):
    """returns the tags of the mismatching cases"""
    if not cases:
        return []
    # ids are positions in `cases`: renumber per shard
    shards = [cases[i:i + shard] for i in range(0, len(cases), shard)]
    texts = []
    for sh in shards:
        body = []
        for j, (tag, t) in enumerate(sh):
            body.append(re.sub(r"^\((Build_\w+) \d+%N", lambda m: "(%s %s" % (m.group(1), cN(j)), t))
        texts.append(HEADER + "Definition cases : list %s := [\n" % ctype + ";\n".join(body) +
                     "\n].\nDefinition M := Eval vm_compute in %s cases.\nPrint M.\n" % fn)
    outs = vlib.coq_eval_shards(prefix, texts)
    bad = []
    for sh, (rc, out, err, dt) in zip(shards, outs):
        if rc != 0:
            raise vlib.CheckError("coqc failed on generated hand-over cases: " + (err or out)[-2000:])
        body = out.split("M =", 1)[1].rsplit(":", 1)[0] if "M =" in out else "?"
        flat = " ".join(body.split())
        if flat in ("[]", "nil"):
            continue
        ids = [int(x) for x in re.findall(r"(\d+)", flat.replace("%N", ""))]
        if not ids:
            raise vlib.CheckError("unparsed coq output: " + flat[:300])
        bad += [sh[i][0] for i in ids]
    return bad
