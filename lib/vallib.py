# Shared by checks/c17.py and checks/c18.py: running the `values` / `alias` harness subcommands, the python
# reference of the scalar text codec (independent of the Coq model), Coq term printers, shrinking.
import json
import re

import vlib
from vlib import cN, cZ, cnat, cbool, clist, cbytes

META = 29
MAXKEY = 256

INT_TYPES = {
    "int": (True, 64), "int8": (True, 8), "int16": (True, 16), "int32": (True, 32), "int64": (True, 64),
    "uint": (False, 64), "uint8": (False, 8), "uint16": (False, 16), "uint32": (False, 32), "uint64": (False, 64),
    "duration": (True, 64),
}
MODELLED = set(INT_TYPES) | {"bool", "string", "bytes"}
TESTED_ONLY = {"float32", "float64", "time", "binm"}
COQ_TY = {"int": "TInt", "int8": "TInt8", "int16": "TInt16", "int32": "TInt32", "int64": "TInt64",
          "uint": "TUint", "uint8": "TUint8", "uint16": "TUint16", "uint32": "TUint32", "uint64": "TUint64",
          "bool": "TBool", "duration": "TDuration", "string": "TString", "bytes": "TBytes"}


def int_range(t):
    signed, bits = INT_TYPES[t]
    if signed:
        return -(1 << (bits - 1)), (1 << (bits - 1)) - 1
    return 0, (1 << bits) - 1


# ------------------------------------------------------------------------------------------
# harness
# ------------------------------------------------------------------------------------------

def run_harness(sub, scenarios, timeout=1200):
    """Run scenarios through `verifx <sub>`; a scenario that hung (exit 7) is recorded and the rest continues."""
    results = {}
    pending = list(scenarios)
    while pending:
        inp = "".join(json.dumps({k: v for k, v in s.items() if not k.startswith("_")}) + "\n" for s in pending)
        p = vlib.harness([sub], input=inp, timeout=timeout)
        got = []
        for line in p.stdout.splitlines():
            line = line.strip()
            if not line:
                continue
            r = json.loads(line)
            results[r["id"]] = r
            got.append(r["id"])
        if p.returncode == 0:
            break
        if p.returncode == 7:
            done = set(got)
            pending = [s for s in pending if s["id"] not in done]
            continue
        # the harness process died (a panic in a member's goroutine kills the in-process cluster): the scenario it was
        # running is the first one without a result; it is recorded as panicked and the rest is run in a new process
        done = set(got)
        rest = [s for s in pending if s["id"] not in done]
        if not rest or "panic" not in (p.stderr or "") and "fatal error" not in (p.stderr or ""):
            raise vlib.CheckError("%s harness failed rc=%d: %s" % (sub, p.returncode, p.stderr[-2000:]))
        tail = [l for l in (p.stderr or "").splitlines() if l.startswith("panic:") or l.startswith("fatal error:")]
        results[rest[0]["id"]] = {"id": rest[0]["id"], "obs": [["panic", "the member process died while it ran this scenario: %s" % (tail[0] if tail else p.stderr[-300:])]]}
        pending = rest[1:]
    return results


def run_parallel(sub, scenarios, jobs=8, timeout=1200):
    """Cluster scenarios are independent processes' worth of work: split over several harness processes."""
    from concurrent.futures import ThreadPoolExecutor
    if len(scenarios) <= 1 or jobs <= 1:
        return run_harness(sub, scenarios, timeout)
    chunks = [scenarios[i::jobs] for i in range(jobs)]
    chunks = [c for c in chunks if c]
    out = {}
    with ThreadPoolExecutor(max_workers=len(chunks)) as ex:
        for r in ex.map(lambda c: run_harness(sub, c, timeout), chunks):
            out.update(r)
    return out


# ------------------------------------------------------------------------------------------
# reference codec (what the property text says, in python; independent of coq/Model/Resp.v)
# ------------------------------------------------------------------------------------------

def ref_encode(t, r):
    """the text a value of a modelled type is stored as; None for the types that are only tested"""
    if t in INT_TYPES:
        return str(int(r)).encode()
    if t == "bool":
        return b"1" if r == "true" else b"0"
    if t in ("string", "bytes"):
        return bytes.fromhex(r)
    return None


SIGNED_RE = re.compile(rb"\A[+-]?[0-9]+\Z")
UNSIGNED_RE = re.compile(rb"\A[0-9]+\Z")


def ref_scan(t, text):
    """('ok', repr) or ('err',) : reading `text` into a variable of type t"""
    if t in INT_TYPES:
        signed, bits = INT_TYPES[t]
        if not (SIGNED_RE if signed else UNSIGNED_RE).match(text):
            return ("err",)
        v = int(text.decode())
        lo, hi = int_range(t)
        if v < lo or v > hi:
            return ("err",)
        return ("ok", str(v))
    if t == "bool":
        return ("ok", "true" if text == b"1" else "false")
    if t in ("string", "bytes"):
        return ("ok", text.hex())
    return None


def same_value(t, a, b):
    """equality of two representations of type t (floats: NaN equals NaN of the same width, otherwise bit equality)"""
    if t == "float32":
        x, y = int(a, 16), int(b, 16)
        nan = lambda z: (z & 0x7f800000) == 0x7f800000 and (z & 0x007fffff) != 0
        return x == y or (nan(x) and nan(y))
    if t == "float64":
        x, y = int(a, 16), int(b, 16)
        nan = lambda z: (z & 0x7ff0000000000000) == 0x7ff0000000000000 and (z & 0x000fffffffffffff) != 0
        return x == y or (nan(x) and nan(y))
    return a == b


# ------------------------------------------------------------------------------------------
# Coq printers
# ------------------------------------------------------------------------------------------

def cgval(t, r):
    if t in INT_TYPES:
        return "(GI %s)" % cZ(int(r))
    if t == "bool":
        return "(GB %s)" % cbool(r == "true")
    return "(GT %s)" % cbytes(bytes.fromhex(r))


def copt(x):
    return "None" if x is None else "(Some %s)" % x


CODES = {"nil": "CNil", "keytoolarge": "CKeyTooLarge", "entrytoolarge": "CEntryTooLarge", "notfound": "CNotFound"}


def parse_mismatches(out, shard_ids):
    """`M = [(i, k, obs); ...]` printed by Coq -> list of (scenario id, step, model obs text)"""
    body = out.split("M =", 1)[1] if "M =" in out else ""
    body = body.rsplit(":", 1)[0]
    flat = " ".join(body.split())
    if flat.strip() in ("[]", "nil"):
        return []
    mism = []
    for m in re.finditer(r"\((\d+)(?:%nat)?, (\d+)(?:%nat)?, (.*?)\)(?=; \(\d|\]$)", flat):
        mism.append((shard_ids[int(m.group(1))], int(m.group(2)), m.group(3)))
    if not mism:
        mism.append((shard_ids[0], -1, "unparsed coq output: " + flat[:300]))
    return mism


class Interner:
    """Byte strings that occur in a case are defined once (`Definition b17 : list N := [...]`) and referred to by
    name: Coq spends its time parsing and type checking literals, not running the model."""

    def __init__(self, prefix="", minlen=12):
        self.prefix = prefix
        self.names = {}
        self.defs = []
        self.minlen = minlen

    def b(self, data):
        if isinstance(data, str):
            data = data.encode()
        data = bytes(data)
        if len(data) < self.minlen:
            return cbytes(data)
        n = self.names.get(data)
        if n is None:
            n = "b%s_%d" % (self.prefix, len(self.names))
            self.names[data] = n
            self.defs.append("Definition %s : list N := %s." % (n, cbytes(data)))
        return n

    def text(self):
        return "\n".join(self.defs) + "\n"


def coq_compare(prefix, header, casetype, fn, cases, shard=40, jobs=16):
    """cases: list of (scenario id, coq term) or (scenario id, coq term, definitions text).
    Returns (mismatches, seconds)."""
    shards = [cases[i:i + shard] for i in range(0, len(cases), shard)]
    texts = []
    for sh in shards:
        defs = "".join(c[2] for c in sh if len(c) > 2)
        texts.append(header + defs + "Definition cases : list (%s) := [\n" % casetype + ";\n".join(c[1] for c in sh) +
                     "\n].\nDefinition M := Eval vm_compute in %s cases 0.\nPrint M.\n" % fn)
    outs = vlib.coq_eval_shards(prefix, texts, jobs=jobs)
    mism = []
    secs = 0.0
    for sh, (rc, out, err, dt) in zip(shards, outs):
        secs += dt
        if rc != 0:
            raise vlib.CheckError("coqc failed on generated cases: " + err[-3000:])
        mism += parse_mismatches(out, [c[0] for c in sh])
    return mism, secs


# ------------------------------------------------------------------------------------------
# shrinking (delta debugging on a list)
# ------------------------------------------------------------------------------------------

def shrink_list(items, still_fails, max_rounds=120):
    items = list(items)
    n = 2
    rounds = 0
    while len(items) >= 2 and rounds < max_rounds:
        chunk = max(1, len(items) // n)
        reduced = False
        for i in range(0, len(items), chunk):
            cand = items[:i] + items[i + chunk:]
            if not cand:
                continue
            rounds += 1
            if still_fails(cand):
                items = cand
                n = max(n - 1, 2)
                reduced = True
                break
        if not reduced:
            if chunk == 1:
                break
            n = min(len(items), n * 2)
    return items
