# Shared machinery for the /verif checks (see DESIGN.md sections 5 and 6).
import fcntl
import glob
import hashlib
import json
import os
import random
import re
import shutil
import subprocess
import sys
import time

VERIF = os.path.dirname(os.path.dirname(os.path.abspath(__file__)))
REPO = os.environ.get("VERIF_REPO", "/repo")
BUILD = os.path.join(VERIF, "build")
COQ = os.path.join(VERIF, "coq")
HARNESS_BIN = os.path.join(BUILD, "verifx")
OVERLAY_JSON = os.path.join(BUILD, "overlay.json")
OVERLAY_SRC = os.path.join(VERIF, "harness", "overlay")

GOENV = dict(os.environ)
GOENV.update({
    "GOFLAGS": "-mod=mod", "GOPROXY": "off", "GOSUMDB": "off", "GOTOOLCHAIN": "local",
    "CGO_ENABLED": "0",
})

FORBIDDEN = re.compile(
    r"\b(Admitted|admit|Axiom|Axioms|Parameter|Parameters|Conjecture|Conjectures|Abort All|"
    r"Admit Obligations|bypass_check|native_compute)\b|Unset\s+Guard|Unset\s+Positivity|"
    r"Unset\s+Universe|type-in-type|impredicative-set")

# Axioms of the Coq standard library that DESIGN.md section 8 names as acceptable.
# The development currently needs none of them; the list is what would be tolerated.
ALLOWED_AXIOMS = set()


class CheckError(Exception):
    """The check itself is broken (environment), not the property."""


def log(*a):
    print(*a, file=sys.stderr, flush=True)


def run(cmd, cwd=None, env=None, timeout=None, input=None, check=False):
    p = subprocess.run(cmd, cwd=cwd, env=env, timeout=timeout, input=input,
                       stdout=subprocess.PIPE, stderr=subprocess.PIPE, text=True)
    if check and p.returncode != 0:
        raise CheckError("command failed: %s\n%s\n%s" % (cmd, p.stdout[-4000:], p.stderr[-4000:]))
    return p


class Lock:
    def __init__(self, name):
        os.makedirs(BUILD, exist_ok=True)
        self.path = os.path.join(BUILD, name + ".lock")

    def __enter__(self):
        self.f = open(self.path, "w")
        fcntl.flock(self.f, fcntl.LOCK_EX)
        return self

    def __exit__(self, *a):
        fcntl.flock(self.f, fcntl.LOCK_UN)
        self.f.close()


# --------------------------------------------------------------------------------------
# Go harness: add-only overlay files compiled into the olric module of /repo
# --------------------------------------------------------------------------------------

def make_overlay():
    os.makedirs(BUILD, exist_ok=True)
    repl = {}
    for root, _, files in os.walk(OVERLAY_SRC):
        for f in files:
            if not f.endswith(".go"):
                continue
            src = os.path.join(root, f)
            rel = os.path.relpath(src, OVERLAY_SRC)
            dst = os.path.join(REPO, rel)
            if os.path.exists(dst):
                raise CheckError("overlay would replace an existing file of /repo: " + rel)
            repl[dst] = src
    with open(OVERLAY_JSON, "w") as fh:
        json.dump({"Replace": repl}, fh, indent=1)
    return repl


def harness_build():
    """Build the harness from /repo's current working tree. Returns (ok, output)."""
    with Lock("harness"):
        make_overlay()
        t0 = time.time()
        p = run(["go", "build", "-tags", "verif", "-overlay", OVERLAY_JSON, "-o", HARNESS_BIN,
                 "./cmd/verifx"], cwd=REPO, env=GOENV, timeout=900)
        log("[harness] build rc=%d in %.1fs" % (p.returncode, time.time() - t0))
        return p.returncode == 0, p.stdout + p.stderr


def harness(args, input=None, timeout=600, env=None):
    e = dict(GOENV)
    if env:
        e.update(env)
    return run([HARNESS_BIN] + list(args), cwd=BUILD, env=e, timeout=timeout, input=input)


# --------------------------------------------------------------------------------------
# Coq development
# --------------------------------------------------------------------------------------

def coq_files():
    out = []
    for sub in ("Base", "Gen", "Model", "Proofs", "Properties"):
        out += sorted(glob.glob(os.path.join(COQ, sub, "*.v")))
    return [os.path.relpath(f, COQ) for f in out]


def gen_consts():
    """Regenerate coq/Gen/Consts.v from /repo (through the harness binary built from it)."""
    p = harness(["consts"], timeout=60)
    if p.returncode != 0:
        raise CheckError("consts translator failed: " + p.stderr[-2000:])
    path = os.path.join(COQ, "Gen", "Consts.v")
    os.makedirs(os.path.dirname(path), exist_ok=True)        # Gen/ only holds generated, untracked files
    old = open(path).read() if os.path.exists(path) else None
    if old != p.stdout:
        with open(path, "w") as fh:
            fh.write(p.stdout)
        log("[consts] Gen/Consts.v regenerated")


def coq_build(clean=False):
    """Full .vo build (never -vos). Returns (ok, output_tail)."""
    with Lock("coq"):
        files = coq_files()
        proj = "-Q . Olric\n-arg -w -arg -notation-overridden,-deprecated-hint-without-locality\n" + "\n".join(files) + "\n"
        pp = os.path.join(COQ, "_CoqProject")
        regen = not os.path.exists(os.path.join(COQ, "Makefile"))
        if not os.path.exists(pp) or open(pp).read() != proj:
            with open(pp, "w") as fh:
                fh.write(proj)
            regen = True
        if regen:
            run(["coq_makefile", "-f", "_CoqProject", "-o", "Makefile"], cwd=COQ, check=True)
        if clean:
            run(["make", "clean"], cwd=COQ)
        t0 = time.time()
        p = run(["timeout", "3000", "make", "-j16"], cwd=COQ, timeout=3100)
        log("[coq] make rc=%d in %.1fs" % (p.returncode, time.time() - t0))
        return p.returncode == 0, (p.stdout + p.stderr)[-6000:]


def forbidden_tokens():
    hits = []
    for f in coq_files():
        txt = open(os.path.join(COQ, f)).read()
        # strip comments (non-nested is enough: we do not nest)
        txt2 = re.sub(r"\(\*.*?\*\)", "", txt, flags=re.S)
        for m in FORBIDDEN.finditer(txt2):
            hits.append("%s: %s" % (f, m.group(0)))
    return hits


def load_props(pid):
    return json.load(open(os.path.join(COQ, "props", pid + ".json")))


def check_assumptions(pid):
    """Print Assumptions for every theorem registered for pid, in one coqc call.
    Returns list of dicts {theorem, ok, axioms, kind}."""
    reg = load_props(pid)
    thms = reg["theorems"]
    d = os.path.join(BUILD, "assume")
    os.makedirs(d, exist_ok=True)
    name = "Assume_%s_%d" % (pid, os.getpid())
    src = os.path.join(d, name + ".v")
    mods = sorted(set(t["module"] for t in thms))
    with open(src, "w") as fh:
        for m in mods:
            fh.write("Require Olric.%s.\n" % m)
        for t in thms:
            fh.write('Goal True. idtac "@@BEGIN %s". Abort.\n' % t["name"])
            fh.write("Check Olric.%s.%s.\n" % (t["module"], t["name"]))
            fh.write("Print Assumptions Olric.%s.%s.\n" % (t["module"], t["name"]))
        fh.write('Goal True. idtac "@@END". Abort.\n')
    p = run(["timeout", "600", "coqc", "-Q", COQ, "Olric", src], cwd=d, timeout=700)
    for ext in (".v", ".vo", ".vok", ".vos", ".glob"):
        try:
            os.remove(os.path.join(d, name + ext))
        except OSError:
            pass
    try:
        os.remove(os.path.join(d, "." + name + ".aux"))
    except OSError:
        pass
    out = p.stdout
    res = []
    if p.returncode != 0:
        # find which theorem is missing: everything after the last BEGIN failed
        seen = re.findall(r"@@BEGIN (\S+)", out)
        for t in thms:
            res.append({"theorem": t["name"], "ok": False, "axioms": [],
                        "detail": "coqc failed: " + (p.stderr.strip().splitlines() or ["?"])[-1]
                        if (not seen or t["name"] == seen[-1] or t["name"] not in seen) else "not reached"})
        return res, out + p.stderr
    chunks = re.split(r"@@BEGIN (\S+)\n", out)
    # chunks: [pre, name1, body1, name2, body2, ...]
    bodies = {chunks[i]: chunks[i + 1] for i in range(1, len(chunks) - 1, 2)}
    for t in thms:
        body = bodies.get(t["name"], "")
        closed = "Closed under the global context" in body
        axioms = []
        if not closed:
            m = re.search(r"Axioms:\n(.*?)(@@|$)", body, flags=re.S)
            if m:
                for line in m.group(1).splitlines():
                    mm = re.match(r"^(\S+)\s*:", line)
                    if mm:
                        axioms.append(mm.group(1))
        ok = closed or (axioms and all(a in ALLOWED_AXIOMS for a in axioms))
        res.append({"theorem": t["name"], "ok": bool(ok), "axioms": axioms,
                    "statement": " ".join(body.split("Closed under")[0].split("Axioms:")[0].split())[:600]})
    return res, out


def coq_eval(name, text, timeout=900):
    """Compile a generated .v file (cases evaluated by vm_compute inside Coq) and return stdout."""
    d = os.path.join(BUILD, "cases")
    os.makedirs(d, exist_ok=True)
    src = os.path.join(d, name + ".v")
    with open(src, "w") as fh:
        fh.write(text)
    t0 = time.time()
    p = run(["timeout", str(timeout), "coqc", "-Q", COQ, "Olric", src], cwd=d, timeout=timeout + 30)
    dt = time.time() - t0
    for ext in (".vo", ".vok", ".vos", ".glob"):
        try:
            os.remove(os.path.join(d, name + ext))
        except OSError:
            pass
    try:
        os.remove(os.path.join(d, "." + name + ".aux"))
    except OSError:
        pass
    return p.returncode, p.stdout, p.stderr, dt


def coq_eval_shards(prefix, texts, timeout=900, jobs=16):
    """Run several generated files in parallel. Returns list of (rc, stdout, stderr, dt)."""
    from concurrent.futures import ThreadPoolExecutor
    with ThreadPoolExecutor(max_workers=jobs) as ex:
        futs = [ex.submit(coq_eval, "%s_%d_%d" % (prefix, os.getpid(), i), t, timeout) for i, t in enumerate(texts)]
        return [f.result() for f in futs]


# Coq term printers -------------------------------------------------------------------

def cN(n):
    return "%d%%N" % n


def cZ(n):
    return "(%d)%%Z" % n


def cnat(n):
    assert 0 <= n < 5000
    return "%d%%nat" % n


def cbool(b):
    return "true" if b else "false"


def clist(xs):
    return "[" + "; ".join(xs) + "]"


def cbytes(b):
    """bytes -> list N"""
    if isinstance(b, str):
        b = b.encode()
    # runs of one byte are printed as (rp byte len) [Model/Codec.v]: Coq parses ~14 kB/s of list literals
    if len(b) >= 8 and len(set(b)) == 1 and len(b) < 5000:
        return "(rp %d %d)" % (b[0], len(b))
    if len(b) >= 24:
        # split into maximal runs
        parts = []
        i = 0
        lit = []
        while i < len(b):
            j = i
            while j < len(b) and b[j] == b[i]:
                j += 1
            if j - i >= 8 and j - i < 5000:
                if lit:
                    parts.append("[" + ";".join("%d" % x for x in lit) + "]%N")
                    lit = []
                parts.append("(rp %d %d)" % (b[i], j - i))
            else:
                lit += list(b[i:j])
            i = j
        if lit:
            parts.append("[" + ";".join("%d" % x for x in lit) + "]%N")
        return "(" + " ++ ".join(parts) + ")" if len(parts) > 1 else parts[0]
    return "[" + ";".join("%d" % x for x in b) + "]%N"


def copt(x):
    return "None" if x is None else "(Some %s)" % x


# --------------------------------------------------------------------------------------
# Known findings, replays, evidence
# --------------------------------------------------------------------------------------

def known_findings():
    p = os.path.join(VERIF, "known_findings.json")
    if not os.path.exists(p):
        return []
    return json.load(open(p))["findings"]


def match_known(pid, klass):
    """klass: a dict describing the minimised failure; a finding matches when its matcher is a
    sub-dict of klass and it is open and lists the property."""
    for f in known_findings():
        if f.get("status") != "open":
            continue
        if pid not in f.get("properties", []):
            continue
        m = f.get("matcher", {})
        if all(klass.get(k) == v for k, v in m.items()):
            return f
    return None


def write_replay(pid, obj):
    os.makedirs(os.path.join(VERIF, "replays"), exist_ok=True)
    blob = json.dumps(obj, sort_keys=True, indent=1)
    h = hashlib.sha1(blob.encode()).hexdigest()[:10]
    path = os.path.join(VERIF, "replays", "%s-%s.json" % (pid, h))
    with open(path, "w") as fh:
        fh.write(blob)
    return path


class Result:
    def __init__(self, pid, tier, seed):
        self.pid, self.tier, self.seed = pid, tier, seed
        self.t0 = time.time()
        self.violations = []       # (replay_path, suffix)
        self.known = []            # descriptions
        self.coverage = {}
        self.assumptions = []
        self.obligations = []

    def violation(self, replay_obj, no_input=False):
        replay_obj.setdefault("property", self.pid)
        path = write_replay(self.pid, replay_obj)
        self.violations.append((path, " no-failing-input-found" if no_input else ""))

    def known_finding(self, desc):
        if desc not in self.known:
            self.known.append(desc)

    def finish(self):
        cov = self.coverage
        ob = self.obligations
        cov["obligations"] = len(ob)
        cov["discharged"] = sum(1 for o in ob if o["ok"])
        cov.setdefault("checker_cmd", "make -C /verif/coq (coqc 8.16.1, full .vo build) + coqc Print Assumptions per theorem")
        cov.setdefault("trusted_base", TRUSTED_BASE)
        cov["theorems"] = ob
        ev = {
            "property_id": self.pid, "tier": self.tier, "seed": self.seed, "level": "proof",
            "coverage": cov, "assumptions": self.assumptions,
            "wall_s": round(time.time() - self.t0, 2), "violations": len(self.violations),
            "known_findings": self.known,
        }
        os.makedirs(os.path.join(VERIF, "evidence"), exist_ok=True)
        with open(os.path.join(VERIF, "evidence", self.pid + ".json"), "w") as fh:
            json.dump(ev, fh, indent=1, sort_keys=True)
        for k in self.known:
            print("KNOWN-FINDING: property=%s %s" % (self.pid, k))
        for path, suffix in self.violations:
            print("VIOLATION property=%s replay=%s%s" % (self.pid, path, suffix))
        sys.stdout.flush()
        return 1 if self.violations else 0


TRUSTED_BASE = [
    "Coq 8.16.1 kernel and vm_compute (no native_compute)",
    "no axioms: every registered theorem must print 'Closed under the global context'",
    "hand-written Gallina model; tied to /repo by the correspondence check (Go harness compiled into /repo's "
    "working tree with -overlay, results compared with the model evaluated by vm_compute inside coqc)",
    "Go harness, python generators/printers, constants translator (harness 'consts' subcommand)",
    "Go runtime, go-redis/redcon transport, memberlist, consistent, roaring, msgpack (environment, not modelled)",
]


def common_obligations(res, pid):
    """Steps shared by every check: harness build (from /repo now), consts, Coq build, forbidden tokens,
    assumptions. Returns True when everything is discharged; otherwise records obligations as broken and
    returns False (the caller then runs its implementation-only search)."""
    ok, out = harness_build()
    if not ok:
        res.harness_error = out
        res.obligations.append({"theorem": "harness-build", "ok": False, "detail": out[-1500:]})
        return False
    gen_consts()
    okc, outc = coq_build()
    hits = forbidden_tokens()
    if hits:
        res.obligations.append({"theorem": "no-forbidden-tokens", "ok": False, "detail": "; ".join(hits)})
    if not okc:
        res.coq_error = outc
        reg = load_props(pid)
        # which of this property's files failed?  If its .vo files all exist and are fresh, another
        # property's file is broken, not ours.
        mine_broken = False
        for t in reg["theorems"]:
            vo = os.path.join(COQ, t["module"].replace(".", "/") + ".vo")
            v = vo[:-1]
            if not os.path.exists(vo) or os.path.getmtime(vo) < os.path.getmtime(v):
                mine_broken = True
        if mine_broken:
            m = re.findall(r'File "\./([^"]+)", line (\d+).*?\nError:(.*?)(?:\n\n|\Z)', outc, flags=re.S)
            detail = "; ".join("%s:%s %s" % (a, b, " ".join(c.split())[:300]) for a, b, c in m) or outc[-1500:]
            for t in reg["theorems"]:
                res.obligations.append({"theorem": t["name"], "ok": False, "detail": detail})
            return False
    a, raw = check_assumptions(pid)
    res.obligations += a
    if getattr(res, "tier", "quick") == "thorough":
        res.obligations.append(coqchk(pid))
    return all(o["ok"] for o in res.obligations)


def coqchk(pid):
    """thorough tier: the compiled files of the property's modules and everything they depend on are re-checked by the
    independent checker coqchk, which also reports the axioms, type-in-type, unsafe fixpoints and assumed positivity"""
    reg = load_props(pid)
    mods = sorted({"Olric." + t["module"] for t in reg["theorems"]})
    t0 = time.time()
    with Lock("coq"):
        p = run(["timeout", "3000", "coqchk", "-silent", "-o", "-Q", COQ, "Olric"] + mods, cwd=COQ, timeout=3100)
    out = p.stdout + p.stderr
    flat = " ".join(out.split())
    clean = all(("* %s: <none>" % k) in flat for k in (
        "Axioms", "Constants/Inductives relying on type-in-type", "Constants/Inductives relying on unsafe (co)fixpoints",
        "Inductives whose positivity is assumed"))
    ok = p.returncode == 0 and clean
    log("[coqchk] %s rc=%d clean=%s in %.0fs" % (" ".join(mods), p.returncode, clean, time.time() - t0))
    return {"theorem": "coqchk " + " ".join(mods), "ok": ok, "axioms": "none" if clean else None,
            "detail": None if ok else out[-1500:], "seconds": round(time.time() - t0)}


def anchors_changed(pid):
    """anchored source files of the property whose content differs from anchors.json (written by tools/anchors.py --update
    at the last commit to /repo). Missing anchors.json: nothing is reported."""
    p = os.path.join(VERIF, "anchors.json")
    if not os.path.exists(p):
        return []
    old = json.load(open(p)).get(pid, {})
    out = []
    for f, h in sorted(old.items()):
        try:
            cur = hashlib.sha256(open(os.path.join(REPO, f), "rb").read()).hexdigest()[:16]
        except OSError:
            cur = None
        if cur != h:
            out.append(f)
    return out


def rng_for(seed, *salt):
    h = hashlib.sha256(("%d|" % seed + "|".join(str(s) for s in salt)).encode()).digest()
    return random.Random(int.from_bytes(h[:8], "big"))
