# Scenarios with joins and stops (harness `membership`): one real cluster per scenario.
import json

import vlib


def run_membership(scenarios, jobs=6, timeout=600):
    """scenarios: list of {"id","cluster","ops"}; each runs in its own harness process (own cluster)."""
    from concurrent.futures import ThreadPoolExecutor

    def one(sc):
        inp = json.dumps({"id": sc["id"], "cluster": sc["cluster"], "ops": sc["ops"]}) + "\n"
        p = vlib.harness(["membership"], input=inp, timeout=timeout)
        for line in p.stdout.splitlines():
            if line.startswith("{"):
                return json.loads(line)
        return {"id": sc["id"], "obs": [], "env": {"error": "harness died: " + p.stderr[-600:]}}
    out = {}
    with ThreadPoolExecutor(max_workers=jobs) as ex:
        for r in ex.map(one, scenarios):
            out[r["id"]] = r
    return out
