# Differential of the balancer's decisions (internal/cluster/balancer/balancer.go) with Model/Balancer.v.
# The REAL primaryCopies / backupCopies run over partitions filled with recording fragments (harness subcommand
# balancerplan); the recorded Move calls are judged by a predicate (soundness + completeness, stated independently of
# the model) and compared with the model's plan inside Coq.
import json
import re

import vlib
from vlib import cN, cnat, cbool, clist

HEADER = """From Coq Require Import List NArith Bool.
Require Import Olric.Model.Balancer Olric.Model.BalancerRun.
Import ListNotations.
Local Open Scope N_scope.
"""


def gen_case(rng, cid):
    nm = rng.choice([1, 2, 3, 3, 4, 5])
    r = rng.choice([1, 2, 2, 2, 3, 3, 4])
    nparts = rng.choice([1, 2, 3, 5, 8])
    this = rng.randrange(nm)

    def owners(maxlen, primary):
        w = rng.random()
        if w < 0.06:
            return None if rng.random() < 0.5 else []
        n = rng.randrange(1, maxlen + 1)
        l = [rng.randrange(nm) for _ in range(n)]
        if rng.random() < 0.85:
            l = list(dict.fromkeys(l))              # routing tables do not repeat a member
        if rng.random() < 0.35:
            if this in l:
                l.remove(this)
            l.insert(rng.randrange(len(l) + 1), this)
        return l

    def frags(unowned):
        if rng.random() < 0.2:
            return []
        names = rng.sample(range(1, 6), rng.randrange(1, 4))
        out = []
        for n in sorted(names):
            ln = 0 if rng.random() < (0.5 if unowned else 0.2) else rng.randrange(1, 40)
            out.append({"name": "d%02d" % n, "len": ln})
        return out

    def part(primary):
        o = owners(4 if primary else 5, primary)
        return {"owners": o, "frags": frags(not o)}
    return {"id": cid, "this": this, "r": r, "prim": [part(True) for _ in range(nparts)], "back": [part(False) for _ in range(nparts)]}


def run_cases(cases):
    p = vlib.harness(["balancerplan"], input="".join(json.dumps(c) + "\n" for c in cases), timeout=600)
    if p.returncode != 0:
        raise vlib.CheckError("balancerplan harness failed: " + (p.stderr or "")[-1500:])
    out = {}
    for line in p.stdout.splitlines():
        if line.strip():
            o = json.loads(line)
            out[o["id"]] = o
    return out


def predicate(case, ob):
    """soundness and completeness of the recorded Move calls, stated on the routing data (not through the model)"""
    this, r = "m%d" % case["this"], case["r"]

    def keys(p):
        return sum(f["len"] for f in p["frags"])
    must_panic = any(keys(p) and not p["owners"] for p in case["prim"])
    if must_panic:
        return None if ob.get("panic") else "a primary partition with keys and no owner did not stop the run"
    if ob.get("panic"):
        return "the balancer run panicked: %s" % ob["panic"][:200]
    seen = set()
    for mv in ob["moves"]:
        parts = case["prim"] if mv["kind"] == "Primary" else case["back"]
        p = parts[mv["part"]]
        names = ["m%d" % o for o in (p["owners"] or [])]
        key = (mv["kind"], mv["part"], mv["name"])
        if key in seen:
            return "fragment %s of %s partition %d was moved twice in one run" % (mv["name"], mv["kind"], mv["part"])
        seen.add(key)
        f = [x for x in p["frags"] if x["name"] == mv["name"]]
        if not f or f[0]["len"] == 0:
            return "an empty or unknown fragment %s was moved" % mv["name"]
        if this in mv["owners"]:
            return "member %s sends %s data of partition %d to itself" % (this, mv["kind"], mv["part"])
        if mv["kind"] == "Primary":
            if names[-1] == this:
                return "the partition owner %s gives the primary data of partition %d away to %s" % (this, mv["part"], mv["owners"])
            if mv["owners"] != [names[-1]]:
                return "primary data of partition %d goes to %s, the owner is %s" % (mv["part"], mv["owners"], names[-1])
        else:
            if r <= 1:
                return "backup data moved although ReplicaCount is %d" % r
            cur = list(reversed(names))[:r - 1]
            if this in cur:
                return "a current backup owner (%s, partition %d, backup owners %s, ReplicaCount %d) gives its backup data away to %s" % (
                    this, mv["part"], names, r, mv["owners"])
            if mv["owners"] != cur:
                return "backup data of partition %d goes to %s, the current backup owners are %s" % (mv["part"], mv["owners"], cur)
    # completeness (only for partitions without an empty fragment: scanPartition stops at an empty one)
    for kind, parts in (("Primary", case["prim"]), ("Backup", case["back"])):
        if kind == "Backup" and r <= 1:
            continue
        for pid, p in enumerate(parts):
            names = ["m%d" % o for o in (p["owners"] or [])]
            if not keys(p) or not names or any(f["len"] == 0 for f in p["frags"]):
                continue
            rightful = names[-1] == this if kind == "Primary" else this in list(reversed(names))[:r - 1]
            if rightful:
                continue
            for f in p["frags"]:
                if (kind, pid, f["name"]) not in seen:
                    return "fragment %s of %s partition %d stays on %s, which must not hold it (owners %s)" % (f["name"], kind, pid, this, names)
    return None


def _part(p):
    return "{| bowners := %s; bfrags := %s |}" % (
        clist(cN(o) for o in (p["owners"] or [])),
        clist("(%s, %s)" % (cN(int(f["name"][1:])), cN(f["len"])) for f in p["frags"]))


def case_to_coq(case, ob):
    mv = []
    for m in ob.get("moves") or []:
        mv.append("{| mkind := %s; mpart := %s; mname := %s; mtargets := %s |}" % (
            "KPrimary" if m["kind"] == "Primary" else "KBackup", cN(m["part"]), cN(int(m["name"][1:])),
            clist(cN(int(o[1:])) for o in m["owners"])))
    return "{| bc_id := %s; bc_this := %s; bc_r := %s; bc_prim := %s; bc_back := %s; bc_panic := %s; bc_obs := %s |}" % (
        cN(case["id"]), cN(case["this"]), cnat(case["r"]), clist(_part(p) for p in case["prim"]),
        clist(_part(p) for p in case["back"]), cbool(bool(ob.get("panic"))), clist(mv))


def coq_mismatches(cases, obs, shard=400):
    terms = [case_to_coq(c, obs[c["id"]]) for c in cases]
    shards = [terms[i:i + shard] for i in range(0, len(terms), shard)]
    texts = [HEADER + "Definition cases : list bcase := [\n" + ";\n".join(sh) +
             "\n].\nDefinition M := Eval vm_compute in map fst (mismatches cases).\nPrint M.\n" for sh in shards]
    outs = vlib.coq_eval_shards("balancer", texts)
    bad, secs = [], 0.0
    for rc, out, err, dt in outs:
        secs += dt
        if rc != 0:
            raise vlib.CheckError("coqc failed on generated balancer cases: " + err[-3000:])
        body = out.split("M =", 1)[1].rsplit(":", 1)[0] if "M =" in out else ""
        bad += [int(x) for x in re.findall(r"(\d+)%N", body)] + [int(x) for x in re.findall(r"(?<![\d%])(\d+)(?=[;\]])", body) if "%N" not in body]
    return sorted(set(bad)), secs


def shrink(case, fails):
    """drop partitions, fragments and owners while the failure stays"""
    cur = case
    changed = True
    while changed:
        changed = False
        n = len(cur["prim"])
        for i in range(n):
            if n > 1:
                c = dict(cur, prim=cur["prim"][:i] + cur["prim"][i + 1:], back=cur["back"][:i] + cur["back"][i + 1:])
                if fails(c):
                    cur, changed = c, True
                    break
        if changed:
            continue
        for kind in ("prim", "back"):
            for i, p in enumerate(cur[kind]):
                for j in range(len(p["frags"])):
                    q = dict(p, frags=p["frags"][:j] + p["frags"][j + 1:])
                    c = dict(cur, **{kind: cur[kind][:i] + [q] + cur[kind][i + 1:]})
                    if fails(c):
                        cur, changed = c, True
                        break
                if changed:
                    break
            if changed:
                break
    return cur


def run(res, pid, n_quick=1500, n_thorough=20000):
    """adds the balancer-decision differential to a check. Returns the number of evaluations."""
    n = n_quick if res.tier == "quick" else n_thorough
    cases = [gen_case(vlib.rng_for(res.seed, "balancer", i), i) for i in range(n)]
    obs = run_cases(cases)
    reported = set()
    hist = {"moves": 0, "primary": 0, "backup": 0, "panic": 0, "no_move": 0, "with_empty_fragment": 0}
    for c in cases:
        ob = obs[c["id"]]
        if ob.get("panic"):
            hist["panic"] += 1
        mv = ob.get("moves") or []
        hist["moves"] += len(mv)
        hist["primary"] += sum(1 for m in mv if m["kind"] == "Primary")
        hist["backup"] += sum(1 for m in mv if m["kind"] == "Backup")
        hist["no_move"] += 0 if mv else 1
        hist["with_empty_fragment"] += 1 if any(f["len"] == 0 for p in c["prim"] + c["back"] for f in p["frags"]) else 0
        v = predicate(c, ob)
        if v and len(reported) < 3:
            def fails(cc):
                cc = dict(cc, id=0)
                return predicate(cc, run_cases([cc])[0]) is not None
            small = shrink(c, fails)
            small = dict(small, id=0)
            ob2 = run_cases([small])[0]
            res.violation({"kind": "impl-violates-property", "part": "balancer-decisions", "scenario": small, "impl_trace": ob2,
                           "predicate": {"name": "a balancer run moves exactly the fragments this member must not hold, to the members that must",
                                         "verdict": predicate(small, ob2)}, "seed": res.seed, "original_case": c["id"]})
            reported.add(c["id"])
    bad, secs = coq_mismatches(cases, obs)
    for cid in bad[:3]:
        if cid in reported or reported:
            continue
        c = cases[cid]
        res.violation({"kind": "model-mismatch", "part": "balancer-decisions",
                       "failed": "correspondence Model/Balancer.v (plan) vs internal/cluster/balancer (primaryCopies/backupCopies): case %d" % cid,
                       "scenario": c, "impl_trace": obs[cid],
                       "note": "the predicate (soundness + completeness of the recorded moves) holds on all %d cases" % len(cases)}, no_input=True)
    res.coverage["balancer_decisions"] = {"cases": n, "model_vs_impl_mismatches": len(bad), "coq_eval_seconds": round(secs, 1),
                                          "histogram": hist,
                                          "rule": "random member / ReplicaCount 1..4 / 1-8 partitions / owners lists (unset, empty, with and without this member, "
                                                  "occasional duplicates) / 0-3 fragments per partition with empty ones: the real primaryCopies and backupCopies "
                                                  "run over recording fragments; call sequence compared with Model/Balancer.v plan inside Coq"}
    return n


def replay(res, obj, path):
    """re-runs a balancer-decisions replay (the recorded case through the real functions, predicate, model comparison)"""
    ok, out = vlib.harness_build()
    if not ok:
        raise vlib.CheckError(out)
    case = dict(obj["scenario"], id=0)
    ob = run_cases([case])[0]
    v = predicate(case, ob)
    bad, _ = coq_mismatches([case], {0: ob})
    print(json.dumps({"impl_trace": ob, "predicate": v, "model_mismatch": bool(bad)}))
    if v or bad:
        print("VIOLATION property=%s replay=%s%s" % (res.pid, path, "" if v else " no-failing-input-found"))
        return 1
    return 0
