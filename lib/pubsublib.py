# Pub/Sub scenarios (C14): generation, execution on real clusters (harness `pubsub`), the property's own
# predicate (a reference set of subscriptions evaluated on the implementation's observations, independent of
# the Coq model), and the comparison with the Gallina model evaluated by vm_compute (Model/PubSubRun.v).
import itertools
import json
import re
from concurrent.futures import ThreadPoolExecutor

import vlib
from vlib import cN, cnat, cbool, clist, cbytes, copt

CHANNELS = ["a", "ab", "b"]
PATTERNS = ["a*", "z*", "*b"]      # a* matches a, ab; *b matches ab, b (overlap on ab); z* matches nothing


def glob(pat, s):
    """reference glob for the generated patterns (only * and ? are special in them)"""
    rx = "".join(".*" if ch == "*" else "." if ch == "?" else re.escape(ch) for ch in pat)
    return re.fullmatch(rx, s, flags=re.S) is not None


# ------------------------------------------------------------------------------------------
# running the implementation
# ------------------------------------------------------------------------------------------

def _run_chunk(chunk, timeout, _depth=0):
    inp = "".join(json.dumps({k: v for k, v in s.items() if not k.startswith("_")}) + "\n" for s in chunk)
    p = vlib.harness(["pubsub"], input=inp, timeout=timeout)
    out = {}
    for line in p.stdout.splitlines():
        line = line.strip()
        if line:
            r = json.loads(line)
            out[r["id"]] = r
    if p.returncode != 0:
        missing = [s for s in chunk if s["id"] not in out]
        crashed = "panic:" in p.stderr or "fatal error:" in p.stderr
        if not crashed:
            if "address already in use" in p.stderr and missing and _depth < 3:
                # a free port found for a member was taken by another process before the member bound it: environment
                out.update(_run_chunk(missing, timeout, _depth + 1))
                return out
            raise vlib.CheckError("pubsub harness failed rc=%d: %s" % (p.returncode, p.stderr[-2000:]))
        # The process (harness + the members it hosts) died inside olric code. A subscribed connection is served by its own
        # goroutine, so the script that triggered the crash is the first one without a result or the last one with a result:
        # each is run again alone to find out which.
        k = chunk.index(missing[0]) if missing else len(chunk)
        cands = ([chunk[k]] if k < len(chunk) else []) + ([chunk[k - 1]] if k > 0 else [])
        culprit = None
        for c in cands:
            one = json.dumps({kk: v for kk, v in c.items() if not kk.startswith("_")}) + "\n"
            q = vlib.harness(["pubsub"], input=one, timeout=timeout)
            if q.returncode != 0 and ("panic:" in q.stderr or "fatal error:" in q.stderr):
                e = q.stderr
                culprit = c
                tail = e[e.find("panic:") if "panic:" in e else e.find("fatal error:"):][:1500]
                out[c["id"]] = {"id": c["id"], "crash": tail, "obs": []}
                break
        if culprit is None:
            raise vlib.CheckError("pubsub harness died (rc=%d) and no single script reproduces it: %s" % (p.returncode, p.stderr[-1500:]))
        rest = [s2 for s2 in missing if s2["id"] != culprit["id"]]
        if rest:
            out.update(_run_chunk(rest, timeout))
    return out


def run_impl(scenarios, jobs=8, timeout=1500):
    """Returns {id: result}. The scenarios are dealt round-robin to `jobs` harness processes, each with its own clusters."""
    scenarios = list(scenarios)
    if not scenarios:
        return {}
    jobs = max(1, min(jobs, len(scenarios) // 20 or 1))
    chunks = [scenarios[i::jobs] for i in range(jobs)]
    results = {}
    with ThreadPoolExecutor(max_workers=jobs) as ex:
        for out in ex.map(lambda c: _run_chunk(c, timeout), chunks):
            results.update(out)
    return results


# ------------------------------------------------------------------------------------------
# the property predicate, evaluated on the implementation's observations alone
# ------------------------------------------------------------------------------------------

KINDSTR = {("sub"): "subscribe", "psub": "psubscribe", "unsub": "unsubscribe", "punsub": "punsubscribe"}


def expected_deliveries(subs, conn_member, nconns, ch, payload):
    """per connection the sorted list of pushes one publication of `payload` on `ch` must produce"""
    exp = [[] for _ in range(nconns)]
    for m, s in subs.items():
        for (c, pat, n) in s:
            if not pat and n == ch:
                exp[c].append(["message", ch, payload])
            elif pat and glob(n, ch):
                exp[c].append(["pmessage", n, ch, payload])
    return [sorted(x) for x in exp]


def predicate(sc, res):
    """None when the trace satisfies C14, else (step, message).  A wrong count in a (P)SUBSCRIBE confirmation is
    reported only when nothing the property text states outright fails later in the same trace."""
    if res.get("crash"):
        return (0, "the member process died while it served this script: " + res["crash"].splitlines()[0][:200])
    soft = []
    hard = _predicate(sc, res, soft)
    return hard or (soft[0] if soft else None)


def _predicate(sc, res, soft):
    obs = res["obs"]
    nconns = len(sc["conns"])
    subs = {m: set() for m in range(sc["members"])}      # member -> {(conn, is_pattern, name)}
    attached = set()
    for pat, s, b in res.get("glob", []):
        if set(pat) <= set("abz*?") and glob(pat, s) != b:
            raise vlib.CheckError("tidwall/match disagrees with the reference glob on (%r, %r)" % (pat, s))
    for i, op in enumerate(sc["ops"]):
        if i >= len(obs):
            return (i, "no observation (scenario aborted: %s)" % res.get("err"))
        r, d = obs[i]["r"], obs[i]["d"]
        if isinstance(r, list) and r and r[0] == "hang":
            return (i, "operation %s did not complete: %s" % (op[0], r[1]))
        name = op[0]
        if name not in ("pub", "cpub"):
            for c, got in enumerate(d):
                if got:
                    return (i, "connection %d received %s although nothing was published" % (c, got))
        if name in ("sub", "psub"):
            c, pat = op[1], name == "psub"
            m = sc["conns"][c]
            if r == "closed":
                continue
            exp = []
            for n in op[2:]:
                subs[m].add((c, pat, n))
                exp.append([KINDSTR[name], n, sum(1 for x in subs[m] if x[0] == c and x[1] == pat)])
            attached.add(c)
            if r != exp:
                soft.append((i, "%s replied %s, expected %s (count = distinct %s held by the connection)" % (
                    name, r, exp, "patterns" if pat else "channels")))
        elif name in ("unsub", "punsub"):
            c, pat = op[1], name == "punsub"
            m = sc["conns"][c]
            if r == "closed":
                continue
            if c not in attached:
                continue      # the connection never subscribed: the reply is outside the property, the state is unchanged
            mine = lambda: sorted(x[2] for x in subs[m] if x[0] == c and x[1] == pat)
            if len(op) > 2:
                if len(r) != len(op) - 2:
                    return (i, "%s of %d names produced %d replies: %s" % (name, len(op) - 2, len(r), r))
                for n, rep in zip(op[2:], r):
                    had = (c, pat, n) in subs[m]
                    subs[m].discard((c, pat, n))
                    ok_names = [n] if had else [n, None]
                    if not (isinstance(rep, list) and len(rep) == 3 and rep[0] == KINDSTR[name] and rep[1] in ok_names and rep[2] == len(mine())):
                        return (i, "%s %s replied %s, expected [%s, %s, %d]" % (name, n, rep, KINDSTR[name], n, len(mine())))
            else:
                cur = mine()
                for n in cur:
                    subs[m].discard((c, pat, n))
                if not cur:
                    exp_ok = r == [[KINDSTR[name], None, 0]]
                else:
                    exp_ok = (all(isinstance(x, list) and len(x) == 3 and x[0] == KINDSTR[name] for x in r)
                              and sorted(str(x[1]) for x in r) == sorted(cur)
                              and [x[2] for x in r] == list(range(len(cur) - 1, -1, -1)))
                if not exp_ok:
                    return (i, "%s (all) replied %s, the connection held %s" % (name, r, cur))
        elif name in ("disc", "quit"):
            c = op[1]
            m = sc["conns"][c]
            if r == "timeout":
                return (i, "the member did not release connection %d after the client closed it" % c)
            subs[m] = {x for x in subs[m] if x[0] != c}
            attached.discard(c)
        elif name == "pub":
            exp = expected_deliveries(subs, sc["conns"], nconns, op[2], op[3])
            total = sum(len(x) for x in exp)
            for c in range(nconns):
                got = sorted(d[c])
                if got != exp[c]:
                    return (i, "PUBLISH %s: connection %d received %s, its matching subscriptions require %s" % (op[2], c, got, exp[c]))
            if r != total:
                return (i, "PUBLISH %s returned %s, %d messages were delivered" % (op[2], r, total))
        elif name == "cpub":
            pubs = op[1]
            for j, (m, ch, k, tag) in enumerate(pubs):
                exp = expected_deliveries(subs, sc["conns"], nconns, ch, "?")
                total = sum(len(x) for x in exp)
                if r[j] != [total] * k:
                    return (i, "concurrent publisher %d on %s got counts %s, every publication has %d receivers" % (j, ch, r[j], total))
                for c in range(nconns):
                    mine = [x for x in d[c] if x[-1].rsplit(".", 1)[0] == tag]
                    for n in range(k):
                        pay = "%s.%d" % (tag, n)
                        got = sorted(x for x in mine if x[-1] == pay)
                        want = sorted(x[:-1] + [pay] for x in exp[c])
                        if got != want:
                            return (i, "publisher %s message %d: connection %d received %s, expected %s" % (tag, n, c, got, want))
                    # publication order per publisher and subscription
                    seqs = {}
                    for x in mine:
                        seqs.setdefault(tuple(x[:-1]), []).append(int(x[-1].rsplit(".", 1)[1]))
                    for key, seq in seqs.items():
                        if seq != sorted(seq):
                            return (i, "connection %d received the messages of publisher %s out of order on %s: %s" % (c, tag, key, seq))
            tags = {p[3] for p in pubs}
            for c in range(nconns):
                for x in d[c]:
                    if x[-1].rsplit(".", 1)[0] not in tags:
                        return (i, "connection %d received a message nobody published: %s" % (c, x))
        elif name == "channels":
            m = op[1]
            exp = sorted({x[2] for x in subs[m] if not x[1] and (len(op) < 3 or glob(op[2], x[2]))})
            if not isinstance(r, list) or (r and r[0] == "err") or sorted(r) != exp:
                return (i, "PUBSUB CHANNELS%s on member %d returned %s, subscribed channels: %s" % (" " + op[2] if len(op) > 2 else "", m, r, exp))
        elif name == "numsub":
            m = op[1]
            exp = []
            for n in op[2:]:
                exp += [n, sum(1 for x in subs[m] if not x[1] and x[2] == n)]
            if r != exp:
                return (i, "PUBSUB NUMSUB on member %d returned %s, expected %s" % (m, r, exp))
        elif name == "numpat":
            m = op[1]
            exp = len({x[2] for x in subs[m] if x[1]})
            if r != exp:
                return (i, "PUBSUB NUMPAT on member %d returned %s, %d distinct patterns are subscribed" % (m, r, exp))
        else:
            raise ValueError(name)
    if res.get("cleanup") != "ok":
        return (len(sc["ops"]) - 1, "after all connections were closed a member still held subscribed connections")
    return None


def classify(msg):
    """witness class of a minimised failure (known_findings matcher keys)"""
    table = [("PUBLISH", "returned", "publish-count"), ("PUBLISH", "received", "publish-delivery"),
             ("concurrent publisher", "", "concurrent-publish-count"), ("publisher", "out of order", "publication-order"),
             ("publisher", "received", "concurrent-publish-delivery"), ("nobody published", "", "stray-delivery"),
             ("although nothing was published", "", "stray-delivery"),
             ("PUBSUB CHANNELS", "", "channels"), ("PUBSUB NUMSUB", "", "numsub"), ("PUBSUB NUMPAT", "", "numpat"),
             ("punsub", "repl", "unsubscribe-reply"), ("unsub", "repl", "unsubscribe-reply"),
             ("psub replied", "", "subscribe-reply"), ("sub replied", "", "subscribe-reply"),
             ("did not release", "", "disconnect-cleanup"), ("still held", "", "disconnect-cleanup"),
             ("did not complete", "", "hang"), ("no observation", "", "hang"), ("member process died", "", "crash")]
    for a, b, k in table:
        if a in msg and b in msg:
            return {"kind": "pubsub", "what": k}
    return {"kind": "pubsub", "what": re.sub(r"\d+", "N", msg)[:40]}


# ------------------------------------------------------------------------------------------
# Coq side
# ------------------------------------------------------------------------------------------

HEADER = """From Coq Require Import List NArith Bool.
Require Import Olric.Model.Codec Olric.Model.PubSub Olric.Model.PubSubRun.
Import ListNotations.
"""


def cname(s):
    return cbytes(s.encode()) if s else "[]"


def cnames(l):
    return clist(cname(x) for x in l)


def deliveries_to_coq(d, conn_member):
    out = []
    for c, pushes in enumerate(d):
        for x in pushes:
            if x[0] == "message" and len(x) == 3:
                out.append("mkD %s %s false %s %s %s" % (cnat(conn_member[c]), cN(c), cname(x[1]), cname(x[1]), cname(x[2])))
            elif x[0] == "pmessage" and len(x) == 4:
                out.append("mkD %s %s true %s %s %s" % (cnat(conn_member[c]), cN(c), cname(x[1]), cname(x[2]), cname(x[3])))
            else:
                return None
    return clist(out)


def replies_to_coq(r, kind):
    """[[kind, name|null, count]...] -> BReplies, or BErr for an error reply; None if it has no model counterpart"""
    if not isinstance(r, list):
        return None
    if len(r) == 1 and isinstance(r[0], list) and r[0] and r[0][0] == "err":
        return "BErr"
    out = []
    for x in r:
        if not (isinstance(x, list) and len(x) == 3 and x[0] == kind and isinstance(x[2], int)):
            return None
        out.append("(%s, %s)" % (copt(cname(x[1])) if x[1] is not None else "None", cN(x[2])))
    return "BReplies %s" % clist(out)


def nodeliv(d):
    return all(not x for x in d)


def steps_to_coq(sc, res):
    """list of '(op, obs)' strings, truncated at the first observation without a model counterpart"""
    pairs = []
    cm = sc["conns"]
    for op, ob in zip(sc["ops"], res["obs"]):
        r, d = ob["r"], ob["d"]
        name = op[0]
        if isinstance(r, list) and r and r[0] == "hang":
            break
        if r == "closed":
            continue      # the harness sent nothing: the connection had been closed by an earlier op
        if name != "pub" and name != "cpub" and not nodeliv(d):
            break
        if name in ("sub", "psub", "unsub", "punsub"):
            c = op[1]
            o = "%s %s %s %s %s" % ("OSub" if name in ("sub", "psub") else "OUnsub", cnat(cm[c]), cN(c), cbool(name in ("psub", "punsub")), cnames(op[2:]))
            b = replies_to_coq(r, KINDSTR[name])
        elif name in ("disc", "quit"):
            o = "ODisc %s %s" % (cnat(cm[op[1]]), cN(op[1]))
            b = {"ok": "BUnit"}.get(r)
        elif name == "pub":
            o = "OPub %s %s %s" % (cnat(op[1]), cname(op[2]), cname(op[3]))
            dl = deliveries_to_coq(d, cm)
            b = "BPub %s %s" % (cN(r), dl) if isinstance(r, int) and dl is not None else None
        elif name == "cpub":
            ok = True
            for j, (m, ch, k, tag) in enumerate(op[1]):
                for n in range(k):
                    pay = "%s.%d" % (tag, n)
                    dl = deliveries_to_coq([[x for x in pushes if x[-1] == pay] for pushes in d], cm)
                    if dl is None or not isinstance(r[j][n], int):
                        ok = False
                        break
                    pairs.append("(OPub %s %s %s, BPub %s %s)" % (cnat(m), cname(ch), cname(pay), cN(r[j][n]), dl))
                if not ok:
                    break
            if not ok:
                break
            continue
        elif name == "channels":
            o = "OChannels %s %s" % (cnat(op[1]), copt(cname(op[2])) if len(op) > 2 else "None")
            b = "BNames %s" % cnames(r) if isinstance(r, list) and all(isinstance(x, str) for x in r) else None
        elif name == "numsub":
            o = "ONumsub %s %s" % (cnat(op[1]), cnames(op[2:]))
            if isinstance(r, list) and len(r) == 2 * (len(op) - 2) and r[0::2] == op[2:] and all(isinstance(x, int) for x in r[1::2]):
                b = "BCounts %s" % clist(cN(x) for x in r[1::2])
            else:
                b = None
        elif name == "numpat":
            o = "ONumpat %s" % cnat(op[1])
            b = "BNum %s" % cN(r) if isinstance(r, int) else None
        else:
            raise ValueError(name)
        if b is None:
            b = "BOther"
            pairs.append("(%s, %s)" % (o, b))
            break
        pairs.append("(%s, %s)" % (o, b))
    return pairs


def case_to_coq(sc, res):
    tbl = clist("(%s, %s, %s)" % (cname(p), cname(s), cbool(b)) for p, s, b in res.get("glob", []))
    return "(%s, %s, %s)" % (cnat(sc["members"]), tbl, clist(steps_to_coq(sc, res)))


def coq_compare(prefix, scenarios, results, shard=250, jobs=16):
    """Returns (mismatches, seconds); mismatches = list of (scenario id, step, model observation text)."""
    ids = [s["id"] for s in scenarios if s["id"] in results]
    byid = {s["id"]: s for s in scenarios}
    shards = [ids[i:i + shard] for i in range(0, len(ids), shard)]
    texts = []
    for sh in shards:
        cases = [case_to_coq(byid[i], results[i]) for i in sh]
        texts.append(HEADER + "Definition cases : list case := [\n" + ";\n".join(cases) +
                     "\n].\nDefinition M := Eval vm_compute in mismatches cases 0.\nPrint M.\n")
    outs = vlib.coq_eval_shards(prefix, texts, jobs=jobs)
    mism = []
    secs = 0.0
    for sh, (rc, out, err, dt) in zip(shards, outs):
        secs += dt
        if rc != 0:
            raise vlib.CheckError("coqc failed on generated cases: " + err[-3000:])
        body = out.split("M =", 1)[1] if "M =" in out else ""
        body = body.rsplit(":", 1)[0]
        flat = " ".join(body.split())
        if flat.strip() in ("[]", "nil"):
            continue
        found = False
        for m in re.finditer(r"\((\d+)(?:%nat)?, (\d+)(?:%nat)?, (.*?)\)(?=; \(\d+(?:%nat)?, \d+(?:%nat)?, |\]$)", flat):
            mism.append((sh[int(m.group(1))], int(m.group(2)), m.group(3)))
            found = True
        if not found:
            mism.append((sh[0], -1, "unparsed coq output: " + flat[:300]))
    return mism, secs


# ------------------------------------------------------------------------------------------
# generators
# ------------------------------------------------------------------------------------------

ALPHABET = ["sub a", "sub b", "psub a*", "psub z*", "unsub a", "unsub", "punsub", "pub a", "pub b",
            "channels", "numsub a", "numpat", "disc", "quit"]


def alpha_op(sym, c, m, pos):
    w = sym.split()
    if w[0] in ("sub", "psub", "unsub", "punsub"):
        return [w[0], c] + w[1:]
    if w[0] == "pub":
        return ["pub", m, w[1], "m%d" % pos]
    if w[0] == "channels":
        return ["channels", m]
    if w[0] == "numsub":
        return ["numsub", m, w[1]]
    if w[0] == "numpat":
        return ["numpat", m]
    if w[0] in ("disc", "quit"):
        return [w[0], c]
    raise ValueError(sym)


def tail_ops(members):
    """observations appended to every script so that the final state is visible"""
    ops = []
    for m in range(members):
        ops += [["channels", m], ["numsub", m, "a", "b", "a*"], ["numpat", m]]
    ops += [["pub", 0, "a", "t1"], ["pub", members - 1, "b", "t2"]]
    return ops


def gen_exhaustive(rng, length, first_id=0):
    """every script of length 1..length over ALPHABET on 2 connections, twice:
    variant 'bg'  - the script runs on connection 0 while connection 1 (other member) holds sub a, psub a*
    variant 'mix' - each op is issued by connection 0 or 1 (seeded coin), both on one member"""
    out = []
    sid = first_id
    for L in range(1, length + 1):
        for seq in itertools.product(range(len(ALPHABET)), repeat=L):
            # bg
            ops = [["sub", 1, "a"], ["psub", 1, "a*"]]
            closed = set()
            for pos, ix in enumerate(seq):
                if 0 in closed:
                    break
                op = alpha_op(ALPHABET[ix], 0, pos % 2, pos)
                if op[0] in ("disc", "quit"):
                    closed.add(0)
                ops.append(op)
            out.append({"id": sid, "members": 2, "conns": [0, 1], "ops": ops + tail_ops(2), "_kind": "ex-bg"})
            sid += 1
            # mix
            ops = []
            closed = set()
            for pos, ix in enumerate(seq):
                c = rng.randrange(2)
                if c in closed:
                    c = 1 - c
                if c in closed:
                    break
                op = alpha_op(ALPHABET[ix], c, 0, pos)
                if op[0] in ("disc", "quit"):
                    closed.add(c)
                ops.append(op)
            out.append({"id": sid, "members": 1, "conns": [0, 0], "ops": ops + tail_ops(1), "_kind": "ex-mix"})
            sid += 1
    return out


def gen_random(rng, sid, concurrent=True):
    members = rng.choice([1, 2, 2, 3, 3])
    nconns = rng.randrange(2, 6)
    conns = [rng.randrange(members) for _ in range(nconns)]
    nops = rng.randrange(5, 41)
    # mostly channels as channels and patterns as patterns; sometimes a pattern text used as a channel name and
    # a plain name used as a pattern (kind confusion)
    def chan():
        return rng.choice(CHANNELS) if rng.random() < 0.9 else rng.choice(PATTERNS)

    def patt():
        return rng.choice(PATTERNS) if rng.random() < 0.85 else rng.choice(CHANNELS + ["?", "a?"])
    W = {"sub": 18, "psub": 14, "unsub1": 8, "unsuball": 4, "punsub1": 6, "punsuball": 3, "pub": 22,
         "cpub": 2 if concurrent else 0, "channels": 5, "channelsp": 4, "numsub": 6, "numpat": 5, "disc": 2}
    names = list(W)
    wts = [W[n] for n in names]
    ops = []
    closed = set()
    attached = set()
    for pos in range(nops):
        n = rng.choices(names, wts)[0]
        live = [c for c in range(nconns) if c not in closed]
        if not live:
            break
        c = rng.choice(live)
        m = rng.randrange(members)
        if n == "sub":
            ops.append(["sub", c] + [chan() for _ in range(rng.choice([1, 1, 1, 2, 3]))])
            attached.add(c)
        elif n == "psub":
            ops.append(["psub", c] + [patt() for _ in range(rng.choice([1, 1, 2]))])
            attached.add(c)
        elif n in ("unsub1", "unsuball", "punsub1", "punsuball"):
            if c not in attached and rng.random() < 0.9:
                att = [x for x in live if x in attached]
                if not att:
                    continue
                c = rng.choice(att)
            base = "unsub" if n.startswith("unsub") else "punsub"
            if n.endswith("all"):
                ops.append([base, c])
            else:
                ops.append([base, c] + [(chan() if base == "unsub" else patt()) for _ in range(rng.choice([1, 1, 2]))])
        elif n == "pub":
            ops.append(["pub", m, chan(), "m%d" % pos])
        elif n == "cpub":
            np_ = rng.choice([2, 3])
            ops.append(["cpub", [[rng.randrange(members), chan(), rng.choice([2, 3, 5]), "p%d-%d" % (pos, j)] for j in range(np_)]])
        elif n == "channels":
            ops.append(["channels", m])
        elif n == "channelsp":
            ops.append(["channels", m, rng.choice(PATTERNS + ["*", "a", "?"])])
        elif n == "numsub":
            ops.append(["numsub", m] + [rng.choice(CHANNELS + PATTERNS) for _ in range(rng.choice([1, 2, 3]))])
        elif n == "numpat":
            ops.append(["numpat", m])
        elif n == "disc":
            # the client closes its socket, or says QUIT first (a subscribed connection is served by the pub/sub loop)
            ops.append([rng.choice(["disc", "quit"]), c])
            closed.add(c)
    return {"id": sid, "members": members, "conns": conns, "ops": ops + tail_ops(members), "_kind": "random"}


# ------------------------------------------------------------------------------------------
# shrinking
# ------------------------------------------------------------------------------------------

def shrink(sc, still_fails, max_rounds=120):
    """Delta-debug the op list of `sc` while `still_fails(scenario)` holds; then simplify multi-name commands."""
    ops = list(sc["ops"])
    n = 2
    rounds = 0
    while len(ops) >= 2 and rounds < max_rounds:
        chunk = max(1, len(ops) // n)
        reduced = False
        for i in range(0, len(ops), chunk):
            cand = ops[:i] + ops[i + chunk:]
            if not cand:
                continue
            rounds += 1
            if still_fails(dict(sc, ops=cand)):
                ops = cand
                n = max(n - 1, 2)
                reduced = True
                break
        if not reduced:
            if chunk == 1:
                break
            n = min(len(ops), n * 2)
    # drop surplus names of multi-name commands
    for i in range(len(ops)):
        op = ops[i]
        if op[0] in ("sub", "psub", "unsub", "punsub", "numsub") and len(op) > 3:
            for j in range(2, len(op)):
                cand_op = op[:j] + op[j + 1:]
                if len(cand_op) <= 2:
                    continue
                cand = ops[:i] + [cand_op] + ops[i + 1:]
                rounds += 1
                if rounds < max_rounds + 40 and still_fails(dict(sc, ops=cand)):
                    ops = cand
                    break
    return dict(sc, ops=ops)
