# Routing-table scenarios for C13: generation, execution on the real code (harness `routing` and `membership`),
# the property's own predicates evaluated on the implementation's observations alone, and the printing of
# cases for the Gallina model (Model/RoutingRun.v) evaluated by vm_compute.
import json
import math
import re
from fractions import Fraction

import vlib
from vlib import cN, cZ, cnat, cbool, clist, copt

# ------------------------------------------------------------------------------------------
# differential of distributePrimaryCopies / distributeBackups
# ------------------------------------------------------------------------------------------


def diff_setup(tier):
    if tier == "quick":
        return [{"n": 1, "p": 7}, {"n": 2, "p": 13}, {"n": 3, "p": 7}, {"n": 4, "p": 13}, {"n": 5, "p": 271}, {"n": 6, "p": 23}]
    out = []
    for p in (7, 13, 271):
        for n in range(1, 7):
            out.append({"n": n, "p": p})
    return out


def gen_prev(rng, n, allow_dup):
    if rng.random() < 0.12:
        return []
    k = rng.choice([1, 1, 2, 2, 3, 4, 5])
    pool = [{"k": "live", "i": i} for i in range(n)] * 3 + [{"k": "rejoin", "i": i} for i in range(n)] + \
           [{"k": "dead", "i": j} for j in range(3)]
    out = []
    for _ in range(k):
        m = rng.choice(pool)
        if not allow_dup and m in out:
            continue
        out.append(dict(m))
    return out


def gen_lens(rng, n):
    d = {}
    for i in range(n):
        r = rng.random()
        if r < 0.45:
            continue                      # no fragment: length 0
        if r < 0.55:
            d[str(i)] = 0                 # an empty fragment
        elif r < 0.88:
            d[str(i)] = rng.choice([1, 2, 7, 1000])
        else:
            d[str(i)] = -1                # the call fails
    return d


def gen_diff_case(rng, cid, setup):
    k = rng.randrange(len(setup))
    n, P = setup[k]["n"], setup[k]["p"]
    r = rng.random()
    if r < 0.78:
        ring = [{"k": "live", "i": i} for i in range(n)]
    elif r < 0.92:
        sub = [i for i in range(n) if rng.random() < 0.6] or [rng.randrange(n)]
        ring = [{"k": "live", "i": i} for i in sub]
    else:
        sub = [i for i in range(n) if rng.random() < 0.7] or [rng.randrange(n)]
        # the ring library needs members <= partitions (floor(P/N) = 0 makes consistent.Add panic: "not enough room")
        ng = min(rng.choice([1, 2]), P - len(sub))
        ring = [{"k": "live", "i": i} for i in sub] + [{"k": "ghost", "i": j} for j in range(ng)]
    dup = rng.random() < 0.05
    return {"id": cid, "n": n, "p": P, "part": rng.randrange(P), "r": rng.choice([1, 2, 2, 3, 3, 3, 4]),
            "ring": ring, "prev_owners": gen_prev(rng, n, dup), "prev_backups": gen_prev(rng, n, dup),
            "len_p": gen_lens(rng, n), "len_b": gen_lens(rng, n)}


def run_routing(cases, timeout=900):
    """cases carry n (live members) and p (partition count); one bare cluster is started per distinct (n, p)."""
    setup, index = [], {}
    wire = []
    for c in cases:
        k = (c["n"], c["p"])
        if k not in index:
            index[k] = len(setup)
            setup.append({"n": c["n"], "p": c["p"]})
        w = {x: y for x, y in c.items() if x not in ("n", "p") and not x.startswith("_")}
        w["cluster"] = index[k]
        wire.append(w)
    inp = json.dumps({"clusters": setup}) + "\n" + "".join(json.dumps(c) + "\n" for c in wire)
    p = vlib.harness(["routing"], input=inp, timeout=timeout)
    if p.returncode != 0:
        raise vlib.CheckError("routing harness failed rc=%d: %s" % (p.returncode, p.stderr[-2000:]))
    setup_out, facts, results = None, [], {}
    for line in p.stdout.splitlines():
        line = line.strip()
        if not line:
            continue
        r = json.loads(line)
        if "setup" in r:
            setup_out = r["setup"]
        elif "ringfacts" in r:
            facts.append(r["ringfacts"])
        else:
            results[r["id"]] = r
    return setup_out, facts, results


def ids(ms):
    return [m["id"] for m in ms]


def lens_by_name(case, res, which):
    """name -> length (int) or None (failed) for the live members; absent = 0"""
    d = {}
    for k, v in case[which].items():
        d[res["live"][int(k)]["name"]] = None if v < 0 else v
    return d


def diff_facts(case, res):
    """the hypotheses of C13_distribute_valid: the ring is over exactly the live members and the previous lists
    carry no duplicate ids"""
    if sorted(ids(res["ring_members"])) != sorted(ids(res["live"])):
        return False
    for k in ("prev_owners", "prev_backups"):
        if len(set(ids(res[k]))) != len(res[k]):
            return False
    return True


def diff_predicate(case, res):
    """C13 on one recomputed partition, stated on the implementation's output. None = fine, else a message."""
    live = {m["id"]: m for m in res["live"]}
    N = len(live)
    R = case["r"]
    ro = res["ring_owner"]
    owners, backups = res["owners"], res["backups"]
    lp, lb = lens_by_name(case, res, "len_p"), lens_by_name(case, res, "len_b")

    def is_live(m):
        return m["id"] in live and live[m["id"]]["name"] == m["name"]

    if not owners:
        return "partition %d has no primary owner" % case["part"]
    if owners[-1] != ro:
        return "the primary owner %s is not the ring's owner %s" % (owners[-1]["name"], ro["name"])
    if not is_live(owners[-1]):
        return "the primary owner %s is not a live member" % owners[-1]["name"]
    if len(set(ids(owners))) != len(owners):
        return "a member is listed twice among the owners"
    for o in owners[:-1]:
        if not is_live(o):
            return "listed owner %s#%d is not a live member" % (o["name"], o["id"])
        if lp.get(o["name"], 0) == 0:
            return "listed previous owner %s holds no data for the partition" % o["name"]
    nb = min(R, N) - 1
    if len(set(ids(backups))) != len(backups):
        return "a member is listed twice among the backups"
    if len(backups) < nb:
        return "%d backup owners, min(R,N)-1 = %d" % (len(backups), nb)
    cur = backups[len(backups) - nb:] if nb else []
    want = (res["closest"][min(R, N) - 1] or [None])[1:]
    if cur != want:
        return "current backup owners %s are not the ring's closest members %s" % ([m["name"] for m in cur], [m and m["name"] for m in want])
    for b in cur:
        if not is_live(b) or b["id"] == owners[-1]["id"]:
            return "current backup owner %s is not a live member other than the primary" % b["name"]
    for b in backups[:len(backups) - nb]:
        if not is_live(b):
            return "listed backup %s#%d is not a live member" % (b["name"], b["id"])
        if lb.get(b["name"], 0) == 0:
            return "listed further backup %s holds no data for the partition" % b["name"]
    return None


class Names:
    """address strings -> small numbers (per generated file)"""

    def __init__(self):
        self.d = {}

    def __call__(self, name):
        if name not in self.d:
            self.d[name] = len(self.d) + 1
        return self.d[name]


def cmember(nm, m):
    return "(mk %d %d %s)" % (nm(m["name"]), m["id"], cZ(m["birth"]))


def cmembers(nm, ms):
    return clist(cmember(nm, m) for m in (ms or []))


def clens(nm, d):
    return clist("(%s, %s)" % (cN(nm(k)), copt(None if v is None else cN(v))) for k, v in sorted(d.items()))


def dcase_to_coq(case, res):
    nm = Names()
    closest = clist(copt(None if c is None else cmembers(nm, c)) for c in res["closest"])
    return ("{| d_live := %s; d_R := %s; d_ring_owner := %s; d_closest := %s; d_prev_o := %s; d_prev_b := %s; "
            "d_len_p := %s; d_len_b := %s; d_owners := %s; d_backups := %s; d_facts := %s |}") % (
        cmembers(nm, res["live"]), cnat(case["r"]), cmember(nm, res["ring_owner"]), closest,
        cmembers(nm, res["prev_owners"]), cmembers(nm, res["prev_backups"]),
        clens(nm, lens_by_name(case, res, "len_p")), clens(nm, lens_by_name(case, res, "len_b")),
        cmembers(nm, res["owners"]), cmembers(nm, res["backups"]), cbool(diff_facts(case, res)))


HEADER = """From Coq Require Import List NArith ZArith Bool.
Require Import Olric.Gen.Consts Olric.Model.Routing Olric.Model.RoutingRun.
Import ListNotations.
Definition mk n i b := {| m_name := n; m_id := i; m_birth := b |}.
"""


def parse_pairs(out):
    body = out.split("M =", 1)[1] if "M =" in out else ""
    body = body.rsplit(":", 1)[0]
    flat = " ".join(body.split())
    if flat.strip() in ("[]", "nil"):
        return []
    got = [(int(a), int(b)) for a, b in re.findall(r"\((\d+)(?:%nat)?, (\d+)(?:%nat)?\)", flat)]
    if not got:
        raise vlib.CheckError("unparsed coq output: " + flat[:300])
    return got


def coq_run(prefix, kind, terms, shard, jobs=16):
    """terms: list of (key, coq term). Returns ([(key, code)], seconds)."""
    fn = {"d": ("dcase", "d_mismatches"), "m": ("mcase", "m_mismatches"), "r": ("rcase", "r_mismatches")}[kind]
    shards = [terms[i:i + shard] for i in range(0, len(terms), shard)]
    texts = []
    for sh in shards:
        texts.append(HEADER + "Definition cases : list %s := [\n" % fn[0] + ";\n".join(t for _, t in sh) +
                     "\n].\nDefinition M := Eval vm_compute in %s cases 0.\nPrint M.\n" % fn[1])
    outs = vlib.coq_eval_shards(prefix, texts, jobs=jobs)
    mism, secs = [], 0.0
    for sh, (rc, out, err, dt) in zip(shards, outs):
        secs += dt
        if rc != 0:
            raise vlib.CheckError("coqc failed on generated cases: " + err[-3000:])
        for i, code in parse_pairs(out):
            mism.append((sh[i][0], code))
    return mism, secs


def coq_model_outputs(case, res):
    """the model's owners/backups for one case, as Coq prints them (for replays)"""
    text = HEADER + "Definition c := %s.\nEval vm_compute in (model_owners c, model_backups c).\n" % dcase_to_coq(case, res)
    rc, out, err, _ = vlib.coq_eval("c13one", text)
    return " ".join(out.split())[:2000] if rc == 0 else err[-500:]


def shrink_diff(case, still_fails):
    """greedy minimisation of a differential case: drop previous owners/backups, lengths, lower R"""
    cur = json.loads(json.dumps(case))
    changed = True
    while changed:
        changed = False
        for key in ("prev_owners", "prev_backups"):
            i = 0
            while i < len(cur[key]):
                cand = json.loads(json.dumps(cur))
                del cand[key][i]
                if still_fails(cand):
                    cur, changed = cand, True
                else:
                    i += 1
        for key in ("len_p", "len_b"):
            for k in list(cur[key]):
                cand = json.loads(json.dumps(cur))
                del cand[key][k]
                if still_fails(cand):
                    cur, changed = cand, True
        if cur["r"] > 1:
            cand = dict(cur, r=cur["r"] - 1)
            if still_fails(cand):
                cur, changed = cand, True
    return cur


# ------------------------------------------------------------------------------------------
# end-to-end membership scripts
# ------------------------------------------------------------------------------------------

MAX_MEMBERS = 6


def gen_script(rng, sid, tier, P=None, R=None, maxlen=None, allow_kill_rejoin=False):
    """A membership script. python tracks who is alive so that every op is feasible."""
    P = P or rng.choice([7, 13] if tier == "quick" else [7, 13, 13, 271])
    R = R or rng.choice([1, 2, 2, 3])
    maxlen = maxlen or (4 if tier == "quick" else 7)
    L = rng.randrange(1, maxlen + 1)
    init = rng.randrange(1, MAX_MEMBERS + 1)
    # members: list of dicts {alive, slot, how}; slot = address identity
    members = [{"alive": True, "slot": i, "how": None} for i in range(init)]
    script = []
    if rng.random() < 0.75:
        script.append(["put", rng.choice([10, 40])])
    n = 0
    while n < L:
        live = [i for i, m in enumerate(members) if m["alive"]]
        used_slots = {members[i]["slot"] for i in live}
        rejoinable = [i for i, m in enumerate(members) if not m["alive"] and m["slot"] not in used_slots and
                      (m["how"] == "stop" or allow_kill_rejoin)]
        # only the latest incarnation of a slot can be re-joined
        latest = {}
        for i, m in enumerate(members):
            latest[m["slot"]] = i
        rejoinable = [i for i in rejoinable if latest[members[i]["slot"]] == i]
        choices = []
        if len(live) < MAX_MEMBERS:
            choices += ["join"] * 3
            if rejoinable:
                choices += ["rejoin"] * 4
        if len(live) > 1:
            choices += ["stop"] * 3 + ["kill"] * 2
        if not choices:
            break
        op = rng.choice(choices)
        if op == "join":
            members.append({"alive": True, "slot": len(members) + 100, "how": None})
            script.append(["join"])
        elif op == "rejoin":
            i = rng.choice(rejoinable)
            members.append({"alive": True, "slot": members[i]["slot"], "how": None})
            script.append(["rejoin", i])
        else:
            # the coordinator is the oldest live member = the live member started first
            i = live[0] if rng.random() < 0.45 else rng.choice(live)
            members[i]["alive"] = False
            members[i]["how"] = op
            script.append([op, i])
        n += 1
        r = rng.random()
        if r < 0.35:
            script.append(["wait"])
        elif r < 0.5:
            script.append(["put", 10])
    keys = ["k%d-%d" % (sid, j) for j in range(5)]
    return {"id": sid, "p": P, "r": R, "init": init, "script": script, "keys": keys,
            "timeout_ms": 45000 if tier == "quick" else 90000}


def run_membership(scenarios, procs=5, timeout=1500):
    """Run the scripts on real clusters, `procs` harness processes in parallel. Returns {id: dump}."""
    from concurrent.futures import ThreadPoolExecutor
    buckets = [[] for _ in range(max(1, min(procs, len(scenarios))))]
    # longest first, round robin
    order = sorted(scenarios, key=lambda s: -len(s["script"]))
    for i, s in enumerate(order):
        buckets[i % len(buckets)].append(s)

    def one(bucket):
        inp = "".join(json.dumps(s) + "\n" for s in bucket)
        p = vlib.harness(["membership13"], input=inp, timeout=timeout)
        out = {}
        for line in p.stdout.splitlines():
            line = line.strip()
            if line.startswith("{"):
                r = json.loads(line)
                out[r["id"]] = r
        for s in bucket:
            if s["id"] not in out:
                out[s["id"]] = {"id": s["id"], "env_error": "harness produced no dump (rc=%d): %s" % (p.returncode, p.stderr[-400:])}
        return out

    results = {}
    with ThreadPoolExecutor(max_workers=len(buckets)) as ex:
        for d in ex.map(one, buckets):
            results.update(d)
    return results


def load_bound(P, N, load):
    fr = Fraction(load).limit_denominator(1000)
    return math.ceil((P // N) * fr) if N else 0


def norm_routes(rs):
    return [[list(r.get("o") or []), list(r.get("b") or [])] for r in (rs or [])]


def names_of_table(t):
    return [[[m["name"] for m in r["o"] or []], [m["name"] for m in r["b"] or []]] for r in t]


def table_key(t):
    return json.dumps([[[(m["name"], m["id"], m["birth"]) for m in (r["o"] or [])], [(m["name"], m["id"], m["birth"]) for m in (r["b"] or [])]] for r in t])


def valid_table_py(sc, dump, table):
    """C13 on one table: None when valid, else a message. live = the members that are really alive."""
    live = {m["self"]["id"]: m for m in dump["members"]}
    N, R, P = len(live), sc["r"], sc["p"]
    nb = min(R, N) - 1

    def is_live(m):
        return m["id"] in live and live[m["id"]]["self"]["name"] == m["name"]

    if len(table) != P:
        return "the table has %d partitions, the cluster has %d" % (len(table), P)
    owned = {}
    for p, r in enumerate(table):
        owners, backups = r["o"] or [], r["b"] or []
        if not owners:
            return "partition %d has no primary owner" % p
        prim = owners[-1]
        if not is_live(prim):
            return "partition %d: primary owner %s#%d is not a live member" % (p, prim["name"], prim["id"])
        owned[prim["id"]] = owned.get(prim["id"], 0) + 1
        if len({m["id"] for m in owners}) != len(owners) or len({m["id"] for m in backups}) != len(backups):
            return "partition %d lists a member twice" % p
        for o in owners[:-1]:
            if not is_live(o):
                return "partition %d lists departed member %s#%d as owner" % (p, o["name"], o["id"])
            if live[o["id"]]["lenp"][p] == 0:
                return "partition %d lists previous owner %s which holds no data for it" % (p, o["name"])
        if len(backups) < nb:
            return "partition %d has %d backup owners, min(R,N)-1 = %d" % (p, len(backups), nb)
        cur = backups[len(backups) - nb:] if nb else []
        for b in cur:
            if not is_live(b):
                return "partition %d: backup owner %s#%d is not a live member" % (p, b["name"], b["id"])
            if b["id"] == prim["id"]:
                return "partition %d: %s is primary and current backup owner" % (p, b["name"])
        for b in backups[:len(backups) - nb]:
            if not is_live(b):
                return "partition %d lists departed member %s#%d as backup" % (p, b["name"], b["id"])
            if live[b["id"]]["lenb"][p] == 0:
                return "partition %d lists further backup %s which holds no data for it" % (p, b["name"])
    bound = load_bound(P, N, dump["load"])
    for i, c in owned.items():
        if c > bound:
            return "%s owns %d partitions, the load factor allows %d" % (live[i]["self"]["name"], c, bound)
    return None


def membership_predicate(sc, dump):
    """C13 on the dump of one script. Returns a list of messages (empty = the property holds)."""
    bad = []
    ms = dump["members"]
    if not ms:
        return ["no live member was dumped"]
    P = sc["p"]
    if dump["settle"]["kind"] == "ring":
        return ["memberlist's views agreed with the live members for %d ms but olric's own bookkeeping did not follow: %s" % (
            dump["settle"].get("since_change_ms", 0), dump["settle"].get("why"))]
    if dump["settle"]["kind"] == "none":
        bad.append("membership was agreed for %d ms but the routing tables never became equal and steady: %s" % (
            dump["settle"]["waited_ms"] - dump["settle"]["membership_ms"], dump["settle"].get("why")))
    live_ids = sorted(m["self"]["id"] for m in ms)
    oldest = min((m["self"] for m in ms), key=lambda s: s["birth"])
    t0 = ms[0]["table"]
    names0 = names_of_table(t0)
    for m in ms:
        who = m["self"]["name"]
        if sorted(v["id"] for v in m["view"]) != live_ids:
            bad.append("%s: membership view differs from the live members" % who)
        if m["coordinator"]["id"] != oldest["id"]:
            bad.append("%s names %s as coordinator, the oldest live member is %s" % (who, m["coordinator"]["name"], oldest["name"]))
        if m["is_coordinator"] != (m["self"]["id"] == oldest["id"]):
            bad.append("%s: IsCoordinator() = %s" % (who, m["is_coordinator"]))
        v = valid_table_py(sc, dump, m["table"])
        if v:
            bad.append("%s: %s" % (who, v))
        if table_key(m["table"]) != table_key(t0):
            bad.append("%s and %s hold different routing tables" % (who, ms[0]["self"]["name"]))
        for label, tab, err in (("CLUSTER.ROUTINGTABLE", m.get("resp_table"), m.get("resp_table_err")),
                                ("EmbeddedClient.RoutingTable", m.get("emb_table"), m.get("emb_table_err"))):
            if err:
                bad.append("%s: %s failed: %s" % (who, label, err))
            elif [[r.get("o") or [], r.get("b") or []] for r in (tab or [])] != names0 or [r["part"] for r in tab or []] != list(range(P)):
                bad.append("%s: %s differs from the members' table" % (who, label))
        if m.get("resp_members_err"):
            bad.append("%s: CLUSTER.MEMBERS failed: %s" % (who, m["resp_members_err"]))
        else:
            rm = m["resp_members"] or []
            if sorted(x[0] for x in rm) != sorted(x["self"]["name"] for x in ms):
                bad.append("%s: CLUSTER.MEMBERS lists %s" % (who, [x[0] for x in rm]))
            flagged = [x[0] for x in rm if x[2] == "true"]
            if flagged != [oldest["name"]]:
                bad.append("%s: CLUSTER.MEMBERS flags %s as coordinator, the oldest live member is %s" % (who, flagged, oldest["name"]))
        if m["verify_from_coordinator"] != "ok":
            bad.append("%s would reject a table pushed by the coordinator" % who)
        if m["verify_from_other"] not in ("", "rejected"):
            bad.append("%s would accept a table pushed by a member that is not the coordinator" % who)
        if m["ring"]["problems"]:
            bad.append("%s: ring fact violated: %s" % (who, m["ring"]["problems"][0]))
        if sorted(x["id"] for x in m["ring"]["members"]) != live_ids:
            bad.append("%s: hash ring members differ from the live members" % who)
        for kv in m["keys"]:
            if kv["part"] != kv["hkey"] % P:
                bad.append("%s maps key %s to partition %d, hkey mod P = %d" % (who, kv["key"], kv["part"], kv["hkey"] % P))
            want = (t0[kv["part"]]["o"] or [{"name": None}])[-1]["name"] if kv["part"] < len(t0) else None
            if kv["owner"] != want:
                bad.append("%s routes key %s to %s, the table's owner is %s" % (who, kv["key"], kv["owner"], want))
    c = dump["client"]
    if c.get("err"):
        bad.append("cluster client: %s" % c["err"])
    else:
        if [[r.get("o") or [], r.get("b") or []] for r in c["table"]] != names0:
            bad.append("the cluster client's routing table differs from the members' table")
        if sorted(x["id"] for x in c["members"] or []) != live_ids:
            bad.append("the cluster client's member list differs from the live members")
        if c["coordinators"] != [oldest["name"]]:
            bad.append("the cluster client sees coordinators %s" % c["coordinators"])
        hk = {kv["key"]: kv for kv in ms[0]["keys"]}
        for ck in c["keys"]:
            kv = hk[ck["key"]]
            if ck.get("err"):
                bad.append("cluster client: smartPick(%s): %s" % (ck["key"], ck["err"]))
                continue
            if ck["pcount"] != P or ck["part"] != kv["part"]:
                bad.append("cluster client maps key %s to partition %d of %d, the members to %d of %d" % (ck["key"], ck["part"], ck["pcount"], kv["part"], P))
            if ck["addr"] != kv["owner"] or ck["addr_by_part"] != ck["addr"]:
                bad.append("cluster client routes key %s to %s, the members to %s" % (ck["key"], ck["addr"], kv["owner"]))
    return bad


def ctable(nm, t):
    return clist("{| r_owners := %s; r_backups := %s |}" % (cmembers(nm, r["o"]), cmembers(nm, r["b"])) for r in t)


def mcase_to_coq(sc, dump):
    nm = Names()
    ms = dump["members"]
    live = sorted((m["self"] for m in ms), key=lambda s: s["birth"], reverse=True)   # any order: the model sorts
    distinct, keys = [], []
    for m in ms:
        k = table_key(m["table"])
        if k not in keys:
            keys.append(k)
            distinct.append(m["table"])
    verdicts = [valid_table_py(sc, dump, t) is None for t in distinct]
    coords = {m["coordinator"]["id"] for m in ms}
    coord_member = None
    if len(coords) == 1:
        cm = ms[0]["coordinator"]
        coord_member = cmember(nm, cm)
    cidx, cring = 0, ms[0]["ring"]
    for m in ms:
        if m["is_coordinator"]:
            cidx, cring = keys.index(table_key(m["table"])), m["ring"]
            break
    lens = []
    for m in ms:
        for kind, arr in ((0, m["lenp"]), (1, m["lenb"])):
            for p, n in enumerate(arr):
                if n:
                    lens.append("(%s, %s, %s, %s)" % (cN(kind), cN(p), cN(nm(m["self"]["name"])), cN(n)))
    fr = Fraction(dump["load"]).limit_denominator(1000)
    closest = clist(clist(copt(None if c is None else cmembers(nm, c)) for c in per) for per in cring["closest"])
    return ("{| c_live := %s; c_R := %s; c_P := %s; c_load_num := %s; c_load_den := %s; c_len := %s; c_tables := %s; "
            "c_verdicts := %s; c_coord := %s; c_coord_table := %s; c_ring_owners := %s; c_ring_closest := %s; c_check_fix := %s |}") % (
        cmembers(nm, live), cnat(sc["r"]), cnat(sc["p"]), cN(fr.numerator), cN(fr.denominator), clist(lens),
        clist(ctable(nm, t) for t in distinct), clist(cbool(v) for v in verdicts), copt(coord_member), cnat(cidx),
        cmembers(nm, cring["owners"]), closest, cbool(dump["settle"]["kind"] in ("strict", "weak")))


M_CODES = {1: "coordinator: the model's argmin-birthdate differs from the member every node names",
           2: "fixpoint: recomputing the coordinator's table with the model (real ring answers, real fragment lengths) changes it",
           99: "verdict list length"}


def shrink_script(sc, still_fails, max_runs=12):
    """drop script steps (keeping feasibility is the harness's business: infeasible ops are reported as errors)"""
    cur = json.loads(json.dumps(sc))
    runs = 0
    i = 0
    while i < len(cur["script"]) and runs < max_runs:
        cand = json.loads(json.dumps(cur))
        removed = cand["script"].pop(i)
        # indices of later members shift when a join is removed: only drop ops that do not create members
        if removed[0] in ("join", "rejoin"):
            i += 1
            continue
        runs += 1
        if still_fails(cand):
            cur = cand
        else:
            i += 1
    return cur


# ------------------------------------------------------------------------------------------
# left-over-data reports (left_over_data.go): differential of processLeftOverDataReports / prepareLeftOverDataReport
# ------------------------------------------------------------------------------------------

def gen_reports_case(rng, cid, setup):
    small = [s for s in setup if s["p"] <= 23]
    s = rng.choice(small)
    n, P = s["n"], s["p"]
    parts = sorted(rng.sample(range(P), rng.randrange(1, min(P, 5) + 1)))
    table = {}
    for p in parts:
        table[str(p)] = {"o": gen_prev(rng, n, False), "b": gen_prev(rng, n, False)}
    pool = [{"k": "live", "i": i} for i in range(n)] + [{"k": "rejoin", "i": i} for i in range(n)]
    rng.shuffle(pool)
    reporters = pool[:rng.randrange(1, min(3, len(pool)) + 1)]
    # every (partition, kind) is reported by at most one member: Go iterates the report map in random order
    free_p, free_b = list(parts), list(parts)
    reports = []
    for m in reporters:
        rp = [p for p in free_p if rng.random() < 0.5]
        rb = [p for p in free_b if rng.random() < 0.4]
        free_p = [p for p in free_p if p not in rp]
        free_b = [p for p in free_b if p not in rb]
        reports.append({"m": m, "parts": rp, "backups": rb})
    return {"id": cid, "op": "reports", "n": n, "p": P, "table": table, "reports": reports,
            "frag_p": sorted(rng.sample(range(P), rng.randrange(0, min(P, 4) + 1))),
            "frag_b": sorted(rng.sample(range(P), rng.randrange(0, min(P, 4) + 1)))}


def reports_predicate(case, res):
    """left_over_data.go: a reporter that is not listed (by id) is put in front of the list; nothing else changes;
    update.go: the report lists exactly the partitions that hold data. None = fine."""
    want = {k: {"o": list(v["o"]), "b": list(v["b"])} for k, v in res["before"].items()}
    for rep, m in zip(case["reports"], res["reporters"]):
        for kind, ps in (("o", rep["parts"]), ("b", rep["backups"])):
            for p in ps:
                lst = want[str(p)][kind]
                if m["id"] not in [x["id"] for x in lst]:
                    want[str(p)][kind] = [m] + lst
    for k in want:
        got = res["after"][k]
        for kind in ("o", "b"):
            if (got[kind] or []) != want[k][kind]:
                return "partition %s (%s): lists after the reports are %s, expected %s" % (
                    k, kind, [x["name"] for x in got[kind] or []], [x["name"] for x in want[k][kind]])
    if sorted(res["prepared_parts"] or []) != case["frag_p"] or sorted(res["prepared_backups"] or []) != case["frag_b"]:
        return "the report lists partitions %s / %s, data is held in %s / %s" % (
            res["prepared_parts"], res["prepared_backups"], case["frag_p"], case["frag_b"])
    return None


def rcase_to_coq(case, res):
    nm = Names()
    P = res["p"]

    def tab(d):
        rows = []
        for p in range(P):
            r = d.get(str(p))
            rows.append("{| r_owners := %s; r_backups := %s |}" % (cmembers(nm, r["o"] if r else []), cmembers(nm, r["b"] if r else [])))
        return clist(rows)

    reps = clist("{| rp_member := %s; rp_parts := %s; rp_backups := %s |}" % (
        cmember(nm, m), clist(cnat(p) for p in rep["parts"]), clist(cnat(p) for p in rep["backups"]))
        for rep, m in zip(case["reports"], res["reporters"]))
    return ("{| rc_P := %s; rc_before := %s; rc_reports := %s; rc_after := %s; rc_frag_p := %s; rc_frag_b := %s; "
            "rc_prep_p := %s; rc_prep_b := %s |}") % (
        cnat(P), tab(res["before"]), reps, tab(res["after"]),
        clist(cnat(p) for p in case["frag_p"]), clist(cnat(p) for p in case["frag_b"]),
        clist(cnat(p) for p in res["prepared_parts"] or []), clist(cnat(p) for p in res["prepared_backups"] or []))
