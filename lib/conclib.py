# Concurrent histories on real clusters (harness `conc`) judged by the linearizability checker of Model/Lin.v
# evaluated inside Coq (sound by Proofs/LinProofs.search_sound), plus closed-form predicates.
import json
import re

import vlib
from vlib import cZ, cnat, clist

HEADER = """From Coq Require Import List ZArith Bool.
Require Import Olric.Model.Lin.
Import ListNotations.
Local Open Scope Z_scope.
"""


def run_conc(cluster_cfg, scenarios, timeout=900):
    inp = json.dumps(cluster_cfg) + "\n" + "".join(json.dumps({k: v for k, v in s.items() if not k.startswith("_")}) + "\n" for s in scenarios)
    p = vlib.harness(["conc"], input=inp, timeout=timeout)
    out = {}
    for line in p.stdout.splitlines():
        if line.startswith("{"):
            r = json.loads(line)
            out[r["id"]] = r
    if p.returncode != 0 and len(out) < len(scenarios):
        raise vlib.CheckError("conc harness failed rc=%d after %d/%d scenarios: %s" % (p.returncode, len(out), len(scenarios), p.stderr[-1500:]))
    return out


def run_groups(groups, jobs=6):
    from concurrent.futures import ThreadPoolExecutor
    res = {}
    with ThreadPoolExecutor(max_workers=jobs) as ex:
        futs = [ex.submit(run_conc, cfg, scs) for cfg, scs in groups]
        for f in futs:
            res.update(f.result())
    return res


def ev(n0, n1, op, res):
    return "(Build_event %s %s (%s) (%s))" % (cZ(n0), cZ(n1), op, res)


def lin_eval(prefix, kind, histories, shard=40, fuel_extra=2, timeout=240):
    """histories: list of (id, init, [event terms]). kind in register|counter|lock.
    Returns {id: True | False | None(inconclusive)}"""
    fn = {"register": "lin_register", "counter": "lin_counter", "lock": "lin_lock"}[kind]
    shards = [histories[i:i + shard] for i in range(0, len(histories), shard)]
    texts = []
    for sh in shards:
        items = []
        for hid, init, evs in sh:
            fuel = len(evs) + fuel_extra
            if kind == "counter":
                items.append("%s %s %s %s" % (fn, cnat(fuel), init, clist(evs)))
            else:
                items.append("%s %s %s" % (fn, cnat(fuel), clist(evs)))
        texts.append(HEADER + "Definition R := Eval vm_compute in [\n" + ";\n".join(items) + "\n].\nPrint R.\n")
    outs = vlib.coq_eval_shards(prefix, texts, timeout=timeout)
    verdict = {}
    secs = 0.0
    for sh, (rc, out, err, dt) in zip(shards, outs):
        secs += dt
        if rc != 0 or "R =" not in out:
            if rc == 124 or "Timeout" in err or rc == -9:
                for hid, _, _ in sh:
                    verdict[hid] = None
                continue
            raise vlib.CheckError("coqc failed on generated histories: " + (err or out)[-1500:])
        vals = re.findall(r"\b(true|false)\b", out.split("R =", 1)[1].rsplit(":", 1)[0])
        if len(vals) != len(sh):
            raise vlib.CheckError("unexpected checker output: " + out[-500:])
        for (hid, _, _), v in zip(sh, vals):
            verdict[hid] = (v == "true")
    return verdict, secs


def flatten(sc, result):
    """all (client index, op, obs) of the concurrent section"""
    out = []
    for ci, (cl, obs) in enumerate(zip(sc["clients"], result["clients"])):
        for op, ob in zip(cl["ops"], obs):
            out.append((ci, op, ob))
    return out
