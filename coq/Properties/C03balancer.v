(* C02 / C03, the balancer's decisions (Model/Balancer.v = internal/cluster/balancer/balancer.go): which fragments one
   balancer run moves and where.  "Rebalancing neither loses nor duplicates keys" rests on two facts about these
   decisions: data only leaves a member that must not hold it, and it only goes to the members that must. *)
From Coq Require Import List NArith Bool.
Require Import Olric.Model.Balancer Olric.Model.BalancerRun Olric.Proofs.BalancerProofs.
Import ListNotations.
Local Open Scope N_scope.

(* For every member, ReplicaCount, number of partitions, owners lists and fragment contents: a planned move of primary
   data concerns a partition whose owner (last entry of the owners list) is another member, names a non-empty fragment
   and has that owner as its only target. *)
Theorem C03_primary_moves_sound : forall this r prim back m,
  In m (plan this r prim back) -> mkind m = KPrimary ->
  exists p o, nth_error prim (N.to_nat (mpart m)) = Some p /\ owner_of p = Some o /\ o <> this /\ mtargets m = [o] /\
              In (mname m) (nonempty_frags p).
Proof. exact primary_moves_sound. Qed.

(* A planned move of backup data: ReplicaCount > 1, this member is not one of the current backup owners (the last
   ReplicaCount-1 entries of the backup owners list), and the targets are exactly those. *)
Theorem C03_backup_moves_sound : forall this r prim back m,
  In m (plan this r prim back) -> mkind m = KBackup ->
  (1 < r)%nat /\
  exists p, nth_error back (N.to_nat (mpart m)) = Some p /\ mtargets m = current_backups r p /\ mtargets m <> [] /\
            ~ In this (current_backups r p) /\ In (mname m) (nonempty_frags p).
Proof. exact backup_moves_sound. Qed.

(* a rightful holder never gives its data away, and nobody sends data to itself *)
Theorem C02_owner_keeps_primary : forall this r prim back m p,
  In m (plan this r prim back) -> mkind m = KPrimary -> nth_error prim (N.to_nat (mpart m)) = Some p ->
  owner_of p <> Some this.
Proof. exact owner_keeps_primary. Qed.

Theorem C02_current_backup_keeps : forall this r prim back m p,
  In m (plan this r prim back) -> mkind m = KBackup -> nth_error back (N.to_nat (mpart m)) = Some p ->
  ~ In this (current_backups r p).
Proof. exact current_backup_keeps. Qed.

Theorem C03_never_moves_to_itself : forall this r prim back m, In m (plan this r prim back) -> ~ In this (mtargets m).
Proof. exact never_moves_to_itself. Qed.

(* completeness: every non-empty fragment on a member that must not hold it is moved to the rightful holders *)
Theorem C03_primary_moves_complete : forall this r prim back i p o n len,
  nth_error prim i = Some p -> owner_of p = Some o -> o <> this -> In (n, len) (bfrags p) -> len <> 0 ->
  In {| mkind := KPrimary; mpart := N.of_nat i; mname := n; mtargets := [o] |} (plan this r prim back).
Proof. exact primary_moves_complete. Qed.

Theorem C03_backup_moves_complete : forall this r prim back i p n len,
  (1 < r)%nat -> nth_error back i = Some p -> bowners p <> [] -> ~ In this (current_backups r p) ->
  In (n, len) (bfrags p) -> len <> 0 ->
  In {| mkind := KBackup; mpart := N.of_nat i; mname := n; mtargets := current_backups r p |} (plan this r prim back).
Proof. exact backup_moves_complete. Qed.

Theorem C03_no_backup_moves_without_replicas : forall this r prim back m,
  (r <= 1)%nat -> In m (plan this r prim back) -> mkind m = KPrimary.
Proof. exact no_backup_moves_without_replicas. Qed.

(* non-vacuity: member 2 of a 3-member cluster with ReplicaCount 2. Partition 0: it is the previous owner (moves both
   non-empty fragments to the owner 0), partition 1: it is the owner (keeps). Backups: partition 0: it is the current
   backup owner (keeps), partition 1: the current backup owner is 1 (moves). *)
Example C03_balancer_example :
  plan 2 2 [ {| bowners := [2; 0]; bfrags := [(1, 3); (2, 0); (3, 1)] |}; {| bowners := [0; 2]; bfrags := [(1, 5)] |} ]
           [ {| bowners := [1; 2]; bfrags := [(1, 3)] |}; {| bowners := [2; 1]; bfrags := [(1, 5)] |} ] =
  [ {| mkind := KPrimary; mpart := 0; mname := 1; mtargets := [0] |};
    {| mkind := KPrimary; mpart := 0; mname := 3; mtargets := [0] |};
    {| mkind := KBackup; mpart := 1; mname := 1; mtargets := [1] |} ].
Proof. reflexivity. Qed.
