(* C16 - no request can crash or wedge a member: the theorems (statements only; proofs in Proofs/ProtoProofs.v). *)
From Coq Require Import String Ascii.
From Coq Require Import List NArith ZArith Bool.
Require Import Olric.Model.Proto Olric.Proofs.ProtoProofs.
Import ListNotations.

(* Whatever the argument vector, whatever strconv.ParseFloat answers (the float oracle) - every parser of the
   command table returns a parsed request or an error: it never indexes past the vector (PPanic) and its loops finish
   within the fuel `length args + 1` that the model gives them (PSpin). *)
Theorem C16_parsers_total :
  forall (F : Type) (fzero : F) (parse_float : tok -> num_res F) (fdur : F -> Z) (c : cmd) (args : list tok),
    (exists r, parse F fzero parse_float fdur c args = POk r) \/
    (exists e, parse F fzero parse_float fdur c args = PErr e).
Proof. intros. apply safe_cases. apply parse_safe. Qed.

(* The same, parser by parser (each Parse*Command of internal/protocol). *)
Theorem C16_each_parser_total :
  forall (F : Type) (fzero : F) (parse_float : tok -> num_res F) (fdur : F -> Z) (args : list tok),
    safe (parse_put F fzero parse_float args) /\ safe (parse_putentry args) /\ safe (parse_get args) /\
    safe (parse_getentry args) /\ safe (parse_del args) /\ safe (parse_delentry args) /\ safe (parse_pexpire args) /\
    safe (parse_expire F parse_float fdur args) /\ safe (parse_destroy args) /\ safe (parse_scan args) /\
    safe (parse_incr args) /\ safe (parse_getput args) /\ safe (parse_incrbyfloat F parse_float args) /\
    safe (parse_lock F fzero parse_float args) /\ safe (parse_unlock args) /\ safe (parse_locklease F parse_float args) /\
    safe (parse_plocklease args) /\ safe (parse_ping args) /\ safe (parse_movefragment args) /\
    safe (parse_updaterouting args) /\ safe (parse_lengthofpart args) /\ safe (parse_stats args) /\
    safe (parse_publish args) /\ safe (parse_subscribe args) /\ safe (parse_pubsub_channels args) /\
    safe (parse_pubsub_numpat args) /\ safe (parse_pubsub_numsub args) /\ safe (parse_cluster_noargs args).
Proof.
  intros. repeat split;
    first [ apply parse_put_safe | apply parse_putentry_safe | apply parse_get_safe | apply parse_getentry_safe
          | apply parse_del_safe | apply parse_delentry_safe | apply parse_pexpire_safe | apply parse_expire_safe
          | apply parse_destroy_safe | apply parse_scan_safe | apply parse_incr_safe | apply parse_getput_safe
          | apply parse_incrbyfloat_safe | apply parse_lock_safe | apply parse_unlock_safe | apply parse_locklease_safe
          | apply parse_plocklease_safe | apply parse_ping_safe | apply parse_movefragment_safe
          | apply parse_updaterouting_safe | apply parse_lengthofpart_safe | apply parse_stats_safe
          | apply parse_publish_safe | apply parse_subscribe_safe | apply parse_pubsub_channels_safe
          | apply parse_pubsub_numpat_safe | apply parse_pubsub_numsub_safe | apply parse_cluster_noargs_safe ].
Qed.

(* The termination claim on its own: every loop of the parsers (option loops of DM.PUT and DM.SCAN, the channel
   loops of the pub/sub parsers, the message loop of errWrongNumber) finishes within any fuel above the number of
   arguments it still has to look at. *)
Theorem C16_loops_terminate :
  forall (F : Type) (parse_float : tok -> num_res F) (fuel : nat) (args : list tok),
    length args < fuel ->
    (forall p, safe (put_opts F parse_float fuel args p)) /\
    (forall s, safe (scan_opts fuel args s)) /\
    (forall acc, safe (collect_loop fuel args acc)) /\
    (forall acc, exists t, wrong_number_loop fuel args acc = POk t).
Proof.
  intros F pf fuel args H. repeat split; intros.
  - apply put_opts_safe; exact H.
  - apply scan_opts_safe; exact H.
  - apply collect_loop_safe; exact H.
  - apply wrong_number_loop_ok; exact H.
Qed.

(* mux.go + handler.go: for every argument vector (the empty one and `pubsub` alone included), every set of
   registered names that does not contain the bare word "pubsub", and every behaviour of the precondition, the
   dispatch never indexes past the vector; and the only handlers it can run are registered ones. *)
Theorem C16_dispatch_total :
  forall (regs : list tok) (precond : option bool) (args : list tok),
    registered regs kw_pubsub = false ->
    mux_serve regs precond args <> DPanic /\
    (forall name pre, mux_serve regs precond args = DHandled name pre -> registered regs name = true).
Proof.
  intros regs precond args H. destruct (mux_serve_total regs precond args H) as [Hp Hn].
  split; [exact Hp|]. intros name pre E. apply Hn. rewrite E. reflexivity.
Qed.

(* DMap.Scan, lengthOfPartCommandHandler, updateRoutingCommandHandler: an id that is not a partition is rejected
   before any dereference, an id that is one is dereferenced, and a nil partition / nil route is never dereferenced. *)
Theorem C16_ids_validated :
  forall (pcount : N),
    (forall id, ((pcount <= id)%N -> scan_decision pcount id = Reject EInvalidPart) /\
                ((id < pcount)%N -> scan_decision pcount id = Deref id) /\
                scan_decision pcount id <> NilDeref) /\
    (forall id, ((pcount <= id)%N -> lengthofpart_decision pcount id = Reject EInvalidPart) /\
                ((id < pcount)%N -> lengthofpart_decision pcount id = Deref id) /\
                lengthofpart_decision pcount id <> NilDeref) /\
    (forall table, ~ In NilDeref (updaterouting_decision pcount table) /\
                   ((exists e, In e table /\ ((pcount <= fst e)%N \/ snd e = false)) ->
                    exists err, updaterouting_decision pcount table = [Reject err])).
Proof.
  intro pcount. split; [|split].
  - apply scan_decision_spec.
  - apply lengthofpart_decision_spec.
  - apply updaterouting_decision_spec.
Qed.

(* ---- the hypotheses are met, the statements are not vacuous ---- *)
Definition olric_registered : list tok := map bytes_of
  ["cluster.members"; "cluster.routingtable"; "dm.decr"; "dm.del"; "dm.delentry"; "dm.destroy"; "dm.expire"; "dm.get";
   "dm.getentry"; "dm.getput"; "dm.incr"; "dm.incrbyfloat"; "dm.lock"; "dm.locklease"; "dm.pexpire"; "dm.plocklease";
   "dm.put"; "dm.putentry"; "dm.scan"; "dm.unlock"; "internal.node.lengthofpart"; "internal.node.movefragment";
   "internal.node.updaterouting"; "ping"; "psubscribe"; "publish"; "publish.internal"; "pubsub channels";
   "pubsub numpat"; "pubsub numsub"; "stats"; "subscribe"]%string.

Example olric_has_no_bare_pubsub : registered olric_registered kw_pubsub = false.
Proof. vm_compute. reflexivity. Qed.

Example dispatch_pubsub_numpat :
  mux_serve olric_registered (Some true) [bytes_of "PUBSUB"; bytes_of "numpat"] = DHandled (bytes_of "pubsub numpat") true.
Proof. vm_compute. reflexivity. Qed.

Example dispatch_pubsub_alone : mux_serve olric_registered (Some true) [bytes_of "pubsub"] = DWrongArgs.
Proof. vm_compute. reflexivity. Qed.

(* the former D16 witnesses are error replies now *)
Example put_px_without_value :
  parse_put N 0%N (fun _ => NSyntax) (map bytes_of ["DM.PUT"; "d"; "k"; "v"; "PX"]%string) = PErr ESyntax.
Proof. vm_compute. reflexivity. Qed.

Example scan_unknown_option :
  parse_scan (map bytes_of ["DM.SCAN"; "0"; "d"; "0"; "FOO"]%string) = PErr ESyntax.
Proof. vm_compute. reflexivity. Qed.

Example put_options_parsed :
  exists p, parse_put N 0%N (fun _ => NSyntax) (map bytes_of ["DM.PUT"; "d"; "k"; "v"; "px"; "-10"; "nx"]%string) = POk p
            /\ p_px p = (-10)%Z /\ p_nx p = true /\ p_xx p = false.
Proof. eexists. vm_compute. repeat split. Qed.

Example scan_partition_7_of_7_rejected : scan_decision 7 7 = Reject EInvalidPart.
Proof. reflexivity. Qed.
