(* C02 - acknowledged writes survive the loss of up to ReplicaCount-1 members.
   Model: Model/DMap.v; the loss of a set F of members removes their copies ([crash]); the routing in force after
   re-stabilisation is any environment E' (computed by the coordinator: Properties/C13.v) that still reaches one
   surviving holder of the key. Proofs: Proofs/DMapProofs.v. *)
From Coq Require Import List NArith ZArith Bool.
Require Import Olric.Model.DMap Olric.Proofs.DMapProofs.
Import ListNotations.
Local Open Scope Z_scope.

(* in every state reached by acknowledged operations every present key is stored with identical content on the
   primary owner and on every backup owner, and a deleted key is stored nowhere (= C04_mirror) *)
Theorem C02_copies : forall (E : env) (l : list (Z * Z * dop)), Inv E (fst (run E [] l)).
Proof. intros E l. apply Inv_run, Inv_empty. Qed.

(* with R holders on R distinct members, any set F of at most R-1 failing members misses one of them *)
Theorem C02_some_holder_survives : forall holders F : list nat,
  NoDup holders -> (length F < length holders)%nat -> exists h, In h holders /\ existsb (Nat.eqb h) F = false.
Proof. exact some_holder_survives. Qed.

(* after the loss of any set F of members, from ANY state reached by acknowledged operations: if the routing in
   force afterwards reaches one surviving holder of the key, a read (through the new primary owner, which gathers
   its own copy and the copies of the backup owners) returns exactly the last acknowledged content - all copies
   carried it, so no older value can be served - until its expiry *)
Theorem C02_survives : forall E E' F s d k now p l e,
  Inv E s -> no_idle E' ->
  lookup (ploc E d k) s = Some p ->
  ld l = d -> lkey l = k -> lookup l (crash F s) = Some e ->
  (l = ploc E' d k \/ exists b, In b (backups E' d k) /\ l = bloc b d k) ->
  option_map content (get_entry E' d k now (crash F s)) = if visible p now then Some (content p) else None.
Proof. exact survives_crash. Qed.

(* an acknowledged Delete still reads not-found after any failure, under any later routing *)
Theorem C02_deleted_stays_deleted : forall E E' F s d k now,
  Inv E s -> lookup (ploc E d k) s = None -> get_entry E' d k now (crash F s) = None.
Proof. exact deleted_stays_deleted. Qed.

(* non-vacuity: R=2 on three members, the primary owner of the key stops, the backup owner is kept as a backup
   owner by the new routing: the value written last is read *)
Example C02_example :
  let E := {| replicas := 2; owner := fun _ _ => 0%nat; backups := fun _ _ => [1%nat]; default_ttl := fun _ => 0; max_idle := fun _ => 0 |} in
  let E' := {| replicas := 2; owner := fun _ _ => 2%nat; backups := fun _ _ => [1%nat]; default_ttl := fun _ => 0; max_idle := fun _ => 0 |} in
  let s := fst (run E [] [(1, 1, DPut [100%N] [1%N] [7%N] plain); (2, 2, DPut [100%N] [1%N] [8%N] plain)]) in
  option_map content (get_entry E' [100%N] [1%N] 3 (crash [0%nat] s)) = Some ([8%N], 0, 2).
Proof. vm_compute. reflexivity. Qed.
