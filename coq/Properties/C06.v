(* C06 - conflicting copies resolve to the newest write (LWW on read, fragment merge, read-repair).
   Theorems only; proofs in Proofs/LWWProofs.v and Proofs/QuorumProofs.v; models Model/LWW.v, Model/Quorum.v
   (tied to /repo by checks/c06.py). *)
From Coq Require Import List NArith ZArith Bool Permutation.
Require Import Olric.Gen.Consts Olric.Model.LWW Olric.Model.Quorum Olric.Proofs.LWWProofs Olric.Proofs.QuorumProofs.
Import ListNotations.

(* (a) For every set of copies - the owner's own, any number of previous owners, any number of backup owners,
   missing ones (None), arbitrary timestamps incl. ties: a value returned by the read is one of the copies and
   no copy has a larger timestamp; among several newest copies it is the LAST one in the order
   owner, previous owners (newest first), backup owners - what sort.Slice's insertion sort with the >= comparator
   produces. *)
Theorem C06_get_newest : forall (RQ : nat) (rr idle : bool) (now : Z) (local : option entry)
                                (prev backups : list (option entry)) (e : entry) (targets : list holder),
  get_on_cluster RQ rr idle now local prev backups = (Value e, targets) ->
  In (Some e) (local :: prev ++ backups) /\
  (forall e', In (Some e') (local :: prev ++ backups) -> (e_ts e' <= e_ts e)%Z) /\
  exists h l1 l2, sanitize (gather local prev backups) = l1 ++ (h, e) :: l2 /\
                  Forall (fun p => (e_ts (snd p) <= e_ts e)%Z) l1 /\ Forall (fun p => (e_ts (snd p) < e_ts e)%Z) l2.
Proof. exact get_newest. Qed.

(* the sort itself: a permutation, descending, headed by the last maximal element - for every length *)
Theorem C06_sort_versions : forall (A : Type) (ts : A -> Z) (l : list A),
  Permutation (sort_versions ts l) l /\ desc ts (sort_versions ts l) /\
  hd_error (sort_versions ts l) = last_max ts l.
Proof. intros A ts l. exact (conj (sort_perm ts l) (conj (sort_desc ts l) (hd_sort ts l))). Qed.

(* (b) For every list of fragments fs whose entries the receiving storage accepts, every permutation p of fs and
   every fs' obtained from p by delivering fragments again (any fragment, any position, any number of times):
   after merging fs' into an empty fragment every key holds a copy that occurs in fs and whose timestamp is the
   maximum over fs (a key that occurs nowhere stays absent); and if no two different copies of the key share a
   timestamp, the result is exactly what merging fs itself gives: order-independent and idempotent. *)
Theorem C06_merge_max : forall (fits : entry -> bool) (fs p fs' : list (list (N * entry))) (k : N),
  (forall f, In f fs -> all_fit fits f) -> Permutation fs p -> redeliver p fs' ->
  match lookup k (merge_all fits fs') with
  | None => absent_in fs k
  | Some w => newest_of fs k w
  end /\
  (distinct_ts fs k -> lookup k (merge_all fits fs') = lookup k (merge_all fits fs)).
Proof. exact merge_max. Qed.

(* every such delivery is acknowledged; a fragment carrying an entry the storage rejects, and that would have to
   be written, is NOT acknowledged and changes nothing (D25, fixed) *)
Theorem C06_merge_replies : forall (fits : entry -> bool),
  (forall fs, (forall f, In f fs -> all_fit fits f) -> Forall (fun ok => ok = true) (snd (merge_from fits [] fs))) /\
  (forall s h e, fits e = false -> (match lookup h s with Some c => (e_ts c <= e_ts e)%Z | None => True end) ->
                 import fits s [(h, e)] = (s, false)).
Proof. intros fits. exact (conj (merge_replies_ok fits) (import_reject_not_acked fits)). Qed.

(* (c) ReadRepair on, one read that returned w (not interleaved with a write: see C06_rr_race_refuted):
   the owner's own fragment holds a copy with w's timestamp afterwards - w itself unless it already held a
   copy with that timestamp; so does every reachable backup owner that held a copy, expired or not (D48, fixed:
   an expired copy used to be invisible to the read and was left alone); a backup owner without any copy is
   not repaired. *)
Theorem C06_read_repair : forall (RQ : nat) (idle : bool) (now : Z) (nprev nbackups : nat) (reach : holder -> bool)
                                 (c c' : copies) (w : entry),
  cluster_get RQ true idle now nprev nbackups reach c = (Value w, c') ->
  repaired w (c (SPrimary HLocal)) (c' (SPrimary HLocal)) /\
  forall i, (i < nbackups)%nat -> reach (HBackup i) = true ->
            match c (SBackupFrag (HBackup i)) with
            | Some e => repaired w (Some e) (c' (SBackupFrag (HBackup i)))
            | None => c' (SBackupFrag (HBackup i)) = None
            end.
Proof. exact read_repair_all. Qed.

(* ... and when equal timestamps mean equal copies, all of them equal the winner in value, ttl and timestamp *)
Theorem C06_read_repair_equal : forall (RQ : nat) (idle : bool) (now : Z) (nprev nbackups : nat)
                                       (reach : holder -> bool) (c c' : copies) (w : entry),
  cluster_get RQ true idle now nprev nbackups reach c = (Value w, c') ->
  (forall s e, c s = Some e -> e_ts e = e_ts w -> e = w) ->
  c' (SPrimary HLocal) = Some w /\
  forall i e, (i < nbackups)%nat -> reach (HBackup i) = true -> c (SBackupFrag (HBackup i)) = Some e ->
              c' (SBackupFrag (HBackup i)) = Some w.
Proof. exact read_repair_equal. Qed.

(* (a) at the level of the whole layout: for every layout of copies over the owner, any number of previous owners and
   backup owners, any subset of them reachable, any timestamps and any deadlines (passed or not): a value the read
   returns is the copy of a reachable holder, it is not expired, and NO copy of any reachable holder - expired or
   not - carries a larger timestamp. In particular a newer write whose deadline has passed is never shadowed by an
   older copy on another member (D48, fixed: a remote holder used to answer not-found for its expired copy, so the
   owner's older copy won and an overwritten value came back). *)
Theorem C06_cluster_get_newest : forall (RQ : nat) (rr idle : bool) (now : Z) (nprev nbackups : nat)
                                        (reach : holder -> bool) (c c' : copies) (w : entry),
  cluster_get RQ rr idle now nprev nbackups reach c = (Value w, c') ->
  is_expired now w = false /\
  (c (lookup_slot HLocal) = Some w \/
   (exists i, (i < nprev)%nat /\ reach (HPrev i) = true /\ c (lookup_slot (HPrev i)) = Some w) \/
   (exists i, (i < nbackups)%nat /\ reach (HBackup i) = true /\ c (lookup_slot (HBackup i)) = Some w)) /\
  (forall e, c (lookup_slot HLocal) = Some e -> (e_ts e <= e_ts w)%Z) /\
  (forall i e, (i < nprev)%nat -> reach (HPrev i) = true -> c (lookup_slot (HPrev i)) = Some e -> (e_ts e <= e_ts w)%Z) /\
  (forall i e, (i < nbackups)%nat -> reach (HBackup i) = true -> c (lookup_slot (HBackup i)) = Some e -> (e_ts e <= e_ts w)%Z).
Proof. exact cluster_get_newest. Qed.

(* the witness of D48 on the model: the owner holds an old copy without deadline, a backup owner the newer write whose
   deadline has passed: the read reports not-found (the unrepaired code returned the old value) *)
Example C06_expired_newer_copy_hides_the_older :
  let old := {| e_val := [111]%N; e_ttl := 0; e_ts := 1 |} in
  let new := {| e_val := [110]%N; e_ttl := 5; e_ts := 2 |} in
  let c : copies := fun s => match s with SPrimary HLocal => Some old | SBackupFrag (HBackup 0) => Some new | _ => None end in
  fst (cluster_get 1 false false 10 0 2 (fun _ => true) c) = ENotFound.
Proof. reflexivity. Qed.

(* D24 (open): the lookups and the repair of one read are separate steps; if a Delete is acknowledged in between,
   the repair re-inserts the deleted value on the owner. *)
Theorem C06_rr_race_refuted : exists (c : copies) (w : entry) (targets : list holder),
  get_on_cluster 1 true false 0 (c (SPrimary HLocal)) [] [c (SBackupFrag (HBackup 0)); c (SBackupFrag (HBackup 1))]
    = (Value w, targets) /\
  let deleted : copies := fun _ => None in
  repair_phase w targets deleted (SPrimary HLocal) = Some w.
Proof. exact rr_race. Qed.

(* ---- non-vacuity ---- *)
Definition ex_e (v : N) (ts : Z) : entry := {| e_val := [v]; e_ttl := 0; e_ts := ts |}.

Example tie_goes_to_the_later_copy :
  fst (get_on_cluster 1 false false far_future_ms (Some (ex_e 0 4)) [Some (ex_e 1 4)] [Some (ex_e 2 3); Some (ex_e 3 4)])
  = Value (ex_e 3 4).
Proof. reflexivity. Qed.

Example sort_is_the_insertion_sort :
  sort_versions (fun p : N * Z => snd p) [(0%N, 2%Z); (1%N, 3%Z); (2%N, 2%Z); (3%N, 3%Z); (4%N, 1%Z)]
  = [(3%N, 3%Z); (1%N, 3%Z); (2%N, 2%Z); (0%N, 2%Z); (4%N, 1%Z)].
Proof. reflexivity. Qed.

Definition ex_fs : list (list (N * entry)) :=
  [[(1%N, ex_e 10 2); (2%N, ex_e 11 1)]; [(1%N, ex_e 20 3)]; [(2%N, ex_e 30 5); (3%N, ex_e 31 1)]].
Example merge_in_some_order_with_redelivery :
  let fs' := [nth 2 ex_fs []; nth 1 ex_fs []; nth 0 ex_fs []; nth 1 ex_fs []; nth 0 ex_fs []] in
  map (fun k => lookup k (merge_all (fun _ => true) fs')) [1; 2; 3; 4]%N
  = [Some (ex_e 20 3); Some (ex_e 30 5); Some (ex_e 31 1); None].
Proof. reflexivity. Qed.
Example ex_fs_hypotheses : (forall f, In f ex_fs -> all_fit (fun _ => true) f) /\ distinct_ts ex_fs 1%N.
Proof.
  split; [intros f _ h e _; reflexivity|].
  intros f1 f2 e1 e2 H1 H2 K1 K2 Hts.
  assert (E1 : e1 = ex_e 10 2 \/ e1 = ex_e 20 3).
  { cbn in H1. destruct H1 as [<-|[<-|[<-|[]]]]; cbn in K1; intuition congruence. }
  assert (E2 : e2 = ex_e 10 2 \/ e2 = ex_e 20 3).
  { cbn in H2. destruct H2 as [<-|[<-|[<-|[]]]]; cbn in K2; intuition congruence. }
  destruct E1 as [-> | ->], E2 as [-> | ->]; cbn in Hts; try reflexivity; discriminate.
Qed.

Example read_repair_brings_copies_up :
  let c : copies := fun s => match s with
                             | SPrimary HLocal => Some (ex_e 0 1)
                             | SBackupFrag (HBackup 0) => Some (ex_e 2 3)
                             | SBackupFrag (HBackup 1) => Some (ex_e 3 2)
                             | _ => None end in
  let '(r, c') := cluster_get 1 true false far_future_ms 0 2 (fun _ => true) c in
  (r, c' (SPrimary HLocal), c' (SBackupFrag (HBackup 0)), c' (SBackupFrag (HBackup 1)))
  = (Value (ex_e 2 3), Some (ex_e 2 3), Some (ex_e 2 3), Some (ex_e 2 3)).
Proof. reflexivity. Qed.
