(* C01 - per-key linearizability: the owner-side model of the DMap operations (Model/DMap.v - the model that the
   differential runs of C01/C04/C09/C15 tie to internal/dmap) implements the register specification, key by key.
   Proofs: Proofs/DMapRegister.v.  Together with C01_commit_points_linearize this closes the chain
   real code =(differential)= DMap.step  =(theorem)= register specification  =(theorem)= linearizable. *)
From Coq Require Import List NArith ZArith Bool Permutation.
Require Import Olric.Model.DMap Olric.Model.Lin Olric.Proofs.DMapProofs Olric.Proofs.LinProofs Olric.Proofs.DMapRegister.
Import ListNotations.
Local Open Scope Z_scope.

(* For EVERY routing (any owner, any number and placement of backup owners, any replica count), every DMap d whose
   configuration sets no default TTL, every key k, every way [dec] of reading stored bytes as the register's
   number, and every sequence of operations at any clock readings and write timestamps in which
     - the key itself is touched only by Put / Put NX / Put XX without an expiry option, Get and Delete (a Delete
       may name any number of keys),
     - every other key of the DMap and every other DMap is subject to ARBITRARY operations (Put with any options,
       Expire, GetPut, Incr/Decr, Lock/Unlock/Lease, Destroy of other DMaps) and any member may run background
       eviction passes over any sample,
   from any state in which the copies mirror each other: the results the clients of the key see are exactly the
   results of the register specification run on the key's operations alone, and the abstraction of the final
   state (the value of the primary copy) is the register's final state. *)
Theorem C01_dmap_refines_register :
  forall (E : env) (d k : bytes) (dec : bytes -> Z),
    no_idle E -> default_ttl E d = 0 ->
    forall (l : list (Z * Z * dop)) (s : state),
      Inv E s -> Z0 E d k s -> Forall (fun x => allowed d k (snd x) = true) l ->
      proj_res d k dec l (snd (run E s l)) = map Some (snd (rrun (abs E d k dec s) (proj_ops d k dec l))) /\
      abs E d k dec (fst (run E s l)) = fst (rrun (abs E d k dec s) (proj_ops d k dec l)).
Proof.
  intros E d k dec Hi Ht l s HI Hz Ha. destruct (run_refines E d k dec Hi Ht l s HI Hz Ha) as (A & B & _). auto.
Qed.

(* one step: what a single operation does to the register of the key and what it answers *)
Theorem C01_dmap_step_refines :
  forall (E : env) (d k : bytes) (dec : bytes -> Z), no_idle E -> default_ttl E d = 0 ->
    forall now ts s o, Inv E s -> Z0 E d k s -> allowed d k o = true ->
      let s' := fst (step E now ts s o) in
      let r := snd (step E now ts s o) in
      Z0 E d k s' /\
      match proj d k dec o with
      | Some ro => abs E d k dec s' = fst (rstep (abs E d k dec s) ro) /\
                   rmap dec r = Some (snd (rstep (abs E d k dec s) ro))
      | None => abs E d k dec s' = abs E d k dec s
      end.
Proof. intros E d k dec Hi Ht now ts s o HI Hz Ha. exact (step_refines E d k dec Hi Ht now ts s o HI Hz Ha). Qed.

(* End to end: an execution of any number of concurrent clients in which every operation takes effect at one
   instant [xcom] between its invocation and its response (the owner-side step under the fragment lock), the
   instants being distinct, and in which every operation returned what the owner-side model returns at that instant:
   the history seen by the clients of ONE key - whatever happens to the other keys - is linearizable w.r.t. the
   register specification. *)
Theorem C01_dmap_executions_linearize :
  forall (E : env) (d k : bytes) (dec : bytes -> Z), no_idle E -> default_ttl E d = 0 ->
    forall (l : list xev) (s : state),
      Inv E s -> Z0 E d k s -> Forall (fun x => allowed d k (xop x) = true) l -> ordered l ->
      let h := map (ce _ _) (history d k dec l (snd (run E s (steps l)))) in
      linearization _ _ _ rstep rres_eqb (abs E d k dec s) h h.
Proof. intros E d k dec Hi Ht l s HI Hz Ha Ho. exact (executions_linearize E d k dec Hi Ht l s HI Hz Ha Ho). Qed.

(* non-vacuity: three members, two backup owners; the key [1] of DMap [100] sees NX / Get / XX / Delete / Get while
   key [2] is incremented, locked and expired, another DMap is destroyed and member 0 runs an eviction pass. *)
Definition exE : env :=
  {| replicas := 3; owner := fun _ _ => 0%nat; backups := fun _ _ => [1%nat; 2%nat];
     default_ttl := fun _ => 0; max_idle := fun _ => 0 |}.
Definition exD : bytes := [100%N].
Definition exK : bytes := [1%N].
Definition exdec (b : bytes) : Z := match b with x :: _ => Z.of_N x | [] => 0 end.
Definition exrun : list (Z * Z * dop) :=
  [(10, 1, DPut exD exK [7%N] {| nx := true; xx := false; pexp := ENone |});
   (11, 2, DIncr exD [2%N] 5);
   (12, 3, DPut exD exK [8%N] {| nx := true; xx := false; pexp := ENone |});
   (13, 4, DGet exD exK);
   (14, 5, DLock exD [2%N] [9%N] 50);
   (15, 6, DPut exD exK [9%N] {| nx := false; xx := true; pexp := ENone |});
   (16, 7, DDestroy [101%N]);
   (17, 8, DEvict 0%nat [(exD, exK); (exD, [2%N])]);
   (99, 9, DGet exD exK);
   (100, 10, DDel exD [[2%N]; exK]);
   (101, 11, DPut exD exK [3%N] {| nx := false; xx := true; pexp := ENone |});
   (102, 12, DGet exD exK)].
Example C01_refine_example :
  Forall (fun x => allowed exD exK (snd x) = true) exrun /\ Inv exE [] /\ Z0 exE exD exK [] /\
  proj_res exD exK exdec exrun (snd (run exE [] exrun)) =
    [Some Lin.ROk; Some Lin.RKeyFound; Some (RValue 7); Some Lin.ROk; Some (RValue 9); Some Lin.ROk; Some Lin.RNotFound; Some Lin.RNotFound].
Proof.
  split; [repeat constructor|]. split; [apply Inv_empty|]. split; [intros e H; discriminate|]. vm_compute. reflexivity.
Qed.
