(* C18 - returned values are private snapshots.  Statements only; proofs are in Proofs/AliasProofs.v.
   [w_step true] / [w_run true] is the code after fix 01-table-get-copy (Table.Get copies the value out of the
   slab); [false] is the code before it and only appears in the sharpness example. *)
From Coq Require Import List NArith ZArith Bool.
Require Import Olric.Gen.Consts Olric.Model.Codec Olric.Model.ByteTable.
Require Import Olric.Proofs.AliasProofs.
Import ListNotations.

(* Over ALL runs mixing store operations (Put, PutRaw, Get, Delete, compaction steps, recycling of a table,
   dropping a table, migration of the whole partition) and client operations (new buffers, writes into
   returned values and into own buffers, looks):
     - the blocks reachable from returned handles, the callers' buffers and the slabs of the store are
       pairwise disjoint (Sep);
     - a store operation leaves every block that is not one of its slabs untouched (it may allocate);
     - a client write changes exactly the block of the handle / buffer written. *)
Theorem C18_separation :
  (forall size, Sep (empty_world size)) /\
  (forall ops w, Sep w -> Sep (w_run true w ops)) /\
  (forall w o b, Sep w -> is_client_op o = false -> b < length (w_heap w) -> ~ In b (slabs w) ->
     h_get (w_heap (fst (w_step true w o))) b = h_get (w_heap w) b) /\
  (forall w i pos x s b, nth_error (w_handles w) i = Some s -> b <> sblk s ->
     h_get (w_heap (fst (w_step true w (WMut i pos x)))) b = h_get (w_heap w) b) /\
  (forall w i pos x s b, nth_error (w_bufs w) i = Some s -> b <> sblk s ->
     h_get (w_heap (fst (w_step true w (WMutBuf i pos x)))) b = h_get (w_heap w) b) /\
  (forall w o, is_client_op o = true -> w_tabs (fst (w_step true w o)) = w_tabs w).
Proof.
  split; [|split; [|split; [|split; [|split]]]].
  - exact sep_init.
  - exact sep_run.
  - exact store_op_frame.
  - exact client_mut_frame.
  - exact client_mutbuf_frame.
  - exact client_ops_keep_store.
Qed.

(* What Get hands out is a new block holding exactly the returned value. *)
Theorem C18_get_fresh : forall w h now w' v, Sep w -> w_step true w (WGet h now) = (w', OVal (Some v)) ->
  exists s, w_handles w' = w_handles w ++ [s] /\ h_read (w_heap w') s = v /\ sblk s = length (w_heap w).
Proof.
  intros w h now w' v HS HG. destruct (get_fresh w h now w' v HS HG) as (s & H1 & H2 & H3 & _).
  exists s. auto.
Qed.

(* The corollaries the property text asks for:
   1. a returned value reads the same after ANY later run that does not itself write into that handle;
   2. a caller's buffer is never written by the store;
   3. writing into a returned value leaves the stored content of every key, every other returned value and
      every buffer unchanged;
   4. writing into a buffer that was passed to Put (after Put returned) leaves the stored content and every
      returned value unchanged. *)
Theorem C18_snapshot :
  (forall ops w i s, Sep w -> nth_error (w_handles w) i = Some s -> (forall pos x, ~ In (WMut i pos x) ops) ->
     nth_error (w_handles (w_run true w ops)) i = Some s /\
     h_read (w_heap (w_run true w ops)) s = h_read (w_heap w) s) /\
  (forall ops w i s, Sep w -> nth_error (w_bufs w) i = Some s -> (forall pos x, ~ In (WMutBuf i pos x) ops) ->
     h_read (w_heap (w_run true w ops)) s = h_read (w_heap w) s) /\
  (forall w i pos x h, Sep w -> w_abs (fst (w_step true w (WMut i pos x))) h = w_abs w h) /\
  (forall w i j pos x s, Sep w -> i <> j -> nth_error (w_handles w) j = Some s ->
     h_read (w_heap (fst (w_step true w (WMut i pos x)))) s = h_read (w_heap w) s) /\
  (forall w i j pos x s, Sep w -> nth_error (w_bufs w) j = Some s ->
     h_read (w_heap (fst (w_step true w (WMut i pos x)))) s = h_read (w_heap w) s) /\
  (forall w i pos x h, Sep w -> w_abs (fst (w_step true w (WMutBuf i pos x))) h = w_abs w h) /\
  (forall w i j pos x s, Sep w -> nth_error (w_handles w) j = Some s ->
     h_read (w_heap (fst (w_step true w (WMutBuf i pos x)))) s = h_read (w_heap w) s).
Proof.
  split; [|split; [|split; [|split; [|split; [|split]]]]].
  - exact snapshot_read.
  - exact snapshot_buf.
  - exact mut_keeps_store.
  - exact mut_keeps_others.
  - exact mut_keeps_bufs.
  - exact mutbuf_keeps_store.
  - exact mutbuf_keeps_handles.
Qed.

(* Sharpness: with the code before the fix (Get returns a slice into the slab) the same runs break the
   property - a write into the returned value rewrites the stored value, and a value read earlier changes
   when its table is recycled and rewritten. *)
Definition C18_refuted_without_copy := alias_breaks_without_copy.
