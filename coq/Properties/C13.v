(* C13 - all members agree on a valid, balanced routing table.
   Theorems only (proved in Proofs/RoutingProofs.v about Model/Routing.v). Every statement is quantified over ALL
   previous tables (well-formed: no duplicate member ids inside a list), all live-member lists, all LengthOfPart
   answer functions, all partition counts and every hash ring that satisfies the three ring facts:
     [ring_facts e P]   the ring's owner of every partition is a live member; GetClosestN(p, n) returns n members with
                        distinct ids, all live, starting with the owner, and fails exactly for n > #live; live members
                        have distinct names; ReplicaCount >= 1
     [load_fact e P ..] no member is the ring's owner of more than ceil(floor(P/N) * load) partitions. *)
From Coq Require Import List NArith ZArith Bool Arith Lia.
Require Import Olric.Gen.Consts Olric.Model.Routing Olric.Proofs.RoutingProofs.
Import ListNotations.
Local Open Scope N_scope.

(* the pruning loops as coded (in-place deletion, index adjustment) are filters *)
Theorem C13_prune_loop_is_filter : forall keep owners, prune keep owners = filter keep owners.
Proof. exact prune_filter. Qed.

(* one recomputation of the table: every partition's lists are valid *)
Theorem C13_distribute_valid : forall e P prev p,
  ring_facts e P -> wf_table prev -> (p < P)%nat ->
  let r := route_of (fill_routing_table e P prev) p in
  let ro := e_ring_owner e (N.of_nat p) in
  (exists olds,
     r_owners r = olds ++ [ro] /\ NoDupIds (r_owners r) /\ live_by_id (e_live e) ro = true /\
     forall o, In o olds ->
       In o (r_owners (route_of prev p)) /\ live_by_id (e_live e) o = true /\
       nonempty_or_unknown (e_len e Primary (N.of_nat p)) o = true /\ m_id o <> m_id ro) /\
  ((N.to_nat minimum_replica_count < e_R e)%nat ->
   exists l extras,
     e_ring_closest e (N.of_nat p) (Nat.min (e_R e) (length (e_live e))) = Some l /\
     r_backups r = extras ++ tl l /\ length (tl l) = backup_count (e_R e) (length (e_live e)) /\
     NoDupIds (r_backups r) /\
     (forall b, In b (tl l) -> In b (e_live e) /\ live_by_id (e_live e) b = true /\ m_id b <> m_id ro) /\
     (forall b, In b extras ->
        In b (r_backups (route_of prev p)) /\ live_by_id (e_live e) b = true /\
        nonempty_or_unknown (e_len e Backup (N.of_nat p)) b = true /\
        forall z, In z (tl l) -> m_id b <> m_id z)) /\
  ((e_R e <= N.to_nat minimum_replica_count)%nat -> r_backups r = []) /\
  (forall m, In m (r_owners r) \/ In m (r_backups r) -> live_by_id (e_live e) m = true).
Proof. exact fill_distribute_valid. Qed.

(* the executable predicate the correspondence check evaluates holds of every computed table when all
   LengthOfPart calls were answered truthfully *)
Theorem C13_valid_table : forall e P prev holds load_num load_den,
  ring_facts e P -> load_fact e P load_num load_den -> wf_table prev ->
  (forall k p m, exists n, e_len e k p m = Some n /\ holds k p m = negb (n =? 0)) ->
  valid_table (e_live e) (e_R e) P load_num load_den holds (fill_routing_table e P prev) = true.
Proof. exact fill_valid_table. Qed.

(* membership and data fixed, the moves completed (every listed member that is not a current owner answers
   "0 keys"): one owner, min(R,N)-1 backups ... *)
Theorem C13_fixpoint_minimal : forall e P prev p,
  ring_facts e P -> wf_table prev -> (p < P)%nat ->
  (forall o, In o (r_owners (route_of prev p)) -> m_id o <> m_id (e_ring_owner e (N.of_nat p)) ->
     e_len e Primary (N.of_nat p) o = Some 0) ->
  (forall l b, e_ring_closest e (N.of_nat p) (Nat.min (e_R e) (length (e_live e))) = Some l ->
     In b (r_backups (route_of prev p)) -> (forall z, In z (tl l) -> m_id b <> m_id z) ->
     e_len e Backup (N.of_nat p) b = Some 0) ->
  let r := route_of (fill_routing_table e P prev) p in
  r_owners r = [e_ring_owner e (N.of_nat p)] /\
  length (r_backups r) = (if (N.to_nat minimum_replica_count <? e_R e)%nat then backup_count (e_R e) (length (e_live e)) else 0)%nat /\
  ((N.to_nat minimum_replica_count < e_R e)%nat ->
   exists l, e_ring_closest e (N.of_nat p) (Nat.min (e_R e) (length (e_live e))) = Some l /\ r_backups r = tl l).
Proof. exact fill_settled. Qed.

(* ... and recomputing (from any computed table, whatever the data placement) changes nothing *)
Theorem C13_fixpoint : forall e P prev,
  ring_facts e P -> wf_table prev ->
  fill_routing_table e P (fill_routing_table e P prev) = fill_routing_table e P prev.
Proof. exact fill_idempotent. Qed.

(* the coordinator is the oldest live member, and does not depend on the order in which a member lists the others *)
Theorem C13_coordinator_oldest : forall live,
  (live <> [] -> exists c, get_coordinator live = Some c) /\
  (forall c, get_coordinator live = Some c -> In c live /\ forall m, In m live -> (m_birth c <= m_birth m)%Z) /\
  (forall view, (forall x, In x live <-> In x view) ->
     (forall a b, In a live -> In b live -> m_birth a = m_birth b -> a = b) ->
     get_coordinator live = get_coordinator view).
Proof.
  intros live. split; [exact (get_coordinator_exists live)|]. split; [exact (get_coordinator_oldest live)|].
  intros view. exact (get_coordinator_view_independent live view).
Qed.

(* a receiver applies a pushed table only when the sender is the member it considers coordinator; after a push
   that every member acknowledged all members hold the pushed table; the coordinator's own lists are not changed
   by the left-over-data reports of members that are already listed where they hold data *)
Theorem C13_agreement :
  (forall P sid t nodes nodes',
     push_all P sid t nodes = (nodes', true) ->
     length nodes' = length nodes /\
     (forall nd', In nd' nodes' -> n_table nd' = t) /\
     (forall nd, In nd nodes -> exists c, get_coordinator (n_view nd) = Some c /\ m_id c = sid)) /\
  (forall P sid t nd c,
     get_coordinator (n_view nd) = Some c -> m_id c <> sid -> receive P sid t nd = (nd, false)) /\
  (forall t rs,
     (forall r, In r rs ->
        (forall p, In p (rp_parts r) -> listed (rp_member r) (r_owners (route_of t p)) = true) /\
        (forall p, In p (rp_backups r) -> listed (rp_member r) (r_backups (route_of t p)) = true)) ->
     process_reports t rs = t).
Proof.
  split; [exact push_all_agreement|]. split; [exact receive_rejects|exact process_reports_listed].
Qed.

(* smartPick (cluster client) and PartitionIDByHKey (member) are the same function of (hkey, P); the client's owner
   of a partition is the name of the member's owner *)
Theorem C13_same_partition :
  (forall (fetched : list (list N * list N)) P hkey,
     length fetched = P -> smart_pick_part (client_partition_count fetched) hkey = partition_id_by_hkey (N.of_nat P) hkey) /\
  (forall (t : table) p, client_owner_of (map client_route t) p = option_map m_name (owner_of t p)).
Proof. split; [intros; now apply same_partition|exact client_owner_agrees]. Qed.

(* no member owns more partitions than the load factor allows *)
Theorem C13_balanced : forall e P prev load_num load_den,
  load_fact e P load_num load_den ->
  length (fill_routing_table e P prev) = P /\
  balanced (e_live e) load_num load_den (fill_routing_table e P prev) = true /\
  forall m, In m (e_live e) ->
    N.of_nat (owned_count (fill_routing_table e P prev) m)
    <= load_bound (N.of_nat P) (N.of_nat (length (e_live e))) load_num load_den.
Proof.
  intros e P prev num den H. split; [apply fill_length|]. split; [now apply fill_balanced|].
  intros m Hm. unfold owned_count. rewrite primaries_of_fill. now apply H.
Qed.

(* ---------------------------------------------------------------------------------------------------------------
   Examples: the hypotheses are satisfiable by a concrete non-trivial state, and the statements are not vacuous. *)
Module Example.
  Definition a : member := {| m_name := 1; m_id := 101; m_birth := 10 |}.
  Definition b : member := {| m_name := 2; m_id := 102; m_birth := 20 |}.
  Definition c : member := {| m_name := 3; m_id := 103; m_birth := 30 |}.
  Definition b_old : member := {| m_name := 2; m_id := 902; m_birth := 5 |}.   (* previous incarnation of b's address *)
  Definition gone : member := {| m_name := 9; m_id := 909; m_birth := 1 |}.    (* departed *)
  Definition live := [c; a; b].
  Definition ring_order (p : N) : list member :=
    match p with 0 => [a; b; c] | 1 => [b; c; a] | 2 => [c; a; b] | _ => [a; b; c] end.
  Definition e : env :=
    {| e_live := live; e_R := 2;
       e_ring_owner := fun p => hd a (ring_order p);
       e_ring_closest := fun p n => if (n <=? 3)%nat then Some (firstn n (ring_order p)) else None;
       (* a still holds 4 keys of partition 1; the call to b for partition 2 fails; everything else is empty *)
       e_len := fun k p m => match k, p, m_name m with
                             | Primary, 1, 1 => Some 4
                             | Primary, 2, 2 => None
                             | _, _, _ => Some 0
                             end |}.
  Definition prev : table :=
    [ {| r_owners := [gone; b_old; a]; r_backups := [gone] |};
      {| r_owners := [a; b_old]; r_backups := [a; b_old] |};
      {| r_owners := [b; c]; r_backups := [] |} ].

  Lemma nodup3 x y z : m_id x <> m_id y -> m_id x <> m_id z -> m_id y <> m_id z -> NoDupIds [x; y; z].
  Proof.
    intros. unfold NoDupIds. cbn. constructor; [cbn; intuition|]. constructor; [cbn; intuition|].
    constructor; [cbn; intuition|constructor].
  Qed.

  Lemma closest_ok x y z :
    m_id x <> m_id y -> m_id x <> m_id z -> m_id y <> m_id z -> In x live -> In y live -> In z live ->
    closest_facts live x (fun n => if (n <=? 3)%nat then Some (firstn n [x; y; z]) else None).
  Proof.
    intros Hxy Hxz Hyz Hx Hy Hz. constructor.
    - intros n l. destruct (Nat.leb_spec n 3) as [Hn|Hn]; [|discriminate]. intros [= <-].
      assert (n = 0 \/ n = 1 \/ n = 2 \/ n = 3)%nat as Hc by lia.
      destruct Hc as [->|[->|[->| ->]]]; cbn [firstn]; (split; [reflexivity|]); (split; [|split]).
      + constructor.
      + intros ? [].
      + intros H. inversion H.
      + unfold NoDupIds. cbn. constructor; [intros []|constructor].
      + intros ? [<-|[]]. exact Hx.
      + reflexivity.
      + unfold NoDupIds. cbn. constructor; [cbn; intuition|]. constructor; [intros []|constructor].
      + intros ? [<-|[<-|[]]]; assumption.
      + reflexivity.
      + now apply nodup3.
      + intros ? [<-|[<-|[<-|[]]]]; assumption.
      + reflexivity.
    - intros n Hn. cbn [live length]. destruct (Nat.leb_spec n 3) as [H|H]; split; intros H'; try discriminate; try lia.
      reflexivity.
  Qed.

  Lemma facts : ring_facts e 3.
  Proof.
    constructor.
    - cbn. constructor; [cbn; intuition discriminate|]. constructor; [cbn; intuition discriminate|].
      constructor; [intros []|constructor].
    - cbn. auto.
    - intros p Hp. assert (p = 0 \/ p = 1 \/ p = 2)%nat as Hc by (clear -Hp; Lia.lia).
      destruct Hc as [->|[->| ->]]; cbn; auto.
    - intros p Hp. assert (p = 0 \/ p = 1 \/ p = 2)%nat as Hc by (clear -Hp; Lia.lia).
      destruct Hc as [->|[->| ->]]; cbn [e e_live e_ring_owner e_ring_closest ring_order N.of_nat Pos.of_succ_nat Pos.succ hd];
        apply closest_ok; cbn; auto; discriminate.
  Qed.

  Lemma wf : wf_table prev.
  Proof.
    intros p. assert (p = 0 \/ p = 1 \/ p = 2 \/ 3 <= p)%nat as Hc by Lia.lia.
    destruct Hc as [->|[->|[->|Hc]]].
    - split; [apply nodup3|]; unfold NoDupIds; cbn; try discriminate. constructor; [intros []|constructor].
    - split; unfold NoDupIds; cbn; (constructor; [cbn; intuition discriminate|]); (constructor; [intros []|constructor]).
    - split; unfold NoDupIds; cbn; [|constructor]. constructor; [cbn; intuition discriminate|]. constructor; [intros []|constructor].
    - unfold route_of. rewrite nth_overflow by (cbn; Lia.lia). split; constructor.
  Qed.

  Lemma load : load_fact e 3 default_load_num default_load_den.
  Proof. intros m [<-|[<-|[<-|[]]]]; vm_compute; discriminate. Qed.

  (* the computed table: the departed member and the old incarnation are gone, the previous owner that still holds
     data and the one that could not be asked are kept, the ring's owner is last *)
  Example computed :
    fill_routing_table e 3 prev =
      [ {| r_owners := [a]; r_backups := [b] |};
        {| r_owners := [a; b]; r_backups := [c] |};
        {| r_owners := [b; c]; r_backups := [a] |} ].
  Proof. vm_compute. reflexivity. Qed.

  Example computed_is_fixpoint : fill_routing_table e 3 (fill_routing_table e 3 prev) = fill_routing_table e 3 prev.
  Proof. exact (C13_fixpoint e 3 prev facts wf). Qed.

  Example coordinator : get_coordinator live = Some a.
  Proof. vm_compute. reflexivity. Qed.

  Example balanced_here : balanced live default_load_num default_load_den (fill_routing_table e 3 prev) = true.
  Proof. exact (proj1 (proj2 (C13_balanced e 3 prev _ _ load))). Qed.

  (* the predicate is not trivially true: a table that lists the departed member is rejected *)
  Example invalid_rejected :
    valid_table live 2 3 default_load_num default_load_den (fun _ _ _ => true) prev = false.
  Proof. vm_compute. reflexivity. Qed.

  (* a member that does not consider the sender coordinator keeps its table *)
  Example push_rejected :
    receive 3 (m_id b) (fill_routing_table e 3 prev) {| n_self := c; n_view := live; n_table := [] |}
    = ({| n_self := c; n_view := live; n_table := [] |}, false).
  Proof. vm_compute. reflexivity. Qed.
  Example push_accepted :
    snd (receive 3 (m_id a) (fill_routing_table e 3 prev) {| n_self := c; n_view := live; n_table := [] |}) = true.
  Proof. vm_compute. reflexivity. Qed.
End Example.
