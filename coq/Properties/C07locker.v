(* C07 - the per-key mutex behind the atomic operations: internal/locker (Lock / Unlock by name) gives mutual exclusion
   for EVERY number of threads, every set of names and EVERY interleaving of its atomic stretches (the map lookup under
   the Locker's mutex, the inner mutex, the decrement of the waiter count, the Unlock under the Locker's mutex).
   Model: Model/Locker.v (counters are heap objects, the map may drop an entry while threads still hold its address:
   the invariant shows they never do). Proofs: Proofs/LockerProofs.v. Tie: harness subcommand `locker` (the real Locker
   driven by goroutines; returned / blocked calls and the names in its map after every call, replayed by Model/LockerRun.v). *)
From Coq Require Import List NArith ZArith Bool.
Require Import Olric.Model.Locker Olric.Proofs.LockerProofs.
Import ListNotations.

(* In every state reachable by any schedule: two threads that are past the inner mutex of the same name are the same
   thread - Incr / Decr / GetPut / IncrByFloat on one key never overlap on the owner. *)
Theorem C07_locker_mutual_exclusion : forall (threads : nat) (schedule : list lstep_op) (t1 t2 : tid) (n : name),
  let s := lk_run (lk_init threads) schedule in
  in_cs s t1 n = true -> in_cs s t2 n = true -> t1 = t2.
Proof. intros threads schedule t1 t2 n s. apply mutual_exclusion. apply LInv_run. apply LInv_init. Qed.

(* ... the holder's Unlock always succeeds (it finds the very counter it holds, never ErrNoSuchLock, never somebody
   else's counter) and leaves the critical section *)
Theorem C07_locker_holder_unlocks : forall (threads : nat) (schedule : list lstep_op) (t : tid) (n : name) (a : addr),
  let s := lk_run (lk_init threads) schedule in
  pc_of s t = Holding n a ->
  snd (lk_step s (Unlock t n)) = Done /\ pc_of (fst (lk_step s (Unlock t n))) t = Idle.
Proof. intros threads schedule t n a s. apply holder_unlock_succeeds. apply LInv_run. apply LInv_init. Qed.

(* ... and the map holds an entry only for names somebody waits for or holds: entries do not leak *)
Theorem C07_locker_no_leak : forall (threads : nat) (schedule : list lstep_op) (n : name) (a : addr),
  let s := lk_run (lk_init threads) schedule in
  find n (lmap s) = Some a -> exists t, busy s t n = true.
Proof. intros threads schedule n a s. apply no_leak. apply LInv_run. apply LInv_init. Qed.

(* ... a Lock call is blocked only by a thread that IS inside the critical section of the same name: the inner mutex of a
   counter is never left taken by nobody, so every hand-over happens (as long as holders unlock) *)
Theorem C07_locker_blocked_by_a_holder : forall (threads : nat) (schedule : list lstep_op) (t : tid) (n : name) (a : addr),
  let s := lk_run (lk_init threads) schedule in
  pc_of s t = Waiting n a -> snd (lk_step s (Acquire t)) = Blocked ->
  exists t', t' <> t /\ in_cs s t' n = true.
Proof. intros threads schedule t n a s. apply blocked_by_a_holder. apply LInv_run. apply LInv_init. Qed.

(* ... and gets past the inner mutex only when nobody is inside the critical section of that name: internal/locker behaves as the
   abstract mutex (a holder field with Lock enabled when it is empty) that Model/AtomicRMW.v assumes *)
Theorem C07_locker_acquire_only_when_free : forall (threads : nat) (schedule : list lstep_op) (t : tid) (n : name) (a : addr),
  let s := lk_run (lk_init threads) schedule in
  pc_of s t = Waiting n a -> snd (lk_step s (Acquire t)) = Done -> forall t', in_cs s t' n = false.
Proof. intros threads schedule t n a s. apply acquire_only_when_free. apply LInv_run. apply LInv_init. Qed.

(* the invariant itself, step by step (what a change to the locker has to keep) *)
Theorem C07_locker_invariant : forall s o, LInv s -> LInv (fst (lk_step s o)).
Proof. exact LInv_step. Qed.

(* non-vacuity: three threads, two names; thread 1 waits for name 5 while thread 0 holds it; after the Unlock the
   waiter gets the same counter, the entry of name 6 disappears when its only user unlocks *)
Example C07_locker_example :
  let s := lk_run (lk_init 3) [Enter 0 5%N; Acquire 0; Dec 0; Enter 1 5%N; Acquire 1; Enter 2 6%N; Acquire 2; Dec 2;
                               Unlock 0 5%N; Acquire 1; Dec 1; Unlock 2 6%N] in
  pcs s = [Idle; Holding 5%N 0; Idle] /\ lmap s = [(5%N, 0)] /\ in_cs s 1 5%N = true.
Proof. vm_compute. repeat split; reflexivity. Qed.
