(* C17 - values and keys read back identical to what was written.  Statements only; proofs are in
   Proofs/CodecProofs.v, Proofs/RespProofs.v, Proofs/ByteTableProofs.v. *)
From Coq Require Import List NArith ZArith Bool.
Require Import Olric.Gen.Consts Olric.Model.Codec Olric.Model.Resp Olric.Model.ByteTable.
Require Import Olric.Proofs.CodecProofs Olric.Proofs.RespProofs Olric.Proofs.ByteTableProofs.
Import ListNotations.
Local Open Scope N_scope.

(* The byte layout of an entry (key, ttl, timestamp, lastAccess, value; any bytes) decodes to the entry, also
   in the middle of a slab. *)
Theorem C17_entry_roundtrip : forall e rest,
  wf_entry e -> decode_entry (encode_entry e ++ rest) = Some (e, rest).
Proof. exact decode_encode. Qed.

(* Every integer type (int int8..int64 uint uint8..uint64, time.Duration): every value of the type is read
   back equal; a value written as one integer type and read into another comes back exactly when it fits the
   target and is rejected otherwise; whatever text Scan accepts denotes a value of the target type and is a
   plain decimal numeral (optional sign, digits only, not empty). *)
Theorem C17_int_text :
  (forall t z, (is_signed t || is_unsigned t) = true -> in_range t z = true ->
     scan t (encode t (GI z)) = Some (GI z)) /\
  (forall t1 t2 z, (is_signed t1 || is_unsigned t1) = true -> (is_signed t2 || is_unsigned t2) = true ->
     in_range t1 z = true ->
     scan t2 (encode t1 (GI z)) = (if in_range t2 z then Some (GI z) else None)) /\
  (forall t l z, (is_signed t || is_unsigned t) = true -> scan t l = Some (GI z) -> in_range t z = true) /\
  (forall bits z, 0 < bits -> (z < - 2 ^ (Z.of_N bits - 1) \/ 2 ^ (Z.of_N bits - 1) <= z)%Z ->
     parse_int bits (enc_int z) = None) /\
  (forall bits n, 2 ^ bits <= n -> parse_uint bits (enc_uint n) = None) /\
  (forall bits l z, parse_int bits l = Some z ->
     exists s ds, l = s ++ ds /\ (s = [] \/ s = [43] \/ s = [45]) /\ ds <> [] /\
                  Forall (fun b => 48 <= b /\ b <= 57) ds) /\
  (forall bits l n, parse_uint bits l = Some n -> l <> [] /\ Forall (fun b => 48 <= b /\ b <= 57) l).
Proof.
  split; [|split; [|split; [|split; [|split; [|split]]]]].
  - intros t z Ht Hr. apply scan_encode. unfold has_type. rewrite Ht, Hr. destruct t; reflexivity.
  - exact scan_encode_cross.
  - exact scan_in_range.
  - exact int_out_of_range.
  - exact uint_out_of_range.
  - exact parse_int_wellformed.
  - exact parse_uint_wellformed.
Qed.

Theorem C17_bool :
  (forall b, scan TBool (encode TBool (GB b)) = Some (GB b)) /\
  (forall l, exists b, scan TBool l = Some (GB b)) /\
  (forall l, scan TBool l = Some (GB true) <-> l = [49]).
Proof.
  split; [|split].
  - intros b. apply scan_encode. reflexivity.
  - exact scan_bool_total.
  - exact scan_bool_true.
Qed.

Theorem C17_duration : forall z, (- 2 ^ 63 <= z < 2 ^ 63)%Z ->
  scan TDuration (encode TDuration (GI z)) = Some (GI z).
Proof. exact duration_roundtrip. Qed.

(* strings and byte slices: any bytes (empty, NUL, CR/LF, 0xFF, any length) are stored and returned as they are *)
Theorem C17_bytes_identity : forall l,
  scan TBytes l = Some (GT l) /\ scan TString l = Some (GT l) /\
  encode TBytes (GT l) = l /\ encode TString (GT l) = l.
Proof. exact scan_bytes_identity. Qed.

(* One table at byte level. For every well-formed table and acceptable entry that the table accepts:
   Get returns the entry's key, value, ttl and timestamp; every other hkey reads as before; the table stays
   well-formed; and the same holds when the ENCODED entry arrives through PutRaw (replication to a backup,
   compaction) - a backup that received the primary's encoded entry returns the same entry as the primary.
   An entry whose key is short enough and which fits is accepted. *)
Theorem C17_store_roundtrip :
  (forall now t h e t', bwf t -> wf_entry e -> wf_i64 now = true -> b_put now h e t = BOk t' ->
     bwf t' /\ option_map bview (b_get h t') = Some (bview e) /\
     (forall h', h <> h' -> b_get h' t' = b_get h' t)) /\
  (forall t h e t', bwf t -> wf_entry e -> b_put_raw h (encode_entry e) t = BOk t' ->
     bwf t' /\ b_get h t' = Some e /\ b_get_raw h t' = Some (encode_entry e) /\
     (forall h', h <> h' -> b_get h' t' = b_get h' t /\ b_get_raw h' t' = b_get_raw h' t)) /\
  (forall now t1 t2 h e t1' t2', bwf t1 -> bwf t2 -> wf_entry e -> wf_i64 now = true ->
     b_put now h e t1 = BOk t1' -> b_put_raw h (encode_entry (set_la now e)) t2 = BOk t2' ->
     b_get h t2' = b_get h t1') /\
  (forall now t h e, N.of_nat (length (ekey e)) < max_key_length ->
     (length (encode_entry e) + b_off t < b_alloc t)%nat -> exists t', b_put now h e t = BOk t') /\
  (forall size, bwf (new_btable size)).
Proof.
  split; [|split; [|split; [|split]]].
  - intros now t h e t' Hw He Hn Hp. split; [|split].
    + eapply bwf_put; eassumption.
    + eapply get_put_eq_view; eassumption.
    + intros h' Hne. eapply get_put_neq; eassumption.
  - intros t h e t' Hw He Hp. split; [|split; [|split]].
    + eapply bwf_put_raw; eassumption.
    + eapply get_put_raw_eq; eassumption.
    + eapply get_put_raw_eq; eassumption.
    + intros h' Hne. eapply get_put_raw_neq; eassumption.
  - intros now t1 t2 h e t1' t2'. apply replicate_agrees.
  - intros now t h e Hk Hf. eapply put_fits; eassumption.
  - exact bwf_new.
Qed.

(* Keys of max_key_length (256) bytes or more are refused with KeyTooLarge by the table; entries as large as a
   table or larger are refused with EntryTooLarge by the store before anything is touched; in both cases the
   tables and every block of memory are exactly as before (when the store had no writable table yet, an empty
   one has been prepared and nothing else). *)
Theorem C17_rejects_cleanly :
  (forall now h e t, max_key_length <= N.of_nat (length (ekey e)) -> b_put now h e t = BKeyTooLarge) /\
  (forall now h e size hp ts, (size <= length (encode_entry e))%nat ->
     hs_put now h e size hp ts = (hp, ts, CEntryTooLarge)) /\
  (forall h raw size hp ts, (size <= length raw)%nat -> hs_put_raw h raw size hp ts = (hp, ts, CEntryTooLarge)) /\
  (forall now h e size hp ts, (length (encode_entry e) < size)%nat ->
     max_key_length <= N.of_nat (length (ekey e)) -> has_writable ts = true ->
     hs_put now h e size hp ts = (hp, ts, CKeyTooLarge)) /\
  (forall now h e size hp ts, (length (encode_entry e) < size)%nat ->
     max_key_length <= N.of_nat (length (ekey e)) -> has_writable ts = false ->
     hs_put now h e size hp ts = (let '(hp0, ts0) := make_table size hp ts in (hp0, ts0, CKeyTooLarge))).
Proof.
  split; [|split; [|split; [|split]]].
  - intros now h e t H. apply put_key_too_large. exact H.
  - intros now h e size hp ts H. apply hs_put_entry_too_large. exact H.
  - intros h raw size hp ts H. apply hs_put_raw_entry_too_large. exact H.
  - intros now h e size hp ts H1 H2 H3. apply hs_put_key_too_large; assumption.
  - intros now h e size hp ts H1 H2 H3. apply hs_put_key_too_large_nowritable; assumption.
Qed.

(* the hypotheses are satisfiable / the bounds are sharp *)
Example C17_wf_entry_exists :
  wf_entry {| ekey := [0; 13; 10; 255]; ettl := (-1)%Z; ets := 1758600000000000000%Z; ela := 0%Z; evalue := [0; 255; 13; 10] |}.
Proof. unfold wf_entry; cbn. repeat split; reflexivity. Qed.
Example C17_key_256_not_representable : exists e, decode_entry (encode_entry e) <> Some (e, []).
Proof. exact key256_breaks. Qed.
Example C17_int8_bounds :
  scan TInt8 (encode TInt8 (GI (-128))) = Some (GI (-128)%Z) /\ scan TInt8 (encode TInt16 (GI 128)) = None /\
  scan TUint64 (encode TUint64 (GI 18446744073709551615)) = Some (GI 18446744073709551615%Z) /\
  scan TInt64 (encode TUint64 (GI 18446744073709551615)) = None.
Proof. vm_compute. repeat split. Qed.
