(* C20, storage-engine part: Compaction() of internal/kvstore (model: Model/Store.v) makes progress and
   terminates.  [compactable t] = table t reached the garbage ratio; [ccount] = number of such tables;
   [quiet s] = every table that qualifies holds at most 1001 records (the per-call limit of evictTable) and
   the table being written does not qualify; [ord_covers ordf] = the Go map order handed to each call lists the
   hkeys of the table that the call drains. *)
From Coq Require Import List NArith ZArith Bool Permutation.
Require Import Olric.Gen.Consts Olric.Model.Codec Olric.Model.Store Olric.Proofs.StoreProofs Olric.Proofs.ScanProofs
  Olric.Proofs.CompactionProofs Olric.Proofs.CompactionGeneral Olric.Proofs.StoreCheck Olric.Proofs.CompactionCounter.
Import ListNotations.
Local Open Scope N_scope.

(* while some table other than the one being written qualifies, a call reports "not done", keeps the invariant
   and the abstract map, never enlarges the qualifying set, and - when the order lists the hkeys of the
   drained table and it holds at most 1001 records - strictly shrinks it *)
Theorem C20_compaction_progress : forall ord expired s t,
  swf3 s -> 0 < ssize s -> find compactable (rev (tl (stabs s))) = Some t ->
  snd (s_compaction ord expired s) = false /\
  swf3 (fst (s_compaction ord expired s)) /\ ssize (fst (s_compaction ord expired s)) = ssize s /\
  (forall h, abs (fst (s_compaction ord expired s)) h = abs s h) /\
  (ccount (stabs (fst (s_compaction ord expired s))) <= ccount (stabs s))%nat /\
  ((forall h, In h (hkeys (trecs t)) -> In h ord) -> (length (trecs t) <= 1001)%nat ->
   (ccount (stabs (fst (s_compaction ord expired s))) < ccount (stabs s))%nat /\
   (quiet s -> quiet (fst (s_compaction ord expired s)))).
Proof. exact compaction_progress. Qed.
Print Assumptions C20_compaction_progress.

(* the bound: done within length (stabs s) + 1 calls, the map unchanged.  PARTIAL: the statement without the
   second half of [quiet] (the written table does not qualify) is false, see C20_compaction_terminates_refuted *)
Theorem C20_compaction_terminates_partial : forall ordf expired n s,
  ord_covers ordf -> swf3 s -> 0 < ssize s -> quiet s -> (length (stabs s) + 1 <= n)%nat ->
  snd (compact_n ordf expired n s) = true /\ swf3 (fst (compact_n ordf expired n s)) /\
  ssize (fst (compact_n ordf expired n s)) = ssize s /\
  (forall h, abs (fst (compact_n ordf expired n s)) h = abs s h) /\
  (forall t, In t (tl (stabs (fst (compact_n ordf expired n s)))) -> compactable t = false).
Proof. exact compaction_terminates. Qed.
Print Assumptions C20_compaction_terminates_partial.

(* the same with the hypotheses in terms of garbage bytes *)
Theorem C20_compaction_terminates_garbage_partial : forall ordf expired n s,
  ord_covers ordf -> swf3 s -> 0 < ssize s ->
  (forall t, In t (stabs s) -> 0 < tgarb t -> (length (trecs t) <= 1001)%nat) ->
  (forall hd r, stabs s = hd :: r -> tgarb hd = 0) ->
  (length (stabs s) + 1 <= n)%nat ->
  snd (compact_n ordf expired n s) = true /\ swf3 (fst (compact_n ordf expired n s)) /\
  ssize (fst (compact_n ordf expired n s)) = ssize s /\
  (forall h, abs (fst (compact_n ordf expired n s)) h = abs s h) /\
  (forall t, In t (tl (stabs (fst (compact_n ordf expired n s)))) -> compactable t = false).
Proof. exact compaction_terminates_garbage. Qed.
Print Assumptions C20_compaction_terminates_garbage_partial.

(* sharper: one call per qualifying table plus one *)
Theorem C20_compaction_terminates_count_partial : forall ordf expired,
  ord_covers ordf -> forall n s,
  swf3 s -> 0 < ssize s -> quiet s -> (ccount (stabs s) < n)%nat ->
  snd (compact_n ordf expired n s) = true /\ swf3 (fst (compact_n ordf expired n s)) /\
  ssize (fst (compact_n ordf expired n s)) = ssize s /\
  (forall h, abs (fst (compact_n ordf expired n s)) h = abs s h) /\
  (forall t, In t (tl (stabs (fst (compact_n ordf expired n s)))) -> compactable t = false).
Proof. exact compaction_terminates_count. Qed.
Print Assumptions C20_compaction_terminates_count_partial.

(* with only "every table that holds garbage holds at most 1001 records" the bound fails: the written table
   may qualify, take more than 1001 records while others are drained into it, and need two calls once sealed
   (witness and trace: Proofs/CompactionCounter.v) *)
Theorem C20_compaction_terminates_refuted :
  exists s,
    swf3 s /\ 0 < ssize s /\
    (forall t, In t (stabs s) -> 0 < tgarb t -> (length (trecs t) <= 1001)%nat) /\
    ord_covers all_hkeys /\
    snd (compact_n all_hkeys false (length (stabs s) + 1) s) = false /\
    snd (compact_n all_hkeys false (length (stabs s) + 2) s) = true.
Proof. exact compaction_bound_refuted. Qed.
Print Assumptions C20_compaction_terminates_refuted.

(* what does hold for EVERY well-formed store: each call that is not done strictly decreases the measure [phi]
   (a qualifying table other than the written one weighs records + 1, a qualifying written table weighs all
   records of the store + 2), whatever the number of records per table *)
Theorem C20_compaction_decreases : forall ord expired s t,
  swf3 s -> 0 < ssize s -> find compactable (rev (tl (stabs s))) = Some t ->
  (forall h, In h (hkeys (trecs t)) -> In h ord) ->
  (phi (fst (s_compaction ord expired s)) < phi s)%nat.
Proof. exact compaction_decreases. Qed.
Print Assumptions C20_compaction_decreases.

(* hence compaction always terminates: at most two calls per record plus one per table plus three *)
Theorem C20_compaction_terminates_any : forall ordf expired n s,
  ord_covers ordf -> swf3 s -> 0 < ssize s ->
  (2 * length (s_all s) + length (stabs s) + 3 <= n)%nat ->
  snd (compact_n ordf expired n s) = true /\ swf3 (fst (compact_n ordf expired n s)) /\
  ssize (fst (compact_n ordf expired n s)) = ssize s /\
  (forall h, abs (fst (compact_n ordf expired n s)) h = abs s h) /\
  (forall t, In t (tl (stabs (fst (compact_n ordf expired n s)))) -> compactable t = false).
Proof. exact compaction_terminates_any. Qed.
Print Assumptions C20_compaction_terminates_any.

(* when a call reports done, no table other than the one being written qualifies, before and after the
   recycled tables were freed (the resulting table list is a sublist of the previous one) *)
Theorem C20_done_means_below_threshold : forall ord expired s s',
  s_compaction ord expired s = (s', true) ->
  (forall t, In t (tl (stabs s)) -> compactable t = false) /\
  (forall t, In t (tl (stabs s')) -> compactable t = false) /\
  sub (stabs s') (stabs s).
Proof. exact compaction_done. Qed.
Print Assumptions C20_done_means_below_threshold.

(* a table qualifies when the garbage ratio is reached or when it holds garbage and not one live byte (the second clause
   is the repair of D44: a table is sealed as soon as an entry does not fit, so it can be far from full; when its entries
   were all superseded its garbage stayed below the ratio and its memory was never given back) *)
Theorem C20_compactable_meaning : forall t,
  compactable t = true <->
  (tinuse t = 0 /\ 0 < tgarb t) \/ talloc t * max_garbage_ratio_num <= tgarb t * max_garbage_ratio_den.
Proof. exact compactable_meaning. Qed.
Print Assumptions C20_compactable_meaning.

(* hence, once compaction has reported done, every table other than the one being written that holds garbage also holds
   live bytes and is below the garbage ratio: allocated memory is tied to live data *)
Theorem C20_no_dead_table_after_compaction : forall ord expired s s',
  s_compaction ord expired s = (s', true) ->
  forall t, In t (tl (stabs s')) -> 0 < tgarb t ->
    0 < tinuse t /\ tgarb t * max_garbage_ratio_den < talloc t * max_garbage_ratio_num.
Proof. exact no_dead_table_after_compaction. Qed.
Print Assumptions C20_no_dead_table_after_compaction.

(* the table of the D44 witness: 1021 bytes, sealed after one entry of 367 bytes that was superseded later: 36% garbage *)
Example C20_dead_table_below_ratio :
  let t := {| tcoef := 0; toff := 367; talloc := 1021; tinuse := 0; tgarb := 367; tstate := table_state_ro; trecs := [] |} in
  (talloc t * max_garbage_ratio_num <=? tgarb t * max_garbage_ratio_den) = false /\ compactable t = true.
Proof. vm_compute. split; reflexivity. Qed.

(* ---- a concrete store (table size 100, threshold 40 bytes of garbage): two sealed tables qualify, the written
   table holds one record and no garbage; two calls drain them, the third reports done ---- *)
Definition ex_ent (k : N) : entry := {| ekey := [k]; ettl := 0; ets := 0; ela := 0; evalue := [] |}.
Definition ex_store : store :=
  {| ssize := 100; snext := 3;
     stabs := [ {| tcoef := 2; toff := 30; talloc := 100; tinuse := 30; tgarb := 0; tstate := table_state_rw;
                   trecs := [ {| rh := 23; ro := 0; re := ex_ent 3 |} ] |};
                {| tcoef := 1; toff := 75; talloc := 100; tinuse := 30; tgarb := 45; tstate := table_state_ro;
                   trecs := [ {| rh := 22; ro := 45; re := ex_ent 2 |} ] |};
                {| tcoef := 0; toff := 70; talloc := 100; tinuse := 30; tgarb := 40; tstate := table_state_ro;
                   trecs := [ {| rh := 21; ro := 40; re := ex_ent 1 |} ] |} ] |}.

Example C20_example :
  swf3 ex_store /\ 0 < ssize ex_store /\ quiet ex_store /\ ord_covers all_hkeys /\
  ccount (stabs ex_store) = 2%nat /\
  snd (compact_n all_hkeys true 1 ex_store) = false /\ snd (compact_n all_hkeys true 2 ex_store) = false /\
  snd (compact_n all_hkeys true 3 ex_store) = true /\
  map (fun t => (tcoef t, is_recycled t, map rh (trecs t))) (stabs (fst (compact_n all_hkeys false 3 ex_store)))
    = [(2, false, [23; 21; 22]); (0, true, []); (0, true, [])] /\
  length (stabs (fst (compact_n all_hkeys true 3 ex_store))) = 1%nat.
Proof.
  split; [apply swf3b_sound; vm_compute; reflexivity|]. split; [reflexivity|].
  split; [apply quietb_sound; vm_compute; reflexivity|]. split; [exact ord_covers_all|].
  vm_compute. repeat split; reflexivity.
Qed.
