(* C08 - distributed lock: mutual exclusion, token safety and timeout behaviour.
   Models: Model/DMap.v (Lock = Put NX [PX], Unlock / Lease = Get, compare, Delete / Expire on the owner) and the
   lock specification of Model/Lin.v. Proofs: Proofs/DMapProofs.v, Proofs/LinProofs.v. *)
From Coq Require Import List ZArith Bool Permutation.
Require Import Olric.Model.DMap Olric.Proofs.DMapProofs Olric.Model.Lin Olric.Proofs.LinProofs.
Import ListNotations.
Local Open Scope Z_scope.

(* a Lock returns a token exactly when the key is free or the previous holder's timeout has elapsed; a refused
   Lock changes nothing *)
Theorem C08_lock_only_if_free : forall E d k tok timeout now ts s,
  (snd (lock E d k tok timeout now ts s) = DMap.ROk <-> vlookup now (ploc E d k) s = None) /\
  (snd (lock E d k tok timeout now ts s) <> DMap.ROk -> lock E d k tok timeout now ts s = (s, DMap.RKeyFound)).
Proof. intros. split; [apply lock_ok_iff_free|apply lock_refused_keeps_state]. Qed.

(* at most one token holds the key at any instant *)
Theorem C08_mutex : forall E d k t1 t2 now s, held_by E d k t1 now s -> held_by E d k t2 now s -> t1 = t2.
Proof. exact holder_unique. Qed.

(* Unlock or Lease presented with a token that is not the current holder's (stale, forged, expired) fail with
   no-such-lock and change nothing *)
Theorem C08_token_safety : forall E d k tok ms now ts s,
  Inv E s -> no_idle E -> ~ held_by E d k tok now s ->
  unlock E d k tok now s = (s, RNoSuchLock) /\ lease E d k tok ms now ts s = (s, RNoSuchLock).
Proof. intros. split; [now apply unlock_wrong_token|now apply lease_wrong_token]. Qed.

(* a lock taken with a timeout is held exactly until now + timeout, through whichever path it was taken (the
   path only decodes to the same configuration: Properties/C15proto.v); without timeout it is held until unlocked *)
Theorem C08_timeout : forall E d k tok timeout now ts s,
  0 <= now -> 0 <= timeout -> snd (lock E d k tok timeout now ts s) = DMap.ROk -> default_ttl E d = 0 ->
  forall t', now <= t' ->
    (held_by E d k tok t' (fst (lock E d k tok timeout now ts s)) <-> (timeout = 0 \/ t' < now + timeout)).
Proof. exact lock_holds. Qed.

Theorem C08_unlock_releases : forall E d k tok now s,
  Inv E s -> no_idle E -> held_by E d k tok now s ->
  snd (unlock E d k tok now s) = DMap.ROk /\ vlookup now (ploc E d k) (fst (unlock E d k tok now s)) = None.
Proof. exact unlock_by_holder. Qed.

(* the checker that judges the concurrent lock histories recorded on the real cluster is sound *)
Theorem C08_checker_sound : forall fuel s (h l : list (event lop lres)),
  search _ _ _ lstep lres_eqb fuel s h = Some l -> linearization _ _ _ lstep lres_eqb s h l.
Proof. exact (search_sound _ _ _ lstep lres_eqb). Qed.

(* KNOWN FINDING D23 (open): in the code Unlock is Get; compare; Delete - three steps that are not atomic with
   respect to the expiry of the lock and a re-acquisition by another client. With the check and the delete as
   separate steps the following history breaks mutual exclusion: A locks with timeout 10 at t=0; A's Unlock
   passes its token check at t=9; the lock expires; B locks at t=10; A's Unlock performs its Delete at t=11 and
   removes B's entry; C locks at t=12 while B still believes it holds the lock. *)
Definition ex_env : env := {| replicas := 1; owner := fun _ _ => 0%nat; backups := fun _ _ => []; default_ttl := fun _ => 0; max_idle := fun _ => 0 |}.
Example C08_unlock_race_refuted :
  let d := [100%N] in let k := [1%N] in
  let s1 := fst (lock ex_env d k [65%N] 10 0 1 []) in
  let check := match get_entry ex_env d k 9 s1 with Some e => bytes_eqb (ev e) [65%N] | None => false end in
  let s2 := fst (lock ex_env d k [66%N] 0 10 2 s1) in
  let s3 := fst (delete ex_env d [k] s2) in
  check = true /\ held_by ex_env d k [66%N] 10 s2 /\
  snd (lock ex_env d k [67%N] 0 12 3 s3) = DMap.ROk.
Proof.
  vm_compute. split; [reflexivity|]. split; [|reflexivity]. eexists. split; reflexivity.
Qed.

Example C08_example : lin_lock 10 [Build_event 0 5 (LLock 1) LOk; Build_event 1 30 (LLock 2) LNotAcquired;
                                   Build_event 6 8 (LUnlock 2) LNoSuchLock; Build_event 9 10 (LUnlock 1) LOk] = true.
Proof. vm_compute. reflexivity. Qed.
