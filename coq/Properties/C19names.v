(* C19, the naming of fragments across a migration (Model/FragName.v): "DMaps never interfere" needs the name that
   travels with a migrating fragment to be the name of the DMap it belongs to, for every name - also one that contains
   the fragment prefix "dmap." itself. *)
From Coq Require Import List NArith Bool.
Require Import Olric.Model.FragName Olric.Proofs.FragNameProofs.
Import ListNotations.

Theorem C19_fragment_name_round_trip : forall d, dmap_of_frag (frag_name d) = d.
Proof. exact dmap_of_frag_name. Qed.

Theorem C19_fragment_name_injective : forall d1 d2, frag_name d1 = frag_name d2 -> d1 = d2.
Proof. exact frag_name_injective. Qed.

(* every fragment of every DMap arrives in the receiver's fragment of the same DMap *)
Theorem C19_move_keeps_names : forall ds, map arrives_in (map frag_name ds) = map frag_name ds.
Proof. exact move_keeps_names. Qed.

Theorem C19_move_keeps_apart : forall d1 d2, d1 <> d2 -> arrives_in (frag_name d1) <> arrives_in (frag_name d2).
Proof. exact move_keeps_apart. Qed.

(* stripping every occurrence of "dmap." instead of the prefix sends the entries of "x.dmap.y" into the DMap "x.y" *)
Theorem C19_strip_every_occurrence_refuted :
  exists d, remove_all (length (frag_name d)) frag_prefix (frag_name d) <> d /\
            exists d', d' <> d /\ remove_all (length (frag_name d)) frag_prefix (frag_name d) = d' /\
                       arrives_in (frag_name d') = frag_name d'.
Proof. exact remove_all_is_not_inverse. Qed.

(* non-vacuity: names with the prefix inside, in front, twice *)
Example C19_names_example :
  let d := [100; 109; 97; 112; 46; 100; 109; 97; 112; 46; 120]%N in      (* "dmap.dmap.x" *)
  dmap_of_frag (frag_name d) = d /\ arrives_in (frag_name d) = frag_name d /\ length (frag_name d) = 16.
Proof. vm_compute. repeat split. Qed.
