(* C03, members lost during the hand-over (Model/BalanceCrash.v): "a crash of sender or receiver at each step of a
   fragment move".  ReplicaCount 2: one backup owner mirrors every acknowledged Put and Delete.  The steps of a move
   are export, merge at the owner, acknowledgement, Drop at the sender; the losses between them are sequences of
   the operations below (see the header of the model).  Holder #0 is the partition owner, holders #1.. are the
   previous owners. *)
From Coq Require Import List NArith ZArith Bool.
Require Import Olric.Model.Balance Olric.Model.BalanceCrash Olric.Proofs.BalanceCrashProofs.
Import ListNotations.
Local Open Scope Z_scope.

(* For every sequence of Puts (increasing timestamps), Deletes, joins, complete moves, moves interrupted after
   the merge (CSend: nothing dropped), prunes and member losses placed anywhere: as long as the backup owner
   survives (any number of holders of primary-kind data lost), or every holder survives (the backup owner lost),
   a read over the surviving copies returns exactly the last acknowledged entry of every key, and a deleted key
   reads not-found. *)
Theorem C03_crash_at_any_step : forall l,
  cts_fresh (fun _ => None) l ->
  forallb (fun o => negb (is_backup_crash o)) l = true \/ forallb (fun o => negb (is_holder_crash o)) l = true ->
  forall k, cread k (fst (crun cinit (fun _ => None) l)) = snd (crun cinit (fun _ => None) l) k.
Proof. exact crash_tolerant. Qed.

(* the hypotheses are met by a history that loses the sender between merge and Drop, then the receiver *)
Example C03_crash_example :
  let l := [COp (BPut 1%N 10%N 1); COp (BPut 2%N 20%N 2); COp BJoin; COp (BPut 1%N 11%N 3);
            CSend 1 [1%N; 2%N]; CCrashHolder 1; COp (BDel 2%N); COp BJoin; CSend 1 [1%N]; CCrashHolder 0;
            COp (BPut 3%N 30%N 4)] in
  cts_fresh (fun _ => None) l /\ forallb (fun o => negb (is_backup_crash o)) l = true /\
  map (fun k => cread k (fst (crun cinit (fun _ => None) l))) [1%N; 2%N; 3%N] =
    [Some (11%N, 3); None; Some (30%N, 4)].
Proof. cbn. repeat split; auto. Qed.

(* R-1 = 1 is tight: losing the backup owner and the owner loses the entry *)
Theorem C03_two_losses_refuted :
  let l := [COp (BPut 1%N 7%N 1); CCrashBackup; CCrashHolder 0] in
  cread 1%N (fst (crun cinit (fun _ => None) l)) = None /\ snd (crun cinit (fun _ => None) l) 1%N = Some (7%N, 1).
Proof. exact both_lost_loses. Qed.
