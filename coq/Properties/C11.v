(* C11 - the storage engine behaves as a map under compaction and table transfer.
   Only statements; proofs are in Proofs/StoreProofs.v and Proofs/StoreRefine.v. Model: Model/Store.v
   (record level; the byte layout of a record is Model/Codec.v, round trip in Properties/C17.v). *)
From Coq Require Import List NArith ZArith Bool Permutation.
Require Import Olric.Gen.Consts Olric.Model.Codec Olric.Model.Store.
Require Import Olric.Proofs.StoreProofs Olric.Proofs.StoreRefine.
Import ListNotations.
Local Open Scope N_scope.

(* For EVERY sequence of Put, PutRaw, Get, Delete, UpdateTTL and Compaction steps (any map-iteration
   order, with or without freeing idle tables), any table size, started from a fresh or forked store:
   every result equals the result of the map specification [sstep] (a lookup returns exactly the most
   recently stored entry, not-found for absent/deleted keys; the only rejections are the two documented
   ones and they change nothing), the abstraction of the final state is the specification's final map,
   and the invariant [swf] (per-table accounting + each hkey stored at most once) holds. No operation
   returns SSpin: the retry loop of Put ends after at most one new table. *)
Theorem C11_refines_map : forall (size : N) (fork : bool) (ops : list sop),
  let s0 := (if fork then fork_store size else empty_store size) in
  let '(s, obs) := mrun s0 ops in
  let '(m, obs') := srun size (fun _ => None) ops in
  obs = obs' /\ swf s /\ forall h, abs s h = m h.
Proof.
  intros size fork ops s0.
  assert (HR : R s0 (fun _ => None)) by (unfold s0; destruct fork; [apply R_fork|apply R_empty]).
  pose proof (run_refines ops s0 _ HR) as H.
  assert (Hsz : ssize s0 = size) by (unfold s0; destruct fork; reflexivity). rewrite Hsz in H.
  destruct (mrun s0 ops) as [s obs]. destruct (srun size (fun _ => None) ops) as [m obs'].
  cbn in H. destruct H as ([Hs Ha] & Ho & _). auto.
Qed.

(* Compaction never changes the contents, whatever order Go's map iteration takes. *)
Theorem C11_compaction_identity : forall ord expired s,
  swf s -> swf (fst (s_compaction ord expired s)) /\ forall h, abs (fst (s_compaction ord expired s)) h = abs s h.
Proof. intros ord expired s H. destruct (compaction_spec ord expired s H) as (A & B & _). auto. Qed.

(* The reported entry count is the number of present keys and iteration (Range/RangeHKey) visits exactly
   the present keys, each once. *)
Theorem C11_length_and_range : forall s,
  swf s ->
  st_len (s_stats s) = N.of_nat (length (hkeys (s_all s))) /\
  NoDup (hkeys (s_all s)) /\ (forall h, In h (hkeys (s_all s)) <-> abs s h <> None) /\
  (forall r, In r (s_all s) -> abs s (rh r) = Some (view (re r))).
Proof.
  intros s H. destruct (stats_spec s H) as (A & B & C & _). repeat split; auto; try apply C.
  intros r Hin. apply (abs_some _ _ _ (proj2 H)). exists r. auto.
Qed.

(* Table transfer: Export hands out a live table; dropping it removes exactly its records. *)
Theorem C11_transfer : forall s i t,
  swf s -> s_export s = Some (i, t) ->
  In t (stabs s) /\ is_recycled t = false /\
  Permutation (s_all s) (trecs t ++ s_all (s_drop i s)) /\ swf (s_drop i s) /\
  forall h, abs (s_drop i s) h = if existsb (has h) (trecs t) then None else abs s h.
Proof. exact export_drop_spec. Qed.

(* Non-vacuity: a concrete reachable multi-table state (3 tables, one of them recycled) satisfies swf. *)
Definition ex_entry (n : nat) (c : N) : entry := {| ekey := [c]; ettl := 0; ets := 1; ela := 0; evalue := repeat c n |}.
Definition ex_ops : list sop :=
  [PPut 1 (ex_entry 60 1); PPut 2 (ex_entry 60 2); PPut 1 (ex_entry 60 3); PDel 2; PCompact [2; 1] false;
   PPut 3 (ex_entry 10 4); PCompact [] false; PGet 1 0%Z].
Example C11_example_state :
  let s := fst (mrun (fork_store 101) ex_ops) in
  length (stabs s) = 3%nat /\ existsb is_recycled (stabs s) = true /\ swf s /\
  abs s 1 = Some (view (ex_entry 60 3)) /\ abs s 2 = None.
Proof.
  pose proof (C11_refines_map 101 true ex_ops) as H. cbn zeta in H.
  destruct (mrun (fork_store 101) ex_ops) as [s obs] eqn:E.
  destruct (srun 101 (fun _ => None) ex_ops) as [m obs'] eqn:E'. destruct H as (_ & Hs & _).
  cbn [fst]. assert (Es : s = fst (mrun (fork_store 101) ex_ops)) by now rewrite E.
  split; [rewrite Es; vm_compute; reflexivity|]. split; [rewrite Es; vm_compute; reflexivity|].
  split; [exact Hs|]. split; rewrite Es; vm_compute; reflexivity.
Qed.
