(* C10 - eviction keeps a DMap within its configured bounds without harming fresh keys.
   Models: Model/LRU.v (LRU on the write path of one fragment, victim = oracle constrained to be a key of the
   fragment) and Model/DMap.v (idle / expiry eviction). Proofs: Proofs/LRUProofs.v, Proofs/DMapProofs.v. *)
From Coq Require Import List NArith ZArith Lia Bool.
Require Import Olric.Model.LRU Olric.Proofs.LRUProofs Olric.Model.DMap Olric.Proofs.DMapProofs.
Import ListNotations.

Local Open Scope N_scope.

(* MaxKeys: after ANY sequence of Puts on a fragment, whatever the sampler evicts, the fragment holds at most
   max(1, MaxKeys / owned partitions) keys - also when MaxKeys is smaller than the partition count *)
Theorem C10_maxkeys : forall c l,
  0 < maxkeys c -> victims_ok_run c l [] -> flen (lru_run c l []) <= N.max 1 (maxkeys c / owned c).
Proof.
  intros c l Hm Hv. destruct (lru_run_bounds c l [] (NoDup_nil _) Hv) as (A & _ & _).
  apply A; [exact Hm|apply empty_bounds].
Qed.

(* MaxInuse with equally sized entries: the bytes in use never exceed the share by more than one entry *)
Theorem C10_maxinuse : forall c l,
  0 < maxinuse c -> victims_ok_run c l [] -> finuse c (lru_run c l []) <= maxinuse c / owned c + esz c.
Proof.
  intros c l Hm Hv. destruct (lru_run_bounds c l [] (NoDup_nil _) Hv) as (_ & B & _).
  apply B; [exact Hm|apply empty_bounds].
Qed.

(* the key just written is present (an eviction happens before the write and never removes the new key) *)
Theorem C10_put_readable : forall c v1 v2 k f, fmem k (lru_put c v1 v2 k f) = true.
Proof. exact lru_put_readable. Qed.

(* per member: n owned partitions each within its share hold at most max(n, MaxKeys) keys together *)
Theorem C10_member_bound : forall (mk n : N) (lens : list N),
  0 < n -> N.of_nat (length lens) <= n -> (forall x, In x lens -> x <= N.max 1 (mk / n)) ->
  fold_right N.add 0 lens <= N.max n mk.
Proof.
  intros mk n lens Hn Hl Hx.
  assert (H : fold_right N.add 0 lens <= N.of_nat (length lens) * N.max 1 (mk / n)).
  { induction lens as [|x lens IH]; [cbn; lia|]. cbn [fold_right length].
    assert (x <= N.max 1 (mk / n)) by (apply Hx; now left).
    assert (fold_right N.add 0 lens <= N.of_nat (length lens) * N.max 1 (mk / n)).
    { apply IH; [cbn [length] in Hl; lia|intros y Hy; apply Hx; now right]. }
    lia. }
  assert (Hq : n * (mk / n) <= mk) by (apply N.mul_div_le; lia).
  destruct (N.max_spec 1 (mk / n)) as [[_ E]|[_ E]]; rewrite E in H; destruct (N.max_spec n mk) as [[_ E2]|[_ E2]]; rewrite E2; nia.
Qed.

Local Open Scope Z_scope.

(* MaxIdleDuration: a background pass never removes a key whose last access lies within the idle window (and
   which has not expired) - on the owner or on any backup *)
Theorem C10_idle_safety : forall E m now d k p sample s,
  lookup (ploc E d k) s = Some p -> expired (ettl p) now = false ->
  (max_idle E d = 0 \/ now < max_idle E d + ela p) ->
  forall l, holder E d k l = true -> lookup l (evict_pass E m sample now s) = lookup l s.
Proof.
  intros E m now d k p sample s Hp Hx Hw l Hl. eapply evict_keeps; eauto.
  unfold idle. destruct Hw as [-> | Hw]; [reflexivity|].
  destruct (max_idle E d =? 0); [reflexivity|]. cbn. destruct (Z.leb_spec (max_idle E d + ela p) now); [lia|reflexivity].
Qed.

(* ... and a key left untouched for longer than the window disappears with the first pass that samples it
   ("eventually" = the sampler's fairness) *)
Theorem C10_idle_liveness : forall E m now d k p sample s,
  Inv E s -> In (d, k) sample -> owner E d k = m -> lookup (ploc E d k) s = Some p ->
  max_idle E d <> 0 -> max_idle E d + ela p <= now ->
  lookup (ploc E d k) (evict_pass E m sample now s) = None.
Proof.
  intros E m now d k p sample s HI Hin Ho Hp Hne Hle. eapply evict_removes; eauto.
  unfold idle. apply orb_true_iff. right. destruct (Z.eqb_spec (max_idle E d) 0); [contradiction|]. cbn.
  destruct (Z.leb_spec (max_idle E d + ela p) now); [reflexivity|lia].
Qed.

Example C10_example :
  let c := {| maxkeys := 3; maxinuse := 0; owned := 7; esz := 64 |} in
  let f := lru_run c [([], [], [1%N]); ([1%N], [], [2%N]); ([2%N], [], [3%N])] [] in
  victims_ok_run c [([], [], [1%N]); ([1%N], [], [2%N]); ([2%N], [], [3%N])] [] /\ f = [[3%N]].
Proof. vm_compute. repeat split; intros; try reflexivity; discriminate. Qed.

(* a read is an access: after a Get at time t the key is not evicted for idleness by any background pass before
   t + MaxIdleDuration, whatever its earlier last-access stamp was (Table.Get stamps the owner's copy; the idle test of
   the read itself looks at that fresh stamp, so a read never reports a stored, unexpired key as idle) *)
Theorem C10_read_keeps_alive : forall E m d k t now p sample s,
  lookup (ploc E d k) s = Some p -> expired (ettl p) now = false -> now < max_idle E d + t ->
  let s1 := fst (get E d k t s) in
  forall l, holder E d k l = true -> lookup l (evict_pass E m sample now s1) = lookup l s1.
Proof.
  intros E m d k t now p sample s Hp Hx Hw s1 l Hl. subst s1. cbn [get fst].
  eapply (evict_keeps E m now d k {| ev := ev p; ettl := ettl p; ets := ets p; ela := t |}); [| | |exact Hl].
  - rewrite lookup_touch, loc_eqb_refl, Hp. reflexivity.
  - exact Hx.
  - unfold idle. cbn [ela]. destruct (max_idle E d =? 0); [reflexivity|]. cbn.
    destruct (Z.leb_spec (max_idle E d + t) now); [lia|reflexivity].
Qed.
