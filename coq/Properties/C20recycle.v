(* C20: the peak of a churn burst is given back.  Compaction recycles emptied tables (kept for re-use); once it reports completion
   and maxIdleTableTimeout has elapsed, the recycled tables are released: the store keeps the tables in use plus at most one.
   (fragment.Compaction must therefore keep calling the engine also when the fragment holds no garbage - the seeded change
   C20-f skips exactly that call.) *)
From Coq Require Import List NArith Bool Arith.
Require Import Olric.Gen.Consts Olric.Model.Store Olric.Proofs.RecycleProofs.
Import ListNotations.

Theorem C20_done_releases_recycled : forall ord s s',
  s_compaction ord true s = (s', true) ->
  count_recycled (stabs s') <= 1 /\
  (0 < count_in_use (stabs s) -> count_recycled (stabs s') = 0) /\
  count_in_use (stabs s') = count_in_use (stabs s) /\
  length (stabs s') <= count_in_use (stabs s) + 1.
Proof. exact done_releases_recycled. Qed.

Theorem C20_fresh_recycled_tables_are_kept : forall ord s s', s_compaction ord false s = (s', true) -> s' = s.
Proof. exact done_keeps_fresh_recycled. Qed.
