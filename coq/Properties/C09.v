(* C09 - a key is visible until its expiry and never after it. Model: Model/DMap.v; proofs: Proofs/DMapProofs.v.
   Time is an input: every step carries the owner's clock reading in milliseconds. *)
From Coq Require Import List NArith ZArith Bool.
Require Import Olric.Model.DMap Olric.Proofs.DMapProofs.
Import ListNotations.
Local Open Scope Z_scope.

(* An expired, not yet evicted key is indistinguishable from an absent one for EVERY operation (Get, GetPut's
   old value, Incr's base, NX, XX, Expire, Unlock/Lease, Delete, Destroy): two states that differ only in
   expired entries give the same result and stay related. *)
Theorem C09_expired_is_absent : forall E now ts s s' o,
  Inv E s -> Inv E s' -> no_idle E -> veq now s s' -> client_op o = true ->
  snd (step E now ts s o) = snd (step E now ts s' o) /\
  veq now (fst (step E now ts s o)) (fst (step E now ts s' o)).
Proof. exact step_veq. Qed.

(* ... whether or not background eviction has already removed it: eviction passes placed anywhere in a history
   with non-decreasing clock readings change no result *)
Theorem C09_eviction_is_invisible : forall E, no_idle E -> forall l t s s',
  Inv E s -> Inv E s' -> veq t s s' -> times_from t l ->
  crun E s l = crun E s' (filter (fun x => client_op (snd x)) l).
Proof. exact eviction_invisible. Qed.

(* a key stored with a relative expiry ms at time t is returned with its value by every read before t+ms and
   by no read at or after t+ms *)
Theorem C09_deadline : forall E d k v ms t ts s,
  Inv E s -> no_idle E -> 0 <= t -> 0 < ms ->
  let s1 := fst (put E d k v {| nx := false; xx := false; pexp := ERel ms |} t ts s) in
  forall t', snd (get E d k t' s1) = if t' <? t + ms then RVal v (t + ms) else RNotFound.
Proof. exact deadline. Qed.

(* a plain Put clears the expiry (or applies the DMap default), Expire replaces it without touching the
   value, Incr/Decr keep it *)
Theorem C09_ttl_rules :
  (forall E d k v now ts s,
     exists e, lookup (ploc E d k) (fst (put E d k v plain now ts s)) = Some e /\ ev e = v /\
               ettl e = (if default_ttl E d =? 0 then 0 else now + default_ttl E d)) /\
  (forall E d k ms now ts s,
     match vlookup now (ploc E d k) s with
     | Some e => snd (expire E d k ms now ts s) = ROk /\
                 exists e', lookup (ploc E d k) (fst (expire E d k ms now ts s)) = Some e' /\ ev e' = ev e /\ ettl e' = now + ms
     | None => expire E d k ms now ts s = (s, RNotFound)
     end) /\
  (forall E d k delta now ts s e,
     Inv E s -> no_idle E -> vlookup now (ploc E d k) s = Some e -> ettl e <> 0 ->
     exists e', lookup (ploc E d k) (fst (incr E d k delta now ts s)) = Some e' /\ ettl e' = ettl e).
Proof. split; [exact plain_put_resets_ttl|split; [exact expire_rule|exact incr_keeps_ttl]]. Qed.

(* non-vacuity: the hypotheses are met by a reachable state, and XX on an expired key fails *)
Example C09_example :
  let E := {| replicas := 2; owner := fun _ _ => 0%nat; backups := fun _ _ => [1%nat];
              default_ttl := fun _ => 0; max_idle := fun _ => 0 |} in
  let s := fst (run E [] [(100, 1, DPut [100%N] [1%N] [7%N] {| nx := false; xx := false; pexp := ERel 50 |})]) in
  Inv E s /\ snd (step E 149 2 s (DGet [100%N] [1%N])) = RVal [7%N] 150 /\
  snd (step E 150 2 s (DPut [100%N] [1%N] [8%N] {| nx := false; xx := true; pexp := ENone |})) = RNotFound /\
  snd (step E 150 2 s (DExpire [100%N] [1%N] 1000)) = RNotFound /\
  snd (step E 150 2 s (DPut [100%N] [1%N] [8%N] {| nx := true; xx := false; pexp := ENone |})) = ROk.
Proof. split; [apply Inv_run, Inv_empty|]. vm_compute. repeat split; reflexivity. Qed.
