(* C15 - an operation means the same thing through every client path.
   A Put issued by a cluster client, by raw RESP, inside a pipeline, or by an embedded client on a member that does
   not own the key travels as a DM.PUT command: client-side builder (Model/Proto.v: write_put_command) -> server
   parser (parse_put) -> handler decoding (Model/Paths.v: handler_decode) -> the owner-side operation
   (Model/DMap.v: put). An embedded client on the owner runs the owner-side operation directly with cfg_of.
   strconv's float/int formatting and the seconds->milliseconds conversion are oracles with the stated laws. *)
From Coq Require Import List NArith ZArith Bool.
Require Import Olric.Model.Proto Olric.Model.DMap Olric.Model.Paths.
Require Import Olric.Proofs.ProtoRoundTrip Olric.Proofs.PathsProofs Olric.Properties.C15proto Olric.Proofs.DMapProofs.
Import ListNotations.
Local Open Scope Z_scope.

Section Statements.
  Variable F : Type.
  Variable fzero : F.
  Variable fis_zero : F -> bool.
  Variable fmt_float : F -> tok.
  Variable parse_float : tok -> num_res F.
  Variable fms : F -> Z.
  Variable fmt_i : Z -> tok.
  Hypothesis float_roundtrip : forall f, parse_float (fmt_float f) = NOk f.
  Hypothesis float_zero : forall f, fis_zero f = true -> f = fzero.
  Hypothesis fzero_is_zero : fis_zero fzero = true.
  Hypothesis int_roundtrip : forall z, in_int64 z -> parse_int64 (fmt_i z) = NOk z.

  (* For every Put configuration with at most one of EX/PX/EXAT/PXAT (present options being non-zero) and at most one
     of NX/XX: what the owner's handler decodes from the wire is exactly the configuration the caller asked for. *)
  Theorem C15_wire_decodes_to_config : forall (d k v : tok) (x : expiry F) (c : cond),
    expiry_fits F x -> expiry_nonzero F fis_zero x ->
    exists p, parse_put F fzero parse_float (write_put_command F fzero fis_zero fmt_float fmt_i d k v x c) = POk p /\
              handler_decode F fis_zero fms p = cfg_of F fms x c /\
              p_dmap p = d /\ p_key p = k /\ p_value p = v.
  Proof.
    intros d k v x c Hfit Hnz. exists (put_of_config F fzero d k v x c). split.
    - exact (put_config_roundtrip F fzero fis_zero fmt_float parse_float fmt_i float_roundtrip float_zero int_roundtrip d k v x c Hfit).
    - split; [exact (handler_decode_config F fzero fis_zero fms fzero_is_zero d k v x c Hnz)|].
      destruct x; destruct c; repeat split; reflexivity.
  Qed.

  (* Hence the owner-side effect and result are the same through every path, in every state, at every instant:
     the forwarded / cluster / RESP / pipeline execution equals the execution by an embedded client on the owner. *)
  Theorem C15_paths_agree : forall (E : env) (d k v : bytes) (dt kt vt : tok) (x : expiry F) (c : cond) now ts s,
    expiry_fits F x -> expiry_nonzero F fis_zero x ->
    forall p, parse_put F fzero parse_float (write_put_command F fzero fis_zero fmt_float fmt_i dt kt vt x c) = POk p ->
    put E d k v (handler_decode F fis_zero fms p) now ts s = put E d k v (cfg_of F fms x c) now ts s.
  Proof.
    intros E d k v dt kt vt x c now ts s Hfit Hnz p Hp.
    destruct (C15_wire_decodes_to_config dt kt vt x c Hfit Hnz) as (p' & Hp' & Hd & _).
    rewrite Hp in Hp'. injection Hp' as ->. now rewrite Hd.
  Qed.
End Statements.

(* a multi-key Delete removes every named key wherever it lives and returns the number of keys named *)
Theorem C15_multidelete : forall E d ks s,
  snd (delete E d ks s) = RCount (length ks) /\
  forall k l, In k ks -> ld l = d -> lkey l = k -> holder E d k l = true ->
              lookup l (fst (delete E d ks s)) = None.
Proof.
  intros E d ks s. split; [reflexivity|]. cbn [delete fst].
  assert (G : forall ks s k l, In k ks -> holder E d k l = true ->
                               lookup l (fold_left (fun acc k0 => remove_all E d k0 acc) ks s) = None).
  { induction ks0 as [|k0 ks0 IH]; intros s0 k l Hin Hh; [contradiction|]. cbn [fold_left].
    destruct Hin as [->|Hin]; [|now apply (IH _ k)].
    assert (Gone : forall ks1 s1, lookup l s1 = None -> lookup l (fold_left (fun acc k1 => remove_all E d k1 acc) ks1 s1) = None).
    { induction ks1 as [|k1 ks1 IH1]; intros s1 H1; [exact H1|]. cbn [fold_left]. apply IH1.
      rewrite lookup_remove_all. destruct (holder E d k1 l); [reflexivity|exact H1]. }
    apply Gone. now rewrite lookup_remove_all, Hh. }
  intros k l Hin _ _ Hh. now apply (G ks s k l).
Qed.
