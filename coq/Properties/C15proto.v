(* C15 (an operation means the same thing through every client path), protocol half - statements only; the lemmas
   are in Proofs/ProtoRoundTrip.v. The C15 check imports these theorems; they are not registered in props/C16.json.

   In every theorem F is the abstract float64, and strconv enters through explicit hypotheses:
     parse_float (fmt_float f) = NOk f                       ParseFloat(AppendFloat(f,'f',-1,64)) = f
     fis_zero f = true -> f = fzero                          the builders test `x != 0`; +0 and -0 are identified
     in_int64 z -> parse_int64 (fmt_i z) = NOk z             ParseInt(AppendInt(z,10)) = z
     n < 2^64 -> parse_uint64 (fmt_u n) = NOk n              ParseUint(AppendUint(n,10)) = n                       *)
From Coq Require Import String Ascii.
From Coq Require Import List NArith ZArith Bool.
Require Import Olric.Model.Proto Olric.Proofs.ProtoRoundTrip.
Import ListNotations.

Section Statements.
  Variable F : Type.
  Variable fzero : F.
  Variable fis_zero : F -> bool.
  Variable fmt_float : F -> tok.
  Variable parse_float : tok -> num_res F.
  Variable fdur : F -> Z.
  Variable fmt_i : Z -> tok.
  Variable fmt_u : N -> tok.
  Hypothesis float_roundtrip : forall f, parse_float (fmt_float f) = NOk f.
  Hypothesis float_zero : forall f, fis_zero f = true -> f = fzero.
  Hypothesis int_roundtrip : forall z, in_int64 z -> parse_int64 (fmt_i z) = NOk z.
  Hypothesis uint_roundtrip : forall n, (n < two64)%N -> parse_uint64 (fmt_u n) = NOk n.

  (* For every Put configuration with at most one of EX/PX/EXAT/PXAT and at most one of NX/XX, the server parses the
     command that dmap/put.go:writePutCommand + protocol.Put.Command() produce into exactly that configuration. *)
  Theorem C15_put_options_roundtrip :
    forall (d k v : tok) (x : expiry F) (c : cond),
      expiry_fits F x ->
      parse_put F fzero parse_float (write_put_command F fzero fis_zero fmt_float fmt_i d k v x c)
        = POk (put_of_config F fzero d k v x c).
  Proof. exact (put_config_roundtrip F fzero fis_zero fmt_float parse_float fmt_i float_roundtrip float_zero int_roundtrip). Qed.

  (* The same for every protocol.Put record (any combination of options) whose integers fit int64. *)
  Theorem C15_put_record_roundtrip :
    forall p : put_t F, in_int64 (p_px p) -> in_int64 (p_pxat p) ->
      parse_put F fzero parse_float (build_put F fis_zero fmt_float fmt_i p) = POk p.
  Proof. exact (put_roundtrip F fzero fis_zero fmt_float parse_float fmt_i float_roundtrip float_zero int_roundtrip). Qed.

  (* Expire / PExpire, Lock (EX or PX), Lease / PLease, Scan options, Get/GetPut RW, Destroy LC, GetEntry/DelEntry RC. *)
  Theorem C15_options_roundtrip :
    (forall d k s, parse_expire F parse_float fdur (build_expire F fmt_float d k s) = POk (d, k, fdur s)) /\
    (forall d k ms, in_int64 ms -> parse_pexpire (build_pexpire fmt_i d k ms) = POk (d, k, wrap64 (ms * 1000000)%Z)) /\
    (forall l : lock_t F, in_int64 (l_px l) -> (fis_zero (l_ex l) = true \/ l_px l = 0%Z) ->
        parse_lock F fzero parse_float (build_lock F fis_zero fmt_float fmt_i l) = POk l) /\
    (forall d k t s, parse_locklease F parse_float (build_locklease F fmt_float d k t s) = POk (d, k, t, s)) /\
    (forall d k t ms, in_int64 ms -> parse_plocklease (build_plocklease fmt_i d k t ms) = POk (d, k, t, ms)) /\
    (forall s : scan_t, (s_part s < two64)%N -> (s_cursor s < two64)%N -> in_int64 (s_count s) ->
        parse_scan (build_scan fmt_i fmt_u s) = POk (if (s_count s =? 0)%Z then scan_set_count s default_scan_count else s)) /\
    (forall d k raw, parse_get (build_get d k raw) = POk (d, k, raw)) /\
    (forall d k v raw, parse_getput (build_getput d k v raw) = POk (d, k, v, raw)) /\
    (forall d lc, parse_destroy (build_destroy d lc) = POk (d, lc)) /\
    (forall d k rc, parse_getentry (build_getentry d k rc) = POk (d, k, rc)) /\
    (forall d k rc, parse_delentry (build_delentry d k rc) = POk (d, [k], rc)).
  Proof.
    repeat split.
    - exact (expire_roundtrip F fmt_float parse_float fdur float_roundtrip).
    - exact (pexpire_roundtrip fmt_i int_roundtrip).
    - exact (lock_roundtrip F fzero fis_zero fmt_float parse_float fmt_i float_roundtrip float_zero int_roundtrip).
    - exact (locklease_roundtrip F fmt_float parse_float float_roundtrip).
    - exact (plocklease_roundtrip fmt_i int_roundtrip).
    - exact (scan_roundtrip fmt_i fmt_u int_roundtrip uint_roundtrip).
    - exact get_roundtrip.
    - exact getput_roundtrip.
    - exact destroy_roundtrip.
    - exact getentry_roundtrip.
    - exact delentry_roundtrip.
  Qed.
End Statements.

(* the hypotheses are satisfiable: floats as integers of milliseconds written in decimal would do; here the trivial
   one-point instance shows the statements are not vacuous *)
Example put_roundtrip_instance :
  parse_put unit tt (fun _ => NOk tt)
            (write_put_command unit tt (fun _ => true) (fun _ => []) fmt_int (bytes_of "d") (bytes_of "k") (bytes_of "v")
                               (XPX unit 1500) KNX)
  = POk (put_of_config unit tt (bytes_of "d") (bytes_of "k") (bytes_of "v") (XPX unit 1500) KNX).
Proof. vm_compute. reflexivity. Qed.
