(* C07 under the read quorum: Incr/Decr read the counter with the read quorum first (Model/Quorum.v incr_on_cluster =
   internal/dmap/atomic.go loadCurrentAtomicInt + atomicIncrDecr).  A counter that exists but cannot be read with ReadQuorum
   copies must not be restarted from zero: every acknowledged increment would be lost. *)
From Coq Require Import List NArith ZArith Bool.
Require Import Olric.Gen.Consts Olric.Model.LWW Olric.Model.Quorum Olric.Proofs.QuorumProofs.
Import ListNotations.

(* For every ReadQuorum, layout of copies (owner, previous owners, backup owners; absent, unreachable or expired copies
   contribute nothing) and delta: when at least one copy is obtained but fewer than ReadQuorum, the operation is refused. *)
Theorem C07_incr_refused_when_unreadable : forall (RQ : nat) (idle : bool) (now : Z) (local : option entry)
                                                  (prev backups : list (option entry)) value_of delta,
  (0 < obtained local prev backups)%nat -> (obtained local prev backups < RQ)%nat ->
  incr_on_cluster RQ idle now local prev backups value_of delta = IRefused.
Proof.
  intros RQ idle now local prev backups value_of delta H0 H1. unfold incr_on_cluster.
  destruct (read_iff RQ false idle now local prev backups) as (_ & H & _). cbn zeta in H. now rewrite (H H0 H1).
Qed.

(* and when the read yields a value the new value continues it; key-not-found starts from zero *)
Theorem C07_incr_continues_the_read : forall (RQ : nat) (idle : bool) (now : Z) (local : option entry)
                                             (prev backups : list (option entry)) value_of delta,
  match fst (get_on_cluster RQ false idle now local prev backups) with
  | Value e => incr_on_cluster RQ idle now local prev backups value_of delta = INew (value_of e + delta)
  | ENotFound => incr_on_cluster RQ idle now local prev backups value_of delta = INew delta
  | EReadQuorum => incr_on_cluster RQ idle now local prev backups value_of delta = IRefused
  end.
Proof.
  intros. unfold incr_on_cluster. destruct (fst (get_on_cluster RQ false idle now local prev backups)); reflexivity.
Qed.

(* non-vacuity: ReadQuorum 2, the owner holds 41@3 and the only backup owner does not answer *)
Example C07_incr_quorum_example :
  let e := {| e_val := [52; 49]%N; e_ttl := 0; e_ts := 3 |} in
  incr_on_cluster 2 false 1000 (Some e) [] [None] (fun _ => 41%Z) 1 = IRefused /\
  incr_on_cluster 1 false 1000 (Some e) [] [None] (fun _ => 41%Z) 1 = INew 42.
Proof. vm_compute. split; reflexivity. Qed.
