(* C04 - every backup copy mirrors the primary after each acknowledged operation.
   Model: Model/DMap.v (owner-side semantics in a stable healthy cluster with synchronous replication, after
   the fix: commits). Proofs: Proofs/DMapProofs.v. *)
From Coq Require Import List NArith ZArith Bool.
Require Import Olric.Model.DMap Olric.Proofs.DMapProofs.
Import ListNotations.
Local Open Scope Z_scope.

(* For EVERY sequence of operations - Put with any option combination, Get, Delete (any number of keys),
   Expire, GetPut, Incr/Decr, Lock/Unlock/Lease, Destroy and background eviction passes - through any routing
   (any owner / backup assignment, any replica count), at any clock readings: in the state after each
   operation every backup copy of every key equals the primary copy in value, expiry and write timestamp, is
   absent exactly when the primary copy is absent, and no member other than the primary owner and the current
   backup owners holds a copy. *)
Theorem C04_mirror : forall (E : env) (l : list (Z * Z * dop)),
  let s := fst (run E [] l) in
  (forall d k b, In b (backups E d k) ->
     option_map content (lookup (bloc b d k) s) = option_map content (lookup (ploc E d k) s)) /\
  (forall loc e, lookup loc s = Some e -> holder E (ld loc) (lkey loc) loc = true).
Proof. intros E l. exact (Inv_run E l [] (Inv_empty E)). Qed.

(* it holds after every single operation, not only at the end *)
Theorem C04_mirror_step : forall E now ts s o, Inv E s -> Inv E (fst (step E now ts s o)).
Proof. exact Inv_step. Qed.

(* consequently a read answered from any single copy returns the same value, expiry and timestamp *)
Theorem C04_single_copy_reads_agree : forall E s d k l1 l2 e1 e2,
  Inv E s -> ld l1 = d -> lkey l1 = k -> ld l2 = d -> lkey l2 = k ->
  lookup l1 s = Some e1 -> lookup l2 s = Some e2 -> content e1 = content e2.
Proof. exact single_copy_reads_agree. Qed.

(* non-vacuity: a concrete history on a 3-member cluster with two backups per key *)
Definition exE : env :=
  {| replicas := 3; owner := fun _ _ => 0%nat; backups := fun _ _ => [1%nat; 2%nat];
     default_ttl := fun _ => 0; max_idle := fun _ => 0 |}.
Example C04_example :
  let s := fst (run exE [] [(10, 1, DPut [100%N] [1%N] [7%N] {| nx := true; xx := false; pexp := ERel 50 |});
                            (20, 2, DExpire [100%N] [1%N] 500);
                            (30, 3, DIncr [100%N] [1%N] 5)]) in
  option_map content (lookup (bloc 2 [100%N] [1%N]) s) = Some ([53%N], 520, 3) /\
  option_map content (lookup (ploc exE [100%N] [1%N]) s) = Some ([53%N], 520, 3).
Proof. vm_compute. split; reflexivity. Qed.
