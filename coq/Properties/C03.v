(* C03 - after joins (and the stepwise hand-over of a partition's data to its new owner) every acknowledged write is
   still read, every acknowledged delete still reads not-found, and the data ends up exactly once on the new owner.
   Model: Model/Balance.v - one partition; the state is the owners list of the partition (primary owner first, then
   the previous owners that still hold data), every holder is a fragment key -> (value, timestamp).
   Operations (all sequences of them are covered): BPut (acknowledged write on the primary owner), BDel (delete on
   every previous owner, then the owner's own copy), BJoin (routing push: a new empty primary owner), BMove i ks
   (previous owner #i ships the entries of keys ks; the owner merges them with fragmentMergeFunction - the incoming
   entry wins iff its timestamp is >= the current one - and the sender drops them; any i, any ks, also partial
   tables, absent keys, repeated keys, i out of range), BPrune (owners reporting no data leave the owners list).
   A read gathers the copies of the key over all holders and takes the newest timestamp (ties: the later holder).
   The reference [m] is the last acknowledged entry per key; [ts_fresh] says that the acknowledged Puts of a key
   carry increasing timestamps (the clock of the partition owner).
   Proofs: Proofs/BalanceProofs.v.
     Good s m     for every key k: m k = None -> no holder has a copy of k;
                  m k = Some e -> some holder has the copy e, and every copy c of k on any holder has
                  snd c < snd e \/ c = e   (stale copies are strictly older than the acknowledged entry)
     WF s         every holder stores a key at most once (NoDup (map fst f))
     misplaced s  number of entries still stored on previous owners (length (concat (tl s))) *)
From Coq Require Import List NArith ZArith Bool.
Require Import Olric.Model.Balance Olric.Proofs.BalanceProofs.
Import ListNotations.
Local Open Scope Z_scope.

(* only the primary owner is left in the owners list *)
Definition handover_done (s : sys) : bool := (length s <=? 1)%nat.

(* the invariant, spelled out *)
Theorem C03_good_meaning : forall s m,
  Good s m <->
  forall k, match m k with
            | None => forall f, In f s -> flookup k f = None
            | Some e => (exists f, In f s /\ flookup k f = Some e) /\
                        (forall f c, In f s -> flookup k f = Some c -> snd c < snd e \/ c = e)
            end.
Proof. intros s m. reflexivity. Qed.
Print Assumptions C03_good_meaning.

Theorem C03_good_initial : Good [] (fun _ => None) /\ Good [[]] (fun _ => None) /\ WF [] /\ WF [[]].
Proof. exact (conj Good_nil (conj Good_nil1 (conj WF_nil WF_nil1))). Qed.
Print Assumptions C03_good_initial.

(* every operation preserves the invariant; a Put needs a timestamp above the last acknowledged one of its key *)
Theorem C03_good_step : forall s m o,
  Good s m ->
  match o with
  | BPut k _ ts => match m k with Some e => snd e < ts | None => True end
  | _ => True
  end ->
  Good (bstep s o) (sstep m o).
Proof. exact Good_step. Qed.
Print Assumptions C03_good_step.

Theorem C03_wf_step : forall s o, WF s -> WF (bstep s o).
Proof. exact WF_step. Qed.
Print Assumptions C03_wf_step.

(* wherever the data currently lives, a read returns exactly the last acknowledged entry (not-found after a delete) *)
Theorem C03_read_good : forall s m, Good s m -> forall k, read k s = m k.
Proof. exact read_good. Qed.
Print Assumptions C03_read_good.

(* all operation sequences from the empty partition *)
Theorem C03_resolve_invariant : forall l, ts_fresh (fun _ => None) l ->
  let '(s, m) := brun [] (fun _ => None) l in Good s m /\ forall k, read k s = m k.
Proof. exact resolve_invariant. Qed.
Print Assumptions C03_resolve_invariant.

(* ... and from any good state *)
Theorem C03_resolve_from : forall l s m, Good s m -> WF s -> ts_fresh m l ->
  let '(s', m') := brun s m l in Good s' m' /\ WF s' /\ forall k, read k s' = m' k.
Proof. exact run_from. Qed.
Print Assumptions C03_resolve_from.

Theorem C03_holders_wf : forall l, WF (fst (brun [] (fun _ => None) l)).
Proof. exact run_wf. Qed.
Print Assumptions C03_holders_wf.

(* the timestamp hypothesis is needed: resolution is by timestamp alone, so a Put acknowledged by the new owner with
   a timestamp below the one of the copy still lying on a previous owner (clock skew between the two members) is
   shadowed by the stale copy - on reads, and for good once the stale copy is moved (it wins the merge) *)
Theorem C03_resolve_without_fresh_refuted : exists l k,
  let '(s, m) := brun [] (fun _ => None) l in read k s <> m k /\ handover_done s = true.
Proof.
  exists [BPut 1 10 5; BJoin; BPut 1 11 3; BMove 1 [1%N]; BPrune], 1%N. vm_compute. split; [discriminate|reflexivity].
Qed.
Print Assumptions C03_resolve_without_fresh_refuted.

(* joins, moves and prunes are invisible to readers *)
Theorem C03_handover_invisible : forall s m o, Good s m ->
  match o with BJoin | BMove _ _ | BPrune => true | _ => false end = true ->
  Good (bstep s o) m /\ forall k, read k (bstep s o) = read k s.
Proof. exact handover_invisible. Qed.
Print Assumptions C03_handover_invisible.

(* a Delete leaves no copy on any holder, whether or not the primary owner had one *)
Theorem C03_delete_removes_everywhere : forall s k f, In f (bstep s (BDel k)) -> flookup k f = None.
Proof. exact delete_removes_everywhere. Qed.
Print Assumptions C03_delete_removes_everywhere.

Theorem C03_deleted_nowhere : forall s m, Good s m ->
  forall k, m k = None -> forall f, In f s -> flookup k f = None.
Proof. exact deleted_nowhere. Qed.
Print Assumptions C03_deleted_nowhere.

(* moves never add misplaced data, and a move that ships something removes some *)
Theorem C03_move_never_increases : forall s i ks, (1 <= i)%nat ->
  (misplaced (bstep s (BMove i ks)) <= misplaced s)%nat.
Proof. exact move_le. Qed.
Print Assumptions C03_move_never_increases.

Theorem C03_move_decreases : forall (s : sys) i ks k, (1 <= i)%nat -> In k ks -> flookup k (nth i s []) <> None ->
  (misplaced (bstep s (BMove i ks)) < misplaced s)%nat.
Proof. exact move_lt. Qed.
Print Assumptions C03_move_decreases.

(* hence any sequence of moves that each ship at least one entry is no longer than the amount of misplaced data *)
Theorem C03_moves_terminate : forall l s, effective_moves s l -> (length l <= misplaced s)%nat.
Proof. exact moves_terminate. Qed.
Print Assumptions C03_moves_terminate.

(* while data is misplaced some move makes progress, so the hand-over can always be completed *)
Theorem C03_move_progress : forall s, (0 < misplaced s)%nat ->
  exists i ks, (1 <= i)%nat /\ (misplaced (bstep s (BMove i ks)) < misplaced s)%nat.
Proof. exact move_progress. Qed.
Print Assumptions C03_move_progress.

Theorem C03_moves_complete : forall s m, Good s m ->
  exists l, misplaced (run_moves s l) = 0%nat /\ Good (run_moves s l) m.
Proof. exact moves_complete. Qed.
Print Assumptions C03_moves_complete.

(* shipping a whole table empties the sender *)
Theorem C03_move_all_empties : forall f, fold_left (fun acc k => fremove k acc) (map fst f) f = [].
Proof. exact move_all_empties. Qed.
Print Assumptions C03_move_all_empties.

(* quiescent placement: once no previous owner holds data, every live key is on the primary owner and nowhere else *)
Theorem C03_quiescent_placement : forall s m, Good s m -> misplaced s = 0%nat ->
  forall k e, m k = Some e ->
  flookup k (hd [] s) = Some e /\ forall f, In f (tl s) -> flookup k f = None.
Proof. exact quiescent_placement. Qed.
Print Assumptions C03_quiescent_placement.

(* ... stored exactly once, counted over all stored entries of all holders *)
Theorem C03_quiescent_once : forall s m, Good s m -> WF s -> misplaced s = 0%nat ->
  forall k e, m k = Some e ->
  filter (fun ke : N * ent => N.eqb k (fst ke)) (concat s) = [(k, e)].
Proof. exact quiescent_once. Qed.
Print Assumptions C03_quiescent_once.

(* ... and the owners list shrinks to the primary owner *)
Theorem C03_quiescent_prune : forall s, misplaced s = 0%nat -> (length (bstep s BPrune) <= 1)%nat.
Proof. exact quiescent_prune. Qed.
Print Assumptions C03_quiescent_prune.

(* non-vacuity: three Puts, a join, a Delete of a key that only the previous owner holds, an overwrite while the
   old version is still on the previous owner, a move of the overwritten key (the stale version loses the merge), a
   move with a repeated and an absent key, prune. Reads before the moves, after them and the final placement. *)
Definition C03_history : list bop :=
  [BPut 1 10 1; BPut 2 20 2; BPut 4 40 3; BJoin; BDel 1; BPut 2 21 4;
   BMove 1 [2%N]; BMove 1 [4%N; 4%N; 9%N]; BPrune].

Example C03_example :
  ts_fresh (fun _ => None) C03_history /\
  (let '(s, _) := brun [] (fun _ => None) (firstn 6 C03_history) in
   s = [[(2%N, (21%N, 4))]; [(4%N, (40%N, 3)); (2%N, (20%N, 2))]] /\
   read 1 s = None /\ read 2 s = Some (21%N, 4) /\ read 4 s = Some (40%N, 3) /\ misplaced s = 2%nat) /\
  (let '(s, _) := brun [] (fun _ => None) (firstn 7 C03_history) in
   s = [[(2%N, (21%N, 4))]; [(4%N, (40%N, 3))]] /\ misplaced s = 1%nat) /\
  (let '(s, m) := brun [] (fun _ => None) C03_history in
   s = [[(4%N, (40%N, 3)); (2%N, (21%N, 4))]] /\
   read 1 s = None /\ read 2 s = Some (21%N, 4) /\ read 4 s = Some (40%N, 3) /\
   m 1%N = None /\ m 2%N = Some (21%N, 4) /\ m 4%N = Some (40%N, 3) /\ misplaced s = 0%nat).
Proof. vm_compute. repeat split. Qed.
Print Assumptions C03_example.
