(* C19 - Destroy removes one DMap everywhere and DMaps never interfere. Model: Model/DMap.v. The state is keyed
   by (member, kind, DMap name, key): two DMaps never share a fragment, whatever their names and keys hash to. *)
From Coq Require Import List NArith ZArith Bool.
Require Import Olric.Model.DMap Olric.Proofs.DMapProofs.
Import ListNotations.
Local Open Scope Z_scope.

(* after Destroy no member holds a primary or backup copy of any key of the DMap, every key reads
   not-found, and the DMap accepts new writes *)
Theorem C19_destroy_complete : forall E d s,
  (forall l, ld l = d -> lookup l (destroy d s) = None) /\
  (forall k now, snd (get E d k now (destroy d s)) = RNotFound) /\
  (forall k v now ts, snd (put E d k v plain now ts (destroy d s)) = ROk).
Proof. exact destroy_complete. Qed.

(* no operation on DMap d (Destroy, locks, atomics, puts, deletes, expiry updates included) changes any copy
   of a DMap with a different name - in particular for names and keys whose concatenations coincide *)
Theorem C19_frame : forall E now ts s o d l,
  op_dmap o = Some d -> ld l <> d -> lookup l (fst (step E now ts s o)) = lookup l s.
Proof. exact frame_step. Qed.

(* background eviction only ever removes entries that are expired or idle; in particular it never touches a
   visible entry of any DMap *)
Theorem C19_eviction_frame : forall E m sample now s, Inv E s -> no_idle E -> veq now (evict_pass E m sample now s) s.
Proof. exact evict_veq. Qed.

Example C19_example_collision :
  let E := {| replicas := 1; owner := fun _ _ => 0%nat; backups := fun _ _ => []; default_ttl := fun _ => 0; max_idle := fun _ => 0 |} in
  (* DMap "ab" key "c" and DMap "a" key "bc": the concatenations coincide *)
  let s := fst (run E [] [(1, 1, DPut [97;98]%N [99%N] [1%N] plain); (2, 2, DPut [97%N] [98;99]%N [2%N] plain);
                          (3, 3, DDestroy [97;98]%N)]) in
  snd (step E 4 4 s (DGet [97;98]%N [99%N])) = RNotFound /\ snd (step E 4 4 s (DGet [97%N] [98;99]%N)) = RVal [2%N] 0.
Proof. vm_compute. split; reflexivity. Qed.
