(* C07 - Incr, Decr and GetPut are atomic across all clients: the owner-side model of the atomic operations
   (Model/DMap.v - tied to internal/dmap/atomic.go by the differential runs of C07/C04/C09/C15) implements, key by
   key, a counter with fetch-and-add and swap over Go's wrapping int64. Proofs: Proofs/DMapCounter.v, Proofs/IntText.v.
   With C07_commit_points_linearize the chain is
   real code =(differential)= DMap.step =(theorem)= counter specification =(theorem)= linearizable, no lost update. *)
From Coq Require Import List NArith ZArith Bool Permutation Lia.
Require Import Olric.Model.DMap Olric.Model.Lin Olric.Proofs.DMapProofs Olric.Proofs.LinProofs
               Olric.Proofs.DMapRegister Olric.Proofs.IntText Olric.Proofs.DMapCounter.
Import ListNotations.
Local Open Scope Z_scope.

(* strconv.Itoa then strconv.ParseInt is the identity on every int64: the text an Incr stores is the number the
   next Incr starts from *)
Theorem C07_int_text_round_trip : forall z, - two63 <= z < two63 -> parse_int (print_int z) = Some z.
Proof. exact parse_print. Qed.

(* One step. For EVERY routing (any owner, any number and placement of backup owners), every DMap without default
   TTL, every key k holding the decimal text of an int64 (or nothing), every operation o at any clock reading:
   Incr/Decr by any amount, GetPut of any int64 text and Get on k itself, ARBITRARY operations on the other keys
   (Put with any options, Delete, Expire, Lock/Unlock/Lease, atomic operations, Destroy of other DMaps, eviction
   passes): the key's number changes and the call answers exactly as the counter specification says - the new value
   for Incr/Decr, the previous value for GetPut - and operations on other keys leave it alone. *)
Theorem C07_dmap_step_refines_counter :
  forall (E : env) (d k : bytes), no_idle E -> default_ttl E d = 0 ->
    forall now ts s o, Inv E s -> Num E d k s -> callowed d k o = true ->
      let s' := fst (step E now ts s o) in
      let r := snd (step E now ts s o) in
      Num E d k s' /\
      match cproj d k o with
      | Some co => cabs E d k s' = fst (cstepw (cabs E d k s) co) /\ cmap r = Some (snd (cstepw (cabs E d k s) co))
      | None => cabs E d k s' = cabs E d k s
      end.
Proof. intros E d k Hi Ht now ts s o HI Hn Ha. exact (cstep_refines E d k Hi Ht now ts s o HI Hn Ha). Qed.

(* the wrapping counter is the counter of Model/Lin.v as long as no sum leaves int64 *)
Theorem C07_wrapping_counter_is_counter : forall s o,
  (forall dl, o = CIncr dl -> - two63 <= match s with Some v => v | None => 0 end + dl < two63) ->
  cstepw s o = cstep s o.
Proof. exact cstepw_is_cstep. Qed.

(* End to end: any number of concurrent clients; every operation takes effect at one instant between its
   invocation and its response (the owner-side step under the key's lock), the instants are distinct, and every
   call returned what the owner-side model returns at that instant. Then the history of ONE key is linearizable
   w.r.t. the counter: no increment is lost, every GetPut returns the value it replaced. *)
Theorem C07_dmap_executions_linearize :
  forall (E : env) (d k : bytes), no_idle E -> default_ttl E d = 0 ->
    forall (l : list xev) (s : state),
      Inv E s -> Num E d k s -> Forall (fun x => callowed d k (xop x) = true) l -> ordered l ->
      let h := map (ce _ _) (chistory d k l (snd (run E s (steps l)))) in
      linearization _ _ _ cstepw cres_eqb (cabs E d k s) h h.
Proof. intros E d k Hi Ht l s HI Hn Ha Ho. exact (counter_executions_linearize E d k Hi Ht l s HI Hn Ha Ho). Qed.

(* non-vacuity: Incr from nothing, Decr below zero, GetPut of "-40", wrap-around at the top of int64, while another
   key is written and deleted *)
Definition exE : env :=
  {| replicas := 2; owner := fun _ _ => 1%nat; backups := fun _ _ => [0%nat];
     default_ttl := fun _ => 0; max_idle := fun _ => 0 |}.
Definition exD : bytes := [100%N].
Definition exK : bytes := [1%N].
Definition exl : list xev :=
  [ {| xinv := 0; xrsp := 9; xcom := 5; xnow := 10; xts := 1; xop := DIncr exD exK 7 |};
    {| xinv := 1; xrsp := 8; xcom := 6; xnow := 11; xts := 2; xop := DIncr exD exK (-10) |};
    {| xinv := 2; xrsp := 20; xcom := 7; xnow := 12; xts := 3; xop := DPut exD [2%N] [5%N] plain |};
    {| xinv := 3; xrsp := 21; xcom := 10; xnow := 13; xts := 4; xop := DGetPut exD exK (print_int (-40)) |};
    {| xinv := 4; xrsp := 22; xcom := 11; xnow := 14; xts := 5; xop := DDel exD [[2%N]] |};
    {| xinv := 5; xrsp := 23; xcom := 12; xnow := 15; xts := 6; xop := DIncr exD exK 9223372036854775807 |};
    {| xinv := 6; xrsp := 24; xcom := 13; xnow := 16; xts := 7; xop := DIncr exD exK 41 |};
    {| xinv := 7; xrsp := 25; xcom := 14; xnow := 17; xts := 8; xop := DGet exD exK |} ].
Example C07_refine_example :
  Forall (fun x => callowed exD exK (xop x) = true) exl /\ ordered exl /\ Inv exE [] /\ Num exE exD exK [] /\
  map (fun c => eres (ce _ _ c)) (chistory exD exK exl (snd (run exE [] (steps exl)))) =
    [CInt 7; CInt (-3); COld (Some (-3)); CInt 9223372036854775767; CInt (-9223372036854775808);
     COld (Some (-9223372036854775808))].
Proof.
  split; [repeat constructor|]. split; [cbn; repeat split; try lia; repeat constructor; lia|].
  split; [apply Inv_empty|]. split; [intros e H; discriminate|]. vm_compute. reflexivity.
Qed.
