(* C01 / C03: an acknowledged write - a Put, a replica write, the import of a moved fragment - is never lost to the janitor
   (Model/Lifecycle.v: loadOrCreateFragmentForWrite against janitor.go, every interleaving of lookups, writes and janitor
   passes, any number of writers). *)
From Coq Require Import List NArith Bool.
Require Import Olric.Model.Lifecycle Olric.Proofs.LifecycleProofs.
Import ListNotations.

Theorem C03_no_acknowledged_write_is_lost_to_the_janitor : forall l kv,
  In kv (acked (run true l)) -> In kv (visible (run true l)).
Proof. exact no_acknowledged_write_is_lost. Qed.

(* D22 (Put, replica write) and D46 (import of a moved fragment) before their repairs: no look at the closed flag *)
Theorem C03_unchecked_write_refuted :
  let l := [LLoad 1; LJanitor; LWrite 1 7%N 70%N] in
  acked (run false l) = [(7%N, 70%N)] /\ visible (run false l) = [].
Proof. exact unchecked_write_is_lost. Qed.

Example C03_lifecycle_example :
  let l := [LLoad 1; LJanitor; LWrite 1 7%N 70%N; LLoad 1; LWrite 1 7%N 70%N] in
  acked (run true l) = [(7%N, 70%N)] /\ visible (run true l) = [(7%N, 70%N)].
Proof. exact checked_same_schedule. Qed.
