(* C12, client-iterator part (cluster_iterator.go / embedded_iterator.go; model: Model/Iter.v).
   The inputs are, per partition, the routing-table entry and the DM.SCAN pages each listed owner answers
   (C12store is about those pages: one complete iteration over a fragment yields every present matching key
   exactly once).  In a stable cluster with ReplicaCount <= 2 every partition lists one primary owner and at
   most one replica owner. *)
From Coq Require Import List NArith Bool Arith.
Require Import Olric.Model.Iter Olric.Proofs.IterProofs Olric.Model.Codec Olric.Model.Store Olric.Proofs.ScanProofs Olric.Proofs.IterStoreProofs.
Import ListNotations.

(* one partition: for every page sequence of the primary and of the replica owner the iterator terminates
   (within part_fuel rounds of fetchData) and hands out exactly the keys found on either of them, each once *)
Theorem C12_partition_exactly_once : forall p fuel,
  stable_part p -> part_fuel p <= fuel ->
  exists ys, iter_part fuel p = Some ys /\ NoDup ys /\ (forall k, In k ys <-> In k (part_keys p)).
Proof. exact iter_part_exactly_once. Qed.

(* the whole iteration over partitions 0..P-1: exactly the keys of all partitions, and (a key belongs to one
   partition) no key twice *)
Theorem C12_iterator_exactly_once : forall ps fuel,
  Forall stable_part ps -> Forall (fun p => part_fuel p <= fuel) ps ->
  exists ys, iter_all fuel ps = Some ys /\
             (forall k, In k ys <-> exists p, In p ps /\ In k (part_keys p)) /\
             (disjoint_parts ps -> NoDup ys).
Proof. exact iter_all_exactly_once. Qed.

(* the hypotheses are satisfiable by a non-trivial partition: primary and replica owner with overlapping,
   differently paged key sets *)
Example C12_iterator_example :
  let pg := fun (rep : bool) (o : owner) => if rep then [[1; 2]; []; [3; 4]]%N else [[4; 3; 2]; [1; 5]]%N in
  let p := {| p_owners := [7%N]; p_replicas := [8%N]; p_pages := pg |} in
  stable_part p /\ part_fuel p = 6 /\ iter_part 6 p = Some [4; 3; 2; 1; 5]%N.
Proof. repeat split; cbn; auto. Qed.

(* limit of the statement: with two owners in one list (ReplicaCount 3, or a hand-over in progress) the state
   machine as coded can spin without the periodic re-fetch of the routing table *)
Theorem C12_two_replica_owners_need_refetch : forall fuel, iter_part fuel spin_part = None.
Proof. exact two_replica_owners_spin. Qed.

(* ---- end to end: the iterator over the SCAN pages of the storage engine ----
   A partition of a stable cluster: the primary owner holds store sP, the replica owner (if any) store sR, both
   satisfying the structural invariant swf3 (C12_invariant_preserved); pgP / pgR are the pages of one complete
   DM.SCAN iteration (s_scan_pages = s_scan_all with the page boundaries kept) for any COUNT >= 1 and any matcher.
   The client iterator then terminates and hands out exactly the keys of the present matching records of either store,
   each once. *)
Theorem C12_end_to_end : forall (enc : list Codec.byte -> key) m count a sP fuelP pgP
    (rb : option (owner * Store.store)) fuelR pgR fuel,
  ScanProofs.swf3 sP -> (0 < Store.ssize sP)%N -> (1 <= count)%nat ->
  IterStoreProofs.s_scan_pages m count fuelP 0 sP = Some pgP ->
  (forall b sR, rb = Some (b, sR) ->
     ScanProofs.swf3 sR /\ (0 < Store.ssize sR)%N /\ IterStoreProofs.s_scan_pages m count fuelR 0 sR = Some pgR) ->
  let p := IterStoreProofs.store_part enc a sP pgP (match rb with Some (b, _) => Some (b, pgR) | None => None end) in
  part_fuel p <= fuel ->
  exists ys, iter_part fuel p = Some ys /\ NoDup ys /\
             forall k, In k ys <-> IterStoreProofs.present enc m sP k \/
                                   (exists b sR, rb = Some (b, sR) /\ IterStoreProofs.present enc m sR k).
Proof. exact IterStoreProofs.iterate_stores. Qed.
