(* C07 - no lost update: the atomic operations are read-then-write under the key's mutex (internal/dmap/atomic.go),
   not single steps. For every number of callers and every interleaving of their four stretches (Lock, read, write,
   Unlock) that the mutex allows, the writes form ONE chain: every write adds its delta to the value the key holds at
   that moment and returns the sum, the final value is the initial value plus all deltas written. Without the mutex the
   same callers lose updates. Model: Model/AtomicRMW.v; proofs: Proofs/AtomicRMWProofs.v; that internal/locker IS a
   mutex: C07_locker_mutual_exclusion. *)
From Coq Require Import List ZArith Bool.
Require Import Olric.Model.AtomicRMW Olric.Proofs.AtomicRMWProofs.
Import ListNotations.
Local Open Scope Z_scope.

Theorem C07_read_then_write_under_the_mutex_is_atomic : forall (callers : nat) (init : Z) (schedule : list astep_op),
  let '(s, returned) := arun (ainit callers init) schedule in
  exists deltas, returned = chain init deltas /\ cell s = init + fold_right Z.add 0 deltas.
Proof.
  intros callers init schedule.
  destruct (run_is_a_chain init schedule (ainit callers init) (AInv_init callers init)) as (ds & H1 & H2).
  destruct (arun (ainit callers init) schedule) as [s rs]. exists ds. cbn in *. auto.
Qed.

(* the invariant behind it, one stretch at a time: whoever is not idle holds the mutex, what a caller has read is still
   the value of the key, the value is the initial one plus everything written *)
Theorem C07_rmw_invariant : forall v0 s o, AInv v0 s -> AInv v0 (fst (astep s o)).
Proof. exact AInv_step. Qed.

(* the mutex is necessary: without it two increments by one both return init + 1 and one of them is lost *)
Theorem C07_lost_update_without_the_mutex_refuted :
  arun_nolock (ainit 2 5) [ALock 0%nat; ALock 1%nat; AGet 0%nat; AGet 1%nat; APut 0%nat 1; APut 1%nat 1; AUnlock 0%nat; AUnlock 1%nat]
  = ({| cell := 6; holder := None; apcs := [AIdle; AIdle]; written := 2 |}, [6; 6]).
Proof. exact lost_update_without_the_mutex. Qed.

(* non-vacuity: three callers, the second has to wait for the first; +7, -10, +100 from 5 *)
Example C07_rmw_example :
  arun (ainit 3 5) [ALock 0%nat; ALock 1%nat; AGet 0%nat; AGet 1%nat; APut 0%nat 7; APut 1%nat (-10); AUnlock 0%nat;
                    ALock 1%nat; AGet 1%nat; ALock 2%nat; APut 1%nat (-10); AUnlock 1%nat; ALock 2%nat; AGet 2%nat; APut 2%nat 100]
  = ({| cell := 102; holder := Some 2%nat; apcs := [AIdle; AIdle; ALocked]; written := 97 |}, [12; 2; 102]).
Proof. reflexivity. Qed.
