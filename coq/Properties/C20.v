(* C20 - storage stays bounded under overwrite and delete churn: the accounting half.
   (Compaction progress / termination are in Properties/C20store.v.)  Proofs: Proofs/StoreProofs.v. *)
From Coq Require Import List NArith ZArith Bool.
Require Import Olric.Gen.Consts Olric.Model.Codec Olric.Model.Store.
Require Import Olric.Proofs.StoreProofs Olric.Proofs.StoreRefine.
Import ListNotations.
Local Open Scope N_scope.

(* In every state reachable by ANY sequence of Put / PutRaw (the replica and compaction path) / Get /
   Delete / UpdateTTL / Compaction steps, at any table size:
   - per table: inuse + garbage = offset <= allocated = table size, and inuse is exactly the sum of the
     sizes of the live records (so every superseded or deleted version has left inuse and, until its
     table is recycled, sits in garbage) - on the PutRaw path as well as on the Put path;
   - store totals: in-use bytes = bytes of the present entries; inuse + garbage <= allocated;
     allocated = table size * number of tables. *)
Theorem C20_accounting : forall (size : N) (fork : bool) (ops : list sop),
  let s := fst (mrun (if fork then fork_store size else empty_store size) ops) in
  Forall (fun t => talloc t = size /\ toff t <= talloc t /\ tinuse t + tgarb t = toff t /\
                   tinuse t = sum_sizes (trecs t)) (stabs s) /\
  st_inuse (s_stats s) = sum_sizes (s_all s) /\
  st_inuse (s_stats s) + st_garb (s_stats s) <= st_alloc (s_stats s) /\
  st_alloc (s_stats s) = size * st_tables (s_stats s).
Proof.
  intros size fork ops s.
  set (s0 := if fork then fork_store size else empty_store size) in *.
  assert (HR : R s0 (fun _ => None)) by (unfold s0; destruct fork; [apply R_fork|apply R_empty]).
  pose proof (run_refines ops s0 _ HR) as ([Hs _] & _ & Hsz0). fold s in Hs, Hsz0.
  assert (Hsz : ssize s = size) by (rewrite Hsz0; unfold s0; destruct fork; reflexivity).
  destruct (stats_spec s Hs) as (_ & _ & _ & A & B & C). rewrite Hsz in C.
  split; [|auto]. destruct Hs as [Hw _]. unfold tabs_wf in Hw. rewrite Hsz in Hw.
  eapply Forall_impl; [|exact Hw]. intros t Ht.
  split; [apply (twf_alloc _ _ Ht)|]. split; [apply (twf_off _ _ Ht)|]. split; [apply (twf_acc _ _ Ht)|apply (twf_inuse _ _ Ht)].
Qed.

(* Put's retry loop terminates: in a well-formed store no write path ever exhausts its single retry
   (an entry smaller than the table always fits the fresh or recycled table made by makeTable). *)
Theorem C20_put_never_spins : forall p h e s s' r,
  putter p -> putter_fit p -> tabs_wf s -> s_put_gen p h e s = (s', r) -> r <> SSpin.
Proof. intros p h e s s' r Hp Hf Hw H. eapply put_gen_wf; eauto. Qed.

Example C20_accounting_example :
  let s := fst (mrun (fork_store 101)
             [PPut 1 {| ekey := [1]; ettl := 0; ets := 1; ela := 0; evalue := repeat 7 20 |};
              PPutRaw 1 {| ekey := [1]; ettl := 0; ets := 2; ela := 0; evalue := repeat 8 20 |};
              PPut 2 {| ekey := [2]; ettl := 0; ets := 3; ela := 0; evalue := repeat 9 20 |}; PDel 2]) in
  st_inuse (s_stats s) = 50 /\ st_garb (s_stats s) = 100 /\ st_tables (s_stats s) = 2.
Proof. vm_compute. repeat split; reflexivity. Qed.
