(* C08 - distributed lock: the owner-side model of Lock / Unlock (Model/DMap.v: Lock = Put NX of a random token,
   Unlock = Get, compare, Delete - tied to internal/dmap/lock.go by the differential runs of C08) implements, key by
   key, the lock specification of Model/Lin.v for locks without timeout. Proofs: Proofs/DMapLock.v.
   real code =(differential)= DMap.step =(theorem)= lock specification =(theorem)= linearizable: at most one holder. *)
From Coq Require Import List NArith ZArith Bool Permutation Lia.
Require Import Olric.Model.DMap Olric.Model.Lin Olric.Proofs.DMapProofs Olric.Proofs.LinProofs
               Olric.Proofs.DMapRegister Olric.Proofs.DMapLock.
Import ListNotations.
Local Open Scope Z_scope.

(* One step. For EVERY routing (any owner, any number and placement of backup owners), every DMap without default TTL,
   every key k, every injective reading [dec] of tokens as numbers and every operation at any clock reading - Lock
   without timeout and Unlock with ANY token (the holder's, a stale one, a forged one) on k itself, ARBITRARY
   operations on the other keys and DMaps: the holder of k changes and the call answers exactly as the lock
   specification says: Lock succeeds only on a free key, Unlock succeeds only with the holder's token, and a refused
   call changes nothing. *)
Theorem C08_dmap_step_refines_lock_spec :
  forall (E : env) (d k : bytes) (dec : bytes -> Z), (forall a b, dec a = dec b -> a = b) ->
    no_idle E -> default_ttl E d = 0 ->
    forall now ts s o, Inv E s -> Z0 E d k s -> lallowed d k o = true ->
      let s' := fst (step E now ts s o) in
      let r := snd (step E now ts s o) in
      Z0 E d k s' /\
      match lproj d k dec o with
      | Some lo => labs E d k dec s' = fst (lstep (labs E d k dec s) lo) /\ lmap r = Some (snd (lstep (labs E d k dec s) lo))
      | None => labs E d k dec s' = labs E d k dec s
      end.
Proof. intros E d k dec Hinj Hi Ht now ts s o HI Hz Ha. exact (lstep_refines E d k dec Hinj Hi Ht now ts s o HI Hz Ha). Qed.

(* End to end: any number of concurrent clients whose Lock / Unlock calls take effect one at a time on the owner
   and return what the owner-side model returns: the history of ONE lock is linearizable w.r.t. the lock
   specification - at most one token holds the key at any instant, a token is honoured once. *)
Theorem C08_dmap_executions_linearize :
  forall (E : env) (d k : bytes) (dec : bytes -> Z), (forall a b, dec a = dec b -> a = b) ->
    no_idle E -> default_ttl E d = 0 ->
    forall (l : list xev) (s : state),
      Inv E s -> Z0 E d k s -> Forall (fun x => lallowed d k (xop x) = true) l -> ordered l ->
      let h := map (ce _ _) (lhistory d k dec l (snd (run E s (steps l)))) in
      linearization _ _ _ lstep lres_eqb (labs E d k dec s) h h.
Proof. intros E d k dec Hinj Hi Ht l s HI Hz Ha Ho. exact (lock_executions_linearize E d k dec Hinj Hi Ht l s HI Hz Ha Ho). Qed.

(* non-vacuity: two lockers and a forged token on one key while another key is written; tokens are single bytes *)
Definition exE : env :=
  {| replicas := 2; owner := fun _ _ => 0%nat; backups := fun _ _ => [1%nat];
     default_ttl := fun _ => 0; max_idle := fun _ => 0 |}.
Definition exD : bytes := [100%N].
Definition exK : bytes := [1%N].
Definition exl : list xev :=
  [ {| xinv := 0; xrsp := 9; xcom := 5; xnow := 10; xts := 1; xop := DLock exD exK [7%N] 0 |};
    {| xinv := 1; xrsp := 8; xcom := 6; xnow := 11; xts := 2; xop := DLock exD exK [8%N] 0 |};
    {| xinv := 2; xrsp := 20; xcom := 7; xnow := 12; xts := 3; xop := DPut exD [2%N] [5%N] plain |};
    {| xinv := 3; xrsp := 21; xcom := 10; xnow := 13; xts := 4; xop := DUnlock exD exK [8%N] |};
    {| xinv := 4; xrsp := 22; xcom := 11; xnow := 14; xts := 5; xop := DUnlock exD exK [7%N] |};
    {| xinv := 5; xrsp := 23; xcom := 12; xnow := 15; xts := 6; xop := DUnlock exD exK [7%N] |};
    {| xinv := 6; xrsp := 24; xcom := 13; xnow := 16; xts := 7; xop := DLock exD exK [8%N] 0 |} ].
Example C08_refine_example :
  Forall (fun x => lallowed exD exK (xop x) = true) exl /\ ordered exl /\ Inv exE [] /\ Z0 exE exD exK [] /\
  map (fun c => eres (ce _ _ c)) (lhistory exD exK (fun b => match b with x :: _ => Z.of_N x | [] => 0 end) exl
                                           (snd (run exE [] (steps exl)))) =
    [LOk; LNotAcquired; LNoSuchLock; LOk; LNoSuchLock; LOk].
Proof.
  split; [repeat constructor|]. split; [cbn; repeat split; try lia; repeat constructor; lia|].
  split; [apply Inv_empty|]. split; [intros e H; discriminate|]. vm_compute. reflexivity.
Qed.
