(* C20, "compaction keeps making progress": the compaction worker on one fragment (Model/CompactWorker.v =
   internal/dmap/compaction.go callCompactionOnFragment + fragment.go Compaction). *)
From Coq Require Import List NArith Bool.
Require Import Olric.Model.Store Olric.Model.CompactWorker Olric.Proofs.StoreProofs Olric.Proofs.ScanProofs
  Olric.Proofs.CompactionProofs Olric.Proofs.CompactWorkerProofs.
Import ListNotations.
Local Open Scope N_scope.

(* For every well-formed store, every iteration order that lists the keys of the table being drained, and whether and
   whenever the fragment is closed between two calls (janitor, Destroy): the worker's loop ends within two calls per record
   plus one per table plus three, the store stays well formed and its content is unchanged. *)
Theorem C20_worker_terminates : forall ordf expired closeat n s,
  ord_covers ordf -> swf3 s -> 0 < ssize s ->
  (2 * length (s_all s) + length (stabs s) + 3 <= n)%nat ->
  snd (worker_now ordf expired closeat n s) = true /\
  swf3 (fst (worker_now ordf expired closeat n s)) /\
  (forall h, abs (fst (worker_now ordf expired closeat n s)) h = abs s h).
Proof. exact worker_terminates. Qed.

Theorem C20_worker_open_is_repeated_compaction : forall b ordf expired n s,
  worker b ordf expired None n s = compact_n ordf expired n s.
Proof. exact worker_open_is_compact_n. Qed.

(* D45 (repaired): when a closed fragment reported "not done" the loop never ended - the pass over the partitions never
   returned and the member's compaction worker never ran again *)
Theorem C20_worker_spun_on_closed_fragment_refuted : forall ordf expired n s,
  snd (worker_before ordf expired (Some 0%nat) n s) = false.
Proof. exact worker_before_spins. Qed.
