(* C07 - Incr, Decr, IncrByFloat and GetPut are atomic across all clients.
   Model: the counter / swap specification of Model/Lin.v; the owner-side read-modify-write is one step of
   Model/DMap.v (incr, getput) executed under the owner's per-key mutex (after the fix that forwards every
   atomic operation to the partition owner). Proofs: Proofs/LinProofs.v. *)
From Coq Require Import List ZArith Bool Permutation.
Require Import Olric.Model.Lin Olric.Proofs.LinProofs.
Import ListNotations.
Local Open Scope Z_scope.

(* every execution whose operations take effect atomically at one instant between invocation and response is
   linearizable w.r.t. the counter/swap specification: each call observed exactly the effect of the calls
   ordered before it *)
Theorem C07_commit_points_linearize : forall (l : list (cevent cop cres)) (s : option Z),
  commit_run _ _ _ cstep cres_eqb s l ->
  linearization _ _ _ cstep cres_eqb s (map (ce _ _) l) (map (ce _ _) l).
Proof. exact (commit_order_linearizes _ _ _ cstep cres_eqb). Qed.

Theorem C07_checker_sound : forall fuel s (h l : list (event cop cres)),
  search _ _ _ cstep cres_eqb fuel s h = Some l -> linearization _ _ _ cstep cres_eqb s h l.
Proof. exact (search_sound _ _ _ cstep cres_eqb). Qed.

(* no update is lost: in any order, the final value is the initial value plus the sum of all deltas *)
Theorem C07_sum : forall l s r,
  only_incr l ->
  fst (fold_left (fun acc o => cstep (fst acc) o) l (s, r)) =
  match l with [] => s | _ => Some ((match s with Some v => v | None => 0 end) + deltas l) end.
Proof. exact counter_sum. Qed.

(* non-vacuity / sharpness: a lost update is rejected, a GetPut chain is accepted *)
Example C07_example_lost_update :
  lin_counter 10 None [Build_event 0 10 (CIncr 1) (CInt 1); Build_event 1 9 (CIncr 1) (CInt 1)] = false.
Proof. vm_compute. reflexivity. Qed.
Example C07_example_chain :
  lin_counter 10 None [Build_event 0 10 (CGetPut 5) (COld (Some 7)); Build_event 1 9 (CGetPut 7) (COld None);
                       Build_event 11 12 CRead (COld (Some 5))] = true.
Proof. vm_compute. reflexivity. Qed.
