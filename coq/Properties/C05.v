(* C05 - read, write and member-count quorums are enforced exactly.  Theorems only; proofs in
   Proofs/QuorumProofs.v; the model is Model/Quorum.v (tied to /repo by checks/c05.py). *)
From Coq Require Import List NArith ZArith Bool.
Require Import Olric.Gen.Consts Olric.Model.LWW Olric.Model.Quorum Olric.Proofs.LWWProofs Olric.Proofs.QuorumProofs.
Import ListNotations.

(* For every ReplicaCount R, WriteQuorum W with 1 <= W <= R and every subset of backup owners whose DM.PUTENTRY
   fails (unreachable or answering an error):
   - a valid entry is acknowledged iff owner + reachable backups >= W, the only other outcome is the write-quorum
     error, and exactly the owner and the reachable backups hold the entry afterwards (so an unreachable backup
     alone never fails a Put while W is met);
   - an entry the owner's storage rejects is answered with that error, stored nowhere, sent to nobody. *)
Theorem C05_write_iff : forall (R W : nat) (backups_ok : list bool),
  (1 <= W)%nat -> (W <= R)%nat -> length backups_ok = (R - 1)%nat ->
  (let '(r, (owner_has, backups_have)) := sync_put R W backups_ok None in
   (r = Ack <-> (W <= 1 + count_true backups_ok)%nat) /\
   (r <> Ack -> r = EWriteQuorum) /\
   owner_has = true /\ backups_have = backups_ok) /\
  (forall e, sync_put R W backups_ok (Some e) = (ELocal e, (false, map (fun _ => false) backups_ok))).
Proof. exact write_iff. Qed.

(* n = copies obtained by the read (the owner's own copy if it has one + one per previous/backup owner that
   answered with a copy; unreachable members, members without a copy and members whose copy is expired
   contribute nothing).
   - a value is returned only if n >= ReadQuorum (and n > 0);
   - the key exists on a reachable holder but n < ReadQuorum: the read-quorum error;
   - nothing obtained: key-not-found when ReadQuorum = 1, the read-quorum error when ReadQuorum >= 2
     (the code counts the owner's empty lookup as one answer and nothing else: see DESIGN-C05-C06.md);
   - n >= ReadQuorum: a value, or key-not-found when the newest copy is expired / idle. *)
Theorem C05_read_iff : forall (RQ : nat) (rr idle : bool) (now : Z) (local : option entry)
                              (prev backups : list (option entry)),
  let n := obtained local prev backups in
  let r := fst (get_on_cluster RQ rr idle now local prev backups) in
  (forall e, r = Value e -> (RQ <= n)%nat /\ (0 < n)%nat) /\
  ((0 < n)%nat -> (n < RQ)%nat -> r = EReadQuorum) /\
  (n = 0%nat -> r = if (RQ <=? 1)%nat then ENotFound else EReadQuorum) /\
  ((0 < n)%nat -> (RQ <= n)%nat -> (exists e, r = Value e) \/ r = ENotFound).
Proof. exact read_iff. Qed.

(* with no expired copy and no idle eviction, enough copies always yield a value *)
Theorem C05_read_enough : forall (RQ : nat) (rr : bool) (now : Z) (local : option entry)
                                 (prev backups : list (option entry)),
  (forall e, In (Some e) (local :: prev ++ backups) -> is_expired now e = false) ->
  (0 < obtained local prev backups)%nat -> (RQ <= obtained local prev backups)%nat ->
  exists e, fst (get_on_cluster RQ rr false now local prev backups) = Value e.
Proof. exact read_no_expiry. Qed.

(* A member that sees fewer than MemberCountQuorum members: every request whose first argument is not exactly the
   bytes of protocol.Internal.UpdateRouting ("internal.node.updaterouting", lower case: the one deliberate
   exemption; its upper-case spelling is NOT exempt) leaves the member's state untouched; every such request
   that reaches a registered handler (any spelling, incl. "PUBSUB <sub>") is answered with the cluster-quorum
   error, the others with unknown-command / wrong-arguments; NewDMap returns the cluster-quorum error and
   creates nothing.  [handle] and [create] are arbitrary: whatever the handlers would do, they are not run. *)
Theorem C05_member_quorum : forall (S : Type) (handle : bytes -> list bytes -> S -> S) (create : bytes -> S -> S)
                                   (registered : list bytes) (n mcq : Z) (boot : bool),
  (n < mcq)%Z ->
  (forall name args s, name <> update_routing_command ->
     let '(r, s') := request handle registered n mcq boot name args s in
     s' = s /\ (r = RClusterQuorum \/ r = RUnknown \/ r = RWrongArgs) /\
     (dispatched registered name args = true -> r = RClusterQuorum)) /\
  (forall name s, new_dmap create n mcq boot name s = (RClusterQuorum, s)).
Proof. exact (@request_below). Qed.

(* ---- the hypotheses are satisfiable, the statements are not vacuous ---- *)
Example write_quorum_met_with_unreachable_backup :
  sync_put 3 2 [false; true] None = (Ack, (true, [false; true])).
Proof. reflexivity. Qed.
Example write_quorum_exactly_W_minus_1 :
  sync_put 3 3 [false; true] None = (EWriteQuorum, (true, [false; true])).
Proof. reflexivity. Qed.
Example write_rejected_entry_reaches_nobody :
  sync_put 3 1 [true; true] (Some LKeyTooLarge) = (ELocal LKeyTooLarge, (false, [false; false])).
Proof. reflexivity. Qed.

Definition ex_e (v : N) (ts : Z) : entry := {| e_val := [v]; e_ttl := 0; e_ts := ts |}.
Example read_quorum_2_of_3 :
  fst (get_on_cluster 2 false false far_future_ms None [] [Some (ex_e 1 5); Some (ex_e 2 7)]) = Value (ex_e 2 7).
Proof. reflexivity. Qed.
Example read_quorum_not_met :
  fst (get_on_cluster 2 false false far_future_ms None [] [Some (ex_e 1 5); None]) = EReadQuorum.
Proof. reflexivity. Qed.
Example read_missing_key_rq2 :
  fst (get_on_cluster 2 false false far_future_ms None [] [None]) = EReadQuorum.
Proof. reflexivity. Qed.
Example read_missing_key_rq1 :
  fst (get_on_cluster 1 false false far_future_ms None [] [None; None]) = ENotFound.
Proof. reflexivity. Qed.

Definition ex_reg : list bytes := [update_routing_command; [112; 105; 110; 103]%N (* ping *)].
Example below_quorum_ping : serve ex_reg 1 2 true [80; 73; 78; 71]%N (* PING *) [] = RClusterQuorum.
Proof. reflexivity. Qed.
Example below_quorum_exempt : serve ex_reg 1 2 true update_routing_command [] = RHandled.
Proof. reflexivity. Qed.
Example below_quorum_exempt_uppercase_is_not_exempt :
  serve ex_reg 1 2 true (map (fun b => if (97 <=? b)%N && (b <=? 122)%N then (b - 32)%N else b) update_routing_command) []
  = RClusterQuorum.
Proof. reflexivity. Qed.
Example at_quorum_ping : serve ex_reg 2 2 true [80; 73; 78; 71]%N [] = RHandled.
Proof. reflexivity. Qed.
