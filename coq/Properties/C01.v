(* C01 - per-key linearizability in a stable cluster, from any entry point.
   Model: one key of Model/Lin.v's register specification; proofs: Proofs/LinProofs.v.  *)
From Coq Require Import List ZArith Bool Permutation.
Require Import Olric.Model.Lin Olric.Proofs.LinProofs.
Import ListNotations.

(* Every execution in which each operation takes effect at one instant between its invocation and its response
   (its commit point: the owner-side step under the fragment lock for Put / Put NX / Put XX / Delete, the
   lookup of the winning version for Get) is linearizable w.r.t. the register specification: the commit order
   is a permutation of the history that respects real time and whose sequential replay returns every recorded
   result - for any number of clients, operations and interleavings. *)
Theorem C01_commit_points_linearize : forall (l : list (cevent rop rres)) (s : option Z),
  commit_run _ _ _ rstep rres_eqb s l ->
  linearization _ _ _ rstep rres_eqb s (map (ce _ _) l) (map (ce _ _) l).
Proof. exact (commit_order_linearizes _ _ _ rstep rres_eqb). Qed.

(* The checker that judges the histories recorded on the real cluster is sound: when it answers with an order,
   that order is a linearization of the history. *)
Theorem C01_checker_sound : forall fuel s (h l : list (event rop rres)),
  search _ _ _ rstep rres_eqb fuel s h = Some l -> linearization _ _ _ rstep rres_eqb s h l.
Proof. exact (search_sound _ _ _ rstep rres_eqb). Qed.

(* non-vacuity: an NX race with a Get overlapping a Delete is accepted, a stale read is rejected *)
Example C01_example_accept :
  lin_register 10 [Build_event 0 10 (RPutNX 1) ROk; Build_event 1 9 (RPutNX 2) RKeyFound;
                   Build_event 11 20 RDel ROk; Build_event 12 19 RGet (RValue 1); Build_event 21 22 RGet RNotFound] = true.
Proof. vm_compute. reflexivity. Qed.
Example C01_example_reject :
  lin_register 10 [Build_event 0 1 (RPut 1) ROk; Build_event 2 3 (RPut 2) ROk; Build_event 4 5 RDel ROk;
                   Build_event 6 7 RGet (RValue 1)] = false.
Proof. vm_compute. reflexivity. Qed.
