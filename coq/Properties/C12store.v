(* C12, storage-engine part: the SCAN cursor protocol of internal/kvstore (model: Model/Store.v).
   Cursors are coefficient * tableSize + offset.  Under the structural invariant [swf3] (well-formed tables,
   unique hkeys, coefficients of the non-recycled tables strictly decreasing from the head and below the
   counter, no table filled to the brim), which every operation of the model preserves, a full iteration
   terminates and yields every present record whose key matches exactly once and nothing else. *)
From Coq Require Import List NArith ZArith Bool Permutation Sorted.
Require Import Olric.Gen.Consts Olric.Model.Codec Olric.Model.Store Olric.Proofs.StoreProofs Olric.Proofs.ScanProofs
  Olric.Proofs.CompactionProofs Olric.Proofs.StoreCheck.
Import ListNotations.
Local Open Scope N_scope.

(* the invariant holds initially and is kept by every operation *)
Theorem C12_invariant_preserved :
  (forall size, swf3 (empty_store size)) /\ (forall size, swf3 (fork_store size)) /\
  (forall s, swf3 s -> swf3 (make_table s)) /\
  (forall h e s s' r, swf3 s -> s_put h e s = (s', r) -> swf3 s') /\
  (forall h e s s' r, swf3 s -> s_putraw h e s = (s', r) -> swf3 s') /\
  (forall h s, swf3 s -> swf3 (s_delete h s)) /\
  (forall h now s, swf3 s -> swf3 (fst (s_get h now s))) /\
  (forall h ttl ts now s, swf3 s -> swf3 (fst (s_updatettl h ttl ts now s))) /\
  (forall ord expired s, swf3 s -> swf3 (fst (s_compaction ord expired s))) /\
  (forall i s, swf3 s -> swf3 (s_drop i s)).
Proof. exact swf3_preserved. Qed.
Print Assumptions C12_invariant_preserved.

(* what it says: distinct coefficients below the counter, the head carries the largest, a table that holds
   bytes has room left, live_coefs is the ascending duplicate-free list of the registered coefficients and
   the coefficient map finds each non-recycled table *)
Theorem C12_coefficients : forall s,
  coefs_ok s ->
  NoDup (lcoefs (stabs s)) /\ Forall (fun c => c < snext s) (lcoefs (stabs s)) /\
  (forall t r c, stabs s = t :: r -> is_recycled t = false -> In c (lcoefs r) -> c < tcoef t) /\
  (forall t, In t (stabs s) -> toff t = 0 \/ toff t < talloc t) /\
  StronglySorted N.lt (live_coefs s) /\ NoDup (live_coefs s) /\
  (forall c, In c (live_coefs s) <-> exists t, In t (stabs s) /\ is_recycled t = false /\ tcoef t = c) /\
  (forall t, In t (stabs s) -> is_recycled t = false -> find_by_coef (tcoef t) (stabs s) = Some t).
Proof. exact coefs_ok_facts. Qed.
Print Assumptions C12_coefficients.

(* table.Scan: with L the records at offsets >= cursor in ascending offset order, the call yields the first
   up-to-count matching records of L; it visits a prefix L1 of L; the new cursor is 0 exactly when nothing of L
   is left (L2 = []), otherwise count records were yielded, the last visited record r is the last yielded one,
   the cursor is ro r + 1, which lies in (cursor, toff], and the records from the new cursor on are exactly L2 *)
Theorem C12_table_scan : forall size m cursor count t c' ys,
  twf size t -> (1 <= count)%nat -> t_scan m cursor count t = (c', ys) ->
  let L := filter (from cursor) (trecs t) in
  asc L /\ ys = firstn count (filter (mrec m) L) /\
  exists L1 L2, L = L1 ++ L2 /\ ys = filter (mrec m) L1 /\
    ((c' = 0 /\ L2 = []) \/
     (L2 <> [] /\ length ys = count /\
      exists L1' r, L1 = L1' ++ [r] /\ mrec m r = true /\ c' = ro r + 1 /\ cursor < c' /\ c' <= toff t /\
                    filter (from c') (trecs t) = L2)).
Proof. exact t_scan_spec. Qed.
Print Assumptions C12_table_scan.

(* every page either ends the iteration or moves the cursor strictly forward: to a larger coefficient, or
   to a larger offset in the same table (any cursor, valid or not) *)
Theorem C12_cursor_progress : forall m count s,
  swf3 s -> 0 < ssize s -> (1 <= count)%nat ->
  forall cursor c' ys,
  s_scan m cursor count s = (c', ys) ->
  c' = 0 \/ (cursor < c' /\
             (cursor / ssize s < c' / ssize s \/
              (cursor / ssize s = c' / ssize s /\ cursor mod ssize s < c' mod ssize s))).
Proof. exact s_scan_progress. Qed.
Print Assumptions C12_cursor_progress.

(* a full iteration needs at most one page per record plus one page per table plus one *)
Theorem C12_scan_terminates : forall m count s,
  swf3 s -> 0 < ssize s -> (1 <= count)%nat ->
  forall fuel, (length (s_all s) + length (stabs s) + 1 <= fuel)%nat ->
  exists ys, s_scan_all m count fuel 0 s = Some ys.
Proof. exact scan_terminates. Qed.
Print Assumptions C12_scan_terminates.

(* completeness and no duplicates, for every page size and every matcher *)
Theorem C12_store_complete : forall m count s,
  swf3 s -> 0 < ssize s -> (1 <= count)%nat ->
  forall fuel ys,
  s_scan_all m count fuel 0 s = Some ys ->
  Permutation ys (filter (fun r => m (ekey (re r))) (s_all s)).
Proof. exact scan_complete. Qed.
Print Assumptions C12_store_complete.

(* the order: tables by ascending coefficient, records by ascending offset *)
Theorem C12_store_order : forall m count s,
  swf3 s -> 0 < ssize s -> (1 <= count)%nat ->
  forall fuel, (length (s_all s) + length (stabs s) + 1 <= fuel)%nat ->
  s_scan_all m count fuel 0 s = Some (filter (mrec m) (recs_of s (live_coefs s))).
Proof. exact scan_all_exact. Qed.
Print Assumptions C12_store_order.

(* ---- a concrete store: three tables, newest first: coefficient 5 (written), a recycled table, coefficient 2
   (sealed, with a hole left by a deleted record); coefficients 0, 1, 3, 4 are not registered ---- *)
Definition ex_ent (k : N) : entry := {| ekey := [k]; ettl := 0; ets := 0; ela := 0; evalue := [] |}.
Definition ex_rec (h o k : N) : rec := {| rh := h; ro := o; re := ex_ent k |}.
Definition ex_store : store :=
  {| ssize := 200; snext := 6;
     stabs := [ {| tcoef := 5; toff := 90; talloc := 200; tinuse := 90; tgarb := 0; tstate := table_state_rw;
                   trecs := [ex_rec 13 0 3; ex_rec 14 30 4; ex_rec 15 60 5] |};
                {| tcoef := 0; toff := 0; talloc := 200; tinuse := 0; tgarb := 0; tstate := table_state_recycled;
                   trecs := [] |};
                {| tcoef := 2; toff := 90; talloc := 200; tinuse := 60; tgarb := 30; tstate := table_state_ro;
                   trecs := [ex_rec 11 0 1; ex_rec 12 60 2] |} ] |}.

Example C12_example :
  swf3 ex_store /\ 0 < ssize ex_store /\ live_coefs ex_store = [2; 5] /\
  s_scan (fun _ => true) 0 1 ex_store = (401, [ex_rec 11 0 1]) /\
  option_map (map (fun r => ekey (re r))) (s_scan_all (fun _ => true) 1 9 0 ex_store)
    = Some [[1]; [2]; [3]; [4]; [5]] /\
  option_map (map (fun r => ekey (re r))) (s_scan_all (fun k => existsb (N.eqb 4) k || existsb (N.eqb 1) k) 2 9 0 ex_store)
    = Some [[1]; [4]].
Proof.
  split; [apply swf3b_sound; vm_compute; reflexivity|]. split; [reflexivity|]. vm_compute. auto.
Qed.
