(* C03, the payload of a fragment move in flight (Model/BalanceFlight.v): "hand-over steps are invisible to readers"
   when a move is not atomic.  fragment.Move exports a table (a snapshot), the owner imports it later under its own
   lock; Puts, Deletes, joins and prunes may be acknowledged in between. *)
From Coq Require Import List NArith ZArith Bool Lia.
Require Import Olric.Model.Balance Olric.Model.BalanceCrash Olric.Model.BalanceFlight Olric.Proofs.BalanceFlightProofs.
Import ListNotations.
Local Open Scope Z_scope.

(* For every sequence of Puts (increasing timestamps), Deletes, joins, atomic moves, prunes, exports, imports of the
   payload in flight, lost payloads and drops at the sender, in which (fsafe) no Delete of a key is acknowledged while
   a payload carrying that key is in flight and a sender only drops entries of which a newer holder has a copy at
   least as new: a read returns exactly the last acknowledged entry of every key, a deleted key reads not-found.
   Puts acknowledged while the payload is in flight are unrestricted: the timestamp comparison of the merge protects
   them. *)
Theorem C03_inflight_safe : forall l,
  fts_fresh (fun _ => None) l -> fsafe finit l ->
  forall k, read k (fh (fst (frun finit (fun _ => None) l))) = snd (frun finit (fun _ => None) l) k.
Proof. exact inflight_safe. Qed.

(* the hypotheses are met by a history with a Put of a key of the payload between export and import, then the drop *)
Example C03_inflight_example :
  let l := [FOp (BPut 1%N 7%N 1); FOp (BPut 2%N 8%N 2); FOp BJoin; FExport 1 [1%N; 2%N]; FOp (BPut 1%N 9%N 3);
            FDeliver; FDrop 1 [1%N; 2%N]; FOp BPrune] in
  fts_fresh (fun _ => None) l /\ fsafe finit l /\
  map (fun k => read k (fh (fst (frun finit (fun _ => None) l)))) [1%N; 2%N] = [Some (9%N, 3); Some (8%N, 2)] /\
  length (fh (fst (frun finit (fun _ => None) l))) = 1%nat.
Proof.
  cbn. repeat split; auto.
  intros k c Hx Hc. exists 0%nat.
  destruct (N.eqb k 1) eqn:E1.
  - apply N.eqb_eq in E1. subst k. cbn in Hc. inversion Hc. subst c.
    eexists. exists (9%N, 3). split; [lia|split; [reflexivity|split; [reflexivity|cbn; lia]]].
  - destruct (N.eqb k 2) eqn:E2; [|cbn in Hx; rewrite E1, E2 in Hx; discriminate].
    apply N.eqb_eq in E2. subst k. cbn in Hc. inversion Hc. subst c.
    eexists. exists (8%N, 2). split; [lia|split; [reflexivity|split; [reflexivity|cbn; lia]]].
Qed.

(* D43: without that guarantee an acknowledged Delete is undone - the Delete removes every copy, the payload exported
   before it is imported afterwards.  (fts_fresh holds; fsafe fails exactly at the Delete.) *)
Theorem C03_delete_in_flight_refuted :
  let l := [FOp (BPut 1%N 7%N 1); FOp BJoin; FExport 1 [1%N]; FOp (BDel 1%N); FDeliver] in
  fts_fresh (fun _ => None) l /\
  read 1%N (fh (fst (frun finit (fun _ => None) l))) = Some (7%N, 1) /\
  snd (frun finit (fun _ => None) l) 1%N = None.
Proof. exact delete_in_flight_resurrects. Qed.

(* the atomic move of Model/Balance.v is export ; import ; drop with nothing in between, and the import of a payload
   exported just now is the merge half of Model/BalanceCrash.v (the step the white-box correspondence of C03 replays) *)
Theorem C03_move_is_export_deliver_drop : forall fs i ks,
  fl fs = None ->
  fh (fstep (fstep (fstep fs (FExport (S i) ks)) FDeliver) (FDrop (S i) ks)) = bstep (fh fs) (BMove (S i) ks).
Proof. exact move_is_export_deliver_drop. Qed.

Theorem C03_deliver_is_send : forall s i ks, deliver (nth (S i) s []) ks s = send (S i) ks s.
Proof. reflexivity. Qed.
