(* C14 - Pub/Sub delivers each message exactly once to every matching subscriber.

   READING.  A subscription is a triple (connection, kind, name) with kind = channel | pattern; the
   subscriptions of a member form a SET (repeating SUBSCRIBE changes nothing).  "Exactly once to every
   connection that is subscribed to the channel or to a matching pattern" is read per matching SUBSCRIPTION,
   as Redis does: a connection that holds the channel subscription and k matching pattern subscriptions
   receives one `message` and k `pmessage`s (each names the subscription it answers), and the number returned
   by PUBLISH is the number of those deliveries summed over all members.  NUMSUB c counts the connections
   with a channel subscription c, NUMPAT the distinct patterns, CHANNELS [p] the distinct channel names
   (matching p); patterns never appear in CHANNELS/NUMSUB.  The third element of a (P)SUBSCRIBE/(P)UNSUBSCRIBE
   confirmation is the number of subscriptions of the same kind the connection holds afterwards (what the code
   does; Redis counts both kinds - the property text does not fix it).
   Publication order: a PUBLISH returns only after every member has written to its subscribers, and one
   publisher issues its publications one after the other, so per publisher the order is the order of the
   operation list; the theorems are about one sequential operation list (the interleaving of concurrent
   publishers is any such list), the per-publisher order under real concurrency is checked by checks/c14.py.

   The theorems quantify over every glob matcher [glob], every number of members [n] and every operation
   sequence [ops] (any connections, any members, any names).  [after glob n ops] is the model cluster state
   (Model/PubSub.v, the thing the correspondence check executes) reached from n empty members;
   [subs_of glob n ops m] is the subscription set the specification (Model/PubSubSpec.v) holds for member m. *)
From Coq Require Import List NArith Bool Permutation.
Require Import Olric.Model.PubSub Olric.Model.PubSubSpec Olric.Model.PubSubRun Olric.Proofs.PubSubProofs.
Import ListNotations.
Local Open Scope N_scope.

(* Every observation of every operation sequence (confirmation counts, PUBLISH results and deliveries,
   CHANNELS / NUMSUB / NUMPAT) is the specification's, up to the order of set-valued replies. *)
Theorem C14_refines_spec : forall (glob : name -> name -> bool) (n : nat) (ops : list op),
  Forall2 obs_equiv (snd (run glob (init n) ops)) (snd (srun glob (sinit n) ops)).
Proof. exact refines_spec. Qed.

(* A publication through any member delivers exactly one message per matching subscription of every member,
   to that subscription's connection, and nothing else: no delivery occurs twice, and (m, d) is delivered iff
   d is the message for a subscription e of member m that matches the channel. *)
Theorem C14_exactly_once : forall (glob : name -> name -> bool) (n : nat) (ops : list op) (ch msg : name),
  let dl := snd (cluster_publish glob ch msg (after glob n ops)) in
  NoDup dl /\
  forall m d, In (m, d) dl <->
              exists e, In e (subs_of glob n ops m) /\ matches glob ch e = true /\ d = deliver ch msg e.
Proof. exact exactly_once. Qed.

(* ... where the subscription set has no duplicates *)
Theorem C14_subscriptions_form_a_set : forall (glob : name -> name -> bool) (n : nat) (ops : list op) (m : nat),
  NoDup (subs_of glob n ops m).
Proof. exact subs_of_nodup. Qed.

(* The number returned by PUBLISH is the number of deliveries. *)
Theorem C14_publish_count : forall (glob : name -> name -> bool) (n : nat) (ops : list op) (ch msg : name),
  fst (cluster_publish glob ch msg (after glob n ops)) =
  N.of_nat (length (snd (cluster_publish glob ch msg (after glob n ops)))).
Proof. exact publish_count_thm. Qed.

(* After UNSUBSCRIBE x / PUNSUBSCRIBE x / UNSUBSCRIBE / PUNSUBSCRIBE / disconnect of connection c on member m
   (operation o), and as long as c does not subscribe x again, no publication - whatever happens in between -
   delivers anything to c for that subscription. *)
Theorem C14_no_delivery_after_unsubscribe :
  forall (glob : name -> name -> bool) (n : nat) (ops1 : list op) (o : op) (ops2 : list op)
         (m : nat) (c : N) (pat : bool) (x ch msg : name),
  removes o m c pat x ->
  (forall o', In o' ops2 -> ~ resubscribes o' m c pat x) ->
  forall d, In (m, d) (snd (cluster_publish glob ch msg (after glob n (ops1 ++ o :: ops2)))) ->
            ~ (d_conn d = c /\ d_pat d = pat /\ d_sub d = x).
Proof. exact no_delivery_after_unsubscribe. Qed.

(* PUBSUB CHANNELS [p] lists exactly the distinct channels (matching p) some connection of the queried member
   is subscribed to; NUMSUB ch is the number of connections subscribed to channel ch; NUMPAT is the number of
   distinct subscribed patterns. *)
Theorem C14_introspection_exact : forall (glob : name -> name -> bool) (n : nat) (ops : list op) (m : nat),
  let ps := get_m m (after glob n ops) in
  let subs := subs_of glob n ops m in
  (forall p, NoDup (channels glob p ps) /\
             forall x, In x (channels glob p ps) <->
                       (exists c, In (mkE false x c) subs) /\ match p with None => True | Some p => glob p x = true end) /\
  (forall ch, exists L, NoDup L /\ (forall c, In c L <-> In (mkE false ch c) subs) /\ numsub ch ps = N.of_nat (length L)) /\
  (exists L, NoDup L /\ (forall x, In x L <-> exists c, In (mkE true x c) subs) /\ numpat ps = N.of_nat (length L)).
Proof. exact introspection_exact. Qed.

(* ---- non-vacuity: a concrete run on 2 members with a matching, an overlapping and a non-matching pattern ---- *)
Definition ex_glob (p s : name) : bool :=      (* "x*" matches every name starting with x; anything else literally *)
  match p with
  | [x; 42] => match s with y :: _ => x =? y | [] => false end
  | _ => name_eqb p s
  end.
Definition ex_ops : list op :=
  [ OSub 0 1 false [[97]; [97]];            (* conn 1 @ member 0: SUBSCRIBE a a *)
    OSub 0 1 true [[97; 42]];               (*                    PSUBSCRIBE a* *)
    OSub 1 2 true [[97; 42]; [122; 42]];    (* conn 2 @ member 1: PSUBSCRIBE a* z* *)
    OPub 1 [97] [1];                        (* PUBLISH a through member 1 *)
    OUnsub 0 1 false [];                    (* conn 1: UNSUBSCRIBE *)
    OPub 0 [97] [2];
    ONumpat 1; OChannels 0 None; ODisc 1 2; OPub 0 [97] [3] ].

Example C14_example_run :
  snd (run ex_glob (init 2) ex_ops) =
  [ BReplies [(Some [97], 1); (Some [97], 1)];
    BReplies [(Some [97; 42], 1)];
    BReplies [(Some [97; 42], 1); (Some [122; 42], 2)];
    BPub 3 [mkD 0 1 false [97] [97] [1]; mkD 0 1 true [97; 42] [97] [1]; mkD 1 2 true [97; 42] [97] [1]];
    BReplies [(Some [97], 0)];
    BPub 2 [mkD 0 1 true [97; 42] [97] [2]; mkD 1 2 true [97; 42] [97] [2]];
    BNum 2; BNames []; BUnit;
    BPub 1 [mkD 0 1 true [97; 42] [97] [3]] ].
Proof. vm_compute. reflexivity. Qed.

(* the hypotheses of C14_no_delivery_after_unsubscribe are satisfiable by that run: operation 5 removes the
   channel subscription a of connection 1 on member 0 and nothing after it subscribes it again *)
Example C14_example_removes :
  removes (OUnsub 0 1 false []) 0 1 false [97] /\
  (forall o', In o' [OPub 0 [97] [2]; ONumpat 1; OChannels 0 None; ODisc 1 2] -> ~ resubscribes o' 0 1 false [97]) /\
  subs_of ex_glob 2 (firstn 4 ex_ops) 0 = [mkE false [97] 1; mkE true [97; 42] 1] /\
  subs_of ex_glob 2 ex_ops 0 = [mkE true [97; 42] 1].
Proof.
  split; [cbn; auto|split; [|split; vm_compute; reflexivity]].
  intros o' H. cbn in H. destruct H as [<-|[<-|[<-|[<-|[]]]]]; cbn; auto.
Qed.
