(* Model of the Pub/Sub state of ONE olric member (internal/pubsub/pubsub.go, derived from tidwall/redcon) and
   of a cluster of members (internal/pubsub/handlers.go: PUBLISH fans out to every member and sums).

   pubsub.go keeps two structures under ps.mu:
     chans : btree of *pubSubEntry keyed by (pattern, channel, conn id)   -- read by Publish
     conns : map conn -> pubSubConn{entries: set of *pubSubEntry}         -- read by the PUBSUB introspection,
                                                                            by the reply counts and by
                                                                            unsubscribe / disconnect
   The model keeps both: [chans] is the btree as a list without two items of equal key (Set replaces an equal
   key, Get/Delete are by key; the ordered iteration Ascend(pivot) with its early exit is modelled by what it
   selects: the items with pattern=false and that channel, respectively all items with pattern=true), [conns]
   is the map as an association list in registration order, the entry set of a connection as the list of its
   (pattern, channel) pairs.  A connection is named by a number (the harness's connection index; the code uses
   the redcon.Conn value as map key and a per-instance counter as tie-breaker in the btree).
   Go map iteration order (replies of UNSUBSCRIBE without arguments, order of PUBSUB CHANNELS) is list order
   here; the correspondence compares those observations as multisets.
   Glob matching (tidwall/match) is the parameter [glob pattern string]. *)
From Coq Require Import List NArith Bool.
Import ListNotations.
Local Open Scope N_scope.

Definition name := list N.

Fixpoint name_eqb (a b : name) : bool :=
  match a, b with
  | [], [] => true
  | x :: a', y :: b' => (x =? y) && name_eqb a' b'
  | _, _ => false
  end.

(* pubSubEntry: the btree key (pattern, channel, conn) *)
Record entry := mkE { e_pat : bool; e_chan : name; e_conn : N }.

Definition entry_eqb (a b : entry) : bool :=
  Bool.eqb (e_pat a) (e_pat b) && name_eqb (e_chan a) (e_chan b) && (e_conn a =? e_conn b).

(* one element of pubSubConn.entries *)
Definition sub := (bool * name)%type.
Definition sub_eqb (a b : sub) : bool := Bool.eqb (fst a) (fst b) && name_eqb (snd a) (snd b).
Definition sub_of (e : entry) : sub := (e_pat e, e_chan e).
Definition entry_of (c : N) (s : sub) : entry := mkE (fst s) (snd s) c.

Record pubsub := mkPS { chans : list entry; conns : list (N * list sub) }.
Definition empty_ps : pubsub := mkPS [] [].

(* ---- btree (by key) ---- *)
Definition bt_get (e : entry) (t : list entry) : bool := existsb (entry_eqb e) t.
Definition bt_set (e : entry) (t : list entry) : list entry := if bt_get e t then t else t ++ [e].
Definition bt_delete (e : entry) (t : list entry) : list entry := filter (fun x => negb (entry_eqb e x)) t.

(* ---- conns map ---- *)
Fixpoint conn_get (c : N) (l : list (N * list sub)) : option (list sub) :=
  match l with
  | [] => None
  | (c', es) :: r => if c' =? c then Some es else conn_get c r
  end.
Fixpoint conn_set (c : N) (es : list sub) (l : list (N * list sub)) : list (N * list sub) :=
  match l with
  | [] => [(c, es)]
  | (c', es') :: r => if c' =? c then (c, es) :: r else (c', es') :: conn_set c es r
  end.
Definition conn_del (c : N) (l : list (N * list sub)) : list (N * list sub) :=
  filter (fun p => negb (fst p =? c)) l.

Definition attached (c : N) (ps : pubsub) : bool :=
  match conn_get c (conns ps) with Some _ => true | None => false end.

(* "for ient := range sconn.entries { if ient.pattern == pattern { count++ } }" *)
Definition count_kind (pat : bool) (es : list sub) : N :=
  N.of_nat (length (filter (fun s => Bool.eqb (fst s) pat) es)).

(* delete(sconn.entries, entry): one pointer *)
Fixpoint remove_first (s : sub) (l : list sub) : list sub :=
  match l with
  | [] => []
  | x :: r => if sub_eqb s x then r else x :: remove_first s r
  end.

(* ps.subscribe (after "fix: pubsub: repeating a subscription on the same connection keeps a single entry"):
   registers the connection if new; adds the entry to the btree and to the connection's set unless the btree
   already holds that key; replies the number of same-kind entries of the connection. *)
Definition subscribe (c : N) (pat : bool) (ch : name) (ps : pubsub) : pubsub * N :=
  let es := match conn_get c (conns ps) with Some es => es | None => [] end in
  let e := mkE pat ch c in
  if bt_get e (chans ps)
  then (mkPS (chans ps) (conn_set c es (conns ps)), count_kind pat es)
  else let es' := es ++ [(pat, ch)] in
       (mkPS (chans ps ++ [e]) (conn_set c es' (conns ps)), count_kind pat es').

(* ps.unsubscribe(conn, pattern, all=false, channel): the reply names the channel only when an entry was found *)
Definition unsubscribe_one (c : N) (pat : bool) (ch : name) (ps : pubsub) : pubsub * (option name * N) :=
  match conn_get c (conns ps) with
  | None => (ps, (None, 0))        (* not reachable over RESP: only a registered connection has a bgrunner *)
  | Some es =>
    if existsb (sub_eqb (pat, ch)) es
    then let es' := remove_first (pat, ch) es in
         (mkPS (bt_delete (mkE pat ch c) (chans ps)) (conn_set c es' (conns ps)), (Some ch, count_kind pat es'))
    else (ps, (None, count_kind pat es))
  end.

Fixpoint unsub_list (c : N) (pat : bool) (names : list name) (ps : pubsub) : pubsub * list (option name * N) :=
  match names with
  | [] => (ps, [])
  | n :: r => let '(ps1, x) := unsubscribe_one c pat n ps in
              let '(ps2, xs) := unsub_list c pat r ps1 in (ps2, x :: xs)
  end.

Fixpoint sub_list (c : N) (pat : bool) (names : list name) (ps : pubsub) : pubsub * list (option name * N) :=
  match names with
  | [] => (ps, [])
  | n :: r => let '(ps1, k) := subscribe c pat n ps in
              let '(ps2, xs) := sub_list c pat r ps1 in (ps2, (Some n, k) :: xs)
  end.

(* ps.unsubscribe(conn, pattern, all=true, ""): one reply per entry of that kind, or a single (nil, count) *)
Definition unsubscribe_all (c : N) (pat : bool) (ps : pubsub) : pubsub * list (option name * N) :=
  match conn_get c (conns ps) with
  | None => (ps, [])
  | Some es =>
    match map snd (filter (fun s => Bool.eqb (fst s) pat) es) with
    | [] => (ps, [(None, count_kind pat es)])
    | names => unsub_list c pat names ps
    end
  end.

(* the deferred clean-up of bgrunner *)
Definition disconnect (c : N) (ps : pubsub) : pubsub :=
  match conn_get c (conns ps) with
  | None => ps
  | Some es => mkPS (fold_right (fun s t => bt_delete (entry_of c s) t) (chans ps) es) (conn_del c (conns ps))
  end.

(* what writeMessage puts on the wire of connection d_conn: message (d_pat=false, d_sub = channel) or pmessage *)
Record delivery := mkDl { d_conn : N; d_pat : bool; d_sub : name; d_chan : name; d_msg : name }.
Definition deliver (ch msg : name) (e : entry) : delivery :=
  mkDl (e_conn e) (e_pat e) (if e_pat e then e_chan e else ch) ch msg.

(* PUBSUB CHANNELS keeps the first occurrence of every name ("seen" map) *)
Fixpoint uniq (seen : list name) (l : list name) : list name :=
  match l with
  | [] => []
  | x :: r => if existsb (name_eqb x) seen then uniq seen r else x :: uniq (x :: seen) r
  end.

Section Glob.
Variable glob : name -> name -> bool.      (* glob pattern string = match.Match(string, pattern) *)

(* first pass of Publish *)
Fixpoint pass1 (ch msg : name) (t : list entry) : N * list delivery :=
  match t with
  | [] => (0, [])
  | e :: r => let '(n, out) := pass1 ch msg r in
              if negb (e_pat e) && name_eqb (e_chan e) ch then (n + 1, deliver ch msg e :: out) else (n, out)
  end.
(* second pass (after "fix: pubsub: PUBLISH counts a pattern subscription only when the pattern matches") *)
Fixpoint pass2 (ch msg : name) (t : list entry) : N * list delivery :=
  match t with
  | [] => (0, [])
  | e :: r => let '(n, out) := pass2 ch msg r in
              if e_pat e then (if glob (e_chan e) ch then (n + 1, deliver ch msg e :: out) else (n, out))
              else (n, out)
  end.
Definition publish (ch msg : name) (ps : pubsub) : N * list delivery :=
  let '(n1, o1) := pass1 ch msg (chans ps) in
  let '(n2, o2) := pass2 ch msg (chans ps) in (n1 + n2, o1 ++ o2).

Definition all_subs (ps : pubsub) : list sub := flat_map (fun p => snd p) (conns ps).

(* Channels() / ChannelsWithPatterns(p) (after "fix: ... PUBSUB CHANNELS lists every subscribed channel once and no patterns") *)
Definition channels (p : option name) (ps : pubsub) : list name :=
  uniq [] (map snd (filter (fun s => negb (fst s) && match p with None => true | Some p => glob p (snd s) end)
                           (all_subs ps))).
(* Numpat() *)
Definition numpat (ps : pubsub) : N :=
  N.of_nat (length (uniq [] (map snd (filter (fun s => fst s) (all_subs ps))))).
(* Numsub(c) (after "fix: ... PUBSUB NUMSUB does not count pattern subscriptions") *)
Definition numsub (ch : name) (ps : pubsub) : N :=
  N.of_nat (length (filter (fun s => negb (fst s) && name_eqb (snd s) ch) (all_subs ps))).

(* ---- cluster: member i is the i-th element ---- *)
Definition cluster := list pubsub.
Definition get_m (m : nat) (cl : cluster) : pubsub := nth m cl empty_ps.
Fixpoint set_m (m : nat) (p : pubsub) (cl : cluster) : cluster :=
  match cl, m with
  | [], _ => []
  | _ :: r, O => p :: r
  | x :: r, S m' => x :: set_m m' p r
  end.

Definition mdelivery := (nat * delivery)%type.

(* publishCommandHandler: every member publishes locally (itself directly, the others through PUBLISH.INTERNAL),
   the counts are added *)
Fixpoint publish_from (i : nat) (ch msg : name) (cl : cluster) : N * list mdelivery :=
  match cl with
  | [] => (0, [])
  | p :: r => let '(n, ds) := publish ch msg p in
              let '(n', ds') := publish_from (S i) ch msg r in
              (n + n', map (fun d => (i, d)) ds ++ ds')
  end.
Definition cluster_publish (ch msg : name) (cl : cluster) : N * list mdelivery := publish_from 0 ch msg cl.

End Glob.
