(* Executable comparison of Model/Balancer.v with the moves the real balancer made (harness subcommand balancerplan). *)
From Coq Require Import List NArith Bool.
Require Import Olric.Model.Balancer.
Import ListNotations.
Local Open Scope N_scope.

Definition kind_eqb (a b : kind) : bool := match a, b with KPrimary, KPrimary => true | KBackup, KBackup => true | _, _ => false end.
Fixpoint list_eqb (a b : list N) : bool :=
  match a, b with [] , [] => true | x :: a', y :: b' => (x =? y) && list_eqb a' b' | _, _ => false end.
Definition move_eqb (a b : move) : bool :=
  kind_eqb (mkind a) (mkind b) && (mpart a =? mpart b) && (mname a =? mname b) && list_eqb (mtargets a) (mtargets b).

Fixpoint moves_eqb (a b : list move) : bool :=
  match a, b with [], [] => true | x :: a', y :: b' => move_eqb x y && moves_eqb a' b' | _, _ => false end.

(* observed is a sub-sequence of expected (both sorted by name within a partition) *)
Fixpoint subseq (obs exp : list move) : bool :=
  match obs, exp with
  | [], _ => true
  | _ :: _, [] => false
  | x :: obs', y :: exp' => if move_eqb x y then subseq obs' exp' else subseq obs exp'
  end.

Definition of_part (k : kind) (id : N) (l : list move) : list move :=
  filter (fun m => kind_eqb (mkind m) k && (mpart m =? id)) l.

Fixpoint parts_ok (k : kind) (id : N) (ps : list bpart) (obs exp : list move) : bool :=
  match ps with
  | [] => true
  | p :: ps' =>
    (if has_empty p then subseq (of_part k id obs) (of_part k id exp)
     else moves_eqb (of_part k id obs) (of_part k id exp)) && parts_ok k (id + 1) ps' obs exp
  end.

Record bcase := { bc_id : N; bc_this : member; bc_r : nat; bc_prim : list bpart; bc_back : list bpart;
                  bc_panic : bool; bc_obs : list move }.

(* the observed call sequence: without empty fragments exactly the model's plan (same order: partitions ascending,
   primary before backup, names sorted by the harness and by the generator); with empty fragments a sub-sequence *)
Definition case_ok (c : bcase) : bool :=
  if negb (plan_defined (bc_prim c)) then bc_panic c
  else
    negb (bc_panic c) &&
    let exp := plan (bc_this c) (bc_r c) (bc_prim c) (bc_back c) in
    subseq (bc_obs c) exp &&
    parts_ok KPrimary 0 (bc_prim c) (bc_obs c) exp && parts_ok KBackup 0 (bc_back c) (bc_obs c) exp.

Definition mismatches (cs : list bcase) : list (N * list move) :=
  flat_map (fun c => if case_ok c then [] else [(bc_id c, plan (bc_this c) (bc_r c) (bc_prim c) (bc_back c))]) cs.
