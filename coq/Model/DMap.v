(* Owner-side semantics of the DMap operations in a stable, healthy cluster with synchronous replication:
   internal/dmap/{put,get,delete,expire,atomic,lock,eviction,destroy}.go after the fix: commits.
   The state is the set of copies  (member, kind, dmap, key) -> entry ; the routing (owner and backup owners
   of a key) and the clock are inputs.  Each fragment behaves as a map (Properties/C11.v), so a fragment is
   represented by the entries stored under its (member, kind, dmap) prefix. *)
From Coq Require Import List NArith ZArith Bool.
Import ListNotations.
Local Open Scope Z_scope.

Definition bytes := list N.
Fixpoint bytes_eqb (a b : bytes) : bool :=
  match a, b with
  | [], [] => true
  | x :: a', y :: b' => N.eqb x y && bytes_eqb a' b'
  | _, _ => false
  end.

Inductive kind := Primary | Backup.
Definition kind_eqb (a b : kind) : bool := match a, b with Primary, Primary | Backup, Backup => true | _, _ => false end.

Record loc := { lm : nat; lk : kind; ld : bytes; lkey : bytes }.
Definition loc_eqb (a b : loc) : bool :=
  Nat.eqb (lm a) (lm b) && kind_eqb (lk a) (lk b) && bytes_eqb (ld a) (ld b) && bytes_eqb (lkey a) (lkey b).

(* ttl: absolute milliseconds, 0 = no expiry; ts: write timestamp; la: last access (ms) *)
Record ent := { ev : bytes; ettl : Z; ets : Z; ela : Z }.

Definition state := list (loc * ent).

Fixpoint lookup (l : loc) (s : state) : option ent :=
  match s with
  | [] => None
  | (l', e) :: s' => if loc_eqb l l' then Some e else lookup l s'
  end.
Fixpoint remove (l : loc) (s : state) : state :=
  match s with
  | [] => []
  | (l', e) :: s' => if loc_eqb l l' then remove l s' else (l', e) :: remove l s'
  end.
Definition set (l : loc) (e : ent) (s : state) : state := (l, e) :: remove l s.

(* ------------------------------------------------------------------------------------------- *)

Record env := {
  replicas : nat;
  owner : bytes -> bytes -> nat;             (* dmap, key -> primary owner *)
  backups : bytes -> bytes -> list nat;      (* dmap, key -> current backup owners *)
  default_ttl : bytes -> Z;                  (* per-DMap TTLDuration in ms, 0 = none *)
  max_idle : bytes -> Z                      (* per-DMap MaxIdleDuration in ms, 0 = none *)
}.

Definition ploc (E : env) (d k : bytes) : loc := {| lm := owner E d k; lk := Primary; ld := d; lkey := k |}.
Definition bloc (b : nat) (d k : bytes) : loc := {| lm := b; lk := Backup; ld := d; lkey := k |}.

(* isKeyExpired: ttl <> 0 and now_ms >= ttl *)
Definition expired (ttl now : Z) : bool := negb (ttl =? 0) && (ttl <=? now).
(* isKeyIdleOnFragment *)
Definition idle (E : env) (d : bytes) (e : ent) (now : Z) : bool :=
  negb (max_idle E d =? 0) && (max_idle E d + ela e <=? now).
Definition visible (e : ent) (now : Z) : bool := negb (expired (ettl e) now).

Inductive expopt := ENone | ERel (ms : Z) | EAbs (ms : Z).   (* EX/PX are relative, EXAT/PXAT absolute *)
Record pcfg := { nx : bool; xx : bool; pexp : expopt }.

Inductive res :=
| ROk
| RNotFound | RKeyFound | RNoSuchLock
| RVal (v : bytes) (ttl : Z)
| ROld (v : option bytes)
| RInt (n : Z)
| RCount (n : nat).

(* prepareTTL *)
Definition prepare_ttl (E : env) (d : bytes) (x : expopt) (now : Z) : Z :=
  match x with
  | ERel ms => now + ms
  | EAbs ms => ms
  | ENone => if default_ttl E d =? 0 then 0 else now + default_ttl E d
  end.

(* the acknowledged write: the primary copy and every backup copy receive the same entry *)
Definition write_all (E : env) (d k : bytes) (e : ent) (s : state) : state :=
  set (ploc E d k) e (fold_right (fun b acc => set (bloc b d k) e acc) s (backups E d k)).
Definition remove_all (E : env) (d k : bytes) (s : state) : state :=
  remove (ploc E d k) (fold_right (fun b acc => remove (bloc b d k) acc) s (backups E d k)).

(* putOnCluster: checkPutConditions (NX / XX on the owner's own copy), then replicate and store *)
Definition put (E : env) (d k v : bytes) (c : pcfg) (now ts : Z) (s : state) : state * res :=
  let cur := lookup (ploc E d k) s in
  let vis := match cur with Some e => visible e now | None => false end in
  if nx c && vis then (s, RKeyFound)
  else if xx c && negb vis then (s, RNotFound)
  else (write_all E d k {| ev := v; ettl := prepare_ttl E d (pexp c) now; ets := ts; ela := now |} s, ROk).

(* Expire / PExpire: OnlyUpdateTTL *)
Definition expire (E : env) (d k : bytes) (ms now ts : Z) (s : state) : state * res :=
  match lookup (ploc E d k) s with
  | Some e => if visible e now
              then (write_all E d k {| ev := ev e; ettl := now + ms; ets := ts; ela := now |} s, ROk)
              else (s, RNotFound)
  | None => (s, RNotFound)
  end.

(* getOnCluster: gather the primary copy and every backup copy, the newest timestamp wins (ties: the later
   element of the gathered list, as sort.Slice's insertion sort with a >= comparator does), lazy expiry *)
Definition newest (l : list ent) : option ent :=
  fold_left (fun acc e => match acc with
                          | None => Some e
                          | Some a => if ets a <=? ets e then Some e else Some a
                          end) l None.
Definition gather (E : env) (d k : bytes) (s : state) : list ent :=
  (match lookup (ploc E d k) s with Some e => [e] | None => [] end) ++
  flat_map (fun b => match lookup (bloc b d k) s with Some e => [e] | None => [] end) (backups E d k).

Definition touch (l : loc) (now : Z) (s : state) : state :=
  match lookup l s with
  | Some e => set l {| ev := ev e; ettl := ettl e; ets := ets e; ela := now |} s
  | None => s
  end.

Definition get_entry (E : env) (d k : bytes) (now : Z) (s : state) : option ent :=
  match newest (gather E d k s) with
  | Some e =>
    (* getOnCluster asks isKeyIdle AFTER lookupOnThisNode has read the owner's copy, and that read (Table.Get) stamps
       the last access with the current time: the idle test looks at the fresh stamp *)
    let idle_now := match lookup (ploc E d k) s with
                    | Some p => idle E d {| ev := ev p; ettl := ettl p; ets := ets p; ela := now |} now
                    | None => false
                    end in
    if visible e now && negb idle_now then Some e else None
  | None => None
  end.

Definition get (E : env) (d k : bytes) (now : Z) (s : state) : state * res :=
  let r := get_entry E d k now s in
  (* the lookups on the owner stamp the last access of the primary copy *)
  (touch (ploc E d k) now s, match r with Some e => RVal (ev e) (ettl e) | None => RNotFound end).

(* deleteKey on every key; the count is the number of keys named *)
Definition delete (E : env) (d : bytes) (ks : list bytes) (s : state) : state * res :=
  (fold_left (fun acc k => remove_all E d k acc) ks s, RCount (length ks)).

Definition plain : pcfg := {| nx := false; xx := false; pexp := ENone |}.

Definition getput (E : env) (d k v : bytes) (now ts : Z) (s : state) : state * res :=
  let old := get_entry E d k now s in
  let '(s', _) := put E d k v plain now ts s in
  (s', ROld (option_map ev old)).

(* ---- decimal text of Go ints (strconv.ParseInt(s, 10, 64) / strconv.Itoa on a 64-bit platform) ---- *)
Definition two63 : Z := 9223372036854775808.
Definition two64 : Z := 18446744073709551616.
Definition wrap64 (z : Z) : Z := let m := z mod two64 in if m <? two63 then m else m - two64.

Fixpoint parse_digits (l : bytes) (acc : Z) : option Z :=
  match l with
  | [] => Some acc
  | c :: l' => if (48 <=? c)%N && (c <=? 57)%N then parse_digits l' (acc * 10 + Z.of_N (c - 48)) else None
  end.
Definition parse_int (l : bytes) : option Z :=
  let body sign r := match r with
                     | [] => None
                     | _ => match parse_digits r 0 with
                            | Some z => let v := sign * z in
                                        if (- two63 <=? v) && (v <? two63) then Some v else None
                            | None => None
                            end
                     end in
  match l with
  | 45%N :: r => body (-1) r
  | 43%N :: r => body 1 r
  | _ => body 1 l
  end.

Fixpoint digits_fuel (fuel : nat) (z : Z) (acc : bytes) : bytes :=
  match fuel with
  | O => acc
  | S f => if z <? 10 then Z.to_N (48 + z) :: acc
           else digits_fuel f (z / 10) (Z.to_N (48 + z mod 10) :: acc)
  end.
Definition print_int (z : Z) : bytes :=
  if z <? 0 then 45%N :: digits_fuel 20 (- z) [] else digits_fuel 20 z [].

(* atomicIncrDecr: base = the visible value parsed as an int (0 if absent / expired / not a number);
   the expiry of a visible key is carried over (PX = time.Until(ttl)), otherwise the default applies *)
Definition incr (E : env) (d k : bytes) (delta : Z) (now ts : Z) (s : state) : state * res :=
  let cur := get_entry E d k now s in
  let base := match cur with Some e => match parse_int (ev e) with Some z => z | None => 0 end | None => 0 end in
  let x := match cur with
           | Some e => if ettl e =? 0 then ENone else EAbs (ettl e)
           | None => ENone
           end in
  let n := wrap64 (base + delta) in
  let '(s', _) := put E d k (print_int n) {| nx := false; xx := false; pexp := x |} now ts s in
  (s', RInt n).

(* Lock = Put NX [PX timeout] of a random token; Unlock / Lease = Get, compare, Delete / Expire *)
Definition lock (E : env) (d k tok : bytes) (timeout : Z) (now ts : Z) (s : state) : state * res :=
  put E d k tok {| nx := true; xx := false; pexp := if timeout =? 0 then ENone else ERel timeout |} now ts s.

Definition unlock (E : env) (d k tok : bytes) (now : Z) (s : state) : state * res :=
  match get_entry E d k now s with
  | Some e => if bytes_eqb (ev e) tok then (fst (delete E d [k] s), ROk) else (s, RNoSuchLock)
  | None => (s, RNoSuchLock)
  end.

Definition lease (E : env) (d k tok : bytes) (ms now ts : Z) (s : state) : state * res :=
  match get_entry E d k now s with
  | Some e => if bytes_eqb (ev e) tok
              then match expire E d k ms now ts s with
                   | (s', ROk) => (s', ROk)
                   | (s', _) => (s', RNoSuchLock)
                   end
              else (s, RNoSuchLock)
  | None => (s, RNoSuchLock)
  end.

(* Destroy: every member wipes the DMap's fragments of both kinds *)
Definition destroy (d : bytes) (s : state) : state :=
  filter (fun p => negb (bytes_eqb (ld (fst p)) d)) s.

(* one background eviction pass on member m over the sampled keys: expired or idle primary copies are
   deleted on the whole cluster (deleteOnCluster) *)
Definition evict_pass (E : env) (m : nat) (sample : list (bytes * bytes)) (now : Z) (s : state) : state :=
  fold_left (fun acc dk =>
               let '(d, k) := dk in
               if Nat.eqb (owner E d k) m then
                 match lookup (ploc E d k) acc with
                 | Some e => if expired (ettl e) now || idle E d e now then remove_all E d k acc else acc
                 | None => acc
                 end
               else acc) sample s.

(* ------------------------------------------------------------------------------------------- *)

Inductive dop :=
| DPut (d k v : bytes) (c : pcfg)
| DGet (d k : bytes)
| DDel (d : bytes) (ks : list bytes)
| DExpire (d k : bytes) (ms : Z)
| DGetPut (d k v : bytes)
| DIncr (d k : bytes) (delta : Z)
| DLock (d k tok : bytes) (timeout : Z)
| DUnlock (d k tok : bytes)
| DLease (d k tok : bytes) (ms : Z)
| DDestroy (d : bytes)
| DEvict (m : nat) (sample : list (bytes * bytes)).

Definition step (E : env) (now ts : Z) (s : state) (o : dop) : state * res :=
  match o with
  | DPut d k v c => put E d k v c now ts s
  | DGet d k => get E d k now s
  | DDel d ks => delete E d ks s
  | DExpire d k ms => expire E d k ms now ts s
  | DGetPut d k v => getput E d k v now ts s
  | DIncr d k delta => incr E d k delta now ts s
  | DLock d k tok timeout => lock E d k tok timeout now ts s
  | DUnlock d k tok => unlock E d k tok now s
  | DLease d k tok ms => lease E d k tok ms now ts s
  | DDestroy d => (destroy d s, ROk)
  | DEvict m sample => (evict_pass E m sample now s, ROk)
  end.

(* a run: every step carries its clock reading and write timestamp *)
Fixpoint run (E : env) (s : state) (l : list (Z * Z * dop)) : state * list res :=
  match l with
  | [] => (s, [])
  | (now, ts, o) :: l' =>
    let '(s1, r) := step E now ts s o in
    let '(s2, rs) := run E s1 l' in (s2, r :: rs)
  end.
