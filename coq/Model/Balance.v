(* Hand-over of one partition's primary data after joins: internal/cluster/balancer/balancer.go (primaryCopies),
   internal/dmap/fragment.go (Move: export one table, merge at the owner, drop), internal/dmap/balance.go
   (fragmentMergeFunction: the incoming entry wins iff its timestamp is >= the current one), get.go
   (lookupOnOwners: the owner's copy, then the previous owners, newest timestamp wins, ties to the later one),
   delete.go (deleteFromPreviousOwners + local delete, also when the owner itself has no copy).
   The owners list of the partition is [holders]: the head is the current primary owner, the tail the previous
   owners that still hold data (most recent first). Backup copies follow the primary copy (Properties/C04.v). *)
From Coq Require Import List NArith ZArith Bool.
Import ListNotations.
Local Open Scope Z_scope.

Definition ent := (N * Z)%type.            (* value, write timestamp *)
Definition frag := list (N * ent).         (* key -> entry *)

Fixpoint flookup (k : N) (f : frag) : option ent :=
  match f with [] => None | (k', e) :: f' => if N.eqb k k' then Some e else flookup k f' end.
Fixpoint fremove (k : N) (f : frag) : frag :=
  match f with [] => [] | (k', e) :: f' => if N.eqb k k' then fremove k f' else (k', e) :: fremove k f' end.
Definition finsert (k : N) (e : ent) (f : frag) : frag := (k, e) :: fremove k f.

Definition sys := list frag.               (* holders: primary owner first, then previous owners *)

(* fragmentMergeFunction *)
Definition merge1 (k : N) (inc : ent) (f : frag) : frag :=
  match flookup k f with
  | None => finsert k inc f
  | Some cur => if snd cur <=? snd inc then finsert k inc f else f
  end.

(* sanitizeAndSortVersions + winner: newest timestamp, ties to the later element of the gathered list *)
Definition newer (acc : option ent) (e : ent) : option ent :=
  match acc with None => Some e | Some a => if snd a <=? snd e then Some e else Some a end.
Definition copies (k : N) (s : sys) : list ent :=
  flat_map (fun f => match flookup k f with Some e => [e] | None => [] end) s.
Definition read (k : N) (s : sys) : option ent := fold_left newer (copies k s) None.

Definition on_primary (g : frag -> frag) (s : sys) : sys :=
  match s with [] => [g []] | p :: prev => g p :: prev end.

Fixpoint update_nth (i : nat) (g : frag -> frag) (s : sys) : sys :=
  match s, i with
  | [], _ => []
  | f :: s', O => g f :: s'
  | f :: s', S i' => f :: update_nth i' g s'
  end.

Inductive bop :=
| BPut (k v : N) (ts : Z)               (* acknowledged Put on the primary owner *)
| BDel (k : N)                          (* Delete: previous owners, then the owner's own copy *)
| BJoin                                 (* routing push after a join: a new, empty primary owner *)
| BMove (i : nat) (ks : list N)         (* previous owner #i (>= 1) ships the table holding keys ks, then drops it *)
| BPrune.                               (* previous owners that report no data are removed from the owners list *)

Definition bstep (s : sys) (o : bop) : sys :=
  match o with
  | BPut k v ts => on_primary (finsert k (v, ts)) s
  | BDel k => map (fremove k) s
  | BJoin => [] :: s
  | BMove i ks =>
    match i with
    | O => s
    | S _ =>
      let src := nth i s [] in
      let moved := flat_map (fun k => match flookup k src with Some e => [(k, e)] | None => [] end) ks in
      let s1 := on_primary (fun p => fold_left (fun acc ke => merge1 (fst ke) (snd ke) acc) moved p) s in
      update_nth i (fun f => fold_left (fun acc k => fremove k acc) ks f) s1
    end
  | BPrune => match s with [] => [] | p :: prev => p :: filter (fun f => negb (match f with [] => true | _ => false end)) prev end
  end.

(* the reference: the last acknowledged entry of each key *)
Definition smap := N -> option ent.
Definition sstep (m : smap) (o : bop) : smap :=
  match o with
  | BPut k v ts => fun k' => if N.eqb k' k then Some (v, ts) else m k'
  | BDel k => fun k' => if N.eqb k' k then None else m k'
  | _ => m
  end.

Fixpoint brun (s : sys) (m : smap) (l : list bop) : sys * smap :=
  match l with [] => (s, m) | o :: l' => brun (bstep s o) (sstep m o) l' end.

(* acknowledged sequential Puts of a key carry increasing timestamps (the owner's clock) *)
Fixpoint ts_fresh (m : smap) (l : list bop) : Prop :=
  match l with
  | [] => True
  | o :: l' =>
    (match o with
     | BPut k _ ts => match m k with Some e => snd e < ts | None => True end
     | _ => True
     end) /\ ts_fresh (sstep m o) l'
  end.
