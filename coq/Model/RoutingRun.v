(* Executable driver for the correspondence check of C13 (see checks/c13.py):
   - dcase: one differential case of distributePrimaryCopies / distributeBackups (harness `routing`): the inputs,
     the real ring's answers and what the implementation returned;
   - mcase: the dump of one end-to-end membership script (harness `membership`): every live member's table, the
     coordinator's ring answers, the white-box fragment lengths and the verdicts of the python predicate.
   [d_mismatches] / [m_mismatches] are evaluated by vm_compute inside coqc. *)
From Coq Require Import List NArith ZArith Bool Arith.
Require Import Olric.Gen.Consts Olric.Model.Routing.
Import ListNotations.
Local Open Scope N_scope.

Fixpoint list_eqb {A} (eq : A -> A -> bool) (a b : list A) : bool :=
  match a, b with
  | [], [] => true
  | x :: a', y :: b' => eq x y && list_eqb eq a' b'
  | _, _ => false
  end.

Definition member_eqb (a b : member) : bool :=
  (m_name a =? m_name b) && (m_id a =? m_id b) && (m_birth a =? m_birth b)%Z.
Definition members_eqb := list_eqb member_eqb.
Definition route_eqb (a b : route) : bool :=
  members_eqb (r_owners a) (r_owners b) && members_eqb (r_backups a) (r_backups b).
Definition table_eqb := list_eqb route_eqb.

(* ring answers as data: index n-1 -> GetClosestNForPartition(p, n) *)
Definition closest_of (l : list (option (list member))) (n : nat) : option (list member) :=
  match n with O => None | S k => nth k l None end.

(* LengthOfPart answers keyed by the member NAME (the call goes to the address); absent = Some 0 *)
Fixpoint lookup_len (l : list (N * option N)) (name : N) : option N :=
  match l with
  | [] => Some 0
  | (k, v) :: r => if k =? name then v else lookup_len r name
  end.

(* ------------------------------------------------------------------------------------------------
   differential cases *)
Record dcase := {
  d_live : list member;
  d_R : nat;
  d_ring_owner : member;
  d_closest : list (option (list member));
  d_prev_o : list member;
  d_prev_b : list member;
  d_len_p : list (N * option N);
  d_len_b : list (N * option N);
  d_owners : list member;       (* what distributePrimaryCopies returned *)
  d_backups : list member;      (* what distributeBackups returned *)
  d_facts : bool                (* the ring is over exactly the live members and the previous lists are duplicate-free:
                                   the hypotheses of C13_distribute_valid hold, so its conclusion must hold *)
}.

Definition model_owners (c : dcase) : list member :=
  distribute_primary (d_live c) (fun m => lookup_len (d_len_p c) (m_name m)) (d_ring_owner c) (d_prev_o c).
Definition model_backups (c : dcase) : list member :=
  distribute_backups (d_R c) (d_live c) (fun m => lookup_len (d_len_b c) (m_name m)) (closest_of (d_closest c)) (d_prev_b c).

(* the conclusion of C13_distribute_valid as a boolean, on arbitrary output lists *)
Definition owners_ok (live : list member) (len : member -> option N) (ring_owner : member) (out : list member) : bool :=
  match rev out with
  | [] => false
  | last :: olds =>
    member_eqb last ring_owner && live_by_id live last && nodup_ids out
    && forallb (fun o => live_by_id live o && nonempty_or_unknown len o) olds
  end.

Definition backups_ok (R : nat) (live : list member) (len : member -> option N) (ring_owner : member)
           (closest : nat -> option (list member)) (out : list member) : bool :=
  let nb := backup_count R (length live) in
  match closest (Nat.min R (length live)) with
  | None => false
  | Some l =>
    nodup_ids out && (nb <=? length out)%nat
    && members_eqb (skipn (length out - nb) out) (tl l)
    && forallb (fun b => live_by_id live b && negb (same_id b ring_owner)) (skipn (length out - nb) out)
    && forallb (fun b => live_by_id live b && nonempty_or_unknown len b) (firstn (length out - nb) out)
  end.

Definition d_check (c : dcase) : list nat :=
  (if members_eqb (model_owners c) (d_owners c) then [] else [0%nat])
  ++ (if members_eqb (model_backups c) (d_backups c) then [] else [1%nat])
  ++ (if d_facts c then
        (if owners_ok (d_live c) (fun m => lookup_len (d_len_p c) (m_name m)) (d_ring_owner c) (d_owners c) then [] else [2%nat])
        ++ (if backups_ok (d_R c) (d_live c) (fun m => lookup_len (d_len_b c) (m_name m)) (d_ring_owner c)
                         (closest_of (d_closest c)) (d_backups c) then [] else [3%nat])
      else []).

Fixpoint d_mismatches (l : list dcase) (i : nat) : list (nat * nat) :=
  match l with
  | [] => []
  | c :: l' => map (fun k => (i, k)) (d_check c) ++ d_mismatches l' (S i)
  end.

(* ------------------------------------------------------------------------------------------------
   end-to-end dumps *)
Record mcase := {
  c_live : list member;                                  (* the members that are really alive (harness ground truth) *)
  c_R : nat;
  c_P : nat;
  c_load_num : N;
  c_load_den : N;
  c_len : list (N * N * N * N);                          (* (kind 0|1, partition, member name, length != 0), white box *)
  c_tables : list table;                                 (* one per live member, white-box owners/backups lists *)
  c_verdicts : list bool;                                (* python's valid_table verdict per table *)
  c_coord : option member;                               (* the member every live member names as coordinator *)
  c_coord_table : nat;                                   (* index into c_tables of the coordinator's table *)
  c_ring_owners : list member;                           (* the coordinator's ring: owner per partition *)
  c_ring_closest : list (list (option (list member)));   (* per partition, index n-1 *)
  c_check_fix : bool                                     (* recomputation must reproduce the table (settled run) *)
}.

Fixpoint lookup4 (l : list (N * N * N * N)) (k p name : N) : N :=
  match l with
  | [] => 0
  | (k', p', n', v) :: r => if (k' =? k) && (p' =? p) && (n' =? name) then v else lookup4 r k p name
  end.
Definition kind_code (k : kind) : N := match k with Primary => 0 | Backup => 1 end.
Definition c_holds (c : mcase) (k : kind) (p : N) (m : member) : bool :=
  negb (lookup4 (c_len c) (kind_code k) p (m_name m) =? 0).

Definition dummy_member : member := {| m_name := 0; m_id := 0; m_birth := 0 |}.

Definition c_env (c : mcase) : env :=
  {| e_live := c_live c; e_R := c_R c;
     e_ring_owner := fun p => nth (N.to_nat p) (c_ring_owners c) dummy_member;
     e_ring_closest := fun p n => closest_of (nth (N.to_nat p) (c_ring_closest c) []) n;
     e_len := fun k p m => Some (lookup4 (c_len c) (kind_code k) p (m_name m)) |}.

Definition c_valid (c : mcase) (t : table) : bool :=
  valid_table (c_live c) (c_R c) (c_P c) (c_load_num c) (c_load_den c) (c_holds c) t.

Fixpoint verdict_diffs (c : mcase) (ts : list table) (vs : list bool) (i : nat) : list nat :=
  match ts, vs with
  | t :: ts', v :: vs' => (if Bool.eqb (c_valid c t) v then [] else [(100 + i)%nat]) ++ verdict_diffs c ts' vs' (S i)
  | [], [] => []
  | _, _ => [99%nat]
  end.

Definition opt_member_eqb (a b : option member) : bool :=
  match a, b with Some x, Some y => member_eqb x y | None, None => true | _, _ => false end.

Definition m_check (c : mcase) : list nat :=
  verdict_diffs c (c_tables c) (c_verdicts c) 0
  ++ (if opt_member_eqb (get_coordinator (c_live c)) (c_coord c) then [] else [1%nat])
  ++ (if c_check_fix c then
        let t := nth (c_coord_table c) (c_tables c) [] in
        if table_eqb (fill_routing_table (c_env c) (c_P c) t) t then [] else [2%nat]
      else []).

Fixpoint m_mismatches (l : list mcase) (i : nat) : list (nat * nat) :=
  match l with
  | [] => []
  | c :: l' => map (fun k => (i, k)) (m_check c) ++ m_mismatches l' (S i)
  end.

(* ------------------------------------------------------------------------------------------------
   left-over-data reports (left_over_data.go, update.go prepareLeftOverDataReport) *)
Record rcase := {
  rc_P : nat;
  rc_before : table;                 (* P routes; partitions the case does not mention are empty routes *)
  rc_reports : list report;
  rc_after : table;                  (* what the partitions hold after processLeftOverDataReports *)
  rc_frag_p : list nat;              (* partitions of the reporting node that hold primary / backup data *)
  rc_frag_b : list nat;
  rc_prep_p : list nat;              (* what prepareLeftOverDataReport listed *)
  rc_prep_b : list nat
}.

Definition nat_list_eqb := list_eqb Nat.eqb.
Definition in_nats (l : list nat) (p : N) : bool := existsb (Nat.eqb (N.to_nat p)) l.

Definition r_check (c : rcase) : list nat :=
  (if table_eqb (process_reports (rc_before c) (rc_reports c)) (rc_after c) then [] else [0%nat])
  ++ (let rp := prepare_report (fun k p _ => match k with Primary => in_nats (rc_frag_p c) p | Backup => in_nats (rc_frag_b c) p end)
                               (rc_P c) dummy_member in
      if nat_list_eqb (rp_parts rp) (rc_prep_p c) && nat_list_eqb (rp_backups rp) (rc_prep_b c) then [] else [1%nat]).

Fixpoint r_mismatches (l : list rcase) (i : nat) : list (nat * nat) :=
  match l with
  | [] => []
  | c :: l' => map (fun k => (i, k)) (r_check c) ++ r_mismatches l' (S i)
  end.
