(* The scalar text codec of internal/resp: what Encoder.Encode writes for a value (encoder.go) and what
   Scan reads back into a pointer of a given type (scan.go), as pure functions over byte strings.

     Encode:  int, int8..int64      -> strconv.AppendInt(int64(v), 10)
              uint, uint8..uint64   -> strconv.AppendUint(uint64(v), 10)
              bool                  -> "1" / "0"
              time.Duration         -> AppendInt(v.Nanoseconds(), 10)
              string, []byte, nil   -> the bytes themselves
     Scan:    *int                  -> strconv.Atoi                       (64 bit on every supported platform)
              *int8..*int64         -> strconv.ParseInt(s, 10, 8..64)
              *uint                 -> strconv.ParseUint(s, 10, 64)
              *uint8..*uint64       -> strconv.ParseUint(s, 10, 8..64)
              *bool                 -> len(b) == 1 && b[0] == '1'          (never fails)
              *time.Duration        -> ParseInt(s, 10, 64)
              *string, *[]byte      -> the bytes themselves
   float32/64, time.Time and BinaryMarshaler go through strconv / time / user code and are not modelled
   (they are covered by differential testing only, see checks/c17.py).
   strconv's two error kinds (ErrSyntax, ErrRange) are both [None]: the property only needs "rejected". *)
From Coq Require Import List NArith ZArith Bool.
Require Import Olric.Model.Codec.
Import ListNotations.
Local Open Scope N_scope.

Definition text := list byte.

(* ---- strconv.AppendUint(dst, n, 10): decimal digits, most significant first, no leading zero ---- *)
Fixpoint dec_fuel (fuel : nat) (n : N) (acc : text) : text :=
  match fuel with
  | O => acc
  | S f => let acc' := (48 + n mod 10) :: acc in
           if n <? 10 then acc' else dec_fuel f (n / 10) acc'
  end.
(* a number has no more decimal than binary digits *)
Definition dec (n : N) : text := dec_fuel (S (N.to_nat (N.log2 n))) n [].

Definition enc_uint (n : N) : text := dec n.
(* strconv.AppendInt: '-' followed by the digits of the magnitude (MinInt64 included: uint64(-i)) *)
Definition enc_int (z : Z) : text :=
  if (z <? 0)%Z then 45 :: dec (Z.to_N (- z)) else dec (Z.to_N z).

(* ---- strconv.ParseUint / ParseInt with base 10 given explicitly (no prefixes, no underscores) ---- *)
Definition digit (b : byte) : option N :=
  if (48 <=? b) && (b <=? 57) then Some (b - 48) else None.

Fixpoint parse_digits (acc : N) (l : text) : option N :=
  match l with
  | [] => Some acc
  | b :: r => match digit b with
              | None => None
              | Some d => parse_digits (acc * 10 + d) r
              end
  end.

(* at least one digit, digits only *)
Definition parse_unsigned (l : text) : option N :=
  match l with [] => None | _ => parse_digits 0 l end.

Definition parse_uint (bits : N) (l : text) : option N :=
  match parse_unsigned l with
  | Some n => if n <? 2 ^ bits then Some n else None
  | None => None
  end.

Definition parse_int (bits : N) (l : text) : option Z :=
  match l with
  | [] => None
  | b :: r =>
    if b =? 45 then
      match parse_unsigned r with
      | Some n => if n <=? 2 ^ (bits - 1) then Some (- Z.of_N n)%Z else None
      | None => None
      end
    else
      match parse_unsigned (if b =? 43 then r else l) with
      | Some n => if n <? 2 ^ (bits - 1) then Some (Z.of_N n) else None
      | None => None
      end
  end.

(* ---- the typed layer ---- *)
Inductive ty :=
| TInt | TInt8 | TInt16 | TInt32 | TInt64
| TUint | TUint8 | TUint16 | TUint32 | TUint64
| TBool | TDuration | TString | TBytes.

Definition is_signed (t : ty) : bool :=
  match t with TInt | TInt8 | TInt16 | TInt32 | TInt64 | TDuration => true | _ => false end.
Definition is_unsigned (t : ty) : bool :=
  match t with TUint | TUint8 | TUint16 | TUint32 | TUint64 => true | _ => false end.

Definition bits (t : ty) : N :=
  match t with
  | TInt8 | TUint8 => 8
  | TInt16 | TUint16 => 16
  | TInt32 | TUint32 => 32
  | _ => 64
  end.

(* a Go value of one of the modelled types *)
Inductive gval :=
| GI (z : Z)        (* any integer kind, time.Duration as its nanoseconds *)
| GB (b : bool)
| GT (l : text).    (* string or []byte *)

(* the values a Go variable of type t can hold *)
Definition in_range (t : ty) (z : Z) : bool :=
  if is_signed t then ((- 2 ^ (Z.of_N (bits t) - 1) <=? z) && (z <? 2 ^ (Z.of_N (bits t) - 1)))%Z
  else ((0 <=? z) && (z <? 2 ^ Z.of_N (bits t)))%Z.

Definition has_type (t : ty) (v : gval) : bool :=
  match v, t with
  | GB _, TBool => true
  | GT _, (TString | TBytes) => true
  | GI z, _ => (is_signed t || is_unsigned t) && in_range t z
  | _, _ => false
  end.

(* Encoder.Encode (the arm is chosen by the dynamic type of the value) *)
Definition encode (t : ty) (v : gval) : text :=
  match v with
  | GI z => if is_signed t then enc_int z else enc_uint (Z.to_N z)
  | GB b => enc_int (if b then 1 else 0)
  | GT l => l
  end.

(* Scan(b, &x) with x of type t; None = an error is returned *)
Definition scan (t : ty) (l : text) : option gval :=
  match t with
  | TBool => Some (GB (match l with [b] => b =? 49 | _ => false end))
  | TString | TBytes => Some (GT l)
  | _ =>
    if is_signed t then option_map GI (parse_int (bits t) l)
    else option_map (fun n => GI (Z.of_N n)) (parse_uint (bits t) l)
  end.

(* ---- comparison helpers used by the correspondence runner ---- *)
Fixpoint text_eqb (a b : text) : bool :=
  match a, b with
  | [], [] => true
  | x :: a', y :: b' => (x =? y) && text_eqb a' b'
  | _, _ => false
  end.
Definition gval_eqb (a b : gval) : bool :=
  match a, b with
  | GI x, GI y => Z.eqb x y
  | GB x, GB y => Bool.eqb x y
  | GT x, GT y => text_eqb x y
  | _, _ => false
  end.
