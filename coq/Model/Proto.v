(* Executable model of the request front end of an olric member (property C16, and the parser half of C15):

     internal/protocol/dmap.go system.go pubsub.go cluster.go   every Parse*Command
     internal/protocol/errors.go                                errWrongNumber
     internal/server/mux.go handler.go                          ServeMux.ServeRESP, Handler.ServeRESP
     internal/dmap/scan_handlers.go (DMap.Scan), internal/cluster/routingtable/operations.go
       (lengthOfPartCommandHandler, verifyRoutingTable)          the decisions taken on ids before a dereference
     protocol.New*( ).Command( ), dmap/put.go:writePutCommand    the client side builders (C15)

   as the code is AFTER the fix: commits of fixes/01..04. An argument vector is a list of byte strings, Args[0] is the
   command name. Every Go index expression is `nth_error`; a miss is PPanic (Go would panic: with redcon that
   is the death of the process). Every Go loop that is not a `for range` carries fuel; exhaustion is PSpin.
   Nothing but definitions lives here (Proofs/ProtoProofs.v has the lemmas). *)
From Coq Require Import String Ascii.
From Coq Require Import List NArith ZArith Bool.
Import ListNotations.
Local Open Scope N_scope.

Definition tok := list N.                       (* a byte string *)

Fixpoint tok_eqb (a b : tok) : bool :=
  match a, b with
  | [], [] => true
  | x :: a', y :: b' => (x =? y) && tok_eqb a' b'
  | _, _ => false
  end.

Definition bytes_of (s : string) : tok := map N_of_ascii (list_ascii_of_string s).

(* strings.ToUpper / strings.ToLower on ASCII (tokens containing bytes >= 0x80 go through Go's unicode mapping,
   which can only produce an ASCII letter from the four runes U+0130 U+0131 U+017F U+212A: see DESIGN-C16.md) *)
Definition upper_byte (b : N) : N := if (97 <=? b) && (b <=? 122) then b - 32 else b.
Definition lower_byte (b : N) : N := if (65 <=? b) && (b <=? 90) then b + 32 else b.
Definition to_upper (t : tok) : tok := map upper_byte t.
Definition to_lower (t : tok) : tok := map lower_byte t.

(* ---------------------------------------------------------------------------------------------- *)
(* strconv                                                                                          *)
(* ---------------------------------------------------------------------------------------------- *)

Inductive num_res (A : Type) := NOk (a : A) | NSyntax | NRange.
Arguments NOk {A} a.
Arguments NSyntax {A}.
Arguments NRange {A}.

Definition two63 : N := 9223372036854775808.
Definition two64 : N := 18446744073709551616.

Definition is_digit (b : N) : bool := (48 <=? b) && (b <=? 57).

(* the loop of strconv.ParseUint(s, 10, 64): first offending byte decides (syntax before it overflows, range
   as soon as the value leaves uint64) *)
Fixpoint uint_loop (s : tok) (acc : N) : num_res N :=
  match s with
  | [] => NOk acc
  | c :: r =>
    if is_digit c then
      let acc' := acc * 10 + (c - 48) in
      if two64 <=? acc' then NRange else uint_loop r acc'
    else NSyntax
  end.

Definition parse_uint64 (s : tok) : num_res N :=
  match s with [] => NSyntax | _ => uint_loop s 0 end.

(* strconv.ParseInt(s, 10, 64); strconv.Atoi on a 64-bit platform has the same outcome for every input *)
Definition parse_int64 (s : tok) : num_res Z :=
  match s with
  | [] => NSyntax
  | c :: r =>
    let neg := c =? 45 in
    let body := if (c =? 43) || (c =? 45) then r else s in
    match parse_uint64 body with
    | NSyntax => NSyntax
    | NRange => NRange
    | NOk un =>
      if neg then (if two63 <? un then NRange else NOk (- Z.of_N un)%Z)
      else (if two63 <=? un then NRange else NOk (Z.of_N un))
    end
  end.

Definition atoi := parse_int64.

(* int64 multiplication wraps *)
Definition wrap64 (z : Z) : Z := ((z + 9223372036854775808) mod 18446744073709551616 - 9223372036854775808)%Z.

(* ---------------------------------------------------------------------------------------------- *)
(* outcomes                                                                                         *)
(* ---------------------------------------------------------------------------------------------- *)

Inductive perr := EWrongArgs | ESyntax | EInvalidArg | ENumSyntax | ENumRange | EInvalidPart | EOther.

Inductive outcome (A : Type) := POk (a : A) | PErr (e : perr) | PPanic | PSpin.
Arguments POk {A} a.
Arguments PErr {A} e.
Arguments PPanic {A}.
Arguments PSpin {A}.

Definition bind {A B} (o : outcome A) (k : A -> outcome B) : outcome B :=
  match o with POk a => k a | PErr e => PErr e | PPanic => PPanic | PSpin => PSpin end.

(* cmd.Args[i] *)
Definition arg {B} (args : list tok) (i : nat) (k : tok -> outcome B) : outcome B :=
  match nth_error args i with Some t => k t | None => PPanic end.

Definition of_num {A B} (r : num_res A) (k : A -> outcome B) : outcome B :=
  match r with NOk a => k a | NSyntax => PErr ENumSyntax | NRange => PErr ENumRange end.

(* errWrongNumber: builds the message out of the arguments in a `for` loop, then returns the error *)
Fixpoint wrong_number_loop (fuel : nat) (args : list tok) (acc : tok) : outcome tok :=
  match fuel with
  | O => PSpin
  | S f =>
    match args with
    | [] => POk acc                                  (* for len(args) > 0 *)
    | a :: rest =>
      match rest with
      | [] => POk (acc ++ a)                         (* break *)
      | _ => wrong_number_loop f rest (acc ++ a ++ [32])
      end
    end
  end.

Definition err_wrong_number {A} (args : list tok) : outcome A :=
  bind (wrong_number_loop (S (length args)) args []) (fun _ => PErr EWrongArgs).

(* `for len(args) > 0 { out = append(out, args[0]); args = args[1:] }` of the pub/sub parsers *)
Fixpoint collect_loop (fuel : nat) (args : list tok) (acc : list tok) : outcome (list tok) :=
  match fuel with
  | O => PSpin
  | S f =>
    match args with
    | [] => POk acc
    | _ => arg args 0 (fun a => collect_loop f (skipn 1 args) (acc ++ [a]))
    end
  end.

Definition too_few (args : list tok) (n : nat) : bool := Nat.ltb (length args) n.

Definition kw_NX := bytes_of "NX".
Definition kw_XX := bytes_of "XX".
Definition kw_PX := bytes_of "PX".
Definition kw_EX := bytes_of "EX".
Definition kw_EXAT := bytes_of "EXAT".
Definition kw_PXAT := bytes_of "PXAT".
Definition kw_MATCH := bytes_of "MATCH".
Definition kw_COUNT := bytes_of "COUNT".
Definition kw_RC := bytes_of "RC".
Definition kw_RW := bytes_of "RW".
Definition kw_LC := bytes_of "LC".
Definition kw_CR := bytes_of "CR".

Section Parsers.
  (* float64 is abstract: the conversion strconv.ParseFloat(_, 64) and the conversion
     time.Duration(seconds * float64(time.Second)) are oracles *)
  Variable F : Type.
  Variable fzero : F.
  Variable parse_float : tok -> num_res F.
  Variable fdur : F -> Z.

  (* ---- dmap.go ---- *)
  Record put_t := { p_dmap : tok; p_key : tok; p_value : tok; p_ex : F; p_px : Z; p_exat : F; p_pxat : Z;
                    p_nx : bool; p_xx : bool }.
  Definition new_put d k v := {| p_dmap := d; p_key := k; p_value := v; p_ex := fzero; p_px := 0%Z;
                                 p_exat := fzero; p_pxat := 0%Z; p_nx := false; p_xx := false |}.
  Definition set_nx p := {| p_dmap := p_dmap p; p_key := p_key p; p_value := p_value p; p_ex := p_ex p; p_px := p_px p;
                            p_exat := p_exat p; p_pxat := p_pxat p; p_nx := true; p_xx := p_xx p |}.
  Definition set_xx p := {| p_dmap := p_dmap p; p_key := p_key p; p_value := p_value p; p_ex := p_ex p; p_px := p_px p;
                            p_exat := p_exat p; p_pxat := p_pxat p; p_nx := p_nx p; p_xx := true |}.
  Definition set_px p x := {| p_dmap := p_dmap p; p_key := p_key p; p_value := p_value p; p_ex := p_ex p; p_px := x;
                              p_exat := p_exat p; p_pxat := p_pxat p; p_nx := p_nx p; p_xx := p_xx p |}.
  Definition set_ex p x := {| p_dmap := p_dmap p; p_key := p_key p; p_value := p_value p; p_ex := x; p_px := p_px p;
                              p_exat := p_exat p; p_pxat := p_pxat p; p_nx := p_nx p; p_xx := p_xx p |}.
  Definition set_exat p x := {| p_dmap := p_dmap p; p_key := p_key p; p_value := p_value p; p_ex := p_ex p; p_px := p_px p;
                                p_exat := x; p_pxat := p_pxat p; p_nx := p_nx p; p_xx := p_xx p |}.
  Definition set_pxat p x := {| p_dmap := p_dmap p; p_key := p_key p; p_value := p_value p; p_ex := p_ex p; p_px := p_px p;
                                p_exat := p_exat p; p_pxat := x; p_nx := p_nx p; p_xx := p_xx p |}.

  (* the option loop of ParsePutCommand: `for len(args) > 0 { switch strings.ToUpper(args[0]) ... }` *)
  Fixpoint put_opts (fuel : nat) (args : list tok) (p : put_t) : outcome put_t :=
    match fuel with
    | O => PSpin
    | S f =>
      match args with
      | [] => POk p
      | _ =>
        arg args 0 (fun a0 =>
        let a := to_upper a0 in
        if tok_eqb a kw_NX then put_opts f (skipn 1 args) (set_nx p)
        else if tok_eqb a kw_XX then put_opts f (skipn 1 args) (set_xx p)
        else if tok_eqb a kw_PX then
          if too_few args 2 then PErr ESyntax
          else arg args 1 (fun v => of_num (parse_int64 v) (fun x => put_opts f (skipn 2 args) (set_px p x)))
        else if tok_eqb a kw_EX then
          if too_few args 2 then PErr ESyntax
          else arg args 1 (fun v => of_num (parse_float v) (fun x => put_opts f (skipn 2 args) (set_ex p x)))
        else if tok_eqb a kw_EXAT then
          if too_few args 2 then PErr ESyntax
          else arg args 1 (fun v => of_num (parse_float v) (fun x => put_opts f (skipn 2 args) (set_exat p x)))
        else if tok_eqb a kw_PXAT then
          if too_few args 2 then PErr ESyntax
          else arg args 1 (fun v => of_num (parse_int64 v) (fun x => put_opts f (skipn 2 args) (set_pxat p x)))
        else PErr ESyntax)
      end
    end.

  Definition parse_put (args : list tok) : outcome put_t :=
    if too_few args 4 then err_wrong_number args
    else arg args 1 (fun d => arg args 2 (fun k => arg args 3 (fun v =>
         put_opts (S (length args)) (skipn 4 args) (new_put d k v)))).

  Definition parse_putentry (args : list tok) : outcome (tok * tok * tok) :=
    if too_few args 4 then err_wrong_number args
    else arg args 1 (fun d => arg args 2 (fun k => arg args 3 (fun v => POk (d, k, v)))).

  (* `if len(cmd.Args) == n { if Args[n-1] == kw {flag} else {invalid argument} }` *)
  Definition flag_at (args : list tok) (n : nat) (kw : tok) (k : bool -> outcome bool) : outcome bool :=
    if Nat.eqb (length args) (S n) then arg args n (fun a => if tok_eqb a kw then k true else PErr EInvalidArg)
    else k false.

  Definition parse_get (args : list tok) : outcome (tok * tok * bool) :=
    if too_few args 3 then err_wrong_number args
    else arg args 1 (fun d => arg args 2 (fun k =>
         bind (flag_at args 3 kw_RW (fun b => POk b)) (fun b => POk (d, k, b)))).

  Definition parse_getentry (args : list tok) : outcome (tok * tok * bool) :=
    if too_few args 3 then err_wrong_number args
    else arg args 1 (fun d => arg args 2 (fun k =>
         bind (flag_at args 3 kw_RC (fun b => POk b)) (fun b => POk (d, k, b)))).

  Definition parse_del (args : list tok) : outcome (tok * list tok) :=
    if too_few args 3 then err_wrong_number args
    else arg args 1 (fun d => POk (d, skipn 2 args)).       (* for _, key := range cmd.Args[2:] *)

  Definition parse_delentry (args : list tok) : outcome (tok * list tok * bool) :=
    if too_few args 3 then err_wrong_number args
    else arg args 1 (fun d => arg args 2 (fun k =>
         bind (flag_at args 3 kw_RC (fun b => POk b)) (fun b => POk (d, [k], b)))).

  (* time.Duration(milliseconds * int64(time.Millisecond)) *)
  Definition parse_pexpire (args : list tok) : outcome (tok * tok * Z) :=
    if too_few args 4 then err_wrong_number args
    else arg args 3 (fun r => of_num (parse_int64 r) (fun ms =>
         arg args 1 (fun d => arg args 2 (fun k => POk (d, k, wrap64 (ms * 1000000)%Z))))).

  Definition parse_expire (args : list tok) : outcome (tok * tok * Z) :=
    if too_few args 4 then err_wrong_number args
    else arg args 3 (fun r => of_num (parse_float r) (fun s =>
         arg args 1 (fun d => arg args 2 (fun k => POk (d, k, fdur s))))).

  Definition parse_destroy (args : list tok) : outcome (tok * bool) :=
    if too_few args 2 then err_wrong_number args
    else arg args 1 (fun d => bind (flag_at args 2 kw_LC (fun b => POk b)) (fun b => POk (d, b))).

  Record scan_t := { s_part : N; s_dmap : tok; s_cursor : N; s_count : Z; s_match : tok; s_replica : bool }.
  Definition scan_set_match s m := {| s_part := s_part s; s_dmap := s_dmap s; s_cursor := s_cursor s; s_count := s_count s;
                                      s_match := m; s_replica := s_replica s |}.
  Definition scan_set_count s c := {| s_part := s_part s; s_dmap := s_dmap s; s_cursor := s_cursor s; s_count := c;
                                      s_match := s_match s; s_replica := s_replica s |}.
  Definition scan_set_replica s := {| s_part := s_part s; s_dmap := s_dmap s; s_cursor := s_cursor s; s_count := s_count s;
                                      s_match := s_match s; s_replica := true |}.

  Fixpoint scan_opts (fuel : nat) (args : list tok) (s : scan_t) : outcome scan_t :=
    match fuel with
    | O => PSpin
    | S f =>
      match args with
      | [] => POk s
      | _ =>
        arg args 0 (fun a0 =>
        let a := to_upper a0 in
        if tok_eqb a kw_MATCH then
          if too_few args 2 then PErr ESyntax
          else arg args 1 (fun v => scan_opts f (skipn 2 args) (scan_set_match s v))
        else if tok_eqb a kw_COUNT then
          if too_few args 2 then PErr ESyntax
          else arg args 1 (fun v => of_num (atoi v) (fun c => scan_opts f (skipn 2 args) (scan_set_count s c)))
        else if tok_eqb a kw_RC then scan_opts f (skipn 1 args) (scan_set_replica s)
        else PErr ESyntax)
      end
    end.

  Definition default_scan_count : Z := 10.

  Definition parse_scan (args : list tok) : outcome scan_t :=
    if too_few args 4 then err_wrong_number args
    else arg args 1 (fun rp => of_num (parse_uint64 rp) (fun part =>
         arg args 3 (fun rc => of_num (parse_uint64 rc) (fun cursor =>
         arg args 2 (fun d =>
         bind (scan_opts (S (length args)) (skipn 4 args)
                 {| s_part := part; s_dmap := d; s_cursor := cursor; s_count := 0%Z; s_match := []; s_replica := false |})
              (fun s => POk (if (s_count s =? 0)%Z then scan_set_count s default_scan_count else s))))))).

  Definition parse_incr (args : list tok) : outcome (tok * tok * Z) :=
    if too_few args 4 then err_wrong_number args
    else arg args 3 (fun r => of_num (atoi r) (fun delta =>
         arg args 1 (fun d => arg args 2 (fun k => POk (d, k, delta))))).

  Definition parse_getput (args : list tok) : outcome (tok * tok * tok * bool) :=
    if too_few args 4 then err_wrong_number args
    else arg args 1 (fun d => arg args 2 (fun k => arg args 3 (fun v =>
         bind (flag_at args 4 kw_RW (fun b => POk b)) (fun b => POk (d, k, v, b))))).

  Definition parse_incrbyfloat (args : list tok) : outcome (tok * tok * F) :=
    if too_few args 4 then err_wrong_number args
    else arg args 3 (fun r => of_num (parse_float r) (fun delta =>
         arg args 1 (fun d => arg args 2 (fun k => POk (d, k, delta))))).

  Record lock_t := { l_dmap : tok; l_key : tok; l_deadline : F; l_ex : F; l_px : Z }.

  Definition parse_lock (args : list tok) : outcome lock_t :=
    if too_few args 4 then err_wrong_number args
    else arg args 3 (fun r => of_num (parse_float r) (fun dl =>
         arg args 1 (fun d => arg args 2 (fun k =>
         let l := {| l_dmap := d; l_key := k; l_deadline := dl; l_ex := fzero; l_px := 0%Z |} in
         if Nat.ltb 4 (length args) then
           if Nat.eqb (length args) 5 then arg args 4 (fun _ => PErr EInvalidArg)
           else arg args 4 (fun o =>
                let a := to_upper o in
                if tok_eqb a kw_PX then
                  arg args 5 (fun v => of_num (parse_int64 v) (fun x =>
                    POk {| l_dmap := d; l_key := k; l_deadline := dl; l_ex := fzero; l_px := x |}))
                else if tok_eqb a kw_EX then
                  arg args 5 (fun v => of_num (parse_float v) (fun x =>
                    POk {| l_dmap := d; l_key := k; l_deadline := dl; l_ex := x; l_px := 0%Z |}))
                else PErr EInvalidArg)
         else POk l)))).

  Definition parse_unlock (args : list tok) : outcome (tok * tok * tok) :=
    if too_few args 4 then err_wrong_number args
    else arg args 1 (fun d => arg args 2 (fun k => arg args 3 (fun t => POk (d, k, t)))).

  Definition parse_locklease (args : list tok) : outcome (tok * tok * tok * F) :=
    if too_few args 5 then err_wrong_number args
    else arg args 4 (fun r => of_num (parse_float r) (fun t =>
         arg args 1 (fun d => arg args 2 (fun k => arg args 3 (fun tk => POk (d, k, tk, t)))))).

  Definition parse_plocklease (args : list tok) : outcome (tok * tok * tok * Z) :=
    if too_few args 5 then err_wrong_number args
    else arg args 4 (fun r => of_num (parse_int64 r) (fun t =>
         arg args 1 (fun d => arg args 2 (fun k => arg args 3 (fun tk => POk (d, k, tk, t)))))).

  (* ---- system.go ---- *)
  Definition parse_ping (args : list tok) : outcome tok :=
    if too_few args 1 then err_wrong_number args
    else if Nat.eqb (length args) 2 then arg args 1 (fun m => POk m) else POk [].

  Definition parse_movefragment (args : list tok) : outcome tok :=
    if too_few args 2 then err_wrong_number args else arg args 1 (fun p => POk p).

  Definition parse_updaterouting (args : list tok) : outcome (tok * N) :=
    if too_few args 3 then err_wrong_number args
    else arg args 2 (fun r => of_num (parse_uint64 r) (fun id => arg args 1 (fun p => POk (p, id)))).

  Definition parse_lengthofpart (args : list tok) : outcome (N * bool) :=
    if too_few args 2 then err_wrong_number args
    else arg args 1 (fun r => of_num (parse_uint64 r) (fun id =>
         bind (flag_at args 2 kw_RC (fun b => POk b)) (fun b => POk (id, b)))).

  Definition parse_stats (args : list tok) : outcome bool :=
    if too_few args 1 then err_wrong_number args
    else flag_at args 1 kw_CR (fun b => POk b).

  (* ---- pubsub.go ---- *)
  Definition parse_publish (args : list tok) : outcome (tok * tok) :=
    if too_few args 3 then err_wrong_number args
    else arg args 1 (fun c => arg args 2 (fun m => POk (c, m))).

  Definition parse_subscribe (args : list tok) : outcome (list tok) :=
    if too_few args 2 then err_wrong_number args
    else collect_loop (S (length args)) (skipn 1 args) [].

  Definition parse_pubsub_channels (args : list tok) : outcome tok :=
    if too_few args 2 then err_wrong_number args
    else if Nat.leb 3 (length args) then arg args 2 (fun p => POk p) else POk [].

  Definition parse_pubsub_numpat (args : list tok) : outcome unit :=
    if too_few args 2 then err_wrong_number args else POk tt.

  Definition parse_pubsub_numsub (args : list tok) : outcome (list tok) :=
    if too_few args 2 then err_wrong_number args
    else collect_loop (S (length args)) (skipn 2 args) [].

  (* ---- cluster.go ---- *)
  Definition parse_cluster_noargs (args : list tok) : outcome unit :=
    if Nat.ltb 1 (length args) then err_wrong_number args else POk tt.

  (* ---- the command table ---- *)
  Inductive cmd :=
  | CPut | CPutEntry | CGet | CGetEntry | CDel | CDelEntry | CPExpire | CExpire | CDestroy | CScan | CIncr | CDecr
  | CGetPut | CIncrByFloat | CLock | CUnlock | CLockLease | CPLockLease
  | CPing | CMoveFragment | CUpdateRouting | CLengthOfPart | CStats
  | CPublish | CPublishInternal | CSubscribe | CPSubscribe | CPubSubChannels | CPubSubNumpat | CPubSubNumsub
  | CClusterRoutingTable | CClusterMembers.

  Inductive parsed :=
  | RPut (p : put_t)
  | RPutEntry (x : tok * tok * tok)
  | RGet (x : tok * tok * bool)
  | RGetEntry (x : tok * tok * bool)
  | RDel (x : tok * list tok)
  | RDelEntry (x : tok * list tok * bool)
  | RPExpire (x : tok * tok * Z)
  | RExpire (x : tok * tok * Z)
  | RDestroy (x : tok * bool)
  | RScan (s : scan_t)
  | RIncr (x : tok * tok * Z)
  | RDecr (x : tok * tok * Z)
  | RGetPut (x : tok * tok * tok * bool)
  | RIncrByFloat (x : tok * tok * F)
  | RLock (l : lock_t)
  | RUnlock (x : tok * tok * tok)
  | RLockLease (x : tok * tok * tok * F)
  | RPLockLease (x : tok * tok * tok * Z)
  | RPing (m : tok)
  | RMoveFragment (p : tok)
  | RUpdateRouting (x : tok * N)
  | RLengthOfPart (x : N * bool)
  | RStats (cr : bool)
  | RPublish (x : tok * tok)
  | RPublishInternal (x : tok * tok)
  | RSubscribe (cs : list tok)
  | RPSubscribe (ps : list tok)
  | RPubSubChannels (p : tok)
  | RPubSubNumpat
  | RPubSubNumsub (cs : list tok)
  | RClusterRoutingTable
  | RClusterMembers.

  Definition omap {A B} (f : A -> B) (o : outcome A) : outcome B := bind o (fun a => POk (f a)).

  Definition parse (c : cmd) (args : list tok) : outcome parsed :=
    match c with
    | CPut => omap RPut (parse_put args)
    | CPutEntry => omap RPutEntry (parse_putentry args)
    | CGet => omap RGet (parse_get args)
    | CGetEntry => omap RGetEntry (parse_getentry args)
    | CDel => omap RDel (parse_del args)
    | CDelEntry => omap RDelEntry (parse_delentry args)
    | CPExpire => omap RPExpire (parse_pexpire args)
    | CExpire => omap RExpire (parse_expire args)
    | CDestroy => omap RDestroy (parse_destroy args)
    | CScan => omap RScan (parse_scan args)
    | CIncr => omap RIncr (parse_incr args)
    | CDecr => omap RDecr (parse_incr args)
    | CGetPut => omap RGetPut (parse_getput args)
    | CIncrByFloat => omap RIncrByFloat (parse_incrbyfloat args)
    | CLock => omap RLock (parse_lock args)
    | CUnlock => omap RUnlock (parse_unlock args)
    | CLockLease => omap RLockLease (parse_locklease args)
    | CPLockLease => omap RPLockLease (parse_plocklease args)
    | CPing => omap RPing (parse_ping args)
    | CMoveFragment => omap RMoveFragment (parse_movefragment args)
    | CUpdateRouting => omap RUpdateRouting (parse_updaterouting args)
    | CLengthOfPart => omap RLengthOfPart (parse_lengthofpart args)
    | CStats => omap RStats (parse_stats args)
    | CPublish => omap RPublish (parse_publish args)
    | CPublishInternal => omap RPublishInternal (parse_publish args)
    | CSubscribe => omap RSubscribe (parse_subscribe args)
    | CPSubscribe => omap RPSubscribe (parse_subscribe args)
    | CPubSubChannels => omap RPubSubChannels (parse_pubsub_channels args)
    | CPubSubNumpat => omap (fun _ => RPubSubNumpat) (parse_pubsub_numpat args)
    | CPubSubNumsub => omap RPubSubNumsub (parse_pubsub_numsub args)
    | CClusterRoutingTable => omap (fun _ => RClusterRoutingTable) (parse_cluster_noargs args)
    | CClusterMembers => omap (fun _ => RClusterMembers) (parse_cluster_noargs args)
    end.
End Parsers.

Arguments p_dmap {F}. Arguments p_key {F}. Arguments p_value {F}. Arguments p_ex {F}. Arguments p_px {F}.
Arguments p_exat {F}. Arguments p_pxat {F}. Arguments p_nx {F}. Arguments p_xx {F}.
Arguments l_dmap {F}. Arguments l_key {F}. Arguments l_deadline {F}. Arguments l_ex {F}. Arguments l_px {F}.

(* ---------------------------------------------------------------------------------------------- *)
(* dispatch: mux.go ServeMux.ServeRESP, then handler.go Handler.ServeRESP                           *)
(* ---------------------------------------------------------------------------------------------- *)

Inductive dispatch :=
| DHandled (name : tok) (precond_consulted : bool)    (* the handler registered under `name` runs *)
| DBlocked                                              (* the precondition refused (it wrote the error) *)
| DUnknown | DWrongArgs | DEmpty                        (* the mux wrote an error *)
| DPanic.

Definition kw_pubsub := bytes_of "pubsub".
Definition kw_PUBSUB := bytes_of "PUBSUB".
Definition name_updaterouting := bytes_of "internal.node.updaterouting".

Definition registered (regs : list tok) (name : tok) : bool := existsb (tok_eqb name) regs.

(* Handler.ServeRESP of the handler registered under `name`; precond = None models a nil precondition
   function, Some b the value the precondition returns for this request *)
Definition handler_serve (name : tok) (precond : option bool) (args : list tok) : dispatch :=
  match args with
  | [] => DHandled name false
  | _ =>
    match nth_error args 0 with
    | None => DPanic
    | Some command =>
      let k (command : tok) :=
        if tok_eqb command name_updaterouting then DHandled name false
        else match precond with
             | None => DHandled name false
             | Some true => DHandled name true
             | Some false => DBlocked
             end in
      if tok_eqb command kw_pubsub || tok_eqb command kw_PUBSUB then
        match nth_error args 1 with
        | None => DPanic
        | Some sub => k (command ++ [32] ++ sub)
        end
      else k command
    end
  end.

Definition mux_serve (regs : list tok) (precond : option bool) (args : list tok) : dispatch :=
  if Nat.eqb (length args) 0 then DEmpty
  else match nth_error args 0 with
       | None => DPanic
       | Some a0 =>
         let command := to_lower a0 in
         if registered regs command then handler_serve command precond args
         else if tok_eqb command kw_pubsub then
           if Nat.ltb (length args) 2 then DWrongArgs
           else match nth_error args 1 with
                | None => DPanic
                | Some sub =>
                  let command2 := command ++ [32] ++ to_lower sub in
                  if registered regs command2 then handler_serve command2 precond args else DUnknown
                end
         else DUnknown
       end.

(* ---------------------------------------------------------------------------------------------- *)
(* decisions of the handlers that dereference a partition by an id taken from the wire              *)
(* ---------------------------------------------------------------------------------------------- *)

Inductive deref := Deref (id : N) | Reject (e : perr) | NilDeref.

(* partitions.PartitionByID: a map lookup, nil for an id that is not a partition *)
Definition partition_exists (pcount id : N) : bool := id <? pcount.

Definition use_partition (pcount id : N) : deref :=
  if partition_exists pcount id then Deref id else NilDeref.

(* DMap.Scan and lengthOfPartCommandHandler: `if partID >= PartitionCount { return error }`, then the dereference *)
Definition scan_decision (pcount id : N) : deref :=
  if pcount <=? id then Reject EInvalidPart else use_partition pcount id.

Definition lengthofpart_decision (pcount id : N) : deref :=
  if pcount <=? id then Reject EInvalidPart else use_partition pcount id.

(* updateRoutingCommandHandler after a successful unmarshal: verifyRoutingTable (partition count, then every id
   and route), then the loop that dereferences primary/backup partitions and the route. The decoded table is a
   list of (partition id, route present?). *)
Definition verify_routing_table (pcount : N) (table : list (N * bool)) : option perr :=
  if negb (N.of_nat (length table) =? pcount) then Some EOther
  else if forallb (fun e => (fst e <? pcount) && snd e) table then None else Some EInvalidPart.

Definition apply_route (pcount : N) (e : N * bool) : deref :=
  match use_partition pcount (fst e) with
  | Deref id => if snd e then Deref id else NilDeref      (* data.Owners with data == nil *)
  | d => d
  end.

Definition updaterouting_decision (pcount : N) (table : list (N * bool)) : list deref :=
  match verify_routing_table pcount table with
  | Some e => [Reject e]
  | None => map (apply_route pcount) table
  end.

(* ---------------------------------------------------------------------------------------------- *)
(* client side: the Command() builders of internal/protocol and dmap/put.go:writePutCommand         *)
(* ---------------------------------------------------------------------------------------------- *)

(* strconv.AppendInt / AppendUint, base 10 (go-redis appendArg) *)
Fixpoint digits_loop (fuel : nat) (n : N) (acc : tok) : tok :=
  match fuel with
  | O => acc
  | S f => let acc' := (48 + n mod 10) :: acc in
           if n <? 10 then acc' else digits_loop f (n / 10) acc'
  end.
Definition fmt_uint (n : N) : tok := digits_loop (S (N.to_nat (N.log2 n))) n [].
Definition fmt_int (z : Z) : tok :=
  match z with
  | Z0 => [48]
  | Zpos p => fmt_uint (Npos p)
  | Zneg p => 45 :: fmt_uint (Npos p)
  end.

Section Builders.
  Variable F : Type.
  Variable fzero : F.
  Variable fis_zero : F -> bool.          (* `x != 0` on float64 *)
  Variable fmt_float : F -> tok.          (* go-redis appendArg: strconv.AppendFloat(b, v, 'f', -1, 64) *)
  Variable fmt_i : Z -> tok.              (* strconv.AppendInt(b, v, 10); fmt_int above is the executable instance *)
  Variable fmt_u : N -> tok.              (* strconv.AppendUint(b, v, 10); fmt_uint above *)

  Definition opt_tok (b : bool) (l : list tok) : list tok := if b then l else [].

  Definition build_put (p : put_t F) : list tok :=
    [bytes_of "dm.put"; p_dmap p; p_key p; p_value p]
      ++ opt_tok (negb (fis_zero (p_ex p))) [kw_EX; fmt_float (p_ex p)]
      ++ opt_tok (negb (p_px p =? 0)%Z) [kw_PX; fmt_i (p_px p)]
      ++ opt_tok (negb (fis_zero (p_exat p))) [kw_EXAT; fmt_float (p_exat p)]
      ++ opt_tok (negb (p_pxat p =? 0)%Z) [kw_PXAT; fmt_i (p_pxat p)]
      ++ opt_tok (p_nx p) [kw_NX]
      ++ opt_tok (p_xx p) [kw_XX].

  (* dmap.PutConfig as writePutCommand reads it: the first expiry option that is set, the first of NX/XX *)
  Inductive expiry := XNone | XEX (s : F) | XPX (ms : Z) | XEXAT (s : F) | XPXAT (ms : Z).
  Inductive cond := KNone | KNX | KXX.

  Definition write_put_command (d k v : tok) (x : expiry) (c : cond) : list tok :=
    let p := new_put F fzero d k v in
    let p := match x with
             | XNone => p | XEX s => set_ex F p s | XPX ms => set_px F p ms
             | XEXAT s => set_exat F p s | XPXAT ms => set_pxat F p ms
             end in
    let p := match c with KNone => p | KNX => set_nx F p | KXX => set_xx F p end in
    build_put p.

  Definition build_get (d k : tok) (raw : bool) : list tok :=
    [bytes_of "dm.get"; d; k] ++ opt_tok raw [kw_RW].
  Definition build_getentry (d k : tok) (replica : bool) : list tok :=
    [bytes_of "dm.getentry"; d; k] ++ opt_tok replica [kw_RC].
  Definition build_delentry (d k : tok) (replica : bool) : list tok :=
    [bytes_of "dm.delentry"; d; k] ++ opt_tok replica [kw_RC].
  Definition build_getput (d k v : tok) (raw : bool) : list tok :=
    [bytes_of "dm.getput"; d; k; v] ++ opt_tok raw [kw_RW].
  Definition build_destroy (d : tok) (local : bool) : list tok :=
    [bytes_of "dm.destroy"; d] ++ opt_tok local [kw_LC].
  Definition build_pexpire (d k : tok) (ms : Z) : list tok := [bytes_of "dm.pexpire"; d; k; fmt_i ms].
  Definition build_expire (d k : tok) (s : F) : list tok := [bytes_of "dm.expire"; d; k; fmt_float s].
  Definition build_lock (l : lock_t F) : list tok :=
    [bytes_of "dm.lock"; l_dmap l; l_key l; fmt_float (l_deadline l)]
      ++ opt_tok (negb (fis_zero (l_ex l))) [kw_EX; fmt_float (l_ex l)]
      ++ opt_tok (negb (l_px l =? 0)%Z) [kw_PX; fmt_i (l_px l)].
  Definition build_locklease (d k t : tok) (s : F) : list tok := [bytes_of "dm.locklease"; d; k; t; fmt_float s].
  Definition build_plocklease (d k t : tok) (ms : Z) : list tok := [bytes_of "dm.plocklease"; d; k; t; fmt_i ms].
  Definition build_scan (s : scan_t) : list tok :=
    [bytes_of "dm.scan"; fmt_u (s_part s); s_dmap s; fmt_u (s_cursor s)]
      ++ opt_tok (negb (tok_eqb (s_match s) [])) [kw_MATCH; s_match s]
      ++ opt_tok (negb (s_count s =? 0)%Z) [kw_COUNT; fmt_i (s_count s)]
      ++ opt_tok (s_replica s) [kw_RC].
End Builders.
