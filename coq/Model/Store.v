(* Record-level model of the storage engine: internal/kvstore/{kvstore,compaction,transport}.go and
   internal/kvstore/table/table.go.  A table is the list of its LIVE records (hkey, offset, entry) in
   ascending offset order plus the byte counters; the slab bytes themselves are the subject of
   Model/Codec.v + Model/ByteTable.v (an entry occupies exactly [esize e] bytes: CodecProofs.encode_length).
   The Go maps hkeys (hkey -> offset) and offsetIndex (set of offsets) are both read off [trecs].
   Map-iteration order of Go (evictTable, Import) is the explicit argument [ord]. *)
From Coq Require Import List NArith ZArith Bool.
Require Import Olric.Gen.Consts Olric.Model.Codec.
Import ListNotations.
Local Open Scope N_scope.

Record rec := { rh : N; ro : N; re : entry }.
Definition rsize (r : rec) : N := esize (re r).

Record table := { tcoef : N; toff : N; talloc : N; tinuse : N; tgarb : N; tstate : N; trecs : list rec }.

Definition is_recycled (t : table) : bool := tstate t =? table_state_recycled.

Definition new_table (size coef : N) : table :=
  {| tcoef := coef; toff := 0; talloc := size; tinuse := 0; tgarb := 0; tstate := table_state_rw; trecs := [] |}.

Definition has (h : N) (r : rec) : bool := rh r =? h.
Definition t_find (h : N) (t : table) : option rec := find (has h) (trecs t).
Definition t_check (h : N) (t : table) : bool := existsb (has h) (trecs t).

(* table.Delete *)
Definition t_delete (h : N) (t : table) : table :=
  match t_find h t with
  | None => t
  | Some r =>
    {| tcoef := tcoef t; toff := toff t; talloc := talloc t; tinuse := tinuse t - rsize r;
       tgarb := tgarb t + rsize r; tstate := tstate t;
       trecs := filter (fun r => negb (has h r)) (trecs t) |}
  end.

Inductive tres := TOk (t : table) | TKeyTooLarge | TNoSpace.

Definition t_append (h : N) (e : entry) (t : table) : table :=
  {| tcoef := tcoef t; toff := toff t + esize e; talloc := talloc t; tinuse := tinuse t + esize e;
     tgarb := tgarb t; tstate := tstate t;
     trecs := trecs t ++ [ {| rh := h; ro := toff t; re := e |} ] |}.

(* table.Put: key-length guard, space guard, delete the existing version, append *)
Definition t_put (h : N) (e : entry) (t : table) : tres :=
  if max_key_length <=? N.of_nat (length (ekey e)) then TKeyTooLarge
  else if talloc t <=? esize e + toff t then TNoSpace
  else TOk (t_append h e (t_delete h t)).

(* table.PutRaw: space guard, delete the existing version, append (no key-length guard: raw bytes) *)
Definition t_putraw (h : N) (e : entry) (t : table) : tres :=
  if talloc t <=? esize e + toff t then TNoSpace
  else TOk (t_append h e (t_delete h t)).

Definition touch (h : N) (now : Z) (r : rec) : rec :=
  if has h r then {| rh := rh r; ro := ro r;
                     re := {| ekey := ekey (re r); ettl := ettl (re r); ets := ets (re r); ela := now;
                              evalue := evalue (re r) |} |}
  else r.

Definition t_map_recs (f : rec -> rec) (t : table) : table :=
  {| tcoef := tcoef t; toff := toff t; talloc := talloc t; tinuse := tinuse t; tgarb := tgarb t;
     tstate := tstate t; trecs := map f (trecs t) |}.

(* table.Get stamps lastAccess *)
Definition t_touch (h : N) (now : Z) (t : table) : table := t_map_recs (touch h now) t.

Definition upd_ttl (h : N) (ttl ts now : Z) (r : rec) : rec :=
  if has h r then {| rh := rh r; ro := ro r;
                     re := {| ekey := ekey (re r); ettl := ttl; ets := ts; ela := now; evalue := evalue (re r) |} |}
  else r.
Definition t_updatettl (h : N) (ttl ts now : Z) (t : table) : table := t_map_recs (upd_ttl h ttl ts now) t.

(* table.Reset *)
Definition t_reset (t : table) : table :=
  {| tcoef := 0; toff := 0; talloc := talloc t; tinuse := 0; tgarb := 0; tstate := table_state_recycled; trecs := [] |}.

Definition t_set_state (st : N) (t : table) : table :=
  {| tcoef := tcoef t; toff := toff t; talloc := talloc t; tinuse := tinuse t; tgarb := tgarb t;
     tstate := st; trecs := trecs t |}.
Definition t_set_coef (c : N) (t : table) : table :=
  {| tcoef := c; toff := toff t; talloc := talloc t; tinuse := tinuse t; tgarb := tgarb t;
     tstate := tstate t; trecs := trecs t |}.

(* table.Scan / ScanRegexMatch: ascending offsets >= cursor, at most [count] MATCHING records; returns the
   new cursor (last yielded offset + 1, or 0 when the iterator is exhausted) and the yielded records. *)
Fixpoint t_scan_loop (m : list byte -> bool) (rs : list rec) (count : nat) (cursor : N) : N * list rec :=
  match rs with
  | [] => (0, [])                                     (* !it.HasNext() -> cursor = 0 *)
  | r :: rs' =>
    match count with
    | O => (cursor, [])                               (* num == count, iterator not exhausted *)
    | S c =>
      if m (ekey (re r)) then
        let '(cur, ys) := t_scan_loop m rs' c (ro r + 1) in (cur, r :: ys)
      else t_scan_loop m rs' count cursor
    end
  end.

Definition t_scan (m : list byte -> bool) (cursor : N) (count : nat) (t : table) : N * list rec :=
  t_scan_loop m (filter (fun r => cursor <=? ro r) (trecs t)) count cursor.

(* ---------------------------------------------------------------------------------------------- *)

Record store := { ssize : N; snext : N; stabs : list table (* NEWEST FIRST: the head is the table that is
                                                               written; Go's k.tables is the reverse *) }.

Definition empty_store (size : N) : store := {| ssize := size; snext := 0; stabs := [] |}.
(* KVStore.Fork: a child starts with one table *)
Definition fork_store (size : N) : store := {| ssize := size; snext := 1; stabs := [new_table size 0] |}.

Definition with_tabs (s : store) (ts : list table) : store :=
  {| ssize := ssize s; snext := snext s; stabs := ts |}.

(* the first recycled table in Go order (oldest first) and the list without it; input and output lists
   are OLDEST first *)
Fixpoint take_recycled (ts : list table) : option (table * list table) :=
  match ts with
  | [] => None
  | t :: r =>
    if is_recycled t then Some (t, r)
    else match take_recycled r with
         | Some (x, r') => Some (x, t :: r')
         | None => None
         end
  end.

Definition seal_head (ts : list table) : list table :=
  match ts with
  | [] => []
  | t :: r => (if is_recycled t then t else t_set_state table_state_ro t) :: r
  end.

(* KVStore.makeTable: the head becomes read-only (unless it is a recycled table); a recycled table is
   reused if there is one, otherwise a table is allocated; either way it becomes the new head. *)
Definition make_table (s : store) : store :=
  let ts := seal_head (stabs s) in
  match take_recycled (rev ts) with
  | Some (t, rest) =>
    {| ssize := ssize s; snext := snext s + 1;
       stabs := t_set_state table_state_rw (t_set_coef (snext s) t) :: rev rest |}
  | None =>
    {| ssize := ssize s; snext := snext s + 1; stabs := new_table (ssize s) (snext s) :: ts |}
  end.

(* hasWritableTable: some table exists and the last one has not been recycled *)
Definition has_writable (s : store) : bool :=
  match stabs s with [] => false | t :: _ => negb (is_recycled t) end.

Inductive sres := SOk | SKeyTooLarge | SEntryTooLarge | SNotFound | SSpin.

Definition put_on_head (p : table -> tres) (s : store) : option (store * sres) :=
  match stabs s with
  | [] => Some (s, SSpin)       (* unreachable: callers make a table first *)
  | t :: older =>
    match p t with
    | TOk t' => Some (with_tabs s (t' :: older), SOk)
    | TKeyTooLarge => Some (s, SKeyTooLarge)
    | TNoSpace => None
    end
  end.

(* the retry loop of KVStore.Put / PutRaw; one retry suffices (StoreProofs.put_no_spin) *)
Definition put_loop (p : table -> tres) (s : store) : store * sres :=
  match put_on_head p s with
  | Some r => r
  | None =>
    let s1 := make_table s in
    match put_on_head p s1 with
    | Some r => r
    | None => (s1, SSpin)
    end
  end.

(* deleteStaleVersions: remove the superseded versions held by the older tables *)
Definition delete_stale (h : N) (ts : list table) : list table :=
  match ts with
  | [] => []
  | t :: older => t :: map (t_delete h) older
  end.

Definition s_put_gen (p : N -> entry -> table -> tres) (h : N) (e : entry) (s : store) : store * sres :=
  if ssize s <=? esize e then (s, SEntryTooLarge)
  else
    let s0 := if has_writable s then s else make_table s in
    let '(s1, r) := put_loop (p h e) s0 in
    match r with
    | SOk => (with_tabs s1 (delete_stale h (stabs s1)), SOk)
    | _ => (s1, r)
    end.

Definition s_put := s_put_gen t_put.
Definition s_putraw := s_put_gen t_putraw.

(* newest table first *)
Fixpoint find_newest (h : N) (ts : list table) : option rec :=
  match ts with
  | [] => None
  | t :: r => match t_find h t with Some x => Some x | None => find_newest h r end
  end.
Definition s_find (h : N) (s : store) : option rec := find_newest h (stabs s).
Definition s_check (h : N) (s : store) : bool := existsb (t_check h) (stabs s).

(* apply f to the newest table that holds h (Get's lastAccess stamp, Delete, UpdateTTL) *)
Fixpoint on_newest (h : N) (f : table -> table) (ts : list table) : list table :=
  match ts with
  | [] => []
  | t :: r => if t_check h t then f t :: r else t :: on_newest h f r
  end.
Definition s_on_newest (h : N) (f : table -> table) (s : store) : store :=
  with_tabs s (on_newest h f (stabs s)).

Definition s_get (h : N) (now : Z) (s : store) : store * option entry :=
  match s_find h s with
  | None => (s, None)
  | Some r => (s_on_newest h (t_touch h now) s, Some (re r))
  end.

Definition s_delete (h : N) (s : store) : store := s_on_newest h (t_delete h) s.

Definition s_updatettl (h : N) (ttl ts now : Z) (s : store) : store * sres :=
  match s_find h s with
  | None => (s, SNotFound)
  | Some _ => (s_on_newest h (t_updatettl h ttl ts now) s, SOk)
  end.

Record stats := { st_alloc : N; st_inuse : N; st_garb : N; st_len : N; st_tables : N }.
Definition sumN (f : table -> N) (ts : list table) : N := fold_right (fun t a => f t + a) 0 ts.
Definition s_stats (s : store) : stats :=
  {| st_alloc := sumN talloc (stabs s);
     st_inuse := sumN tinuse (stabs s);
     st_garb := sumN tgarb (stabs s);
     st_len := sumN (fun t => N.of_nat (length (trecs t))) (stabs s);
     st_tables := N.of_nat (length (stabs s)) |}.

(* Range / RangeHKey: every record of every table (order = Go map order, not modelled) *)
Definition s_all (s : store) : list rec := concat (map trecs (stabs s)).

(* ------------------------------------- compaction -------------------------------------------- *)

(* isCompactionOK: the garbage ratio is reached, or nothing in the table is alive any more (a table is sealed as soon
   as an entry does not fit in, so it may be far from full and never reach the ratio) *)
Definition compactable (t : table) : bool :=
  ((tinuse t =? 0) && (0 <? tgarb t)) ||
  (talloc t * max_garbage_ratio_num <=? tgarb t * max_garbage_ratio_den).

Definition find_by_coef (c : N) (ts : list table) : option table :=
  find (fun t => negb (is_recycled t) && (tcoef t =? c)) ts.

(* evictTable: visit the hkeys of table [c] in Go-map order [ord]; each one is PutRaw'ed into the store
   (which also removes it from table c) ; at most 1001 moves per call; an emptied table is recycled. *)
Fixpoint evict_loop (c : N) (ord : list N) (fuel : nat) (s : store) : store :=
  match ord, fuel with
  | [], _ => s
  | _, O => s
  | h :: ord', S fuel' =>
    match find_by_coef c (stabs s) with
    | None => s
    | Some t =>
      match t_find h t with
      | None => evict_loop c ord' fuel s
      | Some r =>
        let '(s', res) := s_putraw h (re r) s in
        match res with
        | SOk => evict_loop c ord' fuel' s'
        | _ => s'
        end
      end
    end
  end.

Definition reset_if_empty (c : N) (s : store) : store :=
  with_tabs s (map (fun t => if negb (is_recycled t) && (tcoef t =? c) && (tinuse t =? 0)
                             then t_reset t else t) (stabs s)).

Definition evict_table (c : N) (ord : list N) (s : store) : store :=
  reset_if_empty c (evict_loop c ord 1001 s).

(* second half of Compaction(): free recycled tables whose idle time-out elapsed ([expired] is the clock's
   answer, the same for every table in a scenario), never the only table. List is OLDEST first. *)
Fixpoint drop_recycled (ts : list table) (len : nat) : list table :=
  match ts with
  | [] => []
  | t :: r =>
    if is_recycled t then (if Nat.eqb len 1 then t :: r else drop_recycled r (len - 1))
    else t :: drop_recycled r len
  end.

(* Compaction(): the first (oldest) garbage-heavy table that is NOT the table being written is drained
   (returns false = call again); when none qualifies, expired recycled tables are freed (returns true). *)
Definition s_compaction (ord : list N) (expired : bool) (s : store) : store * bool :=
  match find compactable (rev (tl (stabs s))) with
  | Some t => (evict_table (tcoef t) ord s, false)
  | None =>
    (if expired then with_tabs s (rev (drop_recycled (rev (stabs s)) (length (stabs s)))) else s, true)
  end.

(* ------------------------------------- transfer ---------------------------------------------- *)

Fixpoint first_live (ts : list table) (i : nat) : option (nat * table) :=
  match ts with
  | [] => None
  | t :: r => if is_recycled t then first_live r (S i) else Some (i, t)
  end.
(* TransferIterator.Export: Go index (oldest first) and contents of the first non-recycled table *)
Definition s_export (s : store) : option (nat * table) := first_live (rev (stabs s)) 0.

Fixpoint remove_nth {A} (i : nat) (l : list A) : list A :=
  match l, i with
  | [], _ => []
  | _ :: t, O => t
  | x :: t, S i' => x :: remove_nth i' t
  end.
(* TransferIterator.Drop (Go index, oldest first) *)
Definition s_drop (i : nat) (s : store) : store := with_tabs s (rev (remove_nth i (rev (stabs s)))).

(* ------------------------------------- scan -------------------------------------------------- *)

Fixpoint insert_sorted (c : N) (l : list N) : list N :=
  match l with
  | [] => [c]
  | x :: r => if c <=? x then c :: l else x :: insert_sorted c r
  end.
Definition live_coefs (s : store) : list N :=
  fold_right insert_sorted [] (map tcoef (filter (fun t => negb (is_recycled t)) (stabs s))).
(* findCoefficient: the smallest registered coefficient strictly greater than c *)
Definition find_coef (c : N) (s : store) : option N := find (fun x => c <? x) (live_coefs s).

Definition s_scan (m : list byte -> bool) (cursor : N) (count : nat) (s : store) : N * list rec :=
  match stabs s with
  | [] => (0, [])
  | _ =>
    let cf0 := cursor / ssize s in
    let start :=
      match find_by_coef cf0 (stabs s) with
      | Some t => Some (cf0, t, cursor)
      | None =>
        match find_coef cf0 s with
        | None => None
        | Some cf => match find_by_coef cf (stabs s) with
                     | Some t => Some (cf, t, cf * ssize s)
                     | None => None
                     end
        end
      end in
    match start with
    | None => (0, [])
    | Some (cf, t, cur) =>
      let tcur := cur - ssize s * cf in
      let '(tc, ys) := t_scan m tcur count t in
      if tc =? 0 then
        match find_by_coef (cf + 1) (stabs s) with
        | Some _ => (ssize s * (cf + 1), ys)
        | None => match find_coef cf s with
                  | Some cf' => (ssize s * cf', ys)
                  | None => (0, ys)
                  end
        end
      else (tc + ssize s * cf, ys)
    end
  end.

(* a complete iteration from cursor 0 back to cursor 0; fuel = page budget (StoreProofs: pages <= ...) *)
Fixpoint s_scan_all (m : list byte -> bool) (count : nat) (fuel : nat) (cursor : N) (s : store)
  : option (list rec) :=
  match fuel with
  | O => None
  | S f =>
    let '(c, ys) := s_scan m cursor count s in
    if c =? 0 then Some ys
    else match s_scan_all m count f c s with
         | Some zs => Some (ys ++ zs)
         | None => None
         end
  end.

(* ------------------------------- the abstract view ------------------------------------------- *)

(* what a lookup observes of an entry (lastAccess is bookkeeping, not content) *)
Definition view (e : entry) : list byte * list byte * Z * Z := (ekey e, evalue e, ettl e, ets e).
Definition abs (s : store) (h : N) : option (list byte * list byte * Z * Z) :=
  option_map (fun r => view (re r)) (s_find h s).
