(* Executable driver for the correspondence check of C06 (checks/c06.py). *)
From Coq Require Import List NArith ZArith Bool.
Require Import Olric.Gen.Consts Olric.Model.LWW Olric.Model.Quorum.
Import ListNotations.

Definition view := (list N * Z)%type.                (* value, timestamp *)
Definition view_of (e : entry) : view := (e_val e, e_ts e).
Definition view_eqb (a b : view) : bool := bytes_eqb (fst a) (fst b) && Z.eqb (snd a) (snd b).
Definition oview_eqb (a b : option view) : bool :=
  match a, b with Some x, Some y => view_eqb x y | None, None => true | _, _ => false end.

Inductive gres := GVal (v : view) | GNotFound | GReadQuorum | GOther.
Definition gres_of (r : get_res) : gres :=
  match r with Value e => GVal (view_of e) | ENotFound => GNotFound | EReadQuorum => GReadQuorum end.
Definition gres_eqb (a b : gres) : bool :=
  match a, b with GVal x, GVal y => view_eqb x y | GNotFound, GNotFound | GReadQuorum, GReadQuorum => true
                | _, _ => false end.

(* the harness layout: holder 0 = owner, 1 = one previous owner, 2,3 = two backup owners *)
Definition holder_of (i : nat) : holder :=
  match i with 0%nat => HLocal | 1%nat => HPrev 0 | 2%nat => HBackup 0 | _ => HBackup 1 end.

(* the 8 observed fragments: holder i primary = 2i, holder i backup = 2i+1 *)
Definition slot_of (k : nat) : slot :=
  let h := holder_of (Nat.div2 k) in if Nat.even k then SPrimary h else SBackupFrag h.

Fixpoint list_eqb {A} (eq : A -> A -> bool) (a b : list A) : bool :=
  match a, b with [], [] => true | x :: a', y :: b' => eq x y && list_eqb eq a' b' | _, _ => false end.

Inductive lcase :=
| LGet (RQ : nat) (rr : bool) (now_ms : Z)
       (held : list (option entry))        (* 4 holders: what they hold where the read looks *)
       (reach : list bool)                 (* 4 holders *)
       (res : gres) (after : list (option view))     (* 8 fragments after the read *)
| LMerge (table_size : N) (klen : N) (frags : list (list (N * entry))) (keys : list N)
         (* several delivery orders of the same fragments, each into a fresh receiving fragment:
            order, reply per delivery (true = OK), final copy per key of [keys] *)
         (runs : list (list nat * list bool * list (option view))).

Inductive lobs :=
| MGet (res : gres) (after : list (option view))
| MMerge (run : nat) (replies : list bool) (final : list (option view)).

Definition layout (held : list (option entry)) : copies :=
  fun s => match s with
           | SPrimary HLocal => nth 0 held None
           | SPrimary (HPrev 0) => nth 1 held None
           | SBackupFrag (HBackup 0) => nth 2 held None
           | SBackupFrag (HBackup 1) => nth 3 held None
           | _ => None
           end.

Definition reach_fun (reach : list bool) : holder -> bool :=
  fun h => match h with HLocal => true | HPrev 0 => nth 1 reach true | HBackup 0 => nth 2 reach true
                      | HBackup 1 => nth 3 reach true | _ => false end.

(* kvstore: an entry is accepted iff its encoded size (key + value + 29 bytes of metadata) is below the table size *)
Definition fits_in (table_size klen : N) (e : entry) : bool :=
  (klen + N.of_nat (length (e_val e)) + metadata_length <? table_size)%N.

Definition run_case (c : lcase) : option lobs :=
  match c with
  | LGet RQ rr now held reach res after =>
    let '(r, c') := cluster_get RQ rr false now 1 2 (reach_fun reach) (layout held) in
    let mafter := map (fun k => option_map view_of (c' (slot_of k))) (seq 0 8) in
    if gres_eqb (gres_of r) res && list_eqb oview_eqb mafter after then None
    else Some (MGet (gres_of r) mafter)
  | LMerge tsz klen frags keys runs =>
    (fix go (rs : list (list nat * list bool * list (option view))) (k : nat) : option lobs :=
       match rs with
       | [] => None
       | (order, replies, final) :: rs' =>
         let deliveries := map (fun i => nth i frags []) order in
         let '(s, oks) := merge_from (fits_in tsz klen) [] deliveries in
         let mfinal := map (fun h => option_map view_of (lookup h s)) keys in
         if list_eqb Bool.eqb oks replies && list_eqb oview_eqb mfinal final then go rs' (S k)
         else Some (MMerge k oks mfinal)
       end) runs 0%nat
  end.

Fixpoint mismatches (l : list lcase) (i : nat) : list (nat * lobs) :=
  match l with
  | [] => []
  | c :: l' => match run_case c with
               | None => mismatches l' (S i)
               | Some m => (i, m) :: mismatches l' (S i)
               end
  end.
