(* Correspondence runner for Model/Locker.v: what the harness saw of the REAL internal/locker (which Lock calls had
   returned, which were still blocked, which names the Locker's map held) after every call, replayed on the model. *)
From Coq Require Import List NArith ZArith Bool.
Require Import Olric.Model.Locker.
Import ListNotations.

Inductive hop :=
| HLock (t : tid) (n : name) (returned : bool)                  (* Lock(n) by an idle thread: did it return? *)
| HUnlock (t : tid) (n : name) (err : bool) (woken : option tid).   (* Unlock(n) by its holder; the blocked Lock that returned *)

(* after the call: the names in the map (sorted), the holders (thread, name) sorted by thread, the blocked threads *)
Definition hobs : Type := list name * list (tid * name) * list tid.

Definition names_of (m : list (name * addr)) : list name := map fst m.
Fixpoint insert (x : N) (l : list N) : list N :=
  match l with [] => [x] | y :: l' => if N.leb x y then x :: l else y :: insert x l' end.
Definition sortN (l : list N) : list N := fold_right insert [] l.

Fixpoint holders_from (i : nat) (l : list pc) : list (tid * name) :=
  match l with
  | [] => []
  | Holding n _ :: l' => (i, n) :: holders_from (S i) l'
  | _ :: l' => holders_from (S i) l'
  end.
Fixpoint blocked_from (i : nat) (l : list pc) : list tid :=
  match l with
  | [] => []
  | Waiting _ _ :: l' => i :: blocked_from (S i) l'
  | _ :: l' => blocked_from (S i) l'
  end.
Definition observe (s : lstate) : hobs := (sortN (names_of (lmap s)), holders_from 0 (pcs s), blocked_from 0 (pcs s)).

Fixpoint list_eqb {A} (eqb : A -> A -> bool) (a b : list A) : bool :=
  match a, b with
  | [], [] => true
  | x :: a', y :: b' => eqb x y && list_eqb eqb a' b'
  | _, _ => false
  end.
Definition hobs_eqb (a b : hobs) : bool :=
  let '(n1, h1, b1) := a in let '(n2, h2, b2) := b in
  list_eqb N.eqb n1 n2 && list_eqb (fun x y => Nat.eqb (fst x) (fst y) && N.eqb (snd x) (snd y)) h1 h2 && list_eqb Nat.eqb b1 b2.

Definition is_done (o : outcome) : bool := match o with Done => true | _ => false end.

(* one harness call on the model; None = the model cannot do what the implementation did *)
Definition hstep (s : lstate) (h : hop) : option lstate :=
  match h with
  | HLock t n returned =>
    let '(s1, o1) := lk_step s (Enter t n) in
    if is_done o1 then
      let '(s2, o2) := lk_step s1 (Acquire t) in
      if is_done o2 then
        if returned then let '(s3, o3) := lk_step s2 (Dec t) in if is_done o3 then Some s3 else None else None
      else if returned then None else Some s1
    else None
  | HUnlock t n err woken =>
    let '(s1, o1) := lk_step s (Unlock t n) in
    match o1 with
    | Done =>
      if err then None else
      match woken with
      | Some t' =>
        let '(s2, o2) := lk_step s1 (Acquire t') in
        if is_done o2 && in_cs s2 t' n then let '(s3, o3) := lk_step s2 (Dec t') in if is_done o3 then Some s3 else None else None
      | None =>
        (* nobody returned: nobody may be waiting for this name *)
        if existsb (fun p => match p with Waiting n' _ => N.eqb n n' | _ => false end) (pcs s1) then None else Some s1
      end
    | ErrNoSuchLock => if err then Some s1 else None
    | _ => None
    end
  end.

Fixpoint hrun (s : lstate) (l : list (hop * hobs)) (i : nat) : option nat :=
  match l with
  | [] => None
  | (h, o) :: l' =>
    match hstep s h with
    | Some s' => if hobs_eqb (observe s') o then hrun s' l' (S i) else Some i
    | None => Some i
    end
  end.

Definition lcase : Type := nat * list (hop * hobs).      (* threads, calls with what was observed after each *)
Fixpoint mismatches (cs : list lcase) (i : nat) : list (nat * nat) :=
  match cs with
  | [] => []
  | (threads, l) :: cs' =>
    match hrun (lk_init threads) l 0 with
    | Some j => (i, j) :: mismatches cs' (S i)
    | None => mismatches cs' (S i)
    end
  end.
