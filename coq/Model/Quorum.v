(* C05 - read, write and member-count quorums.
   Executable model of internal/dmap/put.go (putOnCluster/syncPutOnCluster), internal/dmap/get.go (getOnCluster,
   lookupOnOwners, lookupOnReplicas), internal/server/mux.go + handler.go (dispatch and precondition),
   olric.go (preconditionFunc), routingtable.CheckMemberCountQuorum, dmap.NewDMap and config.Validate, as the
   code is AFTER the fix: commits.  Definitions only. *)
From Coq Require Import List NArith ZArith Bool.
Require Import Olric.Gen.Consts Olric.Model.LWW.
Import ListNotations.

(* ------------------------------------------------------------------------------------------------------
   config.Validate (the part about replicas and quorums)
   ------------------------------------------------------------------------------------------------------ *)
Definition config_valid (R W RQ MCQ : Z) : bool :=
  (1 <=? R)%Z && (1 <=? RQ)%Z && (RQ <=? R)%Z && (1 <=? W)%Z && (W <=? R)%Z && (1 <=? MCQ)%Z.

(* ------------------------------------------------------------------------------------------------------
   Put on the partition owner, sync replication.
   R W            ReplicaCount, WriteQuorum
   backups_ok     one boolean per backup owner, in the order of the backup owner list: true iff the
                  DM.PUTENTRY call to that member succeeded (false: unreachable, or it answered an error)
   local_err      None iff the owner's own storage accepts the entry (Some err: ErrKeyTooLarge ...)
   Result: the outcome and who holds the entry afterwards (owner, then one boolean per backup owner).
   ------------------------------------------------------------------------------------------------------ *)
Inductive lerr := LKeyTooLarge | LEntryTooLarge | LOther.
Inductive put_res := Ack | EWriteQuorum | ELocal (e : lerr).

Definition count_true (l : list bool) : nat := length (filter (fun b => b) l).

Definition sync_put (R W : nat) (backups_ok : list bool) (local_err : option lerr) : put_res * (bool * list bool) :=
  if (R <=? 1)%nat then
    (* ReplicaCount == MinimumReplicaCount: putEntryOnFragment only, the backup owners are not contacted *)
    match local_err with
    | Some e => (ELocal e, (false, map (fun _ => false) backups_ok))
    | None => (Ack, (true, map (fun _ => false) backups_ok))
    end
  else
    match local_err with
    | Some e => (ELocal e, (false, map (fun _ => false) backups_ok))     (* nothing is sent to the backups *)
    | None =>
      let successful := (1 + count_true backups_ok)%nat in
      ((if (W <=? successful)%nat then Ack else EWriteQuorum), (true, backups_ok))
    end.

(* ------------------------------------------------------------------------------------------------------
   Get on the partition owner.
   local          the owner's own copy (lookupOnThisNode: no expiry check, always one element of versions)
   prev, backups  per previous owner (in the order they are asked: newest first) / per backup owner:
                  Some e iff the member answered DM.GETENTRY with a copy.  None covers: unreachable, no copy,
                  and a copy the member itself found expired (getOnFragment answers key-not-found).
   ------------------------------------------------------------------------------------------------------ *)
Inductive get_res := Value (e : entry) | ENotFound | EReadQuorum.

Fixpoint tag {A} (mk : nat -> holder) (i : nat) (l : list (option A)) : list (holder * option A) :=
  match l with
  | [] => []
  | None :: l' => tag mk (S i) l'                   (* contributes nothing *)
  | Some a :: l' => (mk i, Some a) :: tag mk (S i) l'
  end.

Definition gather (local : option entry) (prev backups : list (option entry)) : list version :=
  (HLocal, local) :: tag HPrev 0 prev ++ tag HBackup 0 backups.

(* result, and the holders the winner is written to when ReadRepair is on *)
Definition get_on_cluster (RQ : nat) (read_repair_on idle : bool) (now_ms : Z)
           (local : option entry) (prev backups : list (option entry)) : get_res * list holder :=
  let versions := gather local prev backups in
  if (length versions <? RQ)%nat then (EReadQuorum, [])
  else
    let sorted := sanitize_and_sort versions in
    match sorted with
    | [] => (ENotFound, [])
    | (_, winner) :: _ =>
      if (length sorted <? RQ)%nat then (EReadQuorum, [])
      else if is_expired now_ms winner || idle then (ENotFound, [])
      else (Value winner, if read_repair_on then read_repair winner versions else [])
    end.

(* internal/dmap/atomic.go (atomicIncrDecr, loadCurrentAtomicInt) on the partition owner, under the key's lock: the current
   value is read with the read quorum; key-not-found starts from 0; any other failure of the read refuses the operation and
   nothing is written.  [value_of] parses the stored text. *)
Inductive incr_res := IRefused | INew (v : Z).
Definition incr_on_cluster (RQ : nat) (idle : bool) (now_ms : Z) (local : option entry) (prev backups : list (option entry))
           (value_of : entry -> Z) (delta : Z) : incr_res :=
  match fst (get_on_cluster RQ false idle now_ms local prev backups) with
  | EReadQuorum => IRefused
  | ENotFound => INew delta
  | Value e => INew (value_of e + delta)
  end.

(* what a remote holder answers to DM.GETENTRY: the copy it holds, expired or not (fix D48: getOnFragment used to
   answer not-found for an expired copy, which let an older copy on another member win the read); the reader
   checks the expiry of the winner only *)
Definition remote_answer (now_ms : Z) (reachable : bool) (copy : option entry) : option entry :=
  if reachable then copy else None.

(* ------------------------------------------------------------------------------------------------------
   Member-count quorum: request dispatch.
   mux.ServeRESP looks the command up case-insensitively ("pubsub" takes its sub-command from the next
   argument, lower-cased as well); Handler.ServeRESP then decides on the RAW first argument whether the precondition is
   skipped: only the exact bytes of protocol.Internal.UpdateRouting are exempt.
   ------------------------------------------------------------------------------------------------------ *)
Definition bytes := list N.

Fixpoint bytes_eqb (a b : bytes) : bool :=
  match a, b with
  | [], [] => true
  | x :: a', y :: b' => N.eqb x y && bytes_eqb a' b'
  | _, _ => false
  end.

Definition lower_byte (b : N) : N := if (65 <=? b)%N && (b <=? 90)%N then (b + 32)%N else b.
Definition lower (s : bytes) : bytes := map lower_byte s.

Definition mem_bytes (s : bytes) (l : list bytes) : bool := existsb (bytes_eqb s) l.

Definition str_pubsub : bytes := [112; 117; 98; 115; 117; 98]%N.          (* "pubsub" *)
Definition str_PUBSUB : bytes := [80; 85; 66; 83; 85; 66]%N.              (* "PUBSUB" *)
Definition space : N := 32%N.

Inductive reply := RClusterQuorum | RNotBootstrapped | RHandled | RUnknown | RWrongArgs.

(* db.preconditionFunc: CheckMemberCountQuorum (MemberCountQuorum > NumMembers), then CheckBootstrap *)
Definition precondition (num_members mcq : Z) (bootstrapped : bool) : option reply :=
  if (num_members <? mcq)%Z then Some RClusterQuorum
  else if negb bootstrapped then Some RNotBootstrapped
  else None.

(* Handler.ServeRESP *)
Definition handler_wrap (num_members mcq : Z) (bootstrapped : bool) (name : bytes) (args : list bytes) : reply :=
  let command :=
      if bytes_eqb name str_pubsub || bytes_eqb name str_PUBSUB then
        match args with a :: _ => name ++ space :: a | [] => name end
      else name in
  if bytes_eqb command update_routing_command then RHandled
  else match precondition num_members mcq bootstrapped with
       | Some r => r
       | None => RHandled
       end.

(* ServeMux.ServeRESP; [registered] = the keys of the handler map *)
Definition serve (registered : list bytes) (num_members mcq : Z) (bootstrapped : bool)
           (name : bytes) (args : list bytes) : reply :=
  let command := lower name in
  if mem_bytes command registered then handler_wrap num_members mcq bootstrapped name args
  else if bytes_eqb command str_pubsub then
    match args with
    | [] => RWrongArgs
    | a :: _ =>
      if mem_bytes (command ++ space :: lower a) registered
      then handler_wrap num_members mcq bootstrapped name args
      else RUnknown
    end
  else RUnknown.

(* The member's state is whatever the handlers act on: abstract. *)
Section Member.
  Context {S : Type} (handle : bytes -> list bytes -> S -> S) (create_dmap : bytes -> S -> S).

  Definition request (registered : list bytes) (num_members mcq : Z) (bootstrapped : bool)
             (name : bytes) (args : list bytes) (s : S) : reply * S :=
    let r := serve registered num_members mcq bootstrapped name args in
    (r, match r with RHandled => handle name args s | _ => s end).

  (* dmap.Service.NewDMap *)
  Definition new_dmap (num_members mcq : Z) (bootstrapped : bool) (name : bytes) (s : S) : reply * S :=
    match precondition num_members mcq bootstrapped with
    | Some r => (r, s)
    | None => (RHandled, create_dmap name s)
    end.
End Member.

(* ------------------------------------------------------------------------------------------------------
   One read against a whole layout of copies: [c] says what every fragment holds, [reach] which remote members
   answer.  Returns the result and the layout after the read (read-repair writes).
   ------------------------------------------------------------------------------------------------------ *)
Definition cluster_get (RQ : nat) (read_repair_on idle : bool) (now_ms : Z) (nprev nbackups : nat)
           (reach : holder -> bool) (c : copies) : get_res * copies :=
  let local := c (lookup_slot HLocal) in
  let prev := map (fun i => remote_answer now_ms (reach (HPrev i)) (c (lookup_slot (HPrev i)))) (seq 0 nprev) in
  let backups := map (fun i => remote_answer now_ms (reach (HBackup i)) (c (lookup_slot (HBackup i)))) (seq 0 nbackups) in
  let '(r, targets) := get_on_cluster RQ read_repair_on idle now_ms local prev backups in
  match r with
  | Value w => (r, apply_repair w targets c)
  | _ => (r, c)
  end.
