(* Correspondence driver for Model/Balance.v and Model/BalanceCrash.v.
   The harness dumps, after every operation of a hand-over scenario on a real cluster, the owners list of every
   partition and every copy held by every member.  Python turns that into the model's state of one partition
   (abstraction: holders = the owners list reversed, owner first; one fragment per holder, keys and values
   numbered, timestamps as stored) and, for each operation, into the model operation(s) it claims happened; Coq
   checks that the model's step function maps the state before to the state after ([explains]) and that every
   dumped state satisfies the invariant of the theorems ([goodb]) and resolves reads to the last acknowledged
   entries ([reads_ok]). *)
From Coq Require Import List NArith ZArith Bool.
Require Import Olric.Model.Balance Olric.Model.BalanceCrash.
Import ListNotations.
Local Open Scope Z_scope.

Definition ent_eqb (a b : ent) : bool := N.eqb (fst a) (fst b) && Z.eqb (snd a) (snd b).
Definition oent_eqb (a b : option ent) : bool :=
  match a, b with Some x, Some y => ent_eqb x y | None, None => true | _, _ => false end.

Definition frag_eqb (keys : list N) (f g : frag) : bool :=
  forallb (fun k => oent_eqb (flookup k f) (flookup k g)) keys.

Fixpoint sys_eqb (keys : list N) (s t : sys) : bool :=
  match s, t with
  | [], [] => true
  | f :: s', g :: t' => frag_eqb keys f g && sys_eqb keys s' t'
  | _, _ => false
  end.

Definition obk_eqb (keys : list N) (a b : option frag) : bool :=
  match a, b with Some f, Some g => frag_eqb keys f g | None, None => true | _, _ => false end.

(* one observed transition of one partition: some candidate explanation reproduces the state after *)
Record tcase := { tc_id : N; tc_keys : list N; tc_before : csys; tc_cands : list (list cop); tc_after : csys }.

Definition csys_eqb (keys : list N) (a b : csys) : bool :=
  sys_eqb keys (holders a) (holders b) && obk_eqb keys (bk a) (bk b).

Definition explains (c : tcase) : bool :=
  existsb (fun ops => csys_eqb (tc_keys c) (fold_left cstep ops (tc_before c)) (tc_after c)) (tc_cands c).

(* one observed state of one partition with the last acknowledged entry of each of its keys *)
Record scase := { sc_id : N; sc_sys : csys; sc_ref : list (N * option ent) }.

Definition none_at (k : N) (f : frag) : bool := match flookup k f with None => true | Some _ => false end.

Definition goodb (s : sys) (ref : list (N * option ent)) : bool :=
  forallb (fun ko =>
    match snd ko with
    | None => forallb (none_at (fst ko)) s
    | Some e => existsb (fun f => oent_eqb (flookup (fst ko) f) (Some e)) s &&
                forallb (fun f => match flookup (fst ko) f with
                                  | None => true
                                  | Some c => (snd c <? snd e) || ent_eqb c e
                                  end) s
    end) ref.

Definition mirrorb (b : option frag) (ref : list (N * option ent)) : bool :=
  match b with
  | None => true
  | Some f => forallb (fun ko => oent_eqb (flookup (fst ko) f) (snd ko)) ref
  end.

Definition reads_ok (cs : csys) (ref : list (N * option ent)) : bool :=
  forallb (fun ko => oent_eqb (cread (fst ko) cs) (snd ko)) ref.

Definition state_ok (c : scase) : bool :=
  goodb (holders (sc_sys c)) (sc_ref c) && mirrorb (bk (sc_sys c)) (sc_ref c) && reads_ok (sc_sys c) (sc_ref c).

(* after member losses (Model/BalanceCrash.v): no copy is newer than or different from the last acknowledged entry,
   the backup owners or the holders still have it, and reads resolve to it *)
Definition alleb (s : sys) (ref : list (N * option ent)) : bool :=
  forallb (fun ko =>
    forallb (fun f => match flookup (fst ko) f with
                      | None => true
                      | Some c => match snd ko with
                                  | None => false
                                  | Some e => (snd c <? snd e) || ent_eqb c e
                                  end
                      end) s) ref.

Definition has_mirror (b : option frag) (ref : list (N * option ent)) : bool :=
  match b with None => false | Some _ => mirrorb b ref end.

(* The theorem (C03_crash_at_any_step) gives two sufficient conditions for the whole partition: the backup mirror
   survived, or every holder did. On real clusters a lost member can have held primary-kind data of one table and
   backup-kind data of another table of the same partition, so that afterwards some keys live only on the backup owner
   and others only on a holder; what is checked on every dumped state is the conclusion, key by key: no copy is newer
   than or different from the last acknowledged entry, a deleted key has no copy, and reads resolve to it. *)
Definition state_ok_crash (c : scase) : bool :=
  alleb (everyone (sc_sys c)) (sc_ref c) && reads_ok (sc_sys c) (sc_ref c).

Definition sc_mismatches (cs : list scase) : list N := map sc_id (filter (fun c => negb (state_ok_crash c)) cs).

Definition t_mismatches (cs : list tcase) : list N := map tc_id (filter (fun c => negb (explains c)) cs).
Definition s_mismatches (cs : list scase) : list N := map sc_id (filter (fun c => negb (state_ok c)) cs).
