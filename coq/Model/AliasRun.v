(* Executable driver for the correspondence check of C18 (checks/c18.py): the run alphabet of the heap model
   (Model/ByteTable.v part 2), the observation each step yields, the comparison with what the implementation
   returned. Steps whose result the implementation does not report are paired with [EAny]. *)
From Coq Require Import List NArith ZArith Bool.
Require Import Olric.Gen.Consts Olric.Model.Codec Olric.Model.Resp Olric.Model.ByteTable.
Import ListNotations.

Inductive expect := EAny | EObs (o : wobs).

Definition a_opt_eqb {A} (eq : A -> A -> bool) (a b : option A) : bool :=
  match a, b with Some x, Some y => eq x y | None, None => true | _, _ => false end.
Definition a_code_eqb (a b : code) : bool :=
  match a, b with
  | CNil, CNil | CKeyTooLarge, CKeyTooLarge | CEntryTooLarge, CEntryTooLarge
  | CNotFound, CNotFound | CSpin, CSpin => true
  | _, _ => false
  end.

Definition wobs_eqb (m i : wobs) : bool :=
  match m, i with
  | ONone, ONone => true
  | OCode a, OCode b => a_code_eqb a b
  | OVal a, OVal b => a_opt_eqb text_eqb a b
  | OBytes a, OBytes b => a_opt_eqb text_eqb a b
  | _, _ => false
  end.

Definition expect_ok (m : wobs) (e : expect) : bool :=
  match e with EAny => true | EObs i => wobs_eqb m i end.

Fixpoint a_first_diff (copy : bool) (w : world) (l : list (wop * expect)) (i : nat) : option (nat * wobs) :=
  match l with
  | [] => None
  | (o, e) :: l' =>
    let '(w', m) := w_step copy w o in
    if expect_ok m e then a_first_diff copy w' l' (S i) else Some (i, m)
  end.

(* (table size, steps) ; copy = true: the code as it is after fix 01-table-get-copy *)
Definition a_run_case (cs : nat * list (wop * expect)) : option (nat * wobs) :=
  a_first_diff true (empty_world (fst cs)) (snd cs) 0.

Fixpoint a_mismatches (l : list (nat * list (wop * expect))) (i : nat) : list (nat * nat * wobs) :=
  match l with
  | [] => []
  | c :: l' => match a_run_case c with
               | None => a_mismatches l' (S i)
               | Some (k, m) => (i, k, m) :: a_mismatches l' (S i)
               end
  end.
