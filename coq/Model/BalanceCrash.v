(* Hand-over of one partition (Model/Balance.v) with a backup copy and with members lost at any step of a move.
   ReplicaCount = 2: besides the holders of primary-kind data (owner first, then the previous owners) one backup
   owner keeps a mirror of every acknowledged Put and Delete (internal/dmap/put.go syncPutOnCluster,
   delete.go deleteBackupOnCluster; Properties/C04.v).  A fragment move (internal/dmap/fragment.go Move) is
   export -> MOVEFRAGMENT -> merge at the owner -> acknowledgement -> Drop at the sender, and either side can be
   lost in between:
     sender lost before the send                   = CCrashHolder i
     sender lost after the merge, before its Drop  = CSend i ks ; CCrashHolder i
     receiver lost during / after the import       = CSend i ks' ; CCrashHolder 0   (ks' = the part merged so far)
     receiver lost after the sender's Drop         = COp (BMove i ks) ; CCrashHolder 0
     acknowledgement lost, move repeated later     = CSend i ks ; ... ; COp (BMove i ks)
   When the owner is lost the coordinator appoints a new owner, which starts with an empty primary fragment.
   Reads consult the owner, the previous owners and the backup owners and take the newest copy (get.go). *)
From Coq Require Import List NArith ZArith Bool.
Require Import Olric.Model.Balance.
Import ListNotations.
Local Open Scope Z_scope.

Record csys := { holders : sys; bk : option frag }.

(* the merge half of a move: previous owner #i ships the table holding keys ks, nothing is dropped *)
Definition send (i : nat) (ks : list N) (s : sys) : sys :=
  match i with
  | O => s
  | S _ =>
    let src := nth i s [] in
    let moved := flat_map (fun k => match flookup k src with Some e => [(k, e)] | None => [] end) ks in
    on_primary (fun p => fold_left (fun acc ke => merge1 (fst ke) (snd ke) acc) moved p) s
  end.

Fixpoint drop_nth (i : nat) (s : sys) : sys :=
  match s, i with
  | [], _ => []
  | _ :: s', O => s'
  | f :: s', S i' => f :: drop_nth i' s'
  end.

(* the member holding copy #i is lost with everything it stores; #0 is the owner: a new, empty owner takes over *)
Definition crash_holder (i : nat) (s : sys) : sys :=
  match i with
  | O => [] :: tl s
  | S _ => drop_nth i s
  end.

Inductive cop :=
| COp (o : bop)
| CSend (i : nat) (ks : list N)
| CCrashHolder (i : nat)
| CCrashBackup.

Definition bk_step (b : option frag) (o : bop) : option frag :=
  match o with
  | BPut k v ts => option_map (finsert k (v, ts)) b
  | BDel k => option_map (fremove k) b
  | _ => b
  end.

Definition cstep (cs : csys) (o : cop) : csys :=
  match o with
  | COp b => {| holders := bstep (holders cs) b; bk := bk_step (bk cs) b |}
  | CSend i ks => {| holders := send i ks (holders cs); bk := bk cs |}
  | CCrashHolder i => {| holders := crash_holder i (holders cs); bk := bk cs |}
  | CCrashBackup => {| holders := holders cs; bk := None |}
  end.

Definition cref (m : smap) (o : cop) : smap := match o with COp b => sstep m b | _ => m end.

Fixpoint crun (cs : csys) (m : smap) (l : list cop) : csys * smap :=
  match l with [] => (cs, m) | o :: l' => crun (cstep cs o) (cref m o) l' end.

Definition everyone (cs : csys) : sys := holders cs ++ match bk cs with Some b => [b] | None => [] end.

(* getOnCluster: owner, previous owners, backup owners; newest timestamp wins *)
Definition cread (k : N) (cs : csys) : option ent := read k (everyone cs).

Definition cinit : csys := {| holders := []; bk := Some [] |}.

Fixpoint cts_fresh (m : smap) (l : list cop) : Prop :=
  match l with
  | [] => True
  | o :: l' =>
    (match o with
     | COp (BPut k _ ts) => match m k with Some e => snd e < ts | None => True end
     | _ => True
     end) /\ cts_fresh (cref m o) l'
  end.

Definition is_holder_crash (o : cop) : bool := match o with CCrashHolder _ => true | _ => false end.
Definition is_backup_crash (o : cop) : bool := match o with CCrashBackup => true | _ => false end.
