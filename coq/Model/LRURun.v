(* correspondence driver for Model/LRU.v (checks/c10.py): per fragment, the sequence of Puts that hit it, the
   victims reconstructed from the run, and the key set observed after each Put *)
From Coq Require Import List NArith Bool.
Require Import Olric.Model.Codec Olric.Model.LRU.
Import ListNotations.
Local Open Scope N_scope.

Fixpoint lex_leb (a b : key) : bool :=
  match a, b with
  | [], _ => true
  | _ :: _, [] => false
  | x :: a', y :: b' => if x <? y then true else if y <? x then false else lex_leb a' b'
  end.
Fixpoint ins (k : key) (l : list key) : list key :=
  match l with [] => [k] | x :: r => if lex_leb k x then k :: l else x :: ins k r end.
Definition sortk (l : list key) := fold_right ins [] l.
Fixpoint keys_eqb (a b : list key) : bool :=
  match a, b with
  | [], [] => true
  | x :: a', y :: b' => key_eqb x y && keys_eqb a' b'
  | _, _ => false
  end.

(* one step: victims (empty key = none), written key, observed keys after *)
Fixpoint first_diff (c : lcfg) (f : frag) (l : list (key * key * key * list key)) (i : nat) : option nat :=
  match l with
  | [] => None
  | (v1, v2, k, after) :: l' =>
    let f' := lru_put c v1 v2 k f in
    if keys_eqb (sortk f') (sortk after) then first_diff c f' l' (S i) else Some i
  end.

Fixpoint mismatches (l : list (lcfg * list (key * key * key * list key))) (i : nat) : list (nat * nat) :=
  match l with
  | [] => []
  | (c, steps) :: l' => match first_diff c [] steps 0 with
                        | None => mismatches l' (S i)
                        | Some k => (i, k) :: mismatches l' (S i)
                        end
  end.
