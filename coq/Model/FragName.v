(* Fragment names (internal/dmap/dmap.go fragmentName, internal/cluster/balancer/balancer.go scanPartition,
   internal/dmap/eviction.go, internal/dmap/compaction.go).

   A partition keeps the fragments of all DMaps (and of other services) in one map keyed by the FRAGMENT name,
   "dmap." followed by the DMap's name.  When a fragment migrates the balancer recovers the DMap's name from the
   fragment name with strings.TrimPrefix and sends it with the table; the receiver merges the table into the
   fragment named fragmentName(that name).  Bytes are N, as everywhere. *)
From Coq Require Import List NArith Bool.
Import ListNotations.

Definition bytes := list N.

(* "dmap." *)
Definition frag_prefix : bytes := [100; 109; 97; 112; 46]%N.

(* fmt.Sprintf("dmap.%s", name) *)
Definition frag_name (d : bytes) : bytes := frag_prefix ++ d.

(* strings.HasPrefix *)
Fixpoint has_prefix (p s : bytes) : bool :=
  match p, s with
  | [], _ => true
  | a :: p', b :: s' => N.eqb a b && has_prefix p' s'
  | _ :: _, [] => false
  end.

(* strings.TrimPrefix: s without the prefix p when it starts with p, s itself otherwise *)
Definition trim_prefix (p s : bytes) : bytes := if has_prefix p s then skipn (length p) s else s.

(* the DMap name the balancer (and the eviction worker) derives from a fragment name *)
Definition dmap_of_frag (n : bytes) : bytes := trim_prefix frag_prefix n.

(* where a migrating fragment named [n] arrives: the receiver's fragment for the derived DMap name *)
Definition arrives_in (n : bytes) : bytes := frag_name (dmap_of_frag n).

(* strings.Replace(s, p, "", -1): every non-overlapping occurrence of p, left to right, is removed
   (the tempting "strip the prefix" that is NOT what the code may do; fuel = length of s suffices) *)
Fixpoint remove_all (fuel : nat) (p s : bytes) : bytes :=
  match fuel with
  | O => s
  | S f =>
    match s with
    | [] => []
    | c :: s' => if has_prefix p s && negb (Nat.eqb (length p) 0) then remove_all f p (skipn (length p) s)
                 else c :: remove_all f p s'
    end
  end.

(* ---- executable comparison with the implementation (checks/c19.py) ---- *)
Fixpoint bytes_eqb (a b : bytes) : bool :=
  match a, b with
  | [], [] => true
  | x :: a', y :: b' => N.eqb x y && bytes_eqb a' b'
  | _, _ => false
  end.
Definition subset (a b : list bytes) : bool := forallb (fun x => existsb (bytes_eqb x) b) a.
Definition same_set (a b : list bytes) : bool := subset a b && subset b a.

Inductive ncase :=
| CName (d observed : bytes)                        (* Service.fragmentName(d) *)
| CHolds (dmaps observed : list bytes)              (* the fragment names that hold entries, given the DMaps that were written *)
| CMove (before after : list bytes).                (* fragment names holding entries before / after every fragment migrated *)

Definition run_ncase (c : ncase) : bool :=
  match c with
  | CName d o => bytes_eqb (frag_name d) o
  | CHolds ds o => same_set (map frag_name ds) o
  | CMove b a => same_set (map arrives_in b) a
  end.

Fixpoint mismatches (l : list ncase) (i : nat) : list nat :=
  match l with
  | [] => []
  | c :: l' => if run_ncase c then mismatches l' (S i) else i :: mismatches l' (S i)
  end.
