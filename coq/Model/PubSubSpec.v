(* The abstract specification of C14: per member a duplicate-free SET of subscriptions (conn, kind, name)
   (kind = channel | pattern, written as the boolean e_pat) plus the set of connections in subscribed mode.
   One publication delivers one message per MATCHING SUBSCRIPTION (a connection that holds a channel
   subscription and a matching pattern subscription receives one `message` and one `pmessage`, as in Redis),
   and PUBLISH returns the number of deliveries. *)
From Coq Require Import List NArith Bool.
Require Import Olric.Model.PubSub.
Import ListNotations.
Local Open Scope N_scope.

Record spec := mkSpec { s_subs : list entry; s_att : list N }.
Definition empty_spec : spec := mkSpec [] [].

Definition mem_e (e : entry) (l : list entry) : bool := existsb (entry_eqb e) l.
Definition mem_c (c : N) (l : list N) : bool := existsb (N.eqb c) l.
Definition add_e (e : entry) (l : list entry) : list entry := if mem_e e l then l else l ++ [e].
Definition add_c (c : N) (l : list N) : list N := if mem_c c l then l else l ++ [c].
Definition del_e (e : entry) (l : list entry) : list entry := filter (fun x => negb (entry_eqb e x)) l.

(* the subscriptions of kind [pat] held by connection [c] *)
Definition held (c : N) (pat : bool) (l : list entry) : list entry :=
  filter (fun e => (e_conn e =? c) && Bool.eqb (e_pat e) pat) l.
Definition nheld (c : N) (pat : bool) (l : list entry) : N := N.of_nat (length (held c pat l)).

Definition sp_subscribe (c : N) (pat : bool) (ch : name) (s : spec) : spec * N :=
  let l := add_e (mkE pat ch c) (s_subs s) in (mkSpec l (add_c c (s_att s)), nheld c pat l).

Definition sp_unsubscribe_one (c : N) (pat : bool) (ch : name) (s : spec) : spec * (option name * N) :=
  if mem_e (mkE pat ch c) (s_subs s)
  then let l := del_e (mkE pat ch c) (s_subs s) in (mkSpec l (s_att s), (Some ch, nheld c pat l))
  else (s, (None, nheld c pat (s_subs s))).

Fixpoint sp_unsub_list (c : N) (pat : bool) (names : list name) (s : spec) : spec * list (option name * N) :=
  match names with
  | [] => (s, [])
  | n :: r => let '(s1, x) := sp_unsubscribe_one c pat n s in
              let '(s2, xs) := sp_unsub_list c pat r s1 in (s2, x :: xs)
  end.

Fixpoint sp_sub_list (c : N) (pat : bool) (names : list name) (s : spec) : spec * list (option name * N) :=
  match names with
  | [] => (s, [])
  | n :: r => let '(s1, k) := sp_subscribe c pat n s in
              let '(s2, xs) := sp_sub_list c pat r s1 in (s2, (Some n, k) :: xs)
  end.

Definition sp_unsubscribe_all (c : N) (pat : bool) (s : spec) : spec * list (option name * N) :=
  match map e_chan (held c pat (s_subs s)) with
  | [] => (s, [(None, 0)])
  | names => sp_unsub_list c pat names s
  end.

Definition sp_disconnect (c : N) (s : spec) : spec :=
  mkSpec (filter (fun e => negb (e_conn e =? c)) (s_subs s)) (filter (fun x => negb (x =? c)) (s_att s)).

Section Glob.
Variable glob : name -> name -> bool.

(* a subscription matches a channel *)
Definition matches (ch : name) (e : entry) : bool :=
  if e_pat e then glob (e_chan e) ch else name_eqb (e_chan e) ch.

Definition sp_publish (ch msg : name) (s : spec) : N * list delivery :=
  let l := filter (matches ch) (s_subs s) in (N.of_nat (length l), map (deliver ch msg) l).

Definition sp_channels (p : option name) (s : spec) : list name :=
  uniq [] (map e_chan (filter (fun e => negb (e_pat e) && match p with None => true | Some p => glob p (e_chan e) end)
                              (s_subs s))).
Definition sp_numpat (s : spec) : N := N.of_nat (length (uniq [] (map e_chan (filter e_pat (s_subs s))))).
Definition sp_numsub (ch : name) (s : spec) : N :=
  N.of_nat (length (filter (fun e => negb (e_pat e) && name_eqb (e_chan e) ch) (s_subs s))).

Definition scluster := list spec.
Definition sget_m (m : nat) (cl : scluster) : spec := nth m cl empty_spec.
Fixpoint sset_m (m : nat) (p : spec) (cl : scluster) : scluster :=
  match cl, m with
  | [], _ => []
  | _ :: r, O => p :: r
  | x :: r, S m' => x :: sset_m m' p r
  end.

Fixpoint sp_publish_from (i : nat) (ch msg : name) (cl : scluster) : N * list mdelivery :=
  match cl with
  | [] => (0, [])
  | p :: r => let '(n, ds) := sp_publish ch msg p in
              let '(n', ds') := sp_publish_from (S i) ch msg r in
              (n + n', map (fun d => (i, d)) ds ++ ds')
  end.

End Glob.
