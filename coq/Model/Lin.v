(* Histories, sequential specifications and a linearizability checker (Wing & Gong style search).
   The checker is what judges the concurrent histories recorded on the real cluster (checks/c01.py, c07.py,
   c08.py); its soundness (a PASS really is a linearization) is Proofs/LinProofs.v. *)
From Coq Require Import List ZArith Bool.
Import ListNotations.

Section Lin.
  Variables (st op res : Type).
  Variable sstep : st -> op -> st * res.
  Variable res_eqb : res -> res -> bool.

  (* an operation with its invocation and response instants and what it returned *)
  Record event := { inv : Z; rsp : Z; eop : op; eres : res }.

  Fixpoint remove_nth {A} (i : nat) (l : list A) : list A :=
    match l, i with
    | [], _ => []
    | _ :: t, O => t
    | x :: t, S i' => x :: remove_nth i' t
    end.

  (* e may be linearized next: no other pending operation responded before e was invoked *)
  Definition minimal (e : event) (pending : list event) : bool :=
    forallb (fun e' => negb (Z.ltb (rsp e') (inv e))) pending.

  Fixpoint try_cands (rec : st -> list event -> option (list event))
           (s : st) (pending : list event) (k : nat) (cands : list event) : option (list event) :=
    match cands with
    | [] => None
    | e :: cands' =>
      let continue_ := try_cands rec s pending (S k) cands' in
      if minimal e pending then
        let '(s', r) := sstep s (eop e) in
        if res_eqb r (eres e) then
          match rec s' (remove_nth k pending) with
          | Some tl => Some (e :: tl)
          | None => continue_
          end
        else continue_
      else continue_
    end.

  (* fuel bounds the depth (= number of events); the search is exhaustive below it *)
  Fixpoint search (fuel : nat) (s : st) (pending : list event) : option (list event) :=
    match fuel with
    | O => None
    | S fuel' =>
      match pending with
      | [] => Some []
      | _ => try_cands (search fuel') s pending O pending
      end
    end.

  Fixpoint replay (s : st) (l : list event) : bool :=
    match l with
    | [] => true
    | e :: l' => let '(s', r) := sstep s (eop e) in res_eqb r (eres e) && replay s' l'
    end.
End Lin.

Arguments inv {op res}.
Arguments rsp {op res}.
Arguments eop {op res}.
Arguments eres {op res}.
Arguments Build_event {op res}.

(* ---------------------------------------------------------------------------------------------- *)
(* sequential specifications of one key                                                             *)
(* ---------------------------------------------------------------------------------------------- *)

(* C01: a register with presence. Values are numbers (the harness writes distinct values). *)
Inductive rop := RPut (v : Z) | RPutNX (v : Z) | RPutXX (v : Z) | RGet | RDel.
Inductive rres := ROk | RKeyFound | RNotFound | RValue (v : Z).
Definition rstep (s : option Z) (o : rop) : option Z * rres :=
  match o with
  | RPut v => (Some v, ROk)
  | RPutNX v => match s with Some _ => (s, RKeyFound) | None => (Some v, ROk) end
  | RPutXX v => match s with Some _ => (Some v, ROk) | None => (s, RNotFound) end
  | RGet => match s with Some v => (s, RValue v) | None => (s, RNotFound) end
  | RDel => (None, ROk)
  end.
Definition rres_eqb (a b : rres) : bool :=
  match a, b with
  | ROk, ROk | RKeyFound, RKeyFound | RNotFound, RNotFound => true
  | RValue x, RValue y => Z.eqb x y
  | _, _ => false
  end.

(* C07: a counter with fetch-and-add (Incr/Decr return the new value) and swap (GetPut returns the old one) *)
Inductive cop := CIncr (d : Z) | CGetPut (v : Z) | CRead.
Inductive cres := CInt (n : Z) | COld (v : option Z).
Definition cstep (s : option Z) (o : cop) : option Z * cres :=
  match o with
  | CIncr d => let n := (match s with Some v => v | None => 0 end + d)%Z in (Some n, CInt n)
  | CGetPut v => (Some v, COld s)
  | CRead => (s, COld s)
  end.
Definition cres_eqb (a b : cres) : bool :=
  match a, b with
  | CInt x, CInt y => Z.eqb x y
  | COld (Some x), COld (Some y) => Z.eqb x y
  | COld None, COld None => true
  | _, _ => false
  end.

(* C08: a lock without timeout: tokens are numbers *)
Inductive lop := LLock (tok : Z) | LUnlock (tok : Z).
Inductive lres := LOk | LNotAcquired | LNoSuchLock.
Definition lstep (s : option Z) (o : lop) : option Z * lres :=
  match o with
  | LLock tok => match s with Some _ => (s, LNotAcquired) | None => (Some tok, LOk) end
  | LUnlock tok => match s with
                   | Some t => if Z.eqb t tok then (None, LOk) else (s, LNoSuchLock)
                   | None => (s, LNoSuchLock)
                   end
  end.
Definition lres_eqb (a b : lres) : bool :=
  match a, b with LOk, LOk | LNotAcquired, LNotAcquired | LNoSuchLock, LNoSuchLock => true | _, _ => false end.

Definition lin_register (fuel : nat) (h : list (event rop rres)) : bool :=
  match search _ _ _ rstep rres_eqb fuel None h with Some _ => true | None => false end.
Definition lin_counter (fuel : nat) (init : option Z) (h : list (event cop cres)) : bool :=
  match search _ _ _ cstep cres_eqb fuel init h with Some _ => true | None => false end.
Definition lin_lock (fuel : nat) (h : list (event lop lres)) : bool :=
  match search _ _ _ lstep lres_eqb fuel None h with Some _ => true | None => false end.
