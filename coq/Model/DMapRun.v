(* Executable driver for the correspondence check of Model/DMap.v (checks/c04.py, c09.py, c15.py, c19.py). *)
From Coq Require Import List NArith ZArith Bool.
Require Import Olric.Model.Codec Olric.Model.DMap.
Import ListNotations.
Local Open Scope Z_scope.

Inductive cop := COp (o : dop) | CDump (d k : bytes).
Inductive cobs := BRes (r : res) | BCopies (l : list (nat * bool * bytes * Z)).   (* member, backup?, value, ttl *)

Record cstep := { c_now : Z; c_tol : Z; c_op : cop; c_obs : cobs }.

Record ccfg := {
  c_members : nat;
  c_replicas : nat;
  c_routes : list (bytes * bytes * nat * list nat);     (* dmap, key, owner, backups: from the real routing table *)
  c_ttl : list (bytes * Z);                              (* per-DMap default TTL *)
  c_idle : list (bytes * Z)
}.

Fixpoint route_of (l : list (bytes * bytes * nat * list nat)) (d k : bytes) : nat * list nat :=
  match l with
  | [] => (O, [])
  | (d', k', o, bs) :: l' => if bytes_eqb d d' && bytes_eqb k k' then (o, bs) else route_of l' d k
  end.
Fixpoint assoc_z (l : list (bytes * Z)) (d : bytes) : Z :=
  match l with [] => 0 | (d', z) :: l' => if bytes_eqb d d' then z else assoc_z l' d end.

Definition env_of (c : ccfg) : env :=
  {| replicas := c_replicas c;
     owner := fun d k => fst (route_of (c_routes c) d k);
     backups := fun d k => snd (route_of (c_routes c) d k);
     default_ttl := assoc_z (c_ttl c);
     max_idle := assoc_z (c_idle c) |}.

(* the copies that are visible at time now: an expired copy may or may not have been removed by the background
   eviction workers already, so expired copies are left out on both sides of the comparison *)
Definition copies (n : nat) (now : Z) (d k : bytes) (s : state) : list (nat * bool * bytes * Z) :=
  flat_map (fun m =>
    (match lookup {| lm := m; lk := Primary; ld := d; lkey := k |} s with
     | Some e => if visible e now then [(m, false, ev e, ettl e)] else [] | None => [] end) ++
    (match lookup {| lm := m; lk := Backup; ld := d; lkey := k |} s with
     | Some e => if visible e now then [(m, true, ev e, ettl e)] else [] | None => [] end))
    (seq 0 n).

(* b = -1: the implementation's reply does not carry the expiry (raw DM.GET) *)
Definition ttl_close (tol a b : Z) : bool :=
  if b =? -1 then true
  else if a =? 0 then b =? 0 else negb (b =? 0) && (Z.abs (a - b) <=? tol).

Definition opt_bytes_eqb (a b : option bytes) : bool :=
  match a, b with Some x, Some y => bytes_eqb x y | None, None => true | _, _ => false end.

Definition res_eqb (tol : Z) (m i : res) : bool :=
  match m, i with
  | ROk, ROk | RNotFound, RNotFound | RKeyFound, RKeyFound | RNoSuchLock, RNoSuchLock => true
  | RVal v1 t1, RVal v2 t2 => bytes_eqb v1 v2 && ttl_close tol t1 t2
  | ROld a, ROld b => opt_bytes_eqb a b
  | RInt a, RInt b => a =? b
  | RCount a, RCount b => Nat.eqb a b
  | _, _ => false
  end.

Fixpoint copies_eqb (tol : Z) (a b : list (nat * bool * bytes * Z)) : bool :=
  match a, b with
  | [], [] => true
  | (m1, k1, v1, t1) :: a', (m2, k2, v2, t2) :: b' =>
    Nat.eqb m1 m2 && Bool.eqb k1 k2 && bytes_eqb v1 v2 && ttl_close tol t1 t2 && copies_eqb tol a' b'
  | _, _ => false
  end.

Definition obs_eqb (tol : Z) (m i : cobs) : bool :=
  match m, i with
  | BRes a, BRes b => res_eqb tol a b
  | BCopies a, BCopies b => copies_eqb tol a b
  | _, _ => false
  end.

(* the write timestamp of step i is i (strictly increasing, as acknowledged sequential operations get on
   the owner's clock) *)
Fixpoint first_diff (c : ccfg) (s : state) (l : list cstep) (i : nat) : option nat :=
  match l with
  | [] => None
  | x :: l' =>
    let '(s', m) :=
      match c_op x with
      | COp o => let '(s1, r) := step (env_of c) (c_now x) (Z.of_nat i) s o in (s1, BRes r)
      | CDump d k => (s, BCopies (copies (c_members c) (c_now x) d k s))
      end in
    if obs_eqb (c_tol x) m (c_obs x) then first_diff c s' l' (S i) else Some i
  end.

Fixpoint mismatches (l : list (ccfg * list cstep)) (i : nat) : list (nat * nat) :=
  match l with
  | [] => []
  | (c, steps) :: l' =>
    match first_diff c [] steps 0 with
    | None => mismatches l' (S i)
    | Some k => (i, k) :: mismatches l' (S i)
    end
  end.

Fixpoint run_obs (c : ccfg) (s : state) (l : list cstep) (i : nat) : list cobs :=
  match l with
  | [] => []
  | x :: l' =>
    let '(s', m) :=
      match c_op x with
      | COp o => let '(s1, r) := step (env_of c) (c_now x) (Z.of_nat i) s o in (s1, BRes r)
      | CDump d k => (s, BCopies (copies (c_members c) (c_now x) d k s))
      end in
    m :: run_obs c s' l' (S i)
  end.
