(* Hand-over of one partition (Model/Balance.v) with the payload of a move IN FLIGHT.
   internal/dmap/fragment.go Move exports one table of the sender's fragment, sends it with MOVEFRAGMENT and drops
   the table when the owner has answered OK; internal/dmap/balance.go mergeFragments imports the payload entry by
   entry with fragmentMergeFunction under the OWNER's fragment lock.  Between the export and the import the
   payload is a snapshot: operations acknowledged in that window (the owner's lock is free while the payload is on
   the wire or queued behind the lock) are not reflected in it.
     FExport i ks   previous owner #i exports the table holding keys ks (a snapshot of its fragment is taken)
     FDeliver       the owner imports the payload in flight
     FLose          the payload is lost / the call fails: nothing is imported, the sender keeps its table
     FDrop i ks     the sender drops the table after the acknowledgement
   A complete, undisturbed move is Balance.BMove = FExport ; FDeliver ; FDrop. *)
From Coq Require Import List NArith ZArith Bool.
Require Import Olric.Model.Balance.
Import ListNotations.
Local Open Scope Z_scope.

Record fsys := { fh : sys; fl : option (frag * list N) }.

Inductive fop :=
| FOp (o : bop)
| FExport (i : nat) (ks : list N)
| FDeliver
| FLose
| FDrop (i : nat) (ks : list N).

Definition deliver (src : frag) (ks : list N) (s : sys) : sys :=
  let moved := flat_map (fun k => match flookup k src with Some e => [(k, e)] | None => [] end) ks in
  on_primary (fun p => fold_left (fun acc ke => merge1 (fst ke) (snd ke) acc) moved p) s.

Definition fstep (fs : fsys) (o : fop) : fsys :=
  match o with
  | FOp b => {| fh := bstep (fh fs) b; fl := fl fs |}
  | FExport i ks =>
    match i with
    | O => fs
    | S _ => {| fh := fh fs; fl := Some (nth i (fh fs) [], ks) |}
    end
  | FDeliver =>
    match fl fs with
    | None => fs
    | Some (src, ks) => {| fh := deliver src ks (fh fs); fl := None |}
    end
  | FLose => {| fh := fh fs; fl := None |}
  | FDrop i ks =>
    match i with
    | O => fs
    | S _ => {| fh := update_nth i (fun f => fold_left (fun acc k => fremove k acc) ks f) (fh fs); fl := fl fs |}
    end
  end.

Definition fref (m : smap) (o : fop) : smap := match o with FOp b => sstep m b | _ => m end.

Fixpoint frun (fs : fsys) (m : smap) (l : list fop) : fsys * smap :=
  match l with [] => (fs, m) | o :: l' => frun (fstep fs o) (fref m o) l' end.

Definition finit : fsys := {| fh := []; fl := None |}.

(* acknowledged Puts of a key carry increasing timestamps *)
Fixpoint fts_fresh (m : smap) (l : list fop) : Prop :=
  match l with
  | [] => True
  | o :: l' =>
    (match o with
     | FOp (BPut k _ ts) => match m k with Some e => snd e < ts | None => True end
     | _ => True
     end) /\ fts_fresh (fref m o) l'
  end.

Definition in_flight (k : N) (fs : fsys) : bool :=
  match fl fs with
  | None => false
  | Some (src, ks) => match flookup k src with Some _ => existsb (N.eqb k) ks | None => false end
  end.

(* what the fragment locks are meant to guarantee: no Delete of a key takes effect while a payload carrying that key
   is in flight, and a sender only drops a table whose payload has been imported or which was emptied by Deletes:
   a key is dropped at the sender only when the owner (or a newer holder) has a copy at least as new *)
Definition drop_ok (i : nat) (ks : list N) (s : sys) : Prop :=
  forall k c, existsb (N.eqb k) ks = true -> flookup k (nth i s []) = Some c ->
              exists j f e, (j < i)%nat /\ nth_error s j = Some f /\ flookup k f = Some e /\ snd c <= snd e.

Fixpoint fsafe (fs : fsys) (l : list fop) : Prop :=
  match l with
  | [] => True
  | o :: l' =>
    (match o with
     | FOp (BDel k) => in_flight k fs = false
     | FDrop i ks => drop_ok i ks (fh fs)
     | _ => True
     end) /\ fsafe (fstep fs o) l'
  end.
