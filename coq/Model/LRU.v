(* LRU eviction on the write path of one fragment (one DMap on one owned partition):
   internal/dmap/put.go:setLRUEvictionStats + eviction.go:evictKeyWithLRU, after the fix: commits.
   Before the entry is stored, a fragment at its share of MaxKeys (resp. MaxInuse) loses one sampled key.
   The victim is whatever the sampler picked (Go map order + least lastAccess of the sample): an oracle,
   constrained only to be a key of the fragment. Entries have one size [esz] (the property's own hypothesis
   for the MaxInuse clause). *)
From Coq Require Import List NArith Bool.
Import ListNotations.
Local Open Scope N_scope.

Definition key := list N.
Fixpoint key_eqb (a b : key) : bool :=
  match a, b with
  | [], [] => true
  | x :: a', y :: b' => N.eqb x y && key_eqb a' b'
  | _, _ => false
  end.

Record lcfg := { maxkeys : N; maxinuse : N; owned : N; esz : N }.

Definition frag := list key.    (* the keys present, each once *)
Definition flen (f : frag) : N := N.of_nat (length f).
Definition finuse (c : lcfg) (f : frag) : N := esz c * flen f.

Definition fremove (k : key) (f : frag) : frag := filter (fun x => negb (key_eqb x k)) f.
Definition fmem (k : key) (f : frag) : bool := existsb (key_eqb k) f.

(* st.Length > 0 && st.Length >= maxKeys/owned *)
Definition keys_full (c : lcfg) (f : frag) : bool :=
  (0 <? maxkeys c) && (0 <? flen f) && (maxkeys c / owned c <=? flen f).
Definition inuse_full (c : lcfg) (f : frag) : bool :=
  (0 <? maxinuse c) && (0 <? finuse c f) && (maxinuse c / owned c <=? finuse c f).

(* putOnCluster with evictionPolicy = LRU: up to two evictions (one per limit), then the write *)
Definition lru_put (c : lcfg) (v1 v2 : key) (k : key) (f : frag) : frag :=
  let f1 := if keys_full c f then fremove v1 f else f in
  let f2 := if inuse_full c f1 then fremove v2 f1 else f1 in
  k :: fremove k f2.

(* the sampler's contract: when an eviction fires its victim is a key of the fragment *)
Definition victims_ok (c : lcfg) (v1 v2 : key) (f : frag) : Prop :=
  (keys_full c f = true -> fmem v1 f = true) /\
  (let f1 := if keys_full c f then fremove v1 f else f in inuse_full c f1 = true -> fmem v2 f1 = true).

Fixpoint lru_run (c : lcfg) (l : list (key * key * key)) (f : frag) : frag :=
  match l with
  | [] => f
  | (v1, v2, k) :: l' => lru_run c l' (lru_put c v1 v2 k f)
  end.

Fixpoint victims_ok_run (c : lcfg) (l : list (key * key * key)) (f : frag) : Prop :=
  match l with
  | [] => True
  | (v1, v2, k) :: l' => victims_ok c v1 v2 f /\ victims_ok_run c l' (lru_put c v1 v2 k f)
  end.

(* idle expiry: a key whose last access lies within the window is never removed for idleness *)
Definition idle_now (maxidle last now : N) : bool := negb (maxidle =? 0) && (maxidle + last <=? now).
