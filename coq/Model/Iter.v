(* Model of the client iterator (cluster_iterator.go; embedded_iterator.go runs the same state machine with a
   local call for the local owner): per partition, every listed primary owner and then every listed replica
   owner is asked for one DM.SCAN page per round, keys are de-duplicated through partitionKeys, an owner whose
   scan answered cursor 0 is removed from i.route; the partition is finished when a round produced nothing new
   and i.route lists nobody.

   Modelled as the code is written, including two things that only matter with more than one owner per list:
   - getOwners() reads i.routingTable[partID], not i.route, so a finished owner is scanned again from cursor 0;
   - i.route's slices alias the arrays of i.routingTable[partID]: removeScannedOwner's append shifts the
     elements of that shared array (the routing-table entry keeps its length).
   Not modelled: the periodic re-fetch of the routing table (once a second; the harness discards iterations
   that take longer) and errors from the network.

   What an owner answers is an input: [pages] is the list of key pages of one complete DM.SCAN iteration over
   that owner's fragment (C12_store_complete is about those), the cursor is the index of the next page and 0
   means start / finished. Keys are numbers (the harness maps key strings to numbers injectively). *)
From Coq Require Import List NArith Bool Arith.
Import ListNotations.

Definition key := N.
Definition owner := N.
Definition pages := list (list key).

(* one DM.SCAN call with cursor c *)
Definition scan_page (ps : pages) (c : nat) : list key * nat :=
  (nth c ps [], if Nat.ltb (S c) (length ps) then S c else 0).

Record ist := {
  rtP : list owner; rtR : list owner;         (* i.routingTable[partID] *)
  routeP : list owner; routeR : list owner;   (* i.route *)
  cursP : list (owner * nat); cursR : list (owner * nat);   (* i.cursors[partID][owner].primary / .replica *)
  seen : list key;                            (* partitionKeys, in insertion order *)
  page : list key }.

Fixpoint load_cursor (l : list (owner * nat)) (o : owner) : nat :=
  match l with
  | [] => 0
  | (o', c) :: l' => if N.eqb o' o then c else load_cursor l' o
  end.

Fixpoint update_cursor (l : list (owner * nat)) (o : owner) (c : nat) : list (owner * nat) :=
  match l with
  | [] => [(o, c)]
  | (o', c') :: l' => if N.eqb o' o then (o, c) :: l' else (o', c') :: update_cursor l' o c
  end.

Definition kmem (k : key) (l : list key) : bool := existsb (N.eqb k) l.

(* updateIterator: append the keys not in partitionKeys *)
Fixpoint add_keys (ks : list key) (sn pg : list key) : list key * list key :=
  match ks with
  | [] => (sn, pg)
  | k :: ks' => if kmem k sn then add_keys ks' sn pg else add_keys ks' (sn ++ [k]) (pg ++ [k])
  end.

(* removeScannedOwner(idx) on i.route's slice and the array it shares with the routing-table entry *)
Definition remove_scanned (idx : nat) (route rt : list owner) : list owner * list owner :=
  if Nat.ltb idx (length route)
  then let route' := firstn idx route ++ skipn (S idx) route in
       (route', route' ++ skipn (length route - 1) rt)
  else (route, rt).

Definition scan_one (pg : bool -> owner -> pages) (rep : bool) (st : ist) (io : nat * owner) : ist :=
  let '(idx, o) := io in
  let c := load_cursor (if rep then cursR st else cursP st) o in
  let '(ks, c') := scan_page (pg rep o) c in
  let '(sn, pgk) := add_keys ks (seen st) (page st) in
  let cP := if rep then cursP st else update_cursor (cursP st) o c' in
  let cR := if rep then update_cursor (cursR st) o c' else cursR st in
  let fin := Nat.eqb c' 0 in
  let '(rP, tP) := if negb rep && fin then remove_scanned idx (routeP st) (rtP st) else (routeP st, rtP st) in
  let '(rR, tR) := if rep && fin then remove_scanned idx (routeR st) (rtR st) else (routeR st, rtR st) in
  {| rtP := tP; rtR := tR; routeP := rP; routeR := rR; cursP := cP; cursR := cR; seen := sn; page := pgk |}.

(* scanOnOwners: owners is a copy taken before the loop *)
Definition scan_owners (pg : bool -> owner -> pages) (rep : bool) (st : ist) : ist :=
  let owners := if rep then rtR st else rtP st in
  fold_left (scan_one pg rep) (combine (seq 0 (length owners)) owners) st.

(* fetchData *)
Definition fetch (pg : bool -> owner -> pages) (st : ist) : ist := scan_owners pg true (scan_owners pg false st).

Definition reset_page (st : ist) : ist :=
  {| rtP := rtP st; rtR := rtR st; routeP := routeP st; routeR := routeR st; cursP := cursP st; cursR := cursR st;
     seen := seen st; page := [] |}.

Definition routes_empty (st : ist) : bool :=
  match routeP st, routeR st with [], [] => true | _, _ => false end.

(* next() until the partition is finished: the keys handed to the caller, in order. None = out of fuel
   (the real loop would still be spinning). *)
Fixpoint part_loop (pg : bool -> owner -> pages) (fuel : nat) (st : ist) (acc : list key) : option (list key) :=
  match fuel with
  | 0 => None
  | S f =>
    let st1 := fetch pg st in
    match page st1 with
    | _ :: _ => part_loop pg f (reset_page st1) (acc ++ page st1)
    | [] => if routes_empty st1 then Some acc else part_loop pg f st1 acc
    end
  end.

(* loadRoute + reset for a partition whose routing-table entry lists oP / oR *)
Definition init_part (oP oR : list owner) : ist :=
  {| rtP := oP; rtR := oR; routeP := oP; routeR := oR; cursP := []; cursR := []; seen := []; page := [] |}.

Record part := { p_owners : list owner; p_replicas : list owner; p_pages : bool -> owner -> pages }.

Definition iter_part (fuel : nat) (p : part) : option (list key) :=
  part_loop (p_pages p) fuel (init_part (p_owners p) (p_replicas p)) [].

(* the whole iteration: partitions 0 .. P-1 in order *)
Fixpoint iter_all (fuel : nat) (ps : list part) : option (list key) :=
  match ps with
  | [] => Some []
  | p :: ps' =>
    match iter_part fuel p, iter_all fuel ps' with
    | Some a, Some b => Some (a ++ b)
    | _, _ => None
    end
  end.
