(* Operations and observations of C14, the step function of the model cluster ([step]) and of the
   specification cluster ([sstep]), and the executable comparison with what the implementation returned
   (computed inside Coq by vm_compute; see checks/c14.py).  The theorems of Proofs/PubSubProofs.v are about
   exactly these [step] / [run]. *)
From Coq Require Import List NArith Bool.
Require Import Olric.Model.PubSub Olric.Model.PubSubSpec.
Import ListNotations.
Local Open Scope N_scope.

(* m = member index; c = connection (attached to member m for its whole life) *)
Inductive op :=
| OSub (m : nat) (c : N) (pat : bool) (names : list name)      (* SUBSCRIBE / PSUBSCRIBE names *)
| OUnsub (m : nat) (c : N) (pat : bool) (names : list name)    (* UNSUBSCRIBE / PUNSUBSCRIBE names; [] = all *)
| ODisc (m : nat) (c : N)                                      (* the connection ends *)
| OPub (via : nat) (ch msg : name)                             (* PUBLISH through member [via] *)
| OChannels (m : nat) (p : option name)                        (* PUBSUB CHANNELS [pattern] on member m *)
| ONumsub (m : nat) (chs : list name)
| ONumpat (m : nat).

Inductive obs :=
| BReplies (l : list (option name * N))     (* one (channel or nil, count) per confirmation *)
| BErr                                      (* an error reply (wrong arity; UNSUBSCRIBE outside subscribed mode) *)
| BUnit
| BPub (count : N) (dl : list mdelivery)    (* PUBLISH result and everything delivered, per member *)
| BNames (l : list name)
| BCounts (l : list N)
| BNum (n : N)
| BOther.                                   (* an implementation reply the model has no counterpart for *)

Section Glob.
Variable glob : name -> name -> bool.

Definition step (cl : cluster) (o : op) : cluster * obs :=
  match o with
  | OSub m c pat names =>
      match names with
      | [] => (cl, BErr)
      | _ => let '(p, l) := sub_list c pat names (get_m m cl) in (set_m m p cl, BReplies l)
      end
  | OUnsub m c pat names =>
      if attached c (get_m m cl) then
        match names with
        | [] => let '(p, l) := unsubscribe_all c pat (get_m m cl) in (set_m m p cl, BReplies l)
        | _ => let '(p, l) := unsub_list c pat names (get_m m cl) in (set_m m p cl, BReplies l)
        end
      else (cl, BErr)
  | ODisc m c => (set_m m (disconnect c (get_m m cl)) cl, BUnit)
  | OPub _ ch msg => let '(n, dl) := cluster_publish glob ch msg cl in (cl, BPub n dl)
  | OChannels m p => (cl, BNames (channels glob p (get_m m cl)))
  | ONumsub m chs => (cl, BCounts (map (fun ch => numsub ch (get_m m cl)) chs))
  | ONumpat m => (cl, BNum (numpat (get_m m cl)))
  end.

Definition sstep (cl : scluster) (o : op) : scluster * obs :=
  match o with
  | OSub m c pat names =>
      match names with
      | [] => (cl, BErr)
      | _ => let '(p, l) := sp_sub_list c pat names (sget_m m cl) in (sset_m m p cl, BReplies l)
      end
  | OUnsub m c pat names =>
      if mem_c c (s_att (sget_m m cl)) then
        match names with
        | [] => let '(p, l) := sp_unsubscribe_all c pat (sget_m m cl) in (sset_m m p cl, BReplies l)
        | _ => let '(p, l) := sp_unsub_list c pat names (sget_m m cl) in (sset_m m p cl, BReplies l)
        end
      else (cl, BErr)
  | ODisc m c => (sset_m m (sp_disconnect c (sget_m m cl)) cl, BUnit)
  | OPub _ ch msg => let '(n, dl) := sp_publish_from glob 0 ch msg cl in (cl, BPub n dl)
  | OChannels m p => (cl, BNames (sp_channels glob p (sget_m m cl)))
  | ONumsub m chs => (cl, BCounts (map (fun ch => sp_numsub ch (sget_m m cl)) chs))
  | ONumpat m => (cl, BNum (sp_numpat (sget_m m cl)))
  end.

Fixpoint run (cl : cluster) (ops : list op) : cluster * list obs :=
  match ops with
  | [] => (cl, [])
  | o :: r => let '(cl1, b) := step cl o in let '(cl2, bs) := run cl1 r in (cl2, b :: bs)
  end.
Fixpoint srun (cl : scluster) (ops : list op) : scluster * list obs :=
  match ops with
  | [] => (cl, [])
  | o :: r => let '(cl1, b) := sstep cl o in let '(cl2, bs) := srun cl1 r in (cl2, b :: bs)
  end.

End Glob.

Definition init (n : nat) : cluster := repeat empty_ps n.
Definition sinit (n : nat) : scluster := repeat empty_spec n.

(* ---------- executable comparison ---------- *)
Fixpoint list_eqb {A} (eq : A -> A -> bool) (a b : list A) : bool :=
  match a, b with
  | [], [] => true
  | x :: a', y :: b' => eq x y && list_eqb eq a' b'
  | _, _ => false
  end.
Definition opt_eqb {A} (eq : A -> A -> bool) (a b : option A) : bool :=
  match a, b with Some x, Some y => eq x y | None, None => true | _, _ => false end.
Definition count_eqb {A} (eq : A -> A -> bool) (x : A) (l : list A) : nat := length (filter (eq x) l).
(* equal as multisets *)
Definition perm_eqb {A} (eq : A -> A -> bool) (a b : list A) : bool :=
  Nat.eqb (length a) (length b) && forallb (fun x => Nat.eqb (count_eqb eq x a) (count_eqb eq x b)) a.

Definition delivery_eqb (a b : delivery) : bool :=
  (d_conn a =? d_conn b) && Bool.eqb (d_pat a) (d_pat b) && name_eqb (d_sub a) (d_sub b) &&
  name_eqb (d_chan a) (d_chan b) && name_eqb (d_msg a) (d_msg b).
Definition mdelivery_eqb (a b : mdelivery) : bool := Nat.eqb (fst a) (fst b) && delivery_eqb (snd a) (snd b).
Definition mkD (m : nat) (c : N) (pat : bool) (sub ch msg : name) : mdelivery := (m, mkDl c pat sub ch msg).

(* [ordered] = the confirmations come in command order (false for UNSUBSCRIBE without arguments: Go map order) *)
Definition obs_eqb (ordered : bool) (m i : obs) : bool :=
  match m, i with
  | BReplies a, BReplies b =>
      if ordered then list_eqb (fun p q => opt_eqb name_eqb (fst p) (fst q) && (snd p =? snd q)) a b
      else perm_eqb (opt_eqb name_eqb) (map fst a) (map fst b) && list_eqb N.eqb (map snd a) (map snd b)
  | BErr, BErr => true
  | BUnit, BUnit => true
  | BPub n a, BPub k b => (n =? k) && perm_eqb mdelivery_eqb a b
  | BNames a, BNames b => perm_eqb name_eqb a b
  | BCounts a, BCounts b => list_eqb N.eqb a b
  | BNum a, BNum b => a =? b
  | _, _ => false
  end.

Definition ordered_op (o : op) : bool :=
  match o with OUnsub _ _ _ [] => false | _ => true end.

(* the glob oracle of a case: tidwall/match evaluated by the harness on every pair of names of the scenario *)
Definition table_glob (tbl : list (name * name * bool)) (p s : name) : bool :=
  match find (fun x => name_eqb (fst (fst x)) p && name_eqb (snd (fst x)) s) tbl with
  | Some x => snd x
  | None => false
  end.

Definition case := (nat * list (name * name * bool) * list (op * obs))%type.

Fixpoint first_diff (g : name -> name -> bool) (cl : cluster) (l : list (op * obs)) (i : nat) : option (nat * obs) :=
  match l with
  | [] => None
  | (o, impl) :: l' =>
    let '(cl', m) := step g cl o in
    if obs_eqb (ordered_op o) m impl then first_diff g cl' l' (S i) else Some (i, m)
  end.

Definition run_case (cs : case) : option (nat * obs) :=
  let '(n, tbl, l) := cs in first_diff (table_glob tbl) (init n) l 0.

Fixpoint mismatches (l : list case) (i : nat) : list (nat * nat * obs) :=
  match l with
  | [] => []
  | c :: l' => match run_case c with
               | None => mismatches l' (S i)
               | Some (k, m) => (i, k, m) :: mismatches l' (S i)
               end
  end.
