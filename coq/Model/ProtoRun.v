(* Executable driver for the correspondence check of C16: the vectors a request of the harness enumerates, the
   outcome the model gives for each, rendered in the vocabulary the harness prints (strings as indices into the
   request's token alphabet, floats as value ids), and the comparison with what the implementation returned
   (computed inside Coq by vm_compute; see checks/c16.py and lib/protolib.py). *)
From Coq Require Import List NArith ZArith Bool.
Require Import Olric.Model.Proto.
Import ListNotations.
Local Open Scope nat_scope.

Inductive fld := Fs (i : nat) | Fz (z : Z) | Fb (b : bool) | Ff (id : nat) | Fl (l : list nat).
Inductive iobs := IO (fs : list fld) | IE (e : perr) | IP | IH.
Inductive jobs := JH (reg : nat) (pre : bool) | JB | JU | JW | JE | JP | JX.
Inductive mobs := MI (o : iobs) | MJ (o : jobs) | MLength (model impl : nat).

Inductive spec :=
| SList (vs : list (list nat))
| SEnum (prefix : list nat) (nfree minfree maxfree : nat).

Inductive rcase :=
| PCase (c : cmd) (alpha : list tok) (ftab : list (num_res N * Z)) (s : spec) (runs : list (nat * iobs))
| DCase (regs : list tok) (precond : option bool) (alpha : list tok) (s : spec) (runs : list (nat * jobs)).

(* ---- enumeration (the order of cmd/verifx/proto.go: by length, last position fastest) ---- *)
Fixpoint words (n L : nat) : list (list nat) :=
  match L with
  | O => [[]]
  | S L' => flat_map (fun a => map (cons a) (words n L')) (seq 0 n)
  end.

Definition vectors (s : spec) : list (list nat) :=
  match s with
  | SList vs => vs
  | SEnum prefix n lo hi => flat_map (fun L => map (app prefix) (words n L)) (seq lo (S hi - lo))
  end.

Definition missing : nat := 4999.

Fixpoint index_of (t : tok) (alpha : list tok) (i : nat) : nat :=
  match alpha with
  | [] => missing
  | a :: r => if tok_eqb a t then i else index_of t r (S i)
  end.

Definition tokens (alpha : list tok) (v : list nat) : list tok := map (fun i => nth i alpha []) v.

(* ---- the float oracle of a request: what strconv.ParseFloat and the Duration conversion did per token ---- *)
Definition ftab_t := list (num_res N * Z).

Definition oracle_float (alpha : list tok) (ft : ftab_t) (t : tok) : num_res N :=
  fst (nth (index_of t alpha 0) ft (NSyntax, 0%Z)).

Fixpoint oracle_dur (ft : ftab_t) (id : N) : Z :=
  match ft with
  | [] => 0%Z
  | (NOk i, d) :: r => if N.eqb i id then d else oracle_dur r id
  | _ :: r => oracle_dur r id
  end.

(* ---- rendering ---- *)
Section Render.
  Variable alpha : list tok.
  Definition s_ (t : tok) := Fs (index_of t alpha 0).
  Definition l_ (ts : list tok) := Fl (map (fun t => index_of t alpha 0) ts).
  Definition f_ (id : N) := Ff (N.to_nat id).
  Definition n_ (n : N) := Fz (Z.of_N n).

  Definition fields_of (r : parsed N) : list fld :=
    match r with
    | RPut _ p => [s_ (p_dmap p); s_ (p_key p); s_ (p_value p); f_ (p_ex p); Fz (p_px p); f_ (p_exat p); Fz (p_pxat p);
                   Fb (p_nx p); Fb (p_xx p)]
    | RPutEntry _ (d, k, v) => [s_ d; s_ k; s_ v]
    | RGet _ (d, k, b) => [s_ d; s_ k; Fb b]
    | RGetEntry _ (d, k, b) => [s_ d; s_ k; Fb b]
    | RDel _ (d, ks) => [s_ d; l_ ks]
    | RDelEntry _ (d, ks, b) => [s_ d; l_ ks; Fb b]
    | RPExpire _ (d, k, z) => [s_ d; s_ k; Fz z]
    | RExpire _ (d, k, z) => [s_ d; s_ k; Fz z]
    | RDestroy _ (d, b) => [s_ d; Fb b]
    | RScan _ s => [n_ (s_part s); s_ (s_dmap s); n_ (s_cursor s); Fz (s_count s); s_ (s_match s); Fb (s_replica s)]
    | RIncr _ (d, k, z) => [s_ d; s_ k; Fz z]
    | RDecr _ (d, k, z) => [s_ d; s_ k; Fz z]
    | RGetPut _ (d, k, v, b) => [s_ d; s_ k; s_ v; Fb b]
    | RIncrByFloat _ (d, k, x) => [s_ d; s_ k; f_ x]
    | RLock _ l => [s_ (l_dmap l); s_ (l_key l); f_ (l_deadline l); f_ (l_ex l); Fz (l_px l)]
    | RUnlock _ (d, k, t) => [s_ d; s_ k; s_ t]
    | RLockLease _ (d, k, t, x) => [s_ d; s_ k; s_ t; f_ x]
    | RPLockLease _ (d, k, t, z) => [s_ d; s_ k; s_ t; Fz z]
    | RPing _ m => [s_ m]
    | RMoveFragment _ p => [s_ p]
    | RUpdateRouting _ (p, id) => [s_ p; n_ id]
    | RLengthOfPart _ (id, b) => [n_ id; Fb b]
    | RStats _ b => [Fb b]
    | RPublish _ (c, m) => [s_ c; s_ m]
    | RPublishInternal _ (c, m) => [s_ c; s_ m]
    | RSubscribe _ cs => [l_ cs]
    | RPSubscribe _ cs => [l_ cs]
    | RPubSubChannels _ p => [s_ p]
    | RPubSubNumpat _ => []
    | RPubSubNumsub _ cs => [l_ cs]
    | RClusterRoutingTable _ => []
    | RClusterMembers _ => []
    end.
End Render.

Definition model_parse (c : cmd) (alpha : list tok) (ft : ftab_t) (v : list nat) : iobs :=
  match parse N 0%N (oracle_float alpha ft) (oracle_dur ft) c (tokens alpha v) with
  | POk r => IO (fields_of alpha r)
  | PErr e => IE e
  | PPanic => IP
  | PSpin => IH
  end.

Definition model_dispatch (regs : list tok) (precond : option bool) (alpha : list tok) (v : list nat) : jobs :=
  match mux_serve regs precond (tokens alpha v) with
  | DHandled name pre => JH (index_of name regs 0) pre
  | DBlocked => JB
  | DUnknown => JU
  | DWrongArgs => JW
  | DEmpty => JE
  | DPanic => JP
  end.

(* ---- equality ---- *)
Fixpoint list_eqb {A} (eq : A -> A -> bool) (a b : list A) : bool :=
  match a, b with
  | [], [] => true
  | x :: a', y :: b' => eq x y && list_eqb eq a' b'
  | _, _ => false
  end.

Definition fld_eqb (a b : fld) : bool :=
  match a, b with
  | Fs x, Fs y => Nat.eqb x y
  | Fz x, Fz y => Z.eqb x y
  | Fb x, Fb y => Bool.eqb x y
  | Ff x, Ff y => Nat.eqb x y
  | Fl x, Fl y => list_eqb Nat.eqb x y
  | _, _ => false
  end.

Definition perr_eqb (a b : perr) : bool :=
  match a, b with
  | EWrongArgs, EWrongArgs | ESyntax, ESyntax | EInvalidArg, EInvalidArg | ENumSyntax, ENumSyntax
  | ENumRange, ENumRange | EInvalidPart, EInvalidPart | EOther, EOther => true
  | _, _ => false
  end.

Definition iobs_eqb (a b : iobs) : bool :=
  match a, b with
  | IO x, IO y => list_eqb fld_eqb x y
  | IE x, IE y => perr_eqb x y
  | IP, IP | IH, IH => true
  | _, _ => false
  end.

Definition jobs_eqb (a b : jobs) : bool :=
  match a, b with
  | JH x p, JH y q => Nat.eqb x y && Bool.eqb p q
  | JB, JB | JU, JU | JW, JW | JE, JE | JP, JP | JX, JX => true
  | _, _ => false
  end.

Definition expand {O} (runs : list (nat * O)) : list O := flat_map (fun r => repeat (snd r) (fst r)) runs.

(* positions where model and implementation differ (at most `budget`), with the model's outcome *)
Fixpoint diff {O} (eq : O -> O -> bool) (wrap : O -> mobs) (model impl : list O) (i budget : nat) : list (nat * mobs) :=
  match budget with
  | O => []
  | S b =>
    match model, impl with
    | [], [] => []
    | m :: model', x :: impl' =>
      if eq m x then diff eq wrap model' impl' (S i) budget else (i, wrap m) :: diff eq wrap model' impl' (S i) b
    | _, _ => [(i, MLength (i + length model) (i + length impl))]
    end
  end.

Definition run_case (c : rcase) : list (nat * mobs) :=
  match c with
  | PCase cm alpha ft s runs =>
      diff iobs_eqb MI (map (model_parse cm alpha ft) (vectors s)) (expand runs) 0 3
  | DCase regs pre alpha s runs =>
      diff jobs_eqb MJ (map (model_dispatch regs pre alpha) (vectors s)) (expand runs) 0 3
  end.

Fixpoint mismatches (l : list rcase) (i : nat) : list (nat * nat * mobs) :=
  match l with
  | [] => []
  | c :: l' => map (fun d => (i, fst d, snd d)) (run_case c) ++ mismatches l' (S i)
  end.

(* ---- decisions on ids taken from the wire: does the member accept (dereference) or reject? ---- *)
Inductive idq := QScan (id : N) | QLength (id : N) | QRouting (table : list (N * bool)).

Definition is_deref (d : deref) : bool := match d with Deref _ => true | _ => false end.

Definition model_accepts (pcount : N) (q : idq) : bool :=
  match q with
  | QScan id => is_deref (scan_decision pcount id)
  | QLength id => is_deref (lengthofpart_decision pcount id)
  | QRouting t => forallb is_deref (updaterouting_decision pcount t)
  end.

Fixpoint id_mismatches (pcount : N) (l : list (idq * bool)) (i : nat) : list nat :=
  match l with
  | [] => []
  | (q, acc) :: l' =>
    if Bool.eqb (model_accepts pcount q) acc then id_mismatches pcount l' (S i) else i :: id_mismatches pcount l' (S i)
  end.
