(* The balancer's decisions: internal/cluster/balancer/balancer.go primaryCopies, backupCopies, scanPartition.
   One run on member `this` walks the partitions in ascending order; for a partition whose fragments on this member
   hold at least one key it decides whether this member is a rightful holder and otherwise calls fragment.Move for
   the non-empty fragments of the partition:
     primary data:  the partition owner is the LAST entry of the owners list; a member that is not the owner moves
                    every non-empty fragment to the owner.
     backup data:   the current backup owners are the last ReplicaCount-1 entries of the backup owners list (walked
                    from the end); a member among them keeps its fragments, any other member moves every non-empty
                    fragment to all of them (one MOVEFRAGMENT per target, then the table is dropped).
   scanPartition stops at the first EMPTY fragment it meets (sync.Map order), so with an empty fragment present a run
   may move only some of the non-empty ones; the rest follows in a later run. Members are compared by name. *)
From Coq Require Import List NArith Bool.
Import ListNotations.
Local Open Scope N_scope.

Definition member := N.
Record bpart := { bowners : list member; bfrags : list (N * N) }.     (* owners list; fragments: DMap name, key count *)

Inductive kind := KPrimary | KBackup.
Record move := { mkind : kind; mpart : N; mname : N; mtargets : list member }.

Definition keys_of (p : bpart) : N := fold_left (fun acc f => acc + snd f) (bfrags p) 0.
Definition nonempty_frags (p : bpart) : list N := map fst (filter (fun f => negb (snd f =? 0)) (bfrags p)).
Definition has_empty (p : bpart) : bool := existsb (fun f => snd f =? 0) (bfrags p).

Definition owner_of (p : bpart) : option member :=
  match rev (bowners p) with [] => None | o :: _ => Some o end.

(* the last ReplicaCount-1 backup owners, nearest to the end first *)
Definition current_backups (r : nat) (p : bpart) : list member := firstn (pred r) (rev (bowners p)).

Definition primary_targets (this : member) (p : bpart) : option (list member) :=
  if keys_of p =? 0 then None
  else match owner_of p with
       | None => None                        (* partitions.Owner panics: excluded, see plan_defined *)
       | Some o => if o =? this then None else Some [o]
       end.

Definition backup_targets (this : member) (r : nat) (p : bpart) : option (list member) :=
  if keys_of p =? 0 then None
  else match bowners p with
       | [] => None
       | _ =>
         let cur := current_backups r p in
         if existsb (N.eqb this) cur then None
         else match cur with [] => None | _ => Some cur end
       end.

Fixpoint plan_kind (k : kind) (targets : bpart -> option (list member)) (id : N) (ps : list bpart) : list move :=
  match ps with
  | [] => []
  | p :: ps' =>
    (match targets p with
     | None => []
     | Some t => map (fun n => {| mkind := k; mpart := id; mname := n; mtargets := t |}) (nonempty_frags p)
     end) ++ plan_kind k targets (id + 1) ps'
  end.

(* triggerBalancer: primary copies first, backup copies only when ReplicaCount > MinimumReplicaCount (= 1) *)
Definition plan (this : member) (r : nat) (prim back : list bpart) : list move :=
  plan_kind KPrimary (primary_targets this) 0 prim ++
  (if Nat.ltb 1 r then plan_kind KBackup (backup_targets this r) 0 back else []).

(* partitions.Partition.Owner panics on an empty owners list; the balancer reaches it only for a partition with keys *)
Definition plan_defined (prim : list bpart) : bool :=
  forallb (fun p => (keys_of p =? 0) || negb (match bowners p with [] => true | _ => false end)) prim.
