(* Executable driver for the correspondence check of the storage engine: the operation alphabet of
   storage.Engine, the observation each operation yields, and the comparison with what the
   implementation returned (computed inside Coq by vm_compute; see checks/c11.py). *)
From Coq Require Import List NArith ZArith Bool.
Require Import Olric.Gen.Consts Olric.Model.Codec Olric.Model.Store.
Import ListNotations.
Local Open Scope N_scope.

Inductive which := A | B.

Inductive op :=
| OPut (w : which) (h : N) (k v : list byte) (ttl ts : Z)
| OPutRaw (w : which) (h : N) (k v : list byte) (ttl ts : Z)
| OGet (w : which) (h : N)
| OGetRaw (w : which) (h : N)
| OGetKey (w : which) (h : N)
| OGetTTL (w : which) (h : N)
| OCheck (w : which) (h : N)
| ODel (w : which) (h : N)
| OUpdTTL (w : which) (h : N) (ttl ts : Z)
| OStats (w : which)
| OLen (w : which)
| ORange (w : which)
| OCompact (w : which) (ord : list N)   (* one Compaction() call; ord = Go map order reconstructed from the run *)
| OCompactAll (w : which) (ords : list (list N))   (* Compaction() until it reports done *)
| OScanAll (w : which) (count : nat) (pat : N)   (* pat: 0 = no pattern, 1..256 = keys starting with byte pat-1 ("^\xNN"), >= 257 = keys containing byte pat-257 anywhere ("\xNN", not anchored) *)
| OXfer (ord : list N).             (* Export first live table of A, Import into B with f = Put (visiting the
                                       hkeys in the Go-map order ord reconstructed from the run), Drop *)

Inductive code := CNil | CKeyTooLarge | CEntryTooLarge | CNotFound | CSpin.

Definition view_t := (list byte * list byte * Z * Z)%type.

Inductive obs :=
| BCode (c : code)
| BEntry (v : option view_t)
| BKey (k : option (list byte))
| BTTL (t : option Z)
| BBool (b : bool)
| BStats (alloc inuse garb len tables : N)
| BLen (len inuse : N)
| BRange (l : list (N * view_t))        (* sorted by hkey *)
| BDone (done : bool)
| BSteps (n : option N)                  (* number of Compaction() calls until done; None = did not finish *)
| BKeys (l : option (list (list byte)))  (* sorted multiset of yielded keys; None = did not finish *)
| BXfer (moved : bool).

Definition code_of (r : sres) : code :=
  match r with SOk => CNil | SKeyTooLarge => CKeyTooLarge | SEntryTooLarge => CEntryTooLarge
             | SNotFound => CNotFound | SSpin => CSpin end.

Definition mk_entry (k v : list byte) (ttl ts now : Z) : entry :=
  {| ekey := k; ettl := ttl; ets := ts; ela := now; evalue := v |}.

(* -------- sorting helpers (canonical form for set-valued observations) -------- *)
Fixpoint lex_leb (a b : list N) : bool :=
  match a, b with
  | [], _ => true
  | _ :: _, [] => false
  | x :: a', y :: b' => if x <? y then true else if y <? x then false else lex_leb a' b'
  end.
Fixpoint ins_key (k : list N) (l : list (list N)) : list (list N) :=
  match l with [] => [k] | x :: r => if lex_leb k x then k :: l else x :: ins_key k r end.
Definition sort_keys (l : list (list N)) := fold_right ins_key [] l.
Fixpoint ins_hv (p : N * view_t) (l : list (N * view_t)) : list (N * view_t) :=
  match l with [] => [p] | x :: r => if fst p <=? fst x then p :: l else x :: ins_hv p r end.
Definition sort_hv (l : list (N * view_t)) := fold_right ins_hv [] l.

Definition matcher (pat : N) (k : list byte) : bool :=
  if pat =? 0 then true
  else if pat <=? 256 then match k with [] => false | b :: _ => b =? pat - 1 end
  else existsb (fun b => b =? pat - 257) k.

Definition all_hkeys_sorted (t : table) : list N := fold_right insert_sorted [] (map rh (trecs t)).

(* Go-map order oracle used for execution: ascending hkeys of the table being drained *)
Definition ord_for (s : store) : list N :=
  match find compactable (rev (tl (stabs s))) with
  | Some t => all_hkeys_sorted t
  | None => []
  end.

(* the reconstructed order first, then whatever it does not mention in ascending order *)
Definition ord_with (o : list N) (s : store) : list N := o ++ ord_for s.

Fixpoint compact_all (fuel : nat) (expired : bool) (ords : list (list N)) (s : store) (n : N) : store * option N :=
  match fuel with
  | O => (s, None)
  | S f =>
    let '(s', done) := s_compaction (ord_with (hd [] ords) s) expired s in
    if done then (s', Some (n + 1)) else compact_all f expired (tl ords) s' (n + 1)
  end.

Record cfg := { c_size : N; c_fork : bool; c_expired : bool; c_eqsize : bool }.
Record st := { sa : store; sb : store }.

Definition getw (w : which) (x : st) := match w with A => sa x | B => sb x end.
Definition setw (w : which) (x : st) (s : store) := match w with A => {| sa := s; sb := sb x |} | B => {| sa := sa x; sb := s |} end.

Definition init (c : cfg) : st :=
  let s := if c_fork c then fork_store (c_size c) else empty_store (c_size c) in {| sa := s; sb := s |}.

Fixpoint import_all (rs : list rec) (s : store) : store :=
  match rs with
  | [] => s
  | r :: rs' => import_all rs' (fst (s_put (rh r) (re r) s))
  end.

Definition step (c : cfg) (x : st) (o : op) : st * obs :=
  match o with
  | OPut w h k v ttl ts => let '(s, r) := s_put h (mk_entry k v ttl ts 0) (getw w x) in (setw w x s, BCode (code_of r))
  | OPutRaw w h k v ttl ts => let '(s, r) := s_putraw h (mk_entry k v ttl ts 0) (getw w x) in (setw w x s, BCode (code_of r))
  | OGet w h => let '(s, r) := s_get h 0 (getw w x) in (setw w x s, BEntry (option_map view r))
  | OGetRaw w h => (x, BEntry (abs (getw w x) h))
  | OGetKey w h => (x, BKey (option_map (fun r => ekey (re r)) (s_find h (getw w x))))
  | OGetTTL w h => (x, BTTL (option_map (fun r => ettl (re r)) (s_find h (getw w x))))
  | OCheck w h => (x, BBool (s_check h (getw w x)))
  | ODel w h => (setw w x (s_delete h (getw w x)), BCode CNil)
  | OUpdTTL w h ttl ts => let '(s, r) := s_updatettl h ttl ts 0 (getw w x) in (setw w x s, BCode (code_of r))
  | OStats w => let t := s_stats (getw w x) in (x, BStats (st_alloc t) (st_inuse t) (st_garb t) (st_len t) (st_tables t))
  | OLen w => let t := s_stats (getw w x) in (x, BLen (st_len t) (st_inuse t))
  | ORange w => (x, BRange (sort_hv (map (fun r => (rh r, view (re r))) (s_all (getw w x)))))
  | OCompact w o => let s0 := getw w x in
                    let '(s, d) := s_compaction (ord_with o s0) (c_expired c) s0 in (setw w x s, BDone d)
  | OCompactAll w os => let '(s, n) := compact_all 400 (c_expired c) os (getw w x) 0 in (setw w x s, BSteps n)
  | OScanAll w count pat =>
      (x, BKeys (option_map (fun rs => sort_keys (map (fun r => ekey (re r)) rs))
                            (s_scan_all (matcher pat) count 400 0 (getw w x))))
  | OXfer ord =>
      match s_export (sa x) with
      | None => (x, BXfer false)
      | Some (i, t) =>
        let first := flat_map (fun h => match t_find h t with Some r => [r] | None => [] end) ord in
        let rest := filter (fun r => negb (existsb (N.eqb (rh r)) ord)) (trecs t) in
        ({| sa := s_drop i (sa x); sb := import_all (first ++ rest) (sb x) |}, BXfer true)
      end
  end.

Fixpoint list_eqb {A} (eq : A -> A -> bool) (a b : list A) : bool :=
  match a, b with
  | [], [] => true
  | x :: a', y :: b' => eq x y && list_eqb eq a' b'
  | _, _ => false
  end.
Definition opt_eqb {A} (eq : A -> A -> bool) (a b : option A) : bool :=
  match a, b with Some x, Some y => eq x y | None, None => true | _, _ => false end.
Definition bytes_eqb := list_eqb N.eqb.
Definition view_eqb (a b : view_t) : bool :=
  let '(k1, v1, t1, s1) := a in let '(k2, v2, t2, s2) := b in
  bytes_eqb k1 k2 && bytes_eqb v1 v2 && Z.eqb t1 t2 && Z.eqb s1 s2.
Definition code_eqb (a b : code) : bool :=
  match a, b with CNil, CNil | CKeyTooLarge, CKeyTooLarge | CEntryTooLarge, CEntryTooLarge
                | CNotFound, CNotFound | CSpin, CSpin => true | _, _ => false end.

(* byte accounting that depends on how entries of different sizes are packed by compaction (Go map order)
   is compared only in equal-size scenarios *)
Definition obs_eqb (c : cfg) (m i : obs) : bool :=
  match m, i with
  | BCode a, BCode b => code_eqb a b
  | BEntry a, BEntry b => opt_eqb view_eqb a b
  | BKey a, BKey b => opt_eqb bytes_eqb a b
  | BTTL a, BTTL b => opt_eqb Z.eqb a b
  | BBool a, BBool b => Bool.eqb a b
  | BStats a1 a2 a3 a4 a5, BStats b1 b2 b3 b4 b5 =>
      (a2 =? b2) && (a4 =? b4) && (if c_eqsize c then (a1 =? b1) && (a3 =? b3) && (a5 =? b5) else true)
  | BLen a1 a2, BLen b1 b2 => (a1 =? b1) && (a2 =? b2)
  | BRange a, BRange b => list_eqb (fun p q => (fst p =? fst q) && view_eqb (snd p) (snd q)) a b
  | BDone a, BDone b => Bool.eqb a b
  | BSteps a, BSteps b => if c_eqsize c then opt_eqb N.eqb a b
                          else match a, b with Some _, Some _ | None, None => true | _, _ => false end
  | BKeys a, BKeys b => opt_eqb (list_eqb bytes_eqb) a b
  | BXfer a, BXfer b => Bool.eqb a b
  | _, _ => false
  end.

(* index of the first step whose observation differs, with the model's observation *)
Fixpoint first_diff (c : cfg) (x : st) (l : list (op * obs)) (i : nat) : option (nat * obs) :=
  match l with
  | [] => None
  | (o, impl) :: l' =>
    let '(x', m) := step c x o in
    if obs_eqb c m impl then first_diff c x' l' (S i) else Some (i, m)
  end.

Definition run_case (cs : cfg * list (op * obs)) : option (nat * obs) :=
  first_diff (fst cs) (init (fst cs)) (snd cs) 0.

Fixpoint mismatches (l : list (cfg * list (op * obs))) (i : nat) : list (nat * nat) :=
  match l with
  | [] => []
  | c :: l' => match run_case c with
               | None => mismatches l' (S i)
               | Some (k, _) => (i, k) :: mismatches l' (S i)
               end
  end.

(* the model's own observations for a scenario (printed into replay files) *)
Fixpoint run_obs (c : cfg) (x : st) (l : list op) : list obs :=
  match l with
  | [] => []
  | o :: l' => let '(x', m) := step c x o in m :: run_obs c x' l'
  end.
