(* Life cycle of the fragment of one DMap in one partition under writers and the janitor.
   internal/dmap/fragment.go loadOrCreateFragment (under the partition's lock: the registered fragment, or a new empty one
   that is registered), loadOrCreateFragmentForWrite (look the fragment up, wait for ITS lock, and when it has been closed in the
   meantime start again), janitor.go (under the fragment's lock: an empty fragment is closed, destroyed and removed from the
   partition).  Writers are Put (putOnCluster), the replica write (putOnReplicaFragment) and the import of a moved fragment
   (balance.go mergeFragments).  The work done under one fragment's lock is one step; the lookup is another step, and other
   goroutines run in between.  [checked] = the writer looks at the closed flag after it got the lock (the code as it is now);
   without it a writer stores into whatever fragment it looked up (the write paths before the repair of D22, mergeFragments
   before the repair of D46). *)
From Coq Require Import List NArith Bool.
Import ListNotations.

Record frag := { closed : bool; content : list (N * N) }.        (* key, value *)

Record lstate := {
  frags : list frag;               (* every fragment object ever created, by number *)
  cur : option nat;                (* the one registered in the partition *)
  held : list (nat * nat);         (* writer -> the fragment it looked up and has not written to yet *)
  acked : list (N * N)             (* acknowledged writes *)
}.

Definition linit : lstate := {| frags := []; cur := None; held := []; acked := [] |}.

Inductive lstep :=
| LLoad (w : nat)                  (* loadOrCreateFragment *)
| LWrite (w : nat) (k v : N)       (* lock the fragment looked up, (check), store, acknowledge, unlock *)
| LJanitor.                        (* one pass over this fragment *)

Fixpoint lookup (w : nat) (h : list (nat * nat)) : option nat :=
  match h with [] => None | (w', i) :: r => if Nat.eqb w w' then Some i else lookup w r end.
Fixpoint drop (w : nat) (h : list (nat * nat)) : list (nat * nat) :=
  match h with [] => [] | (w', i) :: r => if Nat.eqb w w' then drop w r else (w', i) :: drop w r end.

Fixpoint upd (i : nat) (g : frag -> frag) (l : list frag) : list frag :=
  match l, i with
  | [], _ => []
  | f :: r, O => g f :: r
  | f :: r, S i' => f :: upd i' g r
  end.

Definition is_closed (s : lstate) (i : nat) : bool := match nth_error (frags s) i with Some f => closed f | None => true end.
Definition content_of (s : lstate) (i : nat) : list (N * N) := match nth_error (frags s) i with Some f => content f | None => [] end.

Definition step (checked : bool) (s : lstate) (o : lstep) : lstate :=
  match o with
  | LLoad w =>
    match lookup w (held s) with
    | Some _ => s                                       (* already holds one: writes first *)
    | None =>
      match cur s with
      | Some i => {| frags := frags s; cur := cur s; held := (w, i) :: held s; acked := acked s |}
      | None =>
        let i := length (frags s) in
        {| frags := frags s ++ [{| closed := false; content := [] |}]; cur := Some i; held := (w, i) :: held s; acked := acked s |}
      end
    end
  | LWrite w k v =>
    match lookup w (held s) with
    | None => s
    | Some i =>
      if checked && is_closed s i
      then {| frags := frags s; cur := cur s; held := drop w (held s); acked := acked s |}     (* start again: LLoad *)
      else {| frags := upd i (fun f => {| closed := closed f; content := (k, v) :: content f |}) (frags s);
              cur := cur s; held := drop w (held s); acked := (k, v) :: acked s |}
    end
  | LJanitor =>
    match cur s with
    | None => s
    | Some i =>
      match content_of s i with
      | [] => {| frags := upd i (fun f => {| closed := true; content := content f |}) (frags s);
                 cur := None; held := held s; acked := acked s |}
      | _ => s
      end
    end
  end.

Definition run (checked : bool) (l : list lstep) : lstate := fold_left (step checked) l linit.

(* what a reader of the partition sees *)
Definition visible (s : lstate) : list (N * N) := match cur s with Some i => content_of s i | None => [] end.
