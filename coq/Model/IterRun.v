(* Correspondence driver for Model/Iter.v: the harness records, for one client iteration, the routing-table entry
   of every partition, the DM.SCAN pages every listed owner answers, and the key sequence the real iterator
   handed out; the model has to produce the same sequence. *)
From Coq Require Import List NArith Bool Arith.
Require Import Olric.Model.Iter.
Import ListNotations.

Definition ptable := list (bool * owner * pages).

Fixpoint lookup_pages (t : ptable) (rep : bool) (o : owner) : pages :=
  match t with
  | [] => []
  | (r, o', ps) :: t' => if Bool.eqb r rep && N.eqb o' o then ps else lookup_pages t' rep o
  end.

Record icase := { ic_id : N; ic_parts : list (list owner * list owner * ptable); ic_fuel : nat; ic_obs : list key }.

Definition mk_part (x : list owner * list owner * ptable) : part :=
  let '(oP, oR, t) := x in {| p_owners := oP; p_replicas := oR; p_pages := lookup_pages t |}.

Definition run_case (c : icase) : option (list key) := iter_all (ic_fuel c) (map mk_part (ic_parts c)).

Fixpoint keys_eqb (a b : list key) : bool :=
  match a, b with
  | [], [] => true
  | x :: a', y :: b' => N.eqb x y && keys_eqb a' b'
  | _, _ => false
  end.

Definition case_ok (c : icase) : bool :=
  match run_case c with Some ys => keys_eqb ys (ic_obs c) | None => false end.

Definition mismatches (cs : list icase) : list N :=
  map ic_id (filter (fun c => negb (case_ok c)) cs).
