(* Executable driver for the correspondence check of C05 (checks/c05.py): cases with the implementation's
   observations, compared with Model/Quorum.v by vm_compute. *)
From Coq Require Import List NArith ZArith Bool.
Require Import Olric.Gen.Consts Olric.Model.LWW Olric.Model.Quorum Olric.Model.Resp.
Import ListNotations.

Inductive pclass := PAck | PWriteQuorum | PKeyTooLarge | PEntryTooLarge | POther.
Inductive gclass := GValue (val : list N) (ts : Z) | GNotFound | GReadQuorum | GOther.
Inductive rclass := QClusterQuorum | QHandled | QUnknown | QWrongArgs | QOther.
Inductive iclass := IcRefused | IcValue (n : Z) | IcOther.

Inductive qcase :=
| CPut (R W : nat) (backups_ok : list bool) (local_err : option lerr)
       (res : pclass) (owner_has : bool) (backups_have : list bool)
| CGet (RQ : nat) (now_ms : Z) (local : option entry) (backups : list (bool * option entry))
       (res : gclass)
(* a read with ReadRepair on: result and, per holder, the (value, timestamp) of its copy after the read *)
| CGetRR (RQ : nat) (now_ms : Z) (local : option entry) (backups : list (bool * option entry))
         (res : gclass) (after_local : option (list N * Z)) (after_backups : list (option (list N * Z)))
| CIncr (RQ : nat) (now_ms : Z) (local : option entry) (backups : list (bool * option entry)) (res : iclass)
| CServe (registered : list bytes) (num_members mcq : Z) (name : bytes) (args : list bytes) (res : rclass)
| CNewDMap (num_members mcq : Z) (res : rclass).

Definition pclass_of (r : put_res) : pclass :=
  match r with
  | Ack => PAck | EWriteQuorum => PWriteQuorum
  | ELocal LKeyTooLarge => PKeyTooLarge | ELocal LEntryTooLarge => PEntryTooLarge | ELocal LOther => POther
  end.
Definition pclass_eqb (a b : pclass) : bool :=
  match a, b with PAck, PAck | PWriteQuorum, PWriteQuorum | PKeyTooLarge, PKeyTooLarge
                | PEntryTooLarge, PEntryTooLarge => true | _, _ => false end.

Fixpoint bools_eqb (a b : list bool) : bool :=
  match a, b with [] , [] => true | x :: a', y :: b' => Bool.eqb x y && bools_eqb a' b' | _, _ => false end.

Definition gclass_of (r : get_res) : gclass :=
  match r with Value e => GValue (e_val e) (e_ts e) | ENotFound => GNotFound | EReadQuorum => GReadQuorum end.
Definition gclass_eqb (a b : gclass) : bool :=
  match a, b with
  | GValue v t, GValue v' t' => bytes_eqb v v' && Z.eqb t t'
  | GNotFound, GNotFound | GReadQuorum, GReadQuorum => true
  | _, _ => false
  end.

Definition rclass_of (r : reply) : rclass :=
  match r with RClusterQuorum => QClusterQuorum | RHandled => QHandled | RUnknown => QUnknown
             | RWrongArgs => QWrongArgs | RNotBootstrapped => QOther end.
Definition rclass_eqb (a b : rclass) : bool :=
  match a, b with QClusterQuorum, QClusterQuorum | QHandled, QHandled | QUnknown, QUnknown
                | QWrongArgs, QWrongArgs => true | _, _ => false end.

Definition copy_eqb (a b : option (list N * Z)) : bool :=
  match a, b with
  | None, None => true
  | Some (v, t), Some (v', t') => bytes_eqb v v' && Z.eqb t t'
  | _, _ => false
  end.
Fixpoint copies_eqb (a b : list (option (list N * Z))) : bool :=
  match a, b with [], [] => true | x :: a', y :: b' => copy_eqb x y && copies_eqb a' b' | _, _ => false end.

(* the layout of a CGetRR case as the [copies] / [reach] of Model/Quorum.v cluster_get (no previous owners) *)
Definition layout_copies (local : option entry) (backups : list (bool * option entry)) : copies :=
  fun s => match s with
           | SPrimary HLocal => local
           | SBackupFrag (HBackup i) => nth i (map snd backups) None
           | _ => None
           end.
Definition layout_reach (backups : list (bool * option entry)) : holder -> bool :=
  fun h => match h with HBackup i => nth i (map fst backups) false | _ => true end.
Definition proj_copy (o : option entry) : option (list N * Z) :=
  match o with Some e => Some (e_val e, e_ts e) | None => None end.

(* model observation of a case, rendered in the same classes *)
Inductive qobs :=
| MPutObs (res : pclass) (owner_has : bool) (backups_have : list bool)
| MGetObs (res : gclass)
| MGetRRObs (res : gclass) (after_local : option (list N * Z)) (after_backups : list (option (list N * Z)))
| MIncrObs (res : iclass)
| MReply (res : rclass).

Definition run_case (c : qcase) : option qobs :=
  match c with
  | CPut R W oks lerr res o bs =>
    let '(r, (mo, mbs)) := sync_put R W oks lerr in
    if pclass_eqb (pclass_of r) res && Bool.eqb mo o && bools_eqb mbs bs then None
    else Some (MPutObs (pclass_of r) mo mbs)
  | CGet RQ now local backups res =>
    let answers := map (fun p => remote_answer now (fst p) (snd p)) backups in
    let '(r, _) := get_on_cluster RQ false false now local [] answers in
    if gclass_eqb (gclass_of r) res then None else Some (MGetObs (gclass_of r))
  | CGetRR RQ now local backups res al ab =>
    let '(r, c') := cluster_get RQ true false now 0 (length backups) (layout_reach backups) (layout_copies local backups) in
    let ml := proj_copy (c' (SPrimary HLocal)) in
    let mb := map (fun i => proj_copy (c' (SBackupFrag (HBackup i)))) (seq 0 (length backups)) in
    if gclass_eqb (gclass_of r) res && copy_eqb ml al && copies_eqb mb ab then None
    else Some (MGetRRObs (gclass_of r) ml mb)
  | CIncr RQ now local backups res =>
    let answers := map (fun p => remote_answer now (fst p) (snd p)) backups in
    let value_of := fun e : entry => match parse_int 64 (e_val e) with Some z => z | None => 0%Z end in
    let m := match incr_on_cluster RQ false now local [] answers value_of 1 with IRefused => IcRefused | INew v => IcValue v end in
    (* a write quorum failure of the write half is reported as IcOther by the harness: only the read half is compared then *)
    match res, m with
    | IcRefused, IcRefused => None
    | IcValue a, IcValue b => if Z.eqb a b then None else Some (MIncrObs m)
    | IcOther, IcValue _ => None
    | _, _ => Some (MIncrObs m)
    end
  | CServe reg n mcq name args res =>
    let r := serve reg n mcq true name args in
    if rclass_eqb (rclass_of r) res then None else Some (MReply (rclass_of r))
  | CNewDMap n mcq res =>
    let r := fst (new_dmap (S := unit) (fun _ s => s) n mcq true [] tt) in
    if rclass_eqb (rclass_of r) res then None else Some (MReply (rclass_of r))
  end.

Fixpoint mismatches (l : list qcase) (i : nat) : list (nat * qobs) :=
  match l with
  | [] => []
  | c :: l' => match run_case c with
               | None => mismatches l' (S i)
               | Some m => (i, m) :: mismatches l' (S i)
               end
  end.
