(* Model of the routing-table computation of olric (property C13):
     internal/cluster/routingtable/distribute.go     distributePrimaryCopies, getReplicaOwners, distributeBackups
     internal/cluster/routingtable/routingtable.go   fillRoutingTable, updateRouting
     internal/cluster/routingtable/left_over_data.go processLeftOverDataReports
     internal/cluster/routingtable/operations.go     verifyRoutingTable, updateRoutingCommandHandler
     internal/discovery/discovery.go                 GetMembers (sorted by Birthdate), FindMemberByName/ID, GetCoordinator
     internal/cluster/partitions/partitions.go       PartitionIDByHKey;  cluster_client.go smartPick / clientByPartID
   Definitions only (executable Gallina); the lemmas are in Proofs/RoutingProofs.v.

   External inputs (never computed here):
     live          the members memberlist reports as alive (discovery.GetMembers)
     ring_owner    consistent.GetPartitionOwner(partID)
     ring_closest  consistent.GetClosestNForPartition(partID, n): None = ErrInsufficientMemberCount
     len           answer of the LengthOfPart call to a member: Some n | None = the call failed *)
From Coq Require Import List NArith ZArith Bool Arith.
Require Import Olric.Gen.Consts.
Import ListNotations.
Local Open Scope N_scope.

(* discovery.Member: Name (an index standing for the address string), ID = hash(name, birthdate), Birthdate *)
Record member := { m_name : N; m_id : N; m_birth : Z }.

Definition same_id (a b : member) : bool := m_id a =? m_id b.       (* Member.CompareByID *)
Definition same_name (a b : member) : bool := m_name a =? m_name b. (* compares names (NameHash in the code) *)

(* ---------------------------------------------------------------------------------------------
   discovery: GetMembers sorts by Birthdate; FindMemberByName / FindMemberByID scan that list;
   GetCoordinator is its head. *)
Fixpoint insert_birth (x : member) (l : list member) : list member :=
  match l with
  | [] => [x]
  | y :: r => if (m_birth x <=? m_birth y)%Z then x :: l else y :: insert_birth x r
  end.
Definition get_members (live : list member) : list member := fold_right insert_birth [] live.

Definition find_by_name (live : list member) (name : N) : option member :=
  find (fun m => m_name m =? name) (get_members live).
Definition find_by_id (live : list member) (id : N) : option member :=
  find (fun m => m_id m =? id) (get_members live).
Definition get_coordinator (live : list member) : option member := hd_error (get_members live).
Definition is_coordinator (live : list member) (self : member) : bool :=
  match get_coordinator live with Some c => m_id c =? m_id self | None => 0 =? m_id self end.

(* ---------------------------------------------------------------------------------------------
   the pruning loops of distribute.go, as coded:
       for i := 0; i < len(owners); i++ {
           if <drop owners[i]> { owners = append(owners[:i], owners[i+1:]...); i--; continue }
       }
   [fuel] bounds the number of iterations (every iteration either advances i or shortens the list, so
   [length owners] iterations always suffice: RoutingProofs.prune_loop_filter). *)
Definition remove_at {A} (i : nat) (l : list A) : list A := firstn i l ++ skipn (S i) l.

Fixpoint prune_loop (fuel i : nat) (keep : member -> bool) (owners : list member) : list member :=
  match fuel with
  | O => owners
  | S f =>
    match nth_error owners i with
    | None => owners                                   (* i >= len(owners): loop exit *)
    | Some o =>
      if keep o then prune_loop f (S i) keep owners    (* i++ *)
      else prune_loop f i keep (remove_at i owners)    (* delete in place; i--; i++ *)
    end
  end.
Definition prune (keep : member -> bool) (owners : list member) : list member :=
  prune_loop (length owners) 0 keep owners.

(* "Prune dead nodes": FindMemberByName(owner.Name) fails, or the found member has another ID (re-joined) *)
Definition alive_same_id (live : list member) (o : member) : bool :=
  match find_by_name live (m_name o) with
  | None => false
  | Some cur => same_id o cur
  end.

(* "Prune empty nodes": a failed call keeps the owner; count == 0 drops it *)
Definition nonempty_or_unknown (len : member -> option N) (o : member) : bool :=
  match len o with
  | None => true
  | Some c => negb (c =? 0)
  end.

(* "for i, owner := range owners { if owner.CompareByID(newOwner) { remove at i; append newOwner } }" *)
Fixpoint index_by_id (x : member) (l : list member) (i : nat) : option nat :=
  match l with
  | [] => None
  | y :: r => if same_id y x then Some i else index_by_id x r (S i)
  end.
Definition move_to_end (owners : list member) (x : member) : list member :=
  match index_by_id x owners 0 with
  | Some i => remove_at i owners ++ [x]
  | None => owners ++ [x]
  end.

(* distributePrimaryCopies(partID) *)
Definition distribute_primary (live : list member) (len : member -> option N) (ring_owner : member)
           (prev : list member) : list member :=
  match prev with
  | [] => [ring_owner]                                                       (* first run *)
  | _ => move_to_end (prune (nonempty_or_unknown len) (prune (alive_same_id live) prev)) ring_owner
  end.

(* getReplicaOwners: for i := ReplicaCount; i > 0; i-- { GetClosestNForPartition(partID, i) } *)
Fixpoint get_replica_owners (closest : nat -> option (list member)) (i : nat) : option (list member) :=
  match i with
  | O => None
  | S i' => match closest i with
            | Some l => Some l
            | None => get_replica_owners closest i'
            end
  end.

(* distributeBackups(partID) *)
Definition distribute_backups (R : nat) (live : list member) (len : member -> option N)
           (closest : nat -> option (list member)) (prev : list member) : list member :=
  match get_replica_owners closest R with
  | None => []                                                               (* return nil *)
  | Some l =>
    let news := tl l in                                                      (* newOwners[1:] *)
    match prev with
    | [] => news                                                             (* first run *)
    | _ => fold_left move_to_end news
                     (prune (nonempty_or_unknown len) (prune (alive_same_id live) prev))
    end
  end.

(* ---------------------------------------------------------------------------------------------
   the table *)
Record route := { r_owners : list member; r_backups : list member }.
Definition table := list route.                       (* index = partition id *)

Inductive kind := Primary | Backup.

Record env := {
  e_live : list member;
  e_R : nat;                                            (* config.ReplicaCount *)
  e_ring_owner : N -> member;
  e_ring_closest : N -> nat -> option (list member);
  e_len : kind -> N -> member -> option N
}.

Definition empty_route : route := {| r_owners := []; r_backups := [] |}.
Definition route_of (t : table) (p : nat) : route := nth p t empty_route.

Definition distribute_route (e : env) (p : N) (prev : route) : route :=
  {| r_owners := distribute_primary (e_live e) (e_len e Primary p) (e_ring_owner e p) (r_owners prev);
     r_backups := if (N.to_nat minimum_replica_count <? e_R e)%nat
                  then distribute_backups (e_R e) (e_live e) (e_len e Backup p) (e_ring_closest e p) (r_backups prev)
                  else [] |}.

(* fillRoutingTable: partitions 0 .. P-1, previous lists read from the coordinator's own partitions *)
Fixpoint fill_from (e : env) (prev : table) (p : nat) (n : nat) : table :=
  match n with
  | O => []
  | S n' => distribute_route e (N.of_nat p) (route_of prev p) :: fill_from e prev (S p) n'
  end.
Definition fill_routing_table (e : env) (P : nat) (prev : table) : table := fill_from e prev 0 P.

(* ---------------------------------------------------------------------------------------------
   processLeftOverDataReports: the coordinator prepends a reporter that is not yet listed (by ID) *)
Record report := { rp_member : member; rp_parts : list nat; rp_backups : list nat }.

Definition listed (m : member) (owners : list member) : bool := existsb (same_id m) owners.
Definition ensure_ownership (m : member) (owners : list member) : list member :=
  if listed m owners then owners else m :: owners.

Fixpoint update_nth {A} (n : nat) (f : A -> A) (l : list A) : list A :=
  match l, n with
  | [], _ => []
  | x :: r, O => f x :: r
  | x :: r, S n' => x :: update_nth n' f r
  end.

Definition ensure_primary (m : member) (t : table) (p : nat) : table :=
  update_nth p (fun r => {| r_owners := ensure_ownership m (r_owners r); r_backups := r_backups r |}) t.
Definition ensure_backup (m : member) (t : table) (p : nat) : table :=
  update_nth p (fun r => {| r_owners := r_owners r; r_backups := ensure_ownership m (r_backups r) |}) t.

Definition process_report (t : table) (r : report) : table :=
  fold_left (ensure_backup (rp_member r)) (rp_backups r) (fold_left (ensure_primary (rp_member r)) (rp_parts r) t).
(* Go iterates the reports map in an unspecified order: the list order is that oracle *)
Definition process_reports (t : table) (rs : list report) : table := fold_left process_report rs t.

(* prepareLeftOverDataReport of a member: partitions whose Length() != 0 *)
Fixpoint parts_with_data (holds : N -> bool) (p n : nat) : list nat :=
  match n with
  | O => []
  | S n' => if holds (N.of_nat p) then p :: parts_with_data holds (S p) n' else parts_with_data holds (S p) n'
  end.
Definition prepare_report (holds : kind -> N -> member -> bool) (P : nat) (m : member) : report :=
  {| rp_member := m;
     rp_parts := parts_with_data (fun p => holds Primary p m) 0 P;
     rp_backups := parts_with_data (fun p => holds Backup p m) 0 P |}.

(* ---------------------------------------------------------------------------------------------
   the push: verifyRoutingTable + updateRoutingCommandHandler on the receiver *)
Record node := { n_self : member; n_view : list member; n_table : table }.

Definition verify_routing_table (view : list member) (sender_id : N) (t : table) (P : nat) : bool :=
  match find_by_id view sender_id with
  | None => false                                                         (* FindMemberByID failed *)
  | Some c =>
    match get_coordinator view with
    | None => false
    | Some mine => same_id c mine && (length t =? P)%nat
    end
  end.

Definition receive (P : nat) (sender_id : N) (t : table) (nd : node) : node * bool :=
  if verify_routing_table (n_view nd) sender_id t P
  then ({| n_self := n_self nd; n_view := n_view nd; n_table := t |}, true)
  else (nd, false).

Definition push_all (P : nat) (sender_id : N) (t : table) (nodes : list node) : list node * bool :=
  let rs := map (receive P sender_id t) nodes in
  (map fst rs, forallb snd rs).

(* updateRouting on node [c]: only when it considers itself coordinator; fill, push to every member,
   and (only when every push succeeded) process the left-over reports into the coordinator's own lists.
   Returns the nodes after the round and the coordinator's own table after the reports. *)
Definition update_routing (e : env) (P : nat) (holds : kind -> N -> member -> bool)
           (c : node) (others : list node) : option (list node * table) :=
  if is_coordinator (n_view c) (n_self c) then
    let t := fill_routing_table e P (n_table c) in
    let '(nodes', ok) := push_all P (m_id (n_self c)) t (c :: others) in
    if ok then Some (nodes', process_reports t (map (fun nd => prepare_report holds P (n_self nd)) (c :: others)))
    else Some (nodes', t)
  else None.

(* ---------------------------------------------------------------------------------------------
   key -> partition -> owner, on a member and in the cluster client *)
Definition partition_id_by_hkey (P hkey : N) : N := hkey mod P.            (* partitions.PartitionIDByHKey *)
Definition smart_pick_part (client_P hkey : N) : N := hkey mod client_P.   (* cluster_client.go smartPick *)
(* fetchRoutingTable: partitionCount = len(routingTable) *)
Definition client_partition_count {A} (fetched : list A) : N := N.of_nat (length fetched).

Definition last_opt {A} (l : list A) : option A :=
  match rev l with [] => None | x :: _ => Some x end.
(* partition.Owner(): owners[len-1] (panics when empty) ; clientByPartID: PrimaryOwners[len-1] *)
Definition owner_of (t : table) (p : nat) : option member := last_opt (r_owners (route_of t p)).
Definition client_route (r : route) : list N * list N := (map m_name (r_owners r), map m_name (r_backups r)).
Definition client_owner_of (ct : list (list N * list N)) (p : nat) : option N :=
  last_opt (fst (nth p ct ([], []))).

(* ---------------------------------------------------------------------------------------------
   the property, as an executable predicate on one table (C13 wording) *)
Definition live_by_id (live : list member) (m : member) : bool :=
  existsb (fun l => same_id l m && same_name l m) live.

Fixpoint nodup_ids (l : list member) : bool :=
  match l with
  | [] => true
  | x :: r => negb (existsb (same_id x) r) && nodup_ids r
  end.

(* min(R, N) - 1 *)
Definition backup_count (R nm : nat) : nat := Nat.min R nm - 1.

Definition valid_route (live : list member) (R : nat) (holds : kind -> N -> member -> bool) (p : N) (r : route) : bool :=
  let owners := r_owners r in
  let backups := r_backups r in
  let nb := backup_count R (length live) in
  match rev owners with
  | [] => false                                                            (* exactly one primary owner ... *)
  | primary :: olds =>
    live_by_id live primary                                                (* ... that is a live member *)
    && nodup_ids owners && nodup_ids backups
    && forallb (fun o => live_by_id live o && holds Primary p o) olds      (* further listed owners: live, hold data *)
    && (nb <=? length backups)%nat
    && (let cur := skipn (length backups - nb) backups in                  (* the current backup owners *)
        let extra := firstn (length backups - nb) backups in
        forallb (fun b => live_by_id live b && negb (same_id b primary)) cur
        && forallb (fun b => live_by_id live b && holds Backup p b) extra)
  end.

Fixpoint valid_routes (live : list member) (R : nat) (holds : kind -> N -> member -> bool) (p : nat) (t : table) : bool :=
  match t with
  | [] => true
  | r :: t' => valid_route live R holds (N.of_nat p) r && valid_routes live R holds (S p) t'
  end.

Definition primaries_of (t : table) : list member :=
  flat_map (fun r => match last_opt (r_owners r) with Some m => [m] | None => [] end) t.
Definition owned_count (t : table) (m : member) : nat := length (filter (same_id m) (primaries_of t)).

(* consistent.averageLoad: ceil(float64(P / N) * Load) with Load = load_num / load_den *)
Definition load_bound (np nm load_num load_den : N) : N :=
  if nm =? 0 then 0 else ((np / nm) * load_num + load_den - 1) / load_den.

Definition balanced (live : list member) (load_num load_den : N) (t : table) : bool :=
  let bound := load_bound (N.of_nat (length t)) (N.of_nat (length live)) load_num load_den in
  forallb (fun m => N.of_nat (owned_count t m) <=? bound) live.

Definition valid_table (live : list member) (R P : nat) (load_num load_den : N)
           (holds : kind -> N -> member -> bool) (t : table) : bool :=
  (length t =? P)%nat && valid_routes live R holds 0 t && balanced live load_num load_den t.
