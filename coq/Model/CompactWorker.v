(* The compaction worker on one fragment: internal/dmap/compaction.go callCompactionOnFragment calls fragment.Compaction
   (internal/dmap/fragment.go) until it reports done, releasing the fragment lock for a millisecond between two calls.
   In that gap the fragment can be closed (the janitor wipes out an empty fragment, DM.DESTROY closes every fragment).
   fragment.Compaction on a closed fragment does not touch the storage; [closed_done] is what it reports then.
   [closeat = Some c]: the fragment is closed before call number c (counted from 0); None: it stays open. *)
From Coq Require Import List NArith Bool.
Require Import Olric.Model.Store.
Import ListNotations.

Fixpoint worker (closed_done : bool) (ordf : store -> list N) (expired : bool) (closeat : option nat) (n : nat) (s : store)
  : store * bool :=
  match n with
  | O => (s, false)
  | S n' =>
    match closeat with
    | Some O => if closed_done then (s, true) else worker closed_done ordf expired (Some O) n' s
    | _ =>
      let '(s', d) := s_compaction (ordf s) expired s in
      if d then (s', true) else worker closed_done ordf expired (option_map pred closeat) n' s'
    end
  end.

(* fragment.Compaction as it is now: a closed fragment has nothing left to compact *)
Definition worker_now := worker true.
(* as it was (D45): "return false, nil" for a closed fragment *)
Definition worker_before := worker false.
