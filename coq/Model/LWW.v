(* C06 - conflicting copies resolve to the newest write.
   Executable model of internal/dmap/get.go (sortVersions, sanitizeAndSortVersions, readRepair) and
   internal/dmap/balance.go (fragmentMergeFunction, mergeFragments) + internal/kvstore/transport.go (Import),
   as the code is AFTER the fix: commits (Import returns the first callback error).  Definitions only. *)
From Coq Require Import List NArith ZArith Bool.
Import ListNotations.
Local Open Scope Z_scope.

(* One stored copy of a key: value bytes, absolute expiry in ms (0 = none), write timestamp (ns). The key
   itself is implicit (all copies in one question are copies of one key). *)
Record entry := { e_val : list N; e_ttl : Z; e_ts : Z }.

(* dmap.go isKeyExpired, with the clock reading in ms as an argument *)
Definition is_expired (now_ms : Z) (e : entry) : bool :=
  negb (e_ttl e =? 0) && (e_ttl e <=? now_ms).

(* ------------------------------------------------------------------------------------------------------
   sortVersions: sort.Slice(versions, func(i,j) { return ts[i] >= ts[j] }).  For slices of at most 12
   elements sort.Slice runs insertionSort_func (src/sort/zsortfunc.go):
       for i := a+1; i < b; i++ { for j := i; j > a && less(j, j-1); j-- { swap(j, j-1) } }
   With this less, element i moves left past every left neighbour whose timestamp is <= its own, i.e. past the
   maximal suffix of the already processed prefix made of such elements.  The model is that algorithm; the
   number of gathered versions is 1 + previous owners + ReplicaCount-1, far below 12.
   ------------------------------------------------------------------------------------------------------ *)
Section Sort.
  Context {A : Type} (ts : A -> Z).

  (* prefix [l] (already processed, in slice order), new element [x] arriving at its right end *)
  Fixpoint ins (x : A) (l : list A) : list A :=
    match l with
    | [] => [x]
    | y :: l' => if forallb (fun z => ts z <=? ts x) l then x :: l else y :: ins x l'
    end.

  Definition sort_versions (l : list A) : list A := fold_left (fun acc x => ins x acc) l [].

  (* what the head of the sorted slice turns out to be: the LAST element carrying the maximal timestamp *)
  Definition pick (best : option A) (x : A) : option A :=
    match best with
    | None => Some x
    | Some b => if ts b <=? ts x then Some x else Some b
    end.
  Definition last_max (l : list A) : option A := fold_left pick l None.
End Sort.

(* ------------------------------------------------------------------------------------------------------
   The versions gathered by one read (getOnCluster).  A holder is the partition owner itself, a previous
   owner (asked with DM.GETENTRY, primary fragment) or a backup owner (DM.GETENTRY .. RC, backup fragment).
   ------------------------------------------------------------------------------------------------------ *)
Inductive holder := HLocal | HPrev (i : nat) | HBackup (i : nat).

Definition holder_eqb (a b : holder) : bool :=
  match a, b with
  | HLocal, HLocal => true
  | HPrev i, HPrev j | HBackup i, HBackup j => Nat.eqb i j
  | _, _ => false
  end.

(* version{host, entry}; entry = None is the nil entry lookupOnThisNode returns when it finds nothing *)
Definition version := (holder * option entry)%type.

(* sanitizeAndSortVersions *)
Definition sanitize (vs : list version) : list (holder * entry) :=
  flat_map (fun v => match snd v with Some e => [(fst v, e)] | None => [] end) vs.

Definition sanitize_and_sort (vs : list version) : list (holder * entry) :=
  let s := sanitize vs in
  if (length s <=? 1)%nat then s else sort_versions (fun p => e_ts (snd p)) s.

(* readRepair(winner, versions): every gathered version whose entry is nil or whose timestamp differs from the
   winner's gets the winner written to its host (locally with putEntryOnFragment into the primary fragment,
   remotely with DM.PUTENTRY, which writes the BACKUP fragment of that host - also when the host is a previous
   owner). Hosts that did not answer the lookup are not in [versions] and are not repaired; a version with the
   winner's timestamp is left alone whatever its value. *)
Definition needs_repair (winner : entry) (v : version) : bool :=
  match snd v with
  | None => true
  | Some e => negb (e_ts e =? e_ts winner)
  end.

Definition read_repair (winner : entry) (vs : list version) : list holder :=
  map fst (filter (needs_repair winner) vs).

(* ------------------------------------------------------------------------------------------------------
   Fragment merge.  A fragment's storage is a map hkey -> entry; [fits] says whether the storage engine accepts
   an entry (Put fails with ErrEntryTooLarge / ErrKeyTooLarge otherwise).
   ------------------------------------------------------------------------------------------------------ *)
Definition store := list (N * entry).

Fixpoint lookup (h : N) (s : store) : option entry :=
  match s with
  | [] => None
  | (k, e) :: s' => if N.eqb k h then Some e else lookup h s'
  end.

Fixpoint insert (h : N) (e : entry) (s : store) : store :=
  match s with
  | [] => [(h, e)]
  | (k, e') :: s' => if N.eqb k h then (h, e) :: s' else (k, e') :: insert h e s'
  end.

Inductive merge_res := MPut (e : entry) | MKeep | MErr.

(* fragmentMergeFunction: versions = sortVersions([current, incoming]); the incoming entry is written iff it
   ends up first, i.e. iff its timestamp is >= the current one's (equal timestamps: the incoming copy replaces
   the stored one) *)
Definition fragment_merge (fits : entry -> bool) (current : option entry) (incoming : entry) : merge_res :=
  match current with
  | None => if fits incoming then MPut incoming else MErr
  | Some c =>
    match sort_versions (fun p : bool * entry => e_ts (snd p)) [(true, c); (false, incoming)] with
    | (true, _) :: _ => MKeep                       (* winner == current: nothing is written *)
    | (false, w) :: _ => if fits w then MPut w else MErr
    | [] => MErr                                     (* unreachable *)
    end
  end.

(* KVStore.Import (after the fix): walk the entries of the received table, stop at the first callback error and
   return it.  The order of the walk is Go map order: an input of the model (the list order). *)
Fixpoint import (fits : entry -> bool) (s : store) (frag : list (N * entry)) : store * bool :=
  match frag with
  | [] => (s, true)
  | (h, e) :: frag' =>
    match fragment_merge fits (lookup h s) e with
    | MErr => (s, false)
    | MKeep => import fits s frag'
    | MPut w => import fits (insert h w s) frag'
    end
  end.

(* fragments delivered one after the other to one receiving fragment (moveFragmentCommandHandler ->
   mergeFragments); the reply of each delivery is OK iff Import returned nil *)
Fixpoint merge_from (fits : entry -> bool) (s : store) (fs : list (list (N * entry))) : store * list bool :=
  match fs with
  | [] => (s, [])
  | f :: fs' =>
    let '(s1, ok) := import fits s f in
    let '(s2, oks) := merge_from fits s1 fs' in
    (s2, ok :: oks)
  end.

Definition merge_all (fits : entry -> bool) (fs : list (list (N * entry))) : store :=
  fst (merge_from fits [] fs).

(* ------------------------------------------------------------------------------------------------------
   Where copies live.  A read looks a previous owner up in its PRIMARY fragment but repairs it (DM.PUTENTRY)
   in its BACKUP fragment; the owner itself and the backup owners are repaired where they were read.
   ------------------------------------------------------------------------------------------------------ *)
Inductive slot := SPrimary (h : holder) | SBackupFrag (h : holder).

Definition slot_eqb (a b : slot) : bool :=
  match a, b with
  | SPrimary x, SPrimary y | SBackupFrag x, SBackupFrag y => holder_eqb x y
  | _, _ => false
  end.

Definition lookup_slot (h : holder) : slot :=
  match h with HLocal => SPrimary HLocal | HPrev i => SPrimary (HPrev i) | HBackup i => SBackupFrag (HBackup i) end.

Definition repair_slot (h : holder) : slot :=
  match h with HLocal => SPrimary HLocal | HPrev i => SBackupFrag (HPrev i) | HBackup i => SBackupFrag (HBackup i) end.

Definition copies := slot -> option entry.

Definition apply_repair (winner : entry) (targets : list holder) (c : copies) : copies :=
  fun s => if existsb (fun h => slot_eqb (repair_slot h) s) targets then Some winner else c s.

(* A clock reading (ms) used by the run files: after every "expired" ttl the harness builds (1 ms after the
   epoch), before every real expiry. *)
Definition far_future_ms : Z := 4102444800000.
