(* Byte-level layout of a storage entry: internal/kvstore/entry/entry.go (Encode/Decode) and the
   identical layout written by table.Put / read by table.Get.
     KEY-LENGTH(uint8) | KEY | TTL(uint64) | TIMESTAMP(uint64) | LASTACCESS(uint64) | VALUE-LENGTH(uint32) | VALUE
   Go's fixed widths are written explicitly: klen wraps mod 2^8, vlen mod 2^32, the three int64 fields are
   stored as their two's-complement uint64. *)
From Coq Require Import List NArith ZArith Lia Bool.
From Coq Require Import ZifyN ZifyNat ZifyBool.
Require Import Olric.Gen.Consts.
Import ListNotations.
Local Open Scope N_scope.

Definition byte := N.
Definition wf_byte (b : byte) : bool := b <? 256.
Definition wf_bytes (l : list byte) : bool := forallb wf_byte l.
(* compact notation for runs of one byte in generated case files *)
Definition rp (b : N) (n : nat) : list byte := repeat b n.

(* big-endian, fixed width (in bytes) *)
Fixpoint be (w : nat) (n : N) : list byte :=
  match w with
  | O => []
  | S w' => be w' (n / 256) ++ [n mod 256]
  end.

Fixpoint unbe_acc (acc : N) (l : list byte) : N :=
  match l with
  | [] => acc
  | b :: l' => unbe_acc (acc * 256 + b) l'
  end.
Definition unbe (l : list byte) : N := unbe_acc 0 l.

(* int64 <-> uint64 (two's complement), as the Go conversions uint64(x) / int64(y) *)
Definition two63 : Z := 9223372036854775808%Z.
Definition two64 : Z := 18446744073709551616%Z.
Definition u64_of_i64 (z : Z) : N := Z.to_N (z mod two64).
Definition i64_of_u64 (n : N) : Z :=
  if (Z.of_N n <? two63)%Z then Z.of_N n else (Z.of_N n - two64)%Z.
Definition wf_i64 (z : Z) : bool := ((- two63 <=? z) && (z <? two63))%Z.

Record entry := { ekey : list byte; ettl : Z; ets : Z; ela : Z; evalue : list byte }.

Definition esize (e : entry) : N := N.of_nat (length (ekey e) + length (evalue e)) + metadata_length.

Definition encode_entry (e : entry) : list byte :=
  [N.of_nat (length (ekey e)) mod 256] ++ ekey e
  ++ be 8 (u64_of_i64 (ettl e)) ++ be 8 (u64_of_i64 (ets e)) ++ be 8 (u64_of_i64 (ela e))
  ++ be 4 (N.of_nat (length (evalue e)) mod 2^32) ++ evalue e.

Definition take (n : nat) (l : list byte) : option (list byte * list byte) :=
  if Nat.leb n (length l) then Some (firstn n l, skipn n l) else None.

(* Decode reads a prefix of buf; the remainder is returned so that slab reads (which decode in the middle
   of a larger byte string) and raw entries (remainder = []) share one definition. A short buffer is the
   model of Go's slice-bounds panic. *)
Definition decode_entry (buf : list byte) : option (entry * list byte) :=
  match buf with
  | [] => None
  | kl :: r0 =>
    match take (N.to_nat kl) r0 with None => None | Some (k, r1) =>
    match take 8 r1 with None => None | Some (t, r2) =>
    match take 8 r2 with None => None | Some (s, r3) =>
    match take 8 r3 with None => None | Some (a, r4) =>
    match take 4 r4 with None => None | Some (vl, r5) =>
    match take (N.to_nat (unbe vl)) r5 with None => None | Some (v, r6) =>
      Some ({| ekey := k; ettl := i64_of_u64 (unbe t); ets := i64_of_u64 (unbe s);
               ela := i64_of_u64 (unbe a); evalue := v |}, r6)
    end end end end end end
  end.

(* What the code accepts: table.Put rejects len(key) >= MaxKeyLength; the value length must fit uint32
   (kvstore.Put rejects anything larger than the table, and tables are < 4 GiB in every scenario). *)
Definition wf_entry (e : entry) : Prop :=
  N.of_nat (length (ekey e)) < max_key_length /\ N.of_nat (length (evalue e)) < 2^32 /\
  wf_i64 (ettl e) = true /\ wf_i64 (ets e) = true /\ wf_i64 (ela e) = true.

Definition wf_entryb (e : entry) : bool :=
  (N.of_nat (length (ekey e)) <? max_key_length) && (N.of_nat (length (evalue e)) <? 2^32) &&
  wf_i64 (ettl e) && wf_i64 (ets e) && wf_i64 (ela e).
