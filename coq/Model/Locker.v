(* internal/locker: the named mutex behind the atomic operations (Incr / Decr / IncrByFloat / GetPut take
   locker.Lock(dmap + key) on the partition owner) and behind Unlock / Lease.
   A Locker is a map  name -> *lockCtr  guarded by one mutex; a lockCtr is an inner mutex plus a count of waiters.
   lockCtr objects are heap objects: a thread that has looked one up keeps its address while the map may change,
   so the model keeps a heap of counters and a map from names to addresses. The four atomic stretches of the code:

     enter    (Lock, under l.mu)    look the name up, create the counter if missing, waiters++
     acquire  (nameLock.Lock())     blocks while the inner mutex is held
     dec      (nameLock.dec())      waiters--, then Lock returns
     unlock   (Unlock, under l.mu)  look the name up (ErrNoSuchLock if missing), delete the entry if waiters = 0,
                                    release the inner mutex OF THE COUNTER FOUND IN THE MAP

   Any number of threads, any interleaving of these steps. *)
From Coq Require Import List NArith ZArith Bool.
Import ListNotations.

Definition name := N.
Definition addr := nat.
Definition tid := nat.

Record ctr := { held : option tid; waiters : Z }.

Inductive pc :=
| Idle
| Waiting (n : name) (a : addr)      (* after enter, blocked on or about to take the inner mutex *)
| Acquired (n : name) (a : addr)     (* inner mutex taken, waiters not yet decremented *)
| Holding (n : name) (a : addr).     (* Lock has returned *)

Record lstate := { heap : list ctr; lmap : list (name * addr); pcs : list pc }.

Fixpoint find (n : name) (m : list (name * addr)) : option addr :=
  match m with
  | [] => None
  | (n', a) :: m' => if N.eqb n n' then Some a else find n m'
  end.
Fixpoint del (n : name) (m : list (name * addr)) : list (name * addr) :=
  match m with
  | [] => []
  | (n', a) :: m' => if N.eqb n n' then del n m' else (n', a) :: del n m'
  end.

Fixpoint upd {A} (i : nat) (x : A) (l : list A) : list A :=
  match l, i with
  | [], _ => []
  | _ :: t, O => x :: t
  | y :: t, S i' => y :: upd i' x t
  end.

Definition pc_of (s : lstate) (t : tid) : pc := nth t (pcs s) Idle.
Definition ctr_at (s : lstate) (a : addr) : ctr := nth a (heap s) {| held := None; waiters := 0 |}.

Inductive lstep_op := Enter (t : tid) (n : name) | Acquire (t : tid) | Dec (t : tid) | Unlock (t : tid) (n : name).

Inductive outcome := Done | Blocked | NotEnabled | ErrNoSuchLock.

(* one atomic stretch; a step that is not enabled (wrong program counter, unknown thread) changes nothing *)
Definition lk_step (s : lstate) (o : lstep_op) : lstate * outcome :=
  match o with
  | Enter t n =>
    if Nat.ltb t (length (pcs s)) then
      match pc_of s t with
      | Idle =>
        match find n (lmap s) with
        | Some a =>
          let c := ctr_at s a in
          ({| heap := upd a {| held := held c; waiters := waiters c + 1 |} (heap s); lmap := lmap s;
              pcs := upd t (Waiting n a) (pcs s) |}, Done)
        | None =>
          let a := length (heap s) in
          ({| heap := heap s ++ [{| held := None; waiters := 1 |}]; lmap := (n, a) :: lmap s;
              pcs := upd t (Waiting n a) (pcs s) |}, Done)
        end
      | _ => (s, NotEnabled)
      end
    else (s, NotEnabled)
  | Acquire t =>
    match pc_of s t with
    | Waiting n a =>
      let c := ctr_at s a in
      match held c with
      | None => ({| heap := upd a {| held := Some t; waiters := waiters c |} (heap s); lmap := lmap s;
                    pcs := upd t (Acquired n a) (pcs s) |}, Done)
      | Some _ => (s, Blocked)
      end
    | _ => (s, NotEnabled)
    end
  | Dec t =>
    match pc_of s t with
    | Acquired n a =>
      let c := ctr_at s a in
      ({| heap := upd a {| held := held c; waiters := waiters c - 1 |} (heap s); lmap := lmap s;
          pcs := upd t (Holding n a) (pcs s) |}, Done)
    | _ => (s, NotEnabled)
    end
  | Unlock t n =>
    match pc_of s t with
    | Holding n' _ =>
      if N.eqb n n' then
        match find n (lmap s) with
        | None => (s, ErrNoSuchLock)
        | Some a =>
          let c := ctr_at s a in
          ({| heap := upd a {| held := None; waiters := waiters c |} (heap s);
              lmap := if Z.eqb (waiters c) 0 then del n (lmap s) else lmap s;
              pcs := upd t Idle (pcs s) |}, Done)
        end
      else (s, NotEnabled)
    | _ => (s, NotEnabled)
    end
  end.

Definition lk_init (threads : nat) : lstate := {| heap := []; lmap := []; pcs := repeat Idle threads |}.

Fixpoint lk_run (s : lstate) (l : list lstep_op) : lstate :=
  match l with
  | [] => s
  | o :: l' => lk_run (fst (lk_step s o)) l'
  end.

(* thread t is inside the critical section of name n *)
Definition in_cs (s : lstate) (t : tid) (n : name) : bool :=
  match pc_of s t with
  | Acquired n' _ | Holding n' _ => N.eqb n n'
  | _ => false
  end.
Definition busy (s : lstate) (t : tid) (n : name) : bool :=
  match pc_of s t with
  | Waiting n' _ | Acquired n' _ | Holding n' _ => N.eqb n n'
  | Idle => false
  end.
