(* What an operation means after it travelled over the wire: internal/dmap/put_handlers.go:putCommandHandler
   (after the fix: two independent switches) decodes the parsed DM.PUT record (Model/Proto.v: put_t) into the
   PutConfig the owner executes (Model/DMap.v: pcfg). Float seconds -> milliseconds is an oracle [fms]. *)
From Coq Require Import List NArith ZArith Bool.
Require Import Olric.Model.Proto Olric.Model.DMap.
Import ListNotations.
Local Open Scope Z_scope.

Section Paths.
  Variable F : Type.
  Variable fzero : F.
  Variable fis_zero : F -> bool.
  Variable fms : F -> Z.                    (* time.Duration(x * float64(time.Second)) in milliseconds *)

  (* switch { case NX: HasNX; case XX: HasXX }  then  switch { case EX != 0 ..; case PX != 0 ..; case EXAT ..; case PXAT .. } *)
  Definition handler_decode (p : put_t F) : pcfg :=
    {| nx := p_nx p;
       xx := negb (p_nx p) && p_xx p;
       pexp := if negb (fis_zero (p_ex p)) then ERel (fms (p_ex p))
               else if negb (p_px p =? 0) then ERel (p_px p)
               else if negb (fis_zero (p_exat p)) then EAbs (fms (p_exat p))
               else if negb (p_pxat p =? 0) then EAbs (p_pxat p)
               else ENone |}.

  (* the configuration the caller asked for, as the owner-side code sees it when the caller IS the owner *)
  Definition cfg_of (x : expiry F) (c : cond) : pcfg :=
    {| nx := match c with KNX => true | _ => false end;
       xx := match c with KXX => true | _ => false end;
       pexp := match x with
               | XNone _ => ENone
               | XEX _ s => ERel (fms s) | XPX _ ms => ERel ms
               | XEXAT _ s => EAbs (fms s) | XPXAT _ ms => EAbs ms
               end |}.

  (* an expiry option that is present is not zero (EX 0 / PX 0 are outside the property) *)
  Definition expiry_nonzero (x : expiry F) : Prop :=
    match x with
    | XNone _ => True
    | XEX _ s | XEXAT _ s => fis_zero s = false
    | XPX _ ms | XPXAT _ ms => ms <> 0
    end.
End Paths.
