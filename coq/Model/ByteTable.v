(* BYTE-level model of a storage table and of the store built from tables, with explicit memory blocks.

   Part 1 (C17): one table of internal/kvstore/table/table.go as bytes: the slab is a [list byte] of fixed
   length [b_alloc] that is written IN PLACE at [b_off] (copy(t.memory[t.offset:], ...)), the Go map hkeys is
   an association list hkey -> offset, Get decodes at the offset with the layout of Model/Codec.v.
     Table.Put(hkey, e)  =  key-length guard; then exactly Table.PutRaw(hkey, encode(e with lastAccess = now))
   (same guard inuse+offset >= allocated, same Delete of the existing version, same bytes).

   Part 2 (C18): a heap of blocks and Go slice descriptors (block, offset, length). Slabs, the buffers
   handed back to callers and the buffers callers pass in are all blocks of ONE heap, so that aliasing can be
   expressed: a slice into a slab block sees every later write of the store. The store of part 2 keeps its
   slab bytes in heap blocks and runs the table operations of part 1 on them.
     Table.Get / Table.get         -> the value is copied into a FRESH block (after fix 01-table-get-copy)
                                      [copy_on_get = false] is the code before the fix: a slice INTO the slab
     resp.Scan into *[]byte/*string-> shares the block of its input (BytesToString: same block)
     DMap.Put                      -> copies the caller's bytes into a fresh block (e.value), Table.Put copies
                                      that into the slab
     Table.Reset                   -> offset 0, empty index, slab bytes untouched and later overwritten
   lastAccess stamping (Table.Get writes 8 bytes into the slab) is part of the heap model; the in-place
   UpdateTTL is record-level only (Model/Store.v). *)
From Coq Require Import List NArith ZArith Bool Arith.
Require Import Olric.Gen.Consts Olric.Model.Codec.
Import ListNotations.

(* ------------------------------ association maps hkey -> offset ------------------------------ *)
Definition amap := list (N * nat).
Fixpoint lookup (h : N) (m : amap) : option nat :=
  match m with [] => None | (k, v) :: m' => if N.eqb k h then Some v else lookup h m' end.
Fixpoint remove (h : N) (m : amap) : amap :=
  match m with
  | [] => []
  | (k, v) :: m' => if N.eqb k h then remove h m' else (k, v) :: remove h m'
  end.
Definition insert (h : N) (v : nat) (m : amap) : amap := (h, v) :: remove h m.

(* copy(mem[off:], bs) when it fits *)
Definition write_at (off : nat) (bs mem : list byte) : list byte :=
  firstn off mem ++ bs ++ skipn (off + length bs) mem.

(* ------------------------------------ part 1: one table -------------------------------------- *)
Record btable := { b_off : nat; b_alloc : nat; b_inuse : nat; b_garb : nat; b_idx : amap; b_mem : list byte }.

Definition new_btable (size : nat) : btable :=
  {| b_off := 0; b_alloc := size; b_inuse := 0; b_garb := 0; b_idx := []; b_mem := repeat 0%N size |}.

Definition with_mem (t : btable) (m : list byte) : btable :=
  {| b_off := b_off t; b_alloc := b_alloc t; b_inuse := b_inuse t; b_garb := b_garb t; b_idx := b_idx t; b_mem := m |}.

Definition entry_at (mem : list byte) (o : nat) : option entry :=
  match decode_entry (skipn o mem) with Some (e, _) => Some e | None => None end.

(* the encoded bytes of the entry at o (Table.GetRaw copies exactly the bytes its length fields delimit) *)
Definition raw_at (mem : list byte) (o : nat) : option (list byte) :=
  let s := skipn o mem in
  match decode_entry s with
  | Some (_, rest) => Some (firstn (length s - length rest) s)
  | None => None
  end.

Inductive bres := BOk (t : btable) | BKeyTooLarge | BNoSpace.

(* Table.Delete: the index entry goes, the bytes become garbage *)
Definition b_delete (h : N) (t : btable) : btable :=
  match lookup h (b_idx t) with
  | None => t
  | Some o =>
    match raw_at (b_mem t) o with
    | None => t                                    (* Go would panic; unreachable in a well-formed table *)
    | Some raw =>
      {| b_off := b_off t; b_alloc := b_alloc t; b_inuse := b_inuse t - length raw;
         b_garb := b_garb t + length raw; b_idx := remove h (b_idx t); b_mem := b_mem t |}
    end
  end.

(* Table.PutRaw *)
Definition b_put_raw (h : N) (raw : list byte) (t : btable) : bres :=
  if Nat.leb (b_alloc t) (length raw + b_off t) then BNoSpace
  else
    let t1 := b_delete h t in
    BOk {| b_off := b_off t1 + length raw; b_alloc := b_alloc t1; b_inuse := b_inuse t1 + length raw;
           b_garb := b_garb t1; b_idx := insert h (b_off t1) (b_idx t1);
           b_mem := write_at (b_off t1) raw (b_mem t1) |}.

Definition set_la (now : Z) (e : entry) : entry :=
  {| ekey := ekey e; ettl := ettl e; ets := ets e; ela := now; evalue := evalue e |}.

(* Table.Put *)
Definition b_put (now : Z) (h : N) (e : entry) (t : btable) : bres :=
  if N.leb max_key_length (N.of_nat (length (ekey e))) then BKeyTooLarge
  else b_put_raw h (encode_entry (set_la now e)) t.

(* Table.Get, the read part *)
Definition b_get (h : N) (t : btable) : option entry :=
  match lookup h (b_idx t) with None => None | Some o => entry_at (b_mem t) o end.
(* Table.GetRaw *)
Definition b_get_raw (h : N) (t : btable) : option (list byte) :=
  match lookup h (b_idx t) with None => None | Some o => raw_at (b_mem t) o end.

(* Table.Get, the write part: lastAccess := now, 8 bytes at offset + 1 + klen + 16 *)
Definition b_stamp (now : Z) (h : N) (t : btable) : btable :=
  match lookup h (b_idx t) with
  | None => t
  | Some o =>
    let klen := N.to_nat (nth o (b_mem t) 0%N) in
    with_mem t (write_at (o + 1 + klen + 16) (be 8 (u64_of_i64 now)) (b_mem t))
  end.

(* Table.Reset *)
Definition b_reset (t : btable) : btable :=
  {| b_off := 0; b_alloc := b_alloc t; b_inuse := 0; b_garb := 0; b_idx := []; b_mem := b_mem t |}.

(* what a lookup observes of an entry (lastAccess is bookkeeping) *)
Definition bview (e : entry) : list byte * list byte * Z * Z := (ekey e, evalue e, ettl e, ets e).

(* Well-formed table: the slab has its allocated length, and every indexed offset is the start of the
   encoding of an acceptable entry that ends at or before the write offset. *)
Definition bwf (t : btable) : Prop :=
  length (b_mem t) = b_alloc t /\ b_off t <= b_alloc t /\
  forall h o, lookup h (b_idx t) = Some o ->
    exists e pre post, wf_entry e /\ b_mem t = pre ++ encode_entry e ++ post /\ length pre = o /\
                       o + length (encode_entry e) <= b_off t.

(* -------------------------------- part 2: heap, slices, store -------------------------------- *)
Definition heap := list (list byte).           (* block id = position *)
Record slice := { sblk : nat; soff : nat; slen : nat }.

Definition h_get (hp : heap) (b : nat) : list byte := nth b hp [].
Fixpoint h_set (hp : heap) (b : nat) (c : list byte) : heap :=
  match hp, b with
  | [], _ => []
  | _ :: r, O => c :: r
  | x :: r, S b' => x :: h_set r b' c
  end.
Definition h_alloc (hp : heap) (c : list byte) : heap * nat := (hp ++ [c], length hp).
Definition h_read (hp : heap) (s : slice) : list byte := firstn (slen s) (skipn (soff s) (h_get hp (sblk s))).
(* s[pos] = b ; out of range = Go panics, the heap is left alone *)
Definition h_poke (hp : heap) (s : slice) (pos : nat) (b : byte) : heap :=
  if Nat.ltb pos (slen s) then h_set hp (sblk s) (write_at (soff s + pos) [b] (h_get hp (sblk s))) else hp.

(* a table whose slab is heap block t_blk; the b_mem field of t_meta is not used (always []) *)
Record htable := { t_blk : nat; t_rec : bool; t_meta : btable }.

Definition load (hp : heap) (t : htable) : btable := with_mem (t_meta t) (h_get hp (t_blk t)).
Definition unload (hp : heap) (t : htable) (bt : btable) : heap * htable :=
  (h_set hp (t_blk t) (b_mem bt), {| t_blk := t_blk t; t_rec := t_rec t; t_meta := with_mem bt [] |}).

Record world := {
  w_heap : heap;
  w_size : nat;                 (* tableSize *)
  w_tabs : list htable;         (* oldest first, the last one accepts the writes *)
  w_handles : list slice;       (* values handed back to callers, in the order they were returned *)
  w_bufs : list slice           (* buffers owned by callers (arguments of Put) *)
}.

Definition empty_world (size : nat) : world :=
  {| w_heap := []; w_size := size; w_tabs := []; w_handles := []; w_bufs := [] |}.

Definition with_store (w : world) (hp : heap) (ts : list htable) : world :=
  {| w_heap := hp; w_size := w_size w; w_tabs := ts; w_handles := w_handles w; w_bufs := w_bufs w |}.

Inductive code := CNil | CKeyTooLarge | CEntryTooLarge | CNotFound | CSpin.

(* KVStore.makeTable: reuse the first recycled table (moved to the end) or allocate a new slab *)
Fixpoint take_rec (ts : list htable) : option (htable * list htable) :=
  match ts with
  | [] => None
  | t :: r =>
    if t_rec t then Some (t, r)
    else match take_rec r with
         | Some (x, r') => Some (x, t :: r')
         | None => None
         end
  end.

Definition make_table (size : nat) (hp : heap) (ts : list htable) : heap * list htable :=
  match take_rec ts with
  | Some (t, rest) => (hp, rest ++ [ {| t_blk := t_blk t; t_rec := false; t_meta := t_meta t |} ])
  | None =>
    let '(hp', b) := h_alloc hp (repeat 0%N size) in
    (hp', ts ++ [ {| t_blk := b; t_rec := false; t_meta := with_mem (new_btable size) [] |} ])
  end.

Definition has_writable (ts : list htable) : bool :=
  match rev ts with [] => false | t :: _ => negb (t_rec t) end.

(* apply a table operation to the last table *)
Definition on_last (f : btable -> bres) (hp : heap) (ts : list htable) : option (heap * list htable * code) :=
  match rev ts with
  | [] => Some (hp, ts, CSpin)
  | t :: older =>
    match f (load hp t) with
    | BOk bt => let '(hp', t') := unload hp t bt in Some (hp', rev (t' :: older), CNil)
    | BKeyTooLarge => Some (hp, ts, CKeyTooLarge)
    | BNoSpace => None
    end
  end.

(* Table.Delete on every table but the last (deleteStaleVersions) *)
Fixpoint del_butlast (h : N) (hp : heap) (ts : list htable) : heap * list htable :=
  match ts with
  | [] => (hp, [])
  | [t] => (hp, [t])
  | t :: r =>
    let '(hp1, t') := unload hp t (b_delete h (load hp t)) in
    let '(hp2, r') := del_butlast h hp1 r in
    (hp2, t' :: r')
  end.

(* KVStore.Put / PutRaw: size guard, a writable table, the retry loop (one retry suffices because the entry
   is smaller than an empty table), stale versions removed *)
Definition hs_put_gen (f : btable -> bres) (rawlen : nat) (h : N) (size : nat) (hp : heap) (ts : list htable)
  : heap * list htable * code :=
  if Nat.leb size rawlen then (hp, ts, CEntryTooLarge)
  else
    let '(hp0, ts0) := if has_writable ts then (hp, ts) else make_table size hp ts in
    let '(hp1, ts1, c) :=
      match on_last f hp0 ts0 with
      | Some r => r
      | None =>
        let '(hpm, tsm) := make_table size hp0 ts0 in
        match on_last f hpm tsm with
        | Some r => r
        | None => (hpm, tsm, CSpin)
        end
      end in
    match c with
    | CNil => let '(hp2, ts2) := del_butlast h hp1 ts1 in (hp2, ts2, CNil)
    | _ => (hp1, ts1, c)
    end.

Definition hs_put_raw (h : N) (raw : list byte) := hs_put_gen (b_put_raw h raw) (length raw) h.
Definition hs_put (now : Z) (h : N) (e : entry) := hs_put_gen (b_put now h e) (length (encode_entry e)) h.

(* newest table first *)
Fixpoint find_tab (h : N) (rts : list htable) : option htable :=
  match rts with
  | [] => None
  | t :: r => match lookup h (b_idx (t_meta t)) with Some _ => Some t | None => find_tab h r end
  end.

Definition hs_find (h : N) (hp : heap) (ts : list htable) : option entry :=
  match find_tab h (rev ts) with
  | None => None
  | Some t => b_get h (load hp t)
  end.

Definition replace_tab (t' : htable) (ts : list htable) : list htable :=
  map (fun t => if Nat.eqb (t_blk t) (t_blk t') then t' else t) ts.

(* apply a table update to the newest table that holds h *)
Definition hs_update (h : N) (f : btable -> btable) (hp : heap) (ts : list htable) : heap * list htable :=
  match find_tab h (rev ts) with
  | None => (hp, ts)
  | Some t => let '(hp', t') := unload hp t (f (load hp t)) in (hp', replace_tab t' ts)
  end.

Definition hs_delete (h : N) := hs_update h (b_delete h).

(* the abstract content of the store *)
Definition hs_abs (hp : heap) (ts : list htable) (h : N) : option (list byte * list byte * Z * Z) :=
  option_map bview (hs_find h hp ts).
Definition w_abs (w : world) (h : N) := hs_abs (w_heap w) (w_tabs w) h.

(* ---- compaction: one Compaction() call ---- *)
Definition compactable (t : htable) : bool :=
  negb (t_rec t) &&
  ((Nat.eqb (b_inuse (t_meta t)) 0 && Nat.ltb 0 (b_garb (t_meta t))) ||
   (N.of_nat (b_alloc (t_meta t)) * max_garbage_ratio_num <=? N.of_nat (b_garb (t_meta t)) * max_garbage_ratio_den)%N).

(* move the entries of the table with slab [blk] into the writable table: GetRaw (a copy), PutRaw, which
   also removes the old version; [ord] = the hkeys in the order Go's map iteration yields them *)
Fixpoint evict (blk : nat) (ord : list N) (size : nat) (hp : heap) (ts : list htable) : heap * list htable :=
  match ord with
  | [] => (hp, ts)
  | h :: ord' =>
    match find (fun t => Nat.eqb (t_blk t) blk) ts with
    | None => (hp, ts)
    | Some t =>
      match b_get_raw h (load hp t) with
      | None => evict blk ord' size hp ts
      | Some raw =>
        let '(hp', ts', c) := hs_put_raw h raw size hp ts in
        match c with
        | CNil => evict blk ord' size hp' ts'
        | _ => (hp', ts')
        end
      end
    end
  end.

Definition reset_tab (t : htable) : htable :=
  {| t_blk := t_blk t; t_rec := true; t_meta := b_reset (t_meta t) |}.

Definition reset_if_empty (blk : nat) (ts : list htable) : list htable :=
  map (fun t => if Nat.eqb (t_blk t) blk && negb (t_rec t) && Nat.eqb (b_inuse (t_meta t)) 0
                then reset_tab t else t) ts.

Definition hs_compaction (size : nat) (hp : heap) (ts : list htable) : heap * list htable * bool :=
  match find compactable (removelast ts) with
  | Some t =>
    let '(hp', ts') := evict (t_blk t) (map fst (b_idx (t_meta t))) size hp ts in
    (hp', reset_if_empty (t_blk t) ts', false)
  | None => (hp, ts, true)
  end.

Fixpoint hs_compact_all (fuel : nat) (size : nat) (hp : heap) (ts : list htable) : heap * list htable :=
  match fuel with
  | O => (hp, ts)
  | S f => let '(hp', ts', done) := hs_compaction size hp ts in
           if done then (hp', ts') else hs_compact_all f size hp' ts'
  end.

(* ---- migration: every table is exported (a copy of its bytes), imported with Put on the new owner, and
   dropped; the new owner's tables are new slabs ---- *)
Fixpoint import_tab (now : Z) (bt : btable) (ord : list N) (size : nat) (hp : heap) (ts : list htable)
  : heap * list htable :=
  match ord with
  | [] => (hp, ts)
  | h :: ord' =>
    match b_get h bt with
    | None => import_tab now bt ord' size hp ts
    | Some e => let '(hp', ts', _) := hs_put now h e size hp ts in import_tab now bt ord' size hp' ts'
    end
  end.

Fixpoint migrate_tabs (now : Z) (src : list htable) (size : nat) (hp : heap) (dst : list htable)
  : heap * list htable :=
  match src with
  | [] => (hp, dst)
  | t :: r =>
    if t_rec t then migrate_tabs now r size hp dst
    else
      let bt := load hp t in
      let '(hp', dst') := import_tab now bt (map fst (b_idx bt)) size hp dst in
      migrate_tabs now r size hp' dst'
  end.

(* ---------------------------------- the run alphabet ---------------------------------------- *)
Inductive wop :=
| WNewBuf (bs : list byte)                                   (* the caller makes a buffer *)
| WPut (h : N) (key : list byte) (buf : nat) (ttl ts now : Z) (* DMap.Put(key, bufs[buf]) *)
| WPutRaw (h : N) (key : list byte) (buf : nat) (ttl ts : Z)  (* replica / migration path: PutRaw(encode ...) *)
| WGet (h : N) (now : Z)                                     (* Get / GetPut's old value / iterator: a new handle *)
| WDel (h : N)
| WCompact                                                   (* one Compaction() call *)
| WCompactAll                                                (* Compaction() until done *)
| WReset (i : nat)                                           (* table i is recycled (Table.Reset) *)
| WDrop (i : nat)                                            (* table i leaves the store (transfer Drop) *)
| WMigrate (now : Z)                                         (* the partition moves: import everything into new slabs *)
| WMut (i pos : nat) (b : byte)                              (* the caller writes into handle i *)
| WMutBuf (i pos : nat) (b : byte)                           (* the caller writes into its buffer i *)
| WRead (i : nat)                                            (* the caller looks at handle i *)
| WReadBuf (i : nat).

Inductive wobs :=
| ONone
| OCode (c : code)
| OVal (v : option (list byte))
| OBytes (v : option (list byte)).      (* None: no such handle *)

Definition is_client_op (o : wop) : bool :=
  match o with WNewBuf _ | WMut _ _ _ | WMutBuf _ _ _ | WRead _ | WReadBuf _ => true | _ => false end.

Fixpoint remove_nth {A} (i : nat) (l : list A) : list A :=
  match l, i with
  | [], _ => []
  | _ :: t, O => t
  | x :: t, S i' => x :: remove_nth i' t
  end.

Fixpoint update_nth {A} (i : nat) (f : A -> A) (l : list A) : list A :=
  match l, i with
  | [], _ => []
  | x :: t, O => f x :: t
  | x :: t, S i' => x :: update_nth i' f t
  end.

(* where the value of the entry at offset o starts: 1 + klen + 24 + 4 *)
Definition value_off (mem : list byte) (o : nat) : nat := o + 1 + N.to_nat (nth o mem 0%N) + 28.

(* Table.Get on the newest table holding h. copy = true: the code after the fix. *)
Definition w_get (copy : bool) (h : N) (now : Z) (w : world) : world * wobs :=
  match find_tab h (rev (w_tabs w)) with
  | None => (w, OVal None)
  | Some t =>
    let bt := load (w_heap w) t in
    match b_get h bt, lookup h (b_idx bt) with
    | Some e, Some o =>
      (* lastAccess stamp into the slab *)
      let '(hp1, t') := unload (w_heap w) t (b_stamp now h bt) in
      let ts1 := replace_tab t' (w_tabs w) in
      if copy then
        let '(hp2, b) := h_alloc hp1 (evalue e) in
        ({| w_heap := hp2; w_size := w_size w; w_tabs := ts1;
            w_handles := w_handles w ++ [ {| sblk := b; soff := 0; slen := length (evalue e) |} ];
            w_bufs := w_bufs w |}, OVal (Some (evalue e)))
      else
        ({| w_heap := hp1; w_size := w_size w; w_tabs := ts1;
            w_handles := w_handles w ++ [ {| sblk := t_blk t; soff := value_off (b_mem bt) o;
                                             slen := length (evalue e) |} ];
            w_bufs := w_bufs w |}, OVal (Some (evalue e)))
    | _, _ => (w, OVal None)
    end
  end.

Definition mk_entry (k v : list byte) (ttl ts la : Z) : entry :=
  {| ekey := k; ettl := ttl; ets := ts; ela := la; evalue := v |}.

Definition w_step (copy : bool) (w : world) (o : wop) : world * wobs :=
  match o with
  | WNewBuf bs =>
    let '(hp, b) := h_alloc (w_heap w) bs in
    ({| w_heap := hp; w_size := w_size w; w_tabs := w_tabs w; w_handles := w_handles w;
        w_bufs := w_bufs w ++ [ {| sblk := b; soff := 0; slen := length bs |} ] |}, ONone)
  | WPut h key i ttl ts now =>
    match nth_error (w_bufs w) i with
    | None => (w, ONone)
    | Some s =>
      (* e.value = make([]byte, n); copy(e.value, arg) *)
      let '(hp0, b) := h_alloc (w_heap w) (h_read (w_heap w) s) in
      let e := mk_entry key (h_get hp0 b) ttl ts now in
      let '(hp, ts', c) := hs_put now h e (w_size w) hp0 (w_tabs w) in
      (with_store w hp ts', OCode c)
    end
  | WPutRaw h key i ttl ts =>
    match nth_error (w_bufs w) i with
    | None => (w, ONone)
    | Some s =>
      (* the encoded entry arrives in a network buffer *)
      let '(hp0, b) := h_alloc (w_heap w) (encode_entry (mk_entry key (h_read (w_heap w) s) ttl ts 0)) in
      let '(hp, ts', c) := hs_put_raw h (h_get hp0 b) (w_size w) hp0 (w_tabs w) in
      (with_store w hp ts', OCode c)
    end
  | WGet h now => w_get copy h now w
  | WDel h => let '(hp, ts') := hs_delete h (w_heap w) (w_tabs w) in (with_store w hp ts', OCode CNil)
  | WCompact => let '(hp, ts', _) := hs_compaction (w_size w) (w_heap w) (w_tabs w) in (with_store w hp ts', ONone)
  | WCompactAll => let '(hp, ts') := hs_compact_all 400 (w_size w) (w_heap w) (w_tabs w) in (with_store w hp ts', ONone)
  | WReset i => (with_store w (w_heap w) (update_nth i reset_tab (w_tabs w)), ONone)
  | WDrop i => (with_store w (w_heap w) (remove_nth i (w_tabs w)), ONone)
  | WMigrate now =>
    let '(hp, ts') := migrate_tabs now (w_tabs w) (w_size w) (w_heap w) [] in (with_store w hp ts', ONone)
  | WMut i pos b =>
    match nth_error (w_handles w) i with
    | None => (w, ONone)
    | Some s => (with_store w (h_poke (w_heap w) s pos b) (w_tabs w), ONone)
    end
  | WMutBuf i pos b =>
    match nth_error (w_bufs w) i with
    | None => (w, ONone)
    | Some s => (with_store w (h_poke (w_heap w) s pos b) (w_tabs w), ONone)
    end
  | WRead i => (w, OBytes (option_map (h_read (w_heap w)) (nth_error (w_handles w) i)))
  | WReadBuf i => (w, OBytes (option_map (h_read (w_heap w)) (nth_error (w_bufs w) i)))
  end.

Fixpoint w_run (copy : bool) (w : world) (ops : list wop) : world :=
  match ops with
  | [] => w
  | o :: r => w_run copy (fst (w_step copy w o)) r
  end.

(* the blocks the store owns *)
Definition slabs (w : world) : list nat := map t_blk (w_tabs w).
