(* internal/dmap/atomic.go: Incr / Decr / IncrByFloat / GetPut are NOT single steps. Each is
       locker.Lock(key);  current := read the key;  write (f current);  locker.Unlock(key)
   with the read and the write being separate operations on the store. What makes them atomic is the per-key mutex
   (Model/Locker.v proves it is one). This model interleaves the four stretches of any number of callers on one key,
   in any order the mutex allows; the mutex is abstract here (a holder field): that internal/locker implements it is
   C07_locker_mutual_exclusion. *)
From Coq Require Import List ZArith Bool.
Import ListNotations.
Local Open Scope Z_scope.

Definition tid := nat.

(* what a caller is doing *)
Inductive apc :=
| AIdle
| ALocked                      (* holds the key's mutex, has not read yet *)
| ARead (cur : Z).             (* has read [cur], has not written yet *)

Record astate := { cell : Z; holder : option tid; apcs : list apc; written : Z (* sum of the deltas written so far *) }.

Inductive astep_op :=
| ALock (t : tid)
| AGet (t : tid)
| APut (t : tid) (delta : Z)     (* writes cur + delta and returns it *)
| AUnlock (t : tid).

Fixpoint aupd (i : nat) (x : apc) (l : list apc) : list apc :=
  match l, i with
  | [], _ => []
  | _ :: t, O => x :: t
  | y :: t, S i' => y :: aupd i' x t
  end.
Definition apc_of (s : astate) (t : tid) : apc := nth t (apcs s) AIdle.

(* one stretch; a stretch that is not enabled changes nothing; the Put reports the value it wrote *)
Definition astep (s : astate) (o : astep_op) : astate * option Z :=
  match o with
  | ALock t =>
    match apc_of s t, holder s with
    | AIdle, None => if Nat.ltb t (length (apcs s))
                     then ({| cell := cell s; holder := Some t; apcs := aupd t ALocked (apcs s); written := written s |}, None)
                     else (s, None)
    | _, _ => (s, None)
    end
  | AGet t =>
    match apc_of s t with
    | ALocked => ({| cell := cell s; holder := holder s; apcs := aupd t (ARead (cell s)) (apcs s); written := written s |}, None)
    | _ => (s, None)
    end
  | APut t delta =>
    match apc_of s t with
    | ARead cur => ({| cell := cur + delta; holder := holder s; apcs := aupd t ALocked (apcs s); written := written s + delta |},
                    Some (cur + delta))
    | _ => (s, None)
    end
  | AUnlock t =>
    match apc_of s t with
    | ALocked => ({| cell := cell s; holder := None; apcs := aupd t AIdle (apcs s); written := written s |}, None)
    | _ => (s, None)
    end
  end.

Definition ainit (threads : nat) (v : Z) : astate := {| cell := v; holder := None; apcs := repeat AIdle threads; written := 0 |}.

Fixpoint arun (s : astate) (l : list astep_op) : astate * list Z :=
  match l with
  | [] => (s, [])
  | o :: l' =>
    let '(s1, r) := astep s o in
    let '(s2, rs) := arun s1 l' in
    (s2, match r with Some v => v :: rs | None => rs end)
  end.

(* the same callers WITHOUT the mutex: Get and Put are enabled whenever the caller is at that point *)
Definition astep_nolock (s : astate) (o : astep_op) : astate * option Z :=
  match o with
  | ALock t => if Nat.ltb t (length (apcs s)) then
                 match apc_of s t with
                 | AIdle => ({| cell := cell s; holder := holder s; apcs := aupd t ALocked (apcs s); written := written s |}, None)
                 | _ => (s, None)
                 end
               else (s, None)
  | _ => astep s o
  end.
Fixpoint arun_nolock (s : astate) (l : list astep_op) : astate * list Z :=
  match l with
  | [] => (s, [])
  | o :: l' =>
    let '(s1, r) := astep_nolock s o in
    let '(s2, rs) := arun_nolock s1 l' in
    (s2, match r with Some v => v :: rs | None => rs end)
  end.
