(* Executable driver for the correspondence check of C17 (checks/c17.py): the resp codec of Model/Resp.v in
   front of the byte-level store of Model/ByteTable.v.
     codec items : what the encoder writes for a value, what Scan returns for a text
     cluster ops : DMap.Put = encode, Put on the primary copy, PutRaw(encode entry) on the backup copy;
                   Get = read the primary copy, Scan into the requested type; the backup copy is read
                   white-box / with GETENTRY RC; a join = both copies are re-imported on their new owners.
   One logical primary store and one logical backup store stand for all partitions of the DMap: the
   observables (values, codes) do not depend on how keys are spread over fragments. *)
From Coq Require Import List NArith ZArith Bool.
Require Import Olric.Gen.Consts Olric.Model.Codec Olric.Model.Resp Olric.Model.ByteTable.
Import ListNotations.
Local Open Scope N_scope.

Inductive vop :=
| VEnc (t : ty) (v : gval)
| VScan (t : ty) (l : text)
| VPut (h : N) (key : list byte) (t : ty) (v : gval)
| VGet (h : N) (t : ty)          (* typed read of the primary copy *)
| VRaw (h : N)                   (* the stored text of the primary copy *)
| VRawB (h : N)                  (* the stored text of the backup copy *)
| VKey (h : N)                   (* the stored key of the primary copy *)
| VKeyB (h : N)
| VDel (h : N)
| VMigrate.

Inductive vobs :=
| VText (l : text)
| VVal (v : option gval)                 (* None: Scan returned an error *)
| VCode (c : code)
| VBytes (v : option text)               (* None: not found *)
| VTyped (v : option (option gval)).     (* None: not found; Some None: found, Scan error *)

Record vstate := { v_size : nat; v_repl : bool; v_p : heap * list htable; v_b : heap * list htable }.

Definition v_init (size : nat) (repl : bool) : vstate :=
  {| v_size := size; v_repl := repl; v_p := ([], []); v_b := ([], []) |}.

Definition find_in (s : heap * list htable) (h : N) : option entry := hs_find h (fst s) (snd s).

Definition v_step (x : vstate) (o : vop) : vstate * vobs :=
  match o with
  | VEnc t v => (x, VText (encode t v))
  | VScan t l => (x, VVal (scan t l))
  | VPut h key t v =>
    let e := mk_entry key (encode t v) 0 0 0 in
    let '(hp, ts, c) := hs_put 0 h e (v_size x) (fst (v_p x)) (snd (v_p x)) in
    match c with
    | CNil =>
      let b' := if v_repl x
                then let '(hb, tb, _) := hs_put_raw h (encode_entry e) (v_size x) (fst (v_b x)) (snd (v_b x)) in (hb, tb)
                else v_b x in
      ({| v_size := v_size x; v_repl := v_repl x; v_p := (hp, ts); v_b := b' |}, VCode CNil)
    | _ => ({| v_size := v_size x; v_repl := v_repl x; v_p := (hp, ts); v_b := v_b x |}, VCode c)
    end
  | VGet h t => (x, VTyped (option_map (fun e => scan t (evalue e)) (find_in (v_p x) h)))
  | VRaw h => (x, VBytes (option_map evalue (find_in (v_p x) h)))
  | VRawB h => (x, VBytes (option_map evalue (find_in (v_b x) h)))
  | VKey h => (x, VBytes (option_map ekey (find_in (v_p x) h)))
  | VKeyB h => (x, VBytes (option_map ekey (find_in (v_b x) h)))
  | VDel h =>
    ({| v_size := v_size x; v_repl := v_repl x;
        v_p := hs_delete h (fst (v_p x)) (snd (v_p x));
        v_b := hs_delete h (fst (v_b x)) (snd (v_b x)) |}, VCode CNil)
  | VMigrate =>
    ({| v_size := v_size x; v_repl := v_repl x;
        v_p := migrate_tabs 0 (snd (v_p x)) (v_size x) (fst (v_p x)) [];
        v_b := migrate_tabs 0 (snd (v_b x)) (v_size x) (fst (v_b x)) [] |}, VCode CNil)
  end.

Definition opt_eqb {A} (eq : A -> A -> bool) (a b : option A) : bool :=
  match a, b with Some x, Some y => eq x y | None, None => true | _, _ => false end.
Definition code_eqb (a b : code) : bool :=
  match a, b with
  | CNil, CNil | CKeyTooLarge, CKeyTooLarge | CEntryTooLarge, CEntryTooLarge
  | CNotFound, CNotFound | CSpin, CSpin => true
  | _, _ => false
  end.

Definition vobs_eqb (m i : vobs) : bool :=
  match m, i with
  | VText a, VText b => text_eqb a b
  | VVal a, VVal b => opt_eqb gval_eqb a b
  | VCode a, VCode b => code_eqb a b
  | VBytes a, VBytes b => opt_eqb text_eqb a b
  | VTyped a, VTyped b => opt_eqb (opt_eqb gval_eqb) a b
  | _, _ => false
  end.

Fixpoint v_first_diff (x : vstate) (l : list (vop * vobs)) (i : nat) : option (nat * vobs) :=
  match l with
  | [] => None
  | (o, impl) :: l' =>
    let '(x', m) := v_step x o in
    if vobs_eqb m impl then v_first_diff x' l' (S i) else Some (i, m)
  end.

Definition v_run_case (cs : nat * bool * list (vop * vobs)) : option (nat * vobs) :=
  let '(size, repl, l) := cs in v_first_diff (v_init size repl) l 0.

Fixpoint v_mismatches (l : list (nat * bool * list (vop * vobs))) (i : nat) : list (nat * nat * vobs) :=
  match l with
  | [] => []
  | c :: l' => match v_run_case c with
               | None => v_mismatches l' (S i)
               | Some (k, m) => (i, k, m) :: v_mismatches l' (S i)
               end
  end.
