(* Read-then-write under the key's mutex is an atomic read-modify-write: no update is lost, for every number of
   callers and every interleaving the mutex allows (Model/AtomicRMW.v). *)
From Coq Require Import List ZArith Bool Lia Arith.
Require Import Olric.Model.AtomicRMW.
Import ListNotations.
Local Open Scope Z_scope.

Lemma alength_upd i x l : length (aupd i x l) = length l.
Proof. revert i; induction l as [|y l IH]; intros [|i]; cbn; auto. Qed.
Lemma anth_upd_eq i x l : (i < length l)%nat -> nth i (aupd i x l) AIdle = x.
Proof. revert i; induction l as [|y l IH]; intros [|i] H; cbn in *; try lia; auto. apply IH. lia. Qed.
Lemma anth_upd_neq i j x l : i <> j -> nth j (aupd i x l) AIdle = nth j l AIdle.
Proof. revert i j; induction l as [|y l IH]; intros [|i] [|j] H; cbn; auto; try lia. Qed.

Lemma abusy_lt s t : apc_of s t <> AIdle -> (t < length (apcs s))%nat.
Proof.
  intros H. destruct (Nat.lt_ge_cases t (length (apcs s))) as [|Hge]; [assumption|].
  exfalso. apply H. unfold apc_of. now apply nth_overflow.
Qed.

Record AInv (v0 : Z) (s : astate) : Prop := {
  A_holder : forall t, apc_of s t <> AIdle -> holder s = Some t;
  A_fresh : forall t cur, apc_of s t = ARead cur -> cur = cell s;
  A_sum : cell s = v0 + written s
}.

Lemma AInv_init n v : AInv v (ainit n v).
Proof.
  assert (H : forall t, nth t (repeat AIdle n) AIdle = AIdle).
  { intros t. destruct (Nat.lt_ge_cases t n); [apply nth_repeat|apply nth_overflow; now rewrite repeat_length]. }
  constructor; cbn.
  - intros t Hn. exfalso. apply Hn. unfold apc_of. cbn. apply H.
  - intros t cur Hc. unfold apc_of in Hc. cbn in Hc. rewrite H in Hc. discriminate.
  - lia.
Qed.

Lemma apc_upd s c h w t p t' : (t < length (apcs s))%nat ->
  apc_of {| cell := c; holder := h; apcs := aupd t p (apcs s); written := w |} t' = if Nat.eqb t' t then p else apc_of s t'.
Proof.
  intros Ht. unfold apc_of. cbn [apcs]. destruct (Nat.eqb_spec t' t) as [->|Hne]; [now apply anth_upd_eq|].
  apply anth_upd_neq. congruence.
Qed.

(* the others are idle whenever t is not *)
Lemma others_idle v0 s t t' : AInv v0 s -> apc_of s t <> AIdle -> t' <> t -> apc_of s t' = AIdle.
Proof.
  intros I Ht Hne. destruct (apc_of s t') eqn:E; [reflexivity| |];
    (pose proof (A_holder v0 s I t' ltac:(rewrite E; discriminate)) as H1; pose proof (A_holder v0 s I t Ht) as H2; congruence).
Qed.

Theorem AInv_step v0 s o : AInv v0 s -> AInv v0 (fst (astep s o)).
Proof.
  intros I. destruct o as [t|t|t d|t]; cbn [astep].
  - (* Lock *)
    destruct (apc_of s t) eqn:Hpc; try exact I. destruct (holder s) eqn:Hh; [exact I|].
    destruct (Nat.ltb_spec t (length (apcs s))) as [Ht|]; [|exact I]. cbn [fst].
    assert (Hall : forall t', apc_of s t' = AIdle).
    { intros t'. destruct (apc_of s t') eqn:E; [reflexivity| |]; pose proof (A_holder v0 s I t' ltac:(rewrite E; discriminate)); congruence. }
    constructor; cbn [cell holder written].
    + intros t'. rewrite apc_upd by exact Ht. destruct (Nat.eqb_spec t' t) as [->|]; [reflexivity|]. rewrite Hall. congruence.
    + intros t' cur. rewrite apc_upd by exact Ht. destruct (Nat.eqb_spec t' t); [discriminate|]. rewrite Hall. discriminate.
    + exact (A_sum v0 s I).
  - (* Get *)
    destruct (apc_of s t) eqn:Hpc; try exact I. cbn [fst].
    assert (Hne : apc_of s t <> AIdle) by (rewrite Hpc; discriminate). pose proof (abusy_lt s t Hne) as Ht.
    constructor; cbn [cell holder written].
    + intros t'. rewrite apc_upd by exact Ht. destruct (Nat.eqb_spec t' t) as [->|]; [intros _; exact (A_holder v0 s I t Hne)|apply (A_holder v0 s I)].
    + intros t' cur. rewrite apc_upd by exact Ht. destruct (Nat.eqb_spec t' t) as [->|Hd]; [congruence|].
      rewrite (others_idle v0 s t t' I Hne Hd). discriminate.
    + exact (A_sum v0 s I).
  - (* Put *)
    destruct (apc_of s t) as [| |cur] eqn:Hpc; try exact I. cbn [fst].
    assert (Hne : apc_of s t <> AIdle) by (rewrite Hpc; discriminate). pose proof (abusy_lt s t Hne) as Ht.
    pose proof (A_fresh v0 s I t cur Hpc) as Hcur.
    constructor; cbn [cell holder written].
    + intros t'. rewrite apc_upd by exact Ht. destruct (Nat.eqb_spec t' t) as [->|]; [intros _; exact (A_holder v0 s I t Hne)|apply (A_holder v0 s I)].
    + intros t' c'. rewrite apc_upd by exact Ht. destruct (Nat.eqb_spec t' t) as [->|Hd]; [discriminate|].
      rewrite (others_idle v0 s t t' I Hne Hd). discriminate.
    + pose proof (A_sum v0 s I). lia.
  - (* Unlock *)
    destruct (apc_of s t) eqn:Hpc; try exact I. cbn [fst].
    assert (Hne : apc_of s t <> AIdle) by (rewrite Hpc; discriminate). pose proof (abusy_lt s t Hne) as Ht.
    constructor; cbn [cell holder written].
    + intros t'. rewrite apc_upd by exact Ht. destruct (Nat.eqb_spec t' t) as [->|Hd]; [congruence|].
      rewrite (others_idle v0 s t t' I Hne Hd). congruence.
    + intros t' cur. rewrite apc_upd by exact Ht. destruct (Nat.eqb_spec t' t) as [->|Hd]; [discriminate|].
      rewrite (others_idle v0 s t t' I Hne Hd). discriminate.
    + exact (A_sum v0 s I).
Qed.

(* every Put adds its delta to the value the key holds AT THAT MOMENT and returns the result *)
Lemma put_adds v0 s t d r : AInv v0 s -> snd (astep s (APut t d)) = Some r ->
  r = cell s + d /\ cell (fst (astep s (APut t d))) = cell s + d.
Proof.
  intros I. cbn [astep]. destruct (apc_of s t) as [| |cur] eqn:Hpc; try discriminate. cbn [fst snd cell]. intros [= <-].
  rewrite (A_fresh v0 s I t cur Hpc). split; reflexivity.
Qed.
Lemma other_steps_keep_cell s o : (forall t d, o <> APut t d) -> cell (fst (astep s o)) = cell s /\ snd (astep s o) = None.
Proof.
  intros H. destruct o as [t|t|t d|t]; cbn [astep]; [| |exfalso; now apply (H t d)|].
  - destruct (apc_of s t), (holder s); try (split; reflexivity). destruct (Nat.ltb t (length (apcs s))); split; reflexivity.
  - destruct (apc_of s t); split; reflexivity.
  - destruct (apc_of s t); split; reflexivity.
Qed.

(* the values the Puts return are the running sums: init + d1, init + d1 + d2, ... *)
Fixpoint chain (v : Z) (ds : list Z) : list Z :=
  match ds with [] => [] | d :: ds' => (v + d) :: chain (v + d) ds' end.

Theorem run_is_a_chain v0 : forall l s, AInv v0 s ->
  exists ds, snd (arun s l) = chain (cell s) ds /\ cell (fst (arun s l)) = cell s + fold_right Z.add 0 ds.
Proof.
  induction l as [|o l IH]; intros s I; [exists []; cbn; split; [reflexivity|lia]|].
  cbn [arun]. pose proof (AInv_step v0 s o I) as I1.
  destruct (astep s o) as [s1 r] eqn:Hst. cbn [fst] in I1.
  destruct (IH s1 I1) as (ds & Hrs & Hc). destruct (arun s1 l) as [s2 rs]. cbn [fst snd] in *.
  destruct r as [v|].
  - destruct o as [t|t|t d|t];
      try (match type of Hst with astep s ?o0 = _ => assert (Hx : forall t0 d0, o0 <> APut t0 d0) by (intros; discriminate);
             pose proof (other_steps_keep_cell s o0 Hx) as [_ Hn] end; rewrite Hst in Hn; discriminate).
    pose proof (put_adds v0 s t d v I) as Hp. rewrite Hst in Hp. cbn [fst snd] in Hp. destruct (Hp eq_refl) as [-> Hc1].
    exists (d :: ds). cbn [chain fold_right]. rewrite Hrs, Hc, Hc1. split; [reflexivity|lia].
  - assert (Hc1 : cell s1 = cell s).
    { destruct o as [t|t|t d|t];
        try (match type of Hst with astep s ?o0 = _ => assert (Hx : forall t0 d0, o0 <> APut t0 d0) by (intros; discriminate);
               pose proof (other_steps_keep_cell s o0 Hx) as [Hk _] end; rewrite Hst in Hk; exact Hk).
      cbn [astep] in Hst. destruct (apc_of s t); try discriminate Hst; injection Hst as <-; reflexivity. }
    exists ds. rewrite Hrs, Hc, Hc1. split; reflexivity.
Qed.

(* without the mutex two increments by one can both return init + 1 *)
Lemma lost_update_without_the_mutex :
  arun_nolock (ainit 2 5) [ALock 0%nat; ALock 1%nat; AGet 0%nat; AGet 1%nat; APut 0%nat 1; APut 1%nat 1; AUnlock 0%nat; AUnlock 1%nat]
  = ({| cell := 6; holder := None; apcs := [AIdle; AIdle]; written := 2 |}, [6; 6]).
Proof. reflexivity. Qed.
