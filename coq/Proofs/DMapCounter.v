(* C07: the owner-side model of Incr / Decr / GetPut (Model/DMap.v) implements, key by key, a counter with
   fetch-and-add and swap over Go's wrapping int64 - whatever happens to the other keys and DMaps, for every
   replica count and placement. With the commit-point theorem of Proofs/LinProofs.v: executions whose operations
   take effect one at a time on the owner (the key lock of atomic.go) are linearizable w.r.t. that counter. *)
From Coq Require Import List NArith ZArith Bool Lia.
Require Import Olric.Model.DMap Olric.Model.Lin Olric.Proofs.DMapProofs Olric.Proofs.LinProofs
               Olric.Proofs.DMapRegister Olric.Proofs.IntText.
Import ListNotations.
Local Open Scope Z_scope.

(* the counter specification of Model/Lin.v with Go's wrap-around *)
Definition cstepw (s : option Z) (o : cop) : option Z * cres :=
  match o with
  | CIncr dl => let n := wrap64 (match s with Some v => v | None => 0 end + dl) in (Some n, CInt n)
  | CGetPut v => (Some v, COld s)
  | CRead => (s, COld s)
  end.

Lemma cstepw_is_cstep s o :
  (forall dl, o = CIncr dl -> in64 (match s with Some v => v | None => 0 end + dl)) -> cstepw s o = cstep s o.
Proof. destruct o as [dl| |]; intros H; cbn; [|reflexivity|reflexivity]. now rewrite wrap64_small by (apply H; reflexivity). Qed.

Section Counter.
  Variable E : env.
  Variables d k : bytes.
  Hypothesis Hnoidle : no_idle E.
  Hypothesis Hnottl : default_ttl E d = 0.

  Notation P := (P E d k).
  Notation here := (here d k).

  Definition num (b : bytes) : Z := match parse_int b with Some z => z | None => 0 end.
  Definition is_num (b : bytes) : bool :=
    match parse_int b with
    | Some z => (- two63 <=? z) && (z <? two63) && bytes_eqb (print_int z) b
    | None => false
    end.

  Definition cproj (o : dop) : option cop :=
    match o with
    | DIncr d' k' dl => if here d' k' then Some (CIncr dl) else None
    | DGetPut d' k' v => if here d' k' then Some (CGetPut (num v)) else None
    | DGet d' k' => if here d' k' then Some CRead else None
    | _ => None
    end.

  (* on the key itself: Incr / Decr by any amount, GetPut of the decimal text of any int64, Get;
     anything on the other keys *)
  Definition callowed (o : dop) : bool :=
    match o with
    | DIncr _ _ _ | DGet _ _ => true
    | DGetPut d' k' v => negb (here d' k') || is_num v
    | DPut d' k' _ _ | DExpire d' k' _ | DLock d' k' _ _ | DUnlock d' k' _ | DLease d' k' _ _ => negb (here d' k')
    | DDel d' ks => negb (bytes_eqb d' d && existsb (fun x => bytes_eqb x k) ks)
    | DDestroy d' => negb (bytes_eqb d' d)
    | DEvict _ _ => true
    end.

  Definition cmap (r : DMap.res) : option cres :=
    match r with
    | RInt n => Some (CInt n)
    | ROld v => Some (COld (option_map num v))
    | RVal v _ => Some (COld (Some (num v)))
    | DMap.RNotFound => Some (COld None)
    | _ => None
    end.

  Definition cabs (s : state) : option Z := option_map (fun e => num (ev e)) (lookup P s).
  (* the key holds no expiry and the decimal text of an int64 *)
  Definition Num (s : state) : Prop :=
    forall e, lookup P s = Some e -> ettl e = 0 /\ exists z, in64 z /\ ev e = print_int z.

  Lemma Num_Z0 s : Num s -> Z0 E d k s.
  Proof. intros H e He. now destruct (H e He). Qed.

  Lemma num_print z : in64 z -> num (print_int z) = z.
  Proof. intros H. unfold num. now rewrite parse_print. Qed.

  Lemma is_num_spec v : is_num v = true -> exists z, in64 z /\ v = print_int z /\ num v = z.
  Proof.
    unfold is_num, num. destruct (parse_int v) as [z|]; [|discriminate]. intros H.
    apply andb_true_iff in H as [H1 H2]. apply bytes_eqb_eq in H2. exists z. unfold in64. split; [lia|auto].
  Qed.

  Lemma same_cabs s s' : Num s -> lookup P s' = lookup P s -> Num s' /\ cabs s' = cabs s.
  Proof. intros Hn H. unfold cabs, Num in *. rewrite H. auto. Qed.

  (* a read of the key sees the primary copy *)
  Lemma get_entry_P now s : Inv E s -> Num s ->
    option_map (fun e => (ev e, ettl e)) (get_entry E d k now s) = option_map (fun e => (ev e, ettl e)) (lookup P s).
  Proof.
    intros HI Hn. pose proof (get_entry_content E d k now s HI Hnoidle) as H. fold P in H.
    rewrite (vlookup_Z0 E d k s now (Num_Z0 s Hn)) in H.
    destruct (get_entry E d k now s) as [e|], (lookup P s) as [p|]; cbn in *; try discriminate; [|reflexivity].
    unfold content in H. injection H as -> -> _. reflexivity.
  Qed.

  Lemma write_P e0 s : lookup P (write_all E d k e0 s) = Some e0.
  Proof. rewrite lookup_write_all, holder_P. unfold DMapRegister.here. now rewrite !bytes_eqb_refl. Qed.

  Lemma plain_put v c now ts s : nx c = false -> xx c = false -> pexp c = ENone ->
    put E d k v c now ts s = (write_all E d k {| ev := v; ettl := 0; ets := ts; ela := now |} s, DMap.ROk).
  Proof. intros H1 H2 H3. unfold put. rewrite H1, H2, H3. cbn [andb]. unfold prepare_ttl. now rewrite Hnottl. Qed.

  Definition cstep_ok (s : state) (o : dop) (s' : state) (r : DMap.res) : Prop :=
    match cproj o with
    | Some co => cabs s' = fst (cstepw (cabs s) co) /\ cmap r = Some (snd (cstepw (cabs s) co))
    | None => cabs s' = cabs s
    end.

  Lemma cstep_refines now ts s o :
    Inv E s -> Num s -> callowed o = true ->
    Num (fst (step E now ts s o)) /\ cstep_ok s o (fst (step E now ts s o)) (snd (step E now ts s o)).
  Proof.
    intros HI Hn Ha. pose proof (Num_Z0 s Hn) as Hz. unfold cstep_ok.
    destruct o as [d' k' v c|d' k'|d' ks|d' k' ms|d' k' v|d' k' dl|d' k' tok tmo|d' k' tok|d' k' tok ms|d'|m sample];
      cbn [step cproj callowed] in *.
    - apply negb_true_iff in Ha. apply same_cabs; [exact Hn|]. now apply other_put.
    - (* Get *)
      destruct (here d' k') eqn:Hh.
      + apply here_true in Hh as [-> ->]. rewrite get_result by assumption. cbn [get fst]. fold P.
        rewrite vlookup_Z0 by assumption.
        assert (Hl : lookup P (touch P now s) = option_map (fun e => {| ev := ev e; ettl := ettl e; ets := ets e; ela := now |}) (lookup P s)).
        { rewrite lookup_touch. now rewrite loc_eqb_refl. }
        unfold cabs, Num. rewrite Hl. destruct (lookup P s) as [e|] eqn:He; cbn [option_map ev cstepw fst snd cmap].
        * split; [intros e1 H1; injection H1 as <-; cbn [ev ettl]; now apply Hn|split; reflexivity].
        * split; [intros e1 H1; discriminate|split; reflexivity].
      + cbn [get fst]. apply same_cabs; [exact Hn|]. now apply other_touch.
    - (* Delete of other keys *)
      apply negb_true_iff in Ha. pose proof (lookup_delete E d k d' ks s) as Hl. fold P in Hl. rewrite Ha in Hl.
      now apply same_cabs.
    - apply negb_true_iff in Ha. apply same_cabs; [exact Hn|]. now apply other_expire.
    - (* GetPut *)
      destruct (here d' k') eqn:Hh.
      + apply here_true in Hh as [-> ->]. cbn [negb orb] in Ha. apply is_num_spec in Ha as (z & Hz64 & Hv & Hnum).
        unfold getput. rewrite plain_put by reflexivity. cbn [fst snd].
        pose proof (get_entry_P now s HI Hn) as Hg.
        unfold cabs, Num. rewrite write_P. cbn [option_map ev cstepw fst snd cmap]. split; [|split].
        * intros e1 H1. injection H1 as <-. cbn [ev ettl]. split; [reflexivity|]. exists z. auto.
        * reflexivity.
        * do 2 f_equal. destruct (get_entry E d k now s) as [e|], (lookup P s) as [p|]; cbn in *; try discriminate; [|reflexivity].
          injection Hg as -> _. reflexivity.
      + unfold getput. destruct (put E d' k' v plain now ts s) as [s' r'] eqn:Hp. cbn [fst snd].
        assert (Hl : lookup P s' = lookup P s) by (change s' with (fst (s', r')); rewrite <- Hp; now apply other_put).
        now apply same_cabs.
    - (* Incr *)
      destruct (here d' k') eqn:Hh.
      + apply here_true in Hh as [-> ->]. unfold incr.
        pose proof (get_entry_P now s HI Hn) as Hg.
        assert (Hx : (match get_entry E d k now s with
                      | Some e => if ettl e =? 0 then ENone else EAbs (ettl e)
                      | None => ENone end) = ENone).
        { destruct (get_entry E d k now s) as [e|], (lookup P s) as [p|] eqn:Hp; cbn in Hg; try discriminate; [|reflexivity].
          injection Hg as _ ->. destruct (Hn p Hp) as [-> _]. reflexivity. }
        rewrite Hx. rewrite plain_put by reflexivity. cbn [fst snd].
        assert (Hb : (match get_entry E d k now s with
                      | Some e => match parse_int (ev e) with Some z => z | None => 0 end
                      | None => 0 end) = match cabs s with Some v => v | None => 0 end).
        { unfold cabs. destruct (get_entry E d k now s) as [e|], (lookup P s) as [p|]; cbn in *; try discriminate; [|reflexivity].
          injection Hg as -> _. reflexivity. }
        rewrite Hb. unfold cabs at 1, Num. rewrite write_P. cbn [option_map ev cstepw fst snd cmap]. split; [|split].
        * intros e1 H1. injection H1 as <-. cbn [ev ettl]. split; [reflexivity|]. eexists. split; [apply wrap64_in64|reflexivity].
        * unfold cabs. rewrite write_P. cbn [option_map ev]. now rewrite num_print by apply wrap64_in64.
        * reflexivity.
      + unfold incr.
        match goal with |- context [put E d' k' ?v0 ?c0 now ts s] => destruct (put E d' k' v0 c0 now ts s) as [s' r'] eqn:Hp end.
        cbn [fst snd].
        assert (Hl : lookup P s' = lookup P s) by (change s' with (fst (s', r')); rewrite <- Hp; now apply other_put).
        now apply same_cabs.
    - apply negb_true_iff in Ha. unfold lock. apply same_cabs; [exact Hn|]. now apply other_put.
    - apply negb_true_iff in Ha. unfold unlock. destruct (get_entry E d' k' now s) as [e|]; [|now apply same_cabs].
      destruct (bytes_eqb (ev e) tok); cbn [fst snd]; [|now apply same_cabs].
      apply same_cabs; [exact Hn|]. now apply other_delete1.
    - apply negb_true_iff in Ha. unfold lease. destruct (get_entry E d' k' now s) as [e|]; [|now apply same_cabs].
      destruct (bytes_eqb (ev e) tok); cbn [fst snd]; [|now apply same_cabs].
      pose proof (other_expire E d k d' k' ms now ts s Ha) as Hl.
      destruct (expire E d' k' ms now ts s) as [s' r']. cbn [fst] in Hl. destruct r'; cbn [fst snd]; now apply same_cabs.
    - apply negb_true_iff in Ha. cbn [fst snd].
      assert (Hl : lookup P (destroy d' s) = lookup P s).
      { rewrite lookup_destroy. cbn [DMapRegister.P ploc ld]. rewrite (bytes_eqb_sym_false _ _ Ha). reflexivity. }
      now apply same_cabs.
    - cbn [fst snd]. apply same_cabs; [exact Hn|]. now apply (other_evict E d k Hnoidle).
  Qed.

  (* ------------------------------------------------------------ executions with commit points *)

  Fixpoint chistory (l : list xev) (rs : list DMap.res) : list (cevent cop cres) :=
    match l, rs with
    | x :: l', r :: rs' =>
      match cproj (xop x), cmap r with
      | Some co, Some cr =>
        {| ce := {| inv := xinv x; rsp := xrsp x; eop := co; eres := cr |}; com := xcom x |} :: chistory l' rs'
      | _, _ => chistory l' rs'
      end
    | _, _ => []
    end.

  Lemma cres_eqb_refl r : cres_eqb r r = true.
  Proof. destruct r as [n|[v|]]; cbn; try reflexivity; apply Z.eqb_refl. Qed.

  Lemma chistory_Forall (Q : Z -> Prop) : forall l rs, Forall (fun y => Q (xcom y)) l ->
    Forall (fun c => Q (com _ _ c)) (chistory l rs).
  Proof.
    induction l as [|x l IH]; intros rs H; [constructor|]. inversion H as [|x0 l0 H1 H2]; subst.
    destruct rs as [|r rs]; [constructor|]. cbn [chistory].
    destruct (cproj (xop x)); [|now apply IH]. destruct (cmap r); [|now apply IH]. constructor; [exact H1|now apply IH].
  Qed.

  Theorem counter_executions_commit : forall l s,
    Inv E s -> Num s -> Forall (fun x => callowed (xop x) = true) l -> ordered l ->
    commit_run _ _ _ cstepw cres_eqb (cabs s) (chistory l (snd (run E s (steps l)))).
  Proof.
    induction l as [|x l IH]; intros s HI Hn Ha Ho; [exact I|].
    inversion Ha as [|x0 l0 Ha1 Ha2]; subst. destruct Ho as (Hc & Hlt & Ho).
    destruct (cstep_refines (xnow x) (xts x) s (xop x) HI Hn Ha1) as [Hn1 Hs].
    pose proof (Inv_step E (xnow x) (xts x) s (xop x) HI) as HI1.
    cbn [steps map run]. fold (steps l). destruct (step E (xnow x) (xts x) s (xop x)) as [s1 r] eqn:Hst. cbn [fst snd] in *.
    specialize (IH s1 HI1 Hn1 Ha2 Ho). destruct (run E s1 (steps l)) as [s2 rs] eqn:Hr. cbn [fst snd chistory] in *.
    unfold cstep_ok in Hs. destruct (cproj (xop x)) as [co|].
    - destruct Hs as [Hs1 Hs2]. rewrite Hs2. cbn [commit_run ce com inv rsp eop eres].
      split; [exact Hc|]. split; [now apply (chistory_Forall (fun z => xcom x < z))|].
      destruct (cstepw (cabs s) co) as [a1 rr]. cbn [fst snd] in *. split; [apply cres_eqb_refl|]. now rewrite <- Hs1.
    - now rewrite <- Hs.
  Qed.

  Corollary counter_executions_linearize l s :
    Inv E s -> Num s -> Forall (fun x => callowed (xop x) = true) l -> ordered l ->
    let h := chistory l (snd (run E s (steps l))) in
    linearization _ _ _ cstepw cres_eqb (cabs s) (map (ce _ _) h) (map (ce _ _) h).
  Proof. intros HI Hn Ha Ho h. apply commit_order_linearizes. now apply counter_executions_commit. Qed.
End Counter.
