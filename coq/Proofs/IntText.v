From Coq Require Import List NArith ZArith Bool Lia.
From Coq Require Import ZifyN ZifyNat ZifyBool.
Require Import Olric.Model.DMap.
(* Decimal text of Go ints as the atomic operations store it: strconv.ParseInt after strconv.Itoa is the identity on int64. *)
Import ListNotations.
Local Open Scope Z_scope.
Ltac Zify.zify_post_hook ::= Z.div_mod_to_equations.

Lemma parse_digits_app l1 : forall l2 acc,
  parse_digits (l1 ++ l2) acc = match parse_digits l1 acc with Some a => parse_digits l2 a | None => None end.
Proof.
  induction l1 as [|c l1 IH]; intros l2 acc; cbn [app parse_digits]; [reflexivity|].
  destruct ((48 <=? c)%N && (c <=? 57)%N); [apply IH|reflexivity].
Qed.

Definition digit_char (z : Z) : N := Z.to_N (48 + z).
Lemma parse_digit1 z a : 0 <= z < 10 -> parse_digits [digit_char z] a = Some (a * 10 + z).
Proof.
  intros Hz. cbn [parse_digits]. unfold digit_char.
  destruct ((48 <=? Z.to_N (48 + z))%N && (Z.to_N (48 + z) <=? 57)%N) eqn:Hc; [|lia].
  f_equal. lia.
Qed.

Lemma digits_fuel_spec : forall f z acc, 0 <= z < 10 ^ Z.of_nat f -> (0 < f)%nat ->
  exists D, digits_fuel f z acc = D ++ acc /\
            (exists c r, D = c :: r /\ (48 <= c <= 57)%N) /\
            forall a, parse_digits D a = Some (a * 10 ^ Z.of_nat (length D) + z).
Proof.
  induction f as [|f IH]; intros z acc Hz Hf; [lia|].
  cbn [digits_fuel]. destruct (z <? 10) eqn:Hlt.
  - exists [digit_char z]. split; [reflexivity|]. split.
    + exists (digit_char z), []. split; [reflexivity|]. unfold digit_char. lia.
    + intros a. rewrite parse_digit1 by lia. cbn [length]. f_equal. 
  - assert (Hf' : (0 < f)%nat).
    { destruct f; [|lia]. cbn in Hz. lia. }
    assert (Hz' : 0 <= z / 10 < 10 ^ Z.of_nat f).
    { rewrite Nat2Z.inj_succ, Z.pow_succ_r in Hz by lia. split; [apply Z.div_pos; lia|]. apply Z.div_lt_upper_bound; lia. }
    destruct (IH (z / 10) (Z.to_N (48 + z mod 10) :: acc) Hz' Hf') as (D & HD & (c & r & Hcr & Hc) & Hp).
    exists (D ++ [digit_char (z mod 10)]). split; [rewrite HD, <- app_assoc; reflexivity|]. split.
    + exists c, (r ++ [digit_char (z mod 10)]). split; [rewrite Hcr; reflexivity|exact Hc].
    + intros a. rewrite parse_digits_app, Hp, parse_digit1 by (apply Z.mod_pos_bound; lia).
      f_equal. rewrite app_length. cbn [length]. rewrite Nat.add_1_r, Nat2Z.inj_succ, Z.pow_succ_r by lia.
      pose proof (Z.div_mod z 10 ltac:(lia)). nia.
Qed.

Definition in64 (z : Z) : Prop := - two63 <= z < two63.

Lemma parse_int_digit_first c r : (48 <= c <= 57)%N ->
  parse_int (c :: r) = match parse_digits (c :: r) 0 with
                       | Some z => if (- two63 <=? 1 * z) && (1 * z <? two63) then Some (1 * z) else None
                       | None => None
                       end.
Proof.
  intros Hc.
  assert (H : (c = 48 \/ c = 49 \/ c = 50 \/ c = 51 \/ c = 52 \/ c = 53 \/ c = 54 \/ c = 55 \/ c = 56 \/ c = 57)%N) by lia.
  destruct H as [->|[->|[->|[->|[->|[->|[->|[->|[->| ->]]]]]]]]]; reflexivity.
Qed.

Lemma parse_int_minus r c r' : r = c :: r' ->
  parse_int (45%N :: r) = match parse_digits r 0 with
                       | Some z => if (- two63 <=? -1 * z) && (-1 * z <? two63) then Some (-1 * z) else None
                       | None => None
                       end.
Proof. intros ->. reflexivity. Qed.

Lemma pow20 : 10 ^ Z.of_nat 20 = 100000000000000000000.
Proof. reflexivity. Qed.

Lemma parse_print z : in64 z -> parse_int (print_int z) = Some z.
Proof.
  unfold in64. intros Hz. unfold print_int. destruct (z <? 0) eqn:Hneg.
  - assert (Hb : 0 <= - z < 10 ^ Z.of_nat 20) by (rewrite pow20; unfold two63 in Hz; lia).
    destruct (digits_fuel_spec 20 (- z) [] Hb ltac:(lia)) as (D & HD & (c & r & Hcr & Hc) & Hp).
    rewrite HD, app_nil_r. rewrite (parse_int_minus D c r Hcr), Hp. rewrite Z.mul_0_l, Z.add_0_l.
    replace (-1 * - z) with z by lia.
    destruct ((- two63 <=? z) && (z <? two63)) eqn:Hr; [reflexivity|lia].
  - assert (Hb : 0 <= z < 10 ^ Z.of_nat 20) by (rewrite pow20; unfold two63 in Hz; lia).
    destruct (digits_fuel_spec 20 z [] Hb ltac:(lia)) as (D & HD & (c & r & Hcr & Hc) & Hp).
    rewrite HD, app_nil_r. rewrite Hcr, (parse_int_digit_first c r Hc), <- Hcr, Hp. rewrite Z.mul_0_l, Z.add_0_l, Z.mul_1_l.
    destruct ((- two63 <=? z) && (z <? two63)) eqn:Hr; [reflexivity|lia].
Qed.

Lemma wrap64_in64 z : in64 (wrap64 z).
Proof.
  unfold in64, wrap64, two63, two64. pose proof (Z.mod_pos_bound z 18446744073709551616 ltac:(lia)) as H.
  destruct (z mod 18446744073709551616 <? 9223372036854775808) eqn:E; lia.
Qed.
Lemma wrap64_small z : in64 z -> wrap64 z = z.
Proof.
  unfold in64, wrap64, two63, two64. intros H.
  destruct (z mod 18446744073709551616 <? 9223372036854775808) eqn:E; lia.
Qed.
