(* Proofs about Model/BalanceFlight.v: a payload in flight is a snapshot; Puts acknowledged while it is in flight
   are protected by the timestamp comparison of the merge, Deletes are not (D43). *)
From Coq Require Import List NArith ZArith Bool Lia.
From Coq Require Import ZifyN ZifyNat ZifyBool.
Require Import Olric.Model.Balance Olric.Model.BalanceFlight Olric.Proofs.BalanceProofs.
Import ListNotations.
Local Open Scope Z_scope.

(* every entry of the payload belongs to a live key and is its last acknowledged entry or strictly older *)
Definition FlightLe (src : frag) (ks : list N) (m : smap) : Prop :=
  forall k c, flookup k src = Some c -> existsb (N.eqb k) ks = true ->
              exists e, m k = Some e /\ (snd c < snd e \/ c = e).

Definition InvF (fs : fsys) (m : smap) : Prop :=
  Good (fh fs) m /\ match fl fs with None => True | Some (src, ks) => FlightLe src ks m end.

Lemma In_on_primary' g (s : sys) f : In f (on_primary g s) -> (f = g (hd [] s)) \/ In f (tl s).
Proof. destruct s as [|p prev]; cbn; intros [H|H]; [left; now symmetry|destruct H|left; now symmetry|right; exact H]. Qed.

Lemma Good_hd_none s m k : Good s m -> m k = None -> flookup k (hd [] s) = None.
Proof.
  intros H Hk. specialize (H k). rewrite Hk in H. destruct s as [|p prev]; [reflexivity|]. apply H. now left.
Qed.

Lemma Good_hd_le s m k e c : Good s m -> m k = Some e -> flookup k (hd [] s) = Some c -> snd c < snd e \/ c = e.
Proof.
  intros H Hk Hc. specialize (H k). rewrite Hk in H. destruct s as [|p prev]; [discriminate|].
  destruct H as [_ H]. apply (H p c); [now left|exact Hc].
Qed.

Lemma deliver_unfold src ks s :
  deliver src ks s = on_primary (fun p => fold_left (fun acc ke => merge1 (fst ke) (snd ke) acc) (movedof src ks) p) s.
Proof. reflexivity. Qed.

Lemma Good_deliver s m src ks : Good s m -> FlightLe src ks m -> Good (deliver src ks s) m.
Proof.
  intros H HF k. rewrite deliver_unfold. destruct (m k) as [e|] eqn:Em.
  - pose proof (H k) as Hk. rewrite Em in Hk. destruct Hk as [(f & Hf & Hl) Hall]. split.
    + destruct s as [|p prev]; [destruct Hf|]. destruct Hf as [<-|Hf].
      * eexists. split; [left; reflexivity|]. rewrite flookup_fold_merge.
        destruct (flookup k src) as [c0|] eqn:Es; [|exact Hl].
        destruct (existsb (N.eqb k) ks) eqn:Ex; [|exact Hl]. rewrite Hl. unfold newer.
        destruct (HF k c0 Es Ex) as (e' & He' & Hle). rewrite Em in He'. inversion He'. subst e'.
        destruct Hle as [Hlt| ->].
        -- destruct (snd e <=? snd c0) eqn:E; [lia|reflexivity].
        -- now rewrite Z.leb_refl.
      * exists f. split; [right; exact Hf|exact Hl].
    + intros f0 c Hf0 Hc. apply In_on_primary' in Hf0 as [->|Hf0].
      * rewrite flookup_fold_merge in Hc.
        assert (Hhd : forall x, flookup k (hd [] s) = Some x -> snd x < snd e \/ x = e)
          by (intros x Hx; exact (Good_hd_le s m k e x H Em Hx)).
        destruct (flookup k src) as [c0|] eqn:Es; [|now apply Hhd].
        destruct (existsb (N.eqb k) ks) eqn:Ex; [|now apply Hhd].
        destruct (HF k c0 Es Ex) as (e' & He' & Hle). rewrite Em in He'. inversion He'. subst e'.
        unfold newer in Hc. destruct (flookup k (hd [] s)) as [a|] eqn:Eh.
        -- destruct (snd a <=? snd c0); inversion Hc; subst c; [exact Hle|now apply Hhd].
        -- inversion Hc. subst c. exact Hle.
      * apply (Hall f0 c); [|exact Hc]. destruct s as [|p prev]; [destruct Hf0|now right].
  - intros f0 Hf0. apply In_on_primary' in Hf0 as [->|Hf0].
    + rewrite flookup_fold_merge. pose proof (Good_hd_none s m k H Em) as Hn.
      destruct (flookup k src) as [c0|] eqn:Es; [|exact Hn].
      destruct (existsb (N.eqb k) ks) eqn:Ex; [|exact Hn].
      destruct (HF k c0 Es Ex) as (e' & He' & _). congruence.
    + pose proof (H k) as Hk. rewrite Em in Hk. apply Hk. destruct s as [|p prev]; [destruct Hf0|now right].
Qed.

Lemma nth_error_update_nth_other g : forall i (l : sys) p, p <> i -> nth_error (update_nth i g l) p = nth_error l p.
Proof.
  induction i as [|i IH]; intros [|f l] p Hp; try reflexivity.
  - destruct p as [|p]; [congruence|reflexivity].
  - destruct p as [|p]; [reflexivity|]. cbn [update_nth nth_error]. apply IH. congruence.
Qed.

Lemma nth_error_update_nth_same g : forall i (l : sys) f, nth_error l i = Some f -> nth_error (update_nth i g l) i = Some (g f).
Proof.
  induction i as [|i IH]; intros [|f0 l] f H; try discriminate.
  - cbn in *. inversion H. reflexivity.
  - cbn [update_nth nth_error] in *. now apply IH.
Qed.

Lemma nth_error_nth (l : sys) i f : nth_error l i = Some f -> nth i l [] = f.
Proof. revert l. induction i as [|i IH]; intros [|f0 l] H; try discriminate; cbn in *; [now inversion H|now apply IH]. Qed.

Lemma Good_drop s m i ks : Good s m -> drop_ok i ks s ->
  Good (update_nth i (fun f => fold_left (fun acc k => fremove k acc) ks f) s) m.
Proof.
  intros H Hd k. set (g := fun f : frag => fold_left (fun acc k => fremove k acc) ks f).
  pose proof (H k) as Hk. destruct (m k) as [e|] eqn:Em.
  - destruct Hk as [(f & Hf & Hl) Hall]. split.
    + apply In_nth_error in Hf as (p & Hp).
      destruct (Nat.eq_dec p i) as [->|Hne].
      * destruct (existsb (N.eqb k) ks) eqn:Ex.
        -- pose proof (nth_error_nth s i f Hp) as Hn.
           destruct (Hd k e Ex) as (j & fj & ej & Hj & Hfj & Hej & Hle); [rewrite Hn; exact Hl|].
           assert (ej = e) as ->.
           { destruct (Hall fj ej (nth_error_In _ _ Hfj) Hej) as [Hlt|Heq]; [lia|exact Heq]. }
           exists fj. split; [|exact Hej].
           apply (nth_error_In _ j). rewrite nth_error_update_nth_other by lia. exact Hfj.
        -- exists (g f). split.
           ++ apply (nth_error_In _ i). now apply nth_error_update_nth_same.
           ++ unfold g. rewrite flookup_fold_fremove, Ex. exact Hl.
      * exists f. split; [|exact Hl]. apply (nth_error_In _ p). rewrite nth_error_update_nth_other by exact Hne. exact Hp.
    + intros f0 c Hf0 Hc. apply In_update_nth in Hf0 as [Hf0|(f1 & Hf1 & ->)].
      * apply (Hall f0 c Hf0 Hc).
      * unfold g in Hc. rewrite flookup_fold_fremove in Hc. destruct (existsb (N.eqb k) ks); [discriminate|]. apply (Hall f1 c Hf1 Hc).
  - intros f0 Hf0. apply In_update_nth in Hf0 as [Hf0|(f1 & Hf1 & ->)].
    + apply Hk. exact Hf0.
    + unfold g. rewrite flookup_fold_fremove. destruct (existsb (N.eqb k) ks); [reflexivity|]. apply Hk. exact Hf1.
Qed.

Lemma FlightLe_export s m i ks : Good s m -> FlightLe (nth i s []) ks m.
Proof.
  intros H k c Hc _. destruct (Nat.lt_ge_cases i (length s)) as [Hi|Hi].
  - pose proof (H k) as Hk. destruct (m k) as [e|].
    + exists e. split; [reflexivity|]. destruct Hk as [_ Hall]. apply (Hall (nth i s []) c); [apply nth_In; exact Hi|exact Hc].
    + rewrite (Hk (nth i s []) (nth_In _ _ Hi)) in Hc. discriminate.
  - rewrite nth_overflow in Hc by exact Hi. discriminate.
Qed.

Definition op_ok (fs : fsys) (m : smap) (o : fop) : Prop :=
  match o with
  | FOp b => fresh_for m b /\ match b with BDel k => in_flight k fs = false | _ => True end
  | FDrop i ks => drop_ok i ks (fh fs)
  | _ => True
  end.

Lemma FlightLe_op src ks m b :
  FlightLe src ks m -> fresh_for m b ->
  (match b with BDel k => match flookup k src with Some _ => existsb (N.eqb k) ks | None => false end = false | _ => True end) ->
  FlightLe src ks (sstep m b).
Proof.
  intros HF Hf Hd k c Hc Hx. destruct (HF k c Hc Hx) as (e & He & Hle).
  destruct b as [k0 v ts|k0| |i0 ks0|]; cbn [sstep]; try (exists e; split; [exact He|exact Hle]).
  - destruct (N.eqb k k0) eqn:E.
    + nb. subst k0. cbn [fresh_for] in Hf. rewrite He in Hf. exists (v, ts). split; [reflexivity|]. left. cbn [snd].
      destruct Hle as [Hle| ->]; lia.
    + exists e. split; [exact He|exact Hle].
  - destruct (N.eqb k k0) eqn:E.
    + nb. subst k0. rewrite Hc, Hx in Hd. discriminate.
    + exists e. split; [exact He|exact Hle].
Qed.

Lemma InvF_step fs m o : InvF fs m -> op_ok fs m o -> InvF (fstep fs o) (fref m o).
Proof.
  intros [HG HF] Hok. destruct o as [b|i ks| | |i ks]; cbn [fstep fref].
  - destruct Hok as [Hfr Hdel]. split; cbn [fh fl].
    + now apply Good_step.
    + destruct (fl fs) as [[src ks]|] eqn:Efl; [|exact I]. apply FlightLe_op; [exact HF|exact Hfr|].
      destruct b; try exact I. unfold in_flight in Hdel. rewrite Efl in Hdel. exact Hdel.
  - destruct i as [|i]; [split; assumption|]. split; cbn [fh fl]; [exact HG|]. now apply FlightLe_export.
  - destruct (fl fs) as [[src ks]|] eqn:Efl.
    + split; cbn [fh fl]; [|exact I]. now apply Good_deliver.
    + split; [exact HG|]. rewrite Efl. exact I.
  - split; cbn [fh fl]; [exact HG|exact I].
  - destruct i as [|i]; [split; assumption|]. split; cbn [fh fl]; [|exact HF]. now apply Good_drop.
Qed.

Lemma fts_fsafe_cons fs m o l : fts_fresh m (o :: l) /\ fsafe fs (o :: l) ->
  op_ok fs m o /\ fts_fresh (fref m o) l /\ fsafe (fstep fs o) l.
Proof.
  cbn [fts_fresh fsafe]. intros [[H1 H2] [H3 H4]]. repeat split; try assumption.
  destruct o as [b|i ks| | |i ks]; cbn [op_ok]; try exact I; [|exact H3].
  destruct b; cbn [fresh_for]; repeat split; auto.
Qed.

Lemma InvF_run : forall l fs m, InvF fs m -> fts_fresh m l -> fsafe fs l ->
  InvF (fst (frun fs m l)) (snd (frun fs m l)).
Proof.
  induction l as [|o l IH]; intros fs m HI Hf Hs; [exact HI|]. cbn [frun].
  destruct (fts_fsafe_cons fs m o l (conj Hf Hs)) as (Hok & Hf' & Hs').
  apply IH; [now apply InvF_step|exact Hf'|exact Hs'].
Qed.

Lemma finit_inv : InvF finit (fun _ => None).
Proof. split; [apply Good_nil|exact I]. Qed.

Theorem inflight_safe : forall l,
  fts_fresh (fun _ => None) l -> fsafe finit l ->
  forall k, read k (fh (fst (frun finit (fun _ => None) l))) = snd (frun finit (fun _ => None) l) k.
Proof.
  intros l Hf Hs k. destruct (InvF_run l finit (fun _ => None) finit_inv Hf Hs) as [HG _]. now apply read_good.
Qed.

(* the payload, once imported, never lowers what a read returns even when the window is NOT respected for Puts:
   covered by inflight_safe (Puts are unrestricted).  Deletes are the exception: *)
Lemma delete_in_flight_resurrects :
  let l := [FOp (BPut 1%N 7%N 1); FOp BJoin; FExport 1 [1%N]; FOp (BDel 1%N); FDeliver] in
  fts_fresh (fun _ => None) l /\
  read 1%N (fh (fst (frun finit (fun _ => None) l))) = Some (7%N, 1) /\
  snd (frun finit (fun _ => None) l) 1%N = None.
Proof. cbn. repeat split; auto. Qed.

(* a complete undisturbed move is the atomic BMove of Model/Balance.v *)
Lemma move_is_export_deliver_drop fs i ks :
  fl fs = None ->
  fh (fstep (fstep (fstep fs (FExport (S i) ks)) FDeliver) (FDrop (S i) ks)) = bstep (fh fs) (BMove (S i) ks).
Proof. intros _. reflexivity. Qed.
