From Coq Require Import List NArith ZArith Lia Bool.
Require Import Olric.Model.Proto Olric.Model.DMap Olric.Model.Paths Olric.Proofs.ProtoRoundTrip.
Import ListNotations.
Local Open Scope Z_scope.

Section PathsProofs.
  Variable F : Type.
  Variable fzero : F.
  Variable fis_zero : F -> bool.
  Variable fms : F -> Z.
  Hypothesis fzero_is_zero : fis_zero fzero = true.

  (* the handler reconstructs exactly the configuration the caller built, for every combination of at most one
     expiry option with at most one of NX / XX *)
  Lemma handler_decode_config d k v (x : expiry F) (c : cond) :
    expiry_nonzero F fis_zero x ->
    handler_decode F fis_zero fms (put_of_config F fzero d k v x c) = cfg_of F fms x c.
  Proof.
    intros Hx. unfold handler_decode, cfg_of, put_of_config.
    destruct x as [|s|ms|s|ms]; destruct c; cbn in *; rewrite ?fzero_is_zero, ?Hx; cbn;
      try reflexivity;
      try (destruct (Z.eqb_spec ms 0); [contradiction|cbn; reflexivity]).
  Qed.
End PathsProofs.
