(* C18 "returned values are private snapshots": separation proofs about part 2 of Model/ByteTable.v.

   Every block of the heap is a slab of a table of the store, or the block of a handle returned to a caller,
   or a caller-owned buffer, or garbage. With copy = true (the code after fix 01-table-get-copy):
     - store operations write only slab blocks and allocate at the end of the heap,
     - client writes touch exactly one block,
   hence a returned value never changes, and writing into it never changes the store.
   The theorems are about WHICH BLOCKS are written; nothing here depends on the meaning of the bytes. *)
From Coq Require Import List NArith ZArith Lia Bool Arith Permutation.
From Coq Require Import ZifyN ZifyNat ZifyBool.
Require Import Olric.Gen.Consts Olric.Model.Codec Olric.Model.ByteTable.
Import ListNotations.

Arguments encode_entry : simpl never.
Arguments decode_entry : simpl never.
Arguments b_put_raw : simpl never.
Arguments b_put : simpl never.
Arguments b_delete : simpl never.
Arguments b_stamp : simpl never.
Arguments b_get : simpl never.
Arguments b_get_raw : simpl never.

(* ------------------------------------------ heap facts ----------------------------------------- *)
Lemma h_set_length : forall hp b c, length (h_set hp b c) = length hp.
Proof.
  induction hp as [|x r IH]; intros [|b] c; cbn [h_set length]; auto.
Qed.

Lemma h_get_set_eq : forall hp b c, b < length hp -> h_get (h_set hp b c) b = c.
Proof.
  unfold h_get.
  induction hp as [|x r IH]; intros [|b] c Hlt; cbn [h_set length nth] in *; try lia; auto.
  apply IH; lia.
Qed.

Lemma h_get_set_neq : forall hp b b' c, b <> b' -> h_get (h_set hp b c) b' = h_get hp b'.
Proof.
  unfold h_get.
  induction hp as [|x r IH]; intros [|b] [|b'] c Hne; cbn [h_set nth]; try congruence; auto.
Qed.

Lemma h_get_app_lt : forall hp c b, b < length hp -> h_get (hp ++ [c]) b = h_get hp b.
Proof. intros hp c b Hlt. unfold h_get. apply app_nth1; exact Hlt. Qed.

Lemma h_get_alloc_new : forall hp c, h_get (hp ++ [c]) (length hp) = c.
Proof.
  intros hp c. unfold h_get. rewrite app_nth2 by lia. rewrite Nat.sub_diag. reflexivity.
Qed.

Lemma h_read_block : forall hp hp' s, h_get hp' (sblk s) = h_get hp (sblk s) -> h_read hp' s = h_read hp s.
Proof. intros hp hp' s Heq. unfold h_read. rewrite Heq. reflexivity. Qed.

Lemma h_poke_length : forall hp s pos x, length (h_poke hp s pos x) = length hp.
Proof.
  intros hp s pos x. unfold h_poke. destruct (Nat.ltb pos (slen s)); auto using h_set_length.
Qed.

Lemma h_poke_other : forall hp s pos x b, b <> sblk s -> h_get (h_poke hp s pos x) b = h_get hp b.
Proof.
  intros hp s pos x b Hne. unfold h_poke. destruct (Nat.ltb pos (slen s)); auto.
  apply h_get_set_neq. congruence.
Qed.

(* ------------------------------------------ list facts ----------------------------------------- *)
Lemma NoDup_insert : forall (A : Type) (a : A) l1 l2,
  NoDup (l1 ++ l2) -> ~ In a (l1 ++ l2) -> NoDup (l1 ++ a :: l2).
Proof.
  intros A a l1 l2 Hnd Hni.
  apply (NoDup_Add (Add_app a l1 l2)). split; assumption.
Qed.

Lemma NoDup_map_nth_neq : forall (A B : Type) (f : A -> B) l i j a b,
  NoDup (map f l) -> nth_error l i = Some a -> nth_error l j = Some b -> i <> j -> f a <> f b.
Proof.
  intros A B f. induction l as [|x r IH]; intros i j a b Hnd Hi Hj Hne.
  - destruct i; discriminate.
  - cbn [map] in Hnd. inversion Hnd as [|y l' Hnotin Hnd']; subst.
    destruct i as [|i]; destruct j as [|j]; cbn [nth_error] in *.
    + congruence.
    + inversion Hi; subst. intro Heq. apply Hnotin. rewrite Heq.
      apply in_map. eapply nth_error_In; eauto.
    + inversion Hj; subst. intro Heq. apply Hnotin. rewrite <- Heq.
      apply in_map. eapply nth_error_In; eauto.
    + eapply IH; eauto.
Qed.

Lemma NoDup_app_disjoint : forall (A : Type) (l1 l2 : list A) a,
  NoDup (l1 ++ l2) -> In a l1 -> In a l2 -> False.
Proof.
  intros A. induction l1 as [|x r IH]; intros l2 a Hnd H1 H2.
  - inversion H1.
  - cbn [app] in Hnd. inversion Hnd as [|y l' Hnotin Hnd']; subst.
    destruct H1 as [Heq|H1].
    + subst. apply Hnotin. apply in_or_app. right; assumption.
    + eapply IH; eauto.
Qed.

Lemma NoDup_app_l : forall (A : Type) (l1 l2 : list A), NoDup (l1 ++ l2) -> NoDup l1.
Proof.
  intros A. induction l1 as [|x r IH]; intros l2 Hnd.
  - constructor.
  - cbn [app] in Hnd. inversion Hnd as [|y l' Hnotin Hnd']; subst. constructor.
    + intro Hin. apply Hnotin. apply in_or_app. left; assumption.
    + eapply IH; eauto.
Qed.

Lemma NoDup_app_r : forall (A : Type) (l1 l2 : list A), NoDup (l1 ++ l2) -> NoDup l2.
Proof.
  intros A. induction l1 as [|x r IH]; intros l2 Hnd; auto.
  cbn [app] in Hnd. inversion Hnd; subst. auto.
Qed.

(* ---------------------------- the store invariant and the frame relation ------------------------ *)
Definition blks (ts : list htable) : list nat := map t_blk ts.

(* the slabs are distinct allocated blocks *)
Definition sinv (hp : heap) (ts : list htable) : Prop :=
  NoDup (blks ts) /\ forall b, In b (blks ts) -> b < length hp.

(* generic frame: blocks outside S keep their content, the heap only grows *)
Definition frame (S : list nat) (hp hp' : heap) : Prop :=
  length hp <= length hp' /\ forall b, b < length hp -> ~ In b S -> h_get hp' b = h_get hp b.

(* a store transition (hp, ts) -> (hp', ts'): only the slabs of ts are written, the slabs of ts' are slabs of
   ts or blocks allocated meanwhile; these three hold unconditionally *)
Definition fr (hp : heap) (ts : list htable) (hp' : heap) (ts' : list htable) : Prop :=
  frame (blks ts) hp hp' /\
  (forall b, In b (blks ts') -> In b (blks ts) \/ length hp <= b).

Definition good (hp : heap) (ts : list htable) (hp' : heap) (ts' : list htable) : Prop :=
  fr hp ts hp' ts' /\ (sinv hp ts -> sinv hp' ts').

(* the special case without allocation *)
Definition same (hp : heap) (ts : list htable) (hp' : heap) (ts' : list htable) : Prop :=
  length hp' = length hp /\ blks ts' = blks ts /\
  forall b, ~ In b (blks ts) -> h_get hp' b = h_get hp b.

Lemma frame_refl : forall S hp, frame S hp hp.
Proof. intros S hp. split; auto. Qed.

Lemma frame_trans : forall S S' hp hp1 hp2,
  frame S hp hp1 -> frame S' hp1 hp2 ->
  (forall b, In b S' -> In b S \/ length hp <= b) ->
  frame S hp hp2.
Proof.
  intros S S' hp hp1 hp2 [Hl1 Hf1] [Hl2 Hf2] Hsub. split; [lia|].
  intros b Hlt Hni. rewrite Hf2, Hf1; auto; try lia.
  intro Hin. destruct (Hsub b Hin) as [Hin'|Hge]; [auto|lia].
Qed.

Lemma same_refl : forall hp ts, same hp ts hp ts.
Proof. intros hp ts. repeat split; auto. Qed.

Lemma same_trans : forall hp ts hp1 ts1 hp2 ts2,
  same hp ts hp1 ts1 -> same hp1 ts1 hp2 ts2 -> same hp ts hp2 ts2.
Proof.
  intros hp ts hp1 ts1 hp2 ts2 (Hl1 & Hb1 & Hf1) (Hl2 & Hb2 & Hf2).
  split; [congruence|]. split; [congruence|].
  intros b Hni. rewrite Hf2, Hf1; auto. rewrite Hb1; auto.
Qed.

Lemma same_good : forall hp ts hp' ts', same hp ts hp' ts' -> good hp ts hp' ts'.
Proof.
  intros hp ts hp' ts' (Hl & Hb & Hf). split; [split; [split|]|].
  - lia.
  - intros b _ Hni. auto.
  - intros b Hin. left. rewrite <- Hb. exact Hin.
  - intros [Hnd Hlt]. split; rewrite Hb; auto. intros b Hin. rewrite Hl. auto.
Qed.

Lemma good_refl : forall hp ts, good hp ts hp ts.
Proof. intros hp ts. apply same_good, same_refl. Qed.

Lemma good_trans : forall hp ts hp1 ts1 hp2 ts2,
  good hp ts hp1 ts1 -> good hp1 ts1 hp2 ts2 -> good hp ts hp2 ts2.
Proof.
  intros hp ts hp1 ts1 hp2 ts2 [[Hf1 Hs1] Hi1] [[Hf2 Hs2] Hi2].
  split; [split|auto].
  - eapply frame_trans; eauto.
  - intros b Hin. destruct (Hs2 b Hin) as [Hin1|Hge].
    + auto.
    + right. destruct Hf1 as [Hl1 _]. lia.
Qed.

(* allocation at the end of the heap *)
Lemma alloc_good : forall hp ts c, good hp ts (hp ++ [c]) ts.
Proof.
  intros hp ts c. split; [split; [split|]|].
  - rewrite app_length. cbn [length]. lia.
  - intros b Hlt _. apply h_get_app_lt; exact Hlt.
  - intros b Hin. left; exact Hin.
  - intros [Hnd Hlt]. split; auto. intros b Hin. rewrite app_length. specialize (Hlt b Hin). lia.
Qed.

(* same heap, the slabs permuted *)
Lemma perm_good : forall hp ts ts', Permutation (blks ts) (blks ts') -> good hp ts hp ts'.
Proof.
  intros hp ts ts' Hp. split; [split; [apply frame_refl|]|].
  - intros b Hin. left. eapply Permutation_in; [apply Permutation_sym; exact Hp|exact Hin].
  - intros [Hnd Hlt]. split.
    + eapply Permutation_NoDup; eauto.
    + intros b Hin. apply Hlt. eapply Permutation_in; [apply Permutation_sym; exact Hp|exact Hin].
Qed.

(* writing a slab *)
Lemma unload_same : forall hp ts t bt hp' t',
  In t ts -> unload hp t bt = (hp', t') ->
  t_blk t' = t_blk t /\ length hp' = length hp /\ forall b, ~ In b (blks ts) -> h_get hp' b = h_get hp b.
Proof.
  intros hp ts t bt hp' t' Hin Hu. unfold unload in Hu. inversion Hu; subst; clear Hu.
  cbn [t_blk]. split; [reflexivity|]. split; [apply h_set_length|].
  intros b Hni. apply h_get_set_neq. intro Heq. apply Hni. subst b. unfold blks. apply in_map; exact Hin.
Qed.

(* ------------------------------------------ make_table ----------------------------------------- *)
Lemma take_rec_perm : forall ts t rest,
  take_rec ts = Some (t, rest) -> Permutation (blks ts) (t_blk t :: blks rest).
Proof.
  induction ts as [|a r IH]; intros t rest Htr; cbn [take_rec] in Htr.
  - discriminate.
  - destruct (t_rec a).
    + inversion Htr; subst. apply Permutation_refl.
    + destruct (take_rec r) as [[x r']|] eqn:Er; [|discriminate].
      inversion Htr; subst. unfold blks in *. cbn [map].
      eapply perm_trans; [apply perm_skip; apply IH; reflexivity|apply perm_swap].
Qed.

Lemma make_table_good : forall size hp ts hp' ts',
  make_table size hp ts = (hp', ts') -> good hp ts hp' ts'.
Proof.
  intros size hp ts hp' ts' Hm. unfold make_table in Hm.
  destruct (take_rec ts) as [[t rest]|] eqn:Etr.
  - inversion Hm; subst; clear Hm. apply perm_good.
    unfold blks. rewrite map_app. cbn [map t_blk].
    eapply perm_trans; [apply take_rec_perm; exact Etr|]. apply Permutation_cons_append.
  - unfold h_alloc in Hm. inversion Hm; subst; clear Hm.
    assert (Hb : blks (ts ++ [ {| t_blk := length hp; t_rec := false; t_meta := with_mem (new_btable size) [] |} ])
                 = blks ts ++ [length hp]).
    { unfold blks. rewrite map_app. reflexivity. }
    split; [split; [split|]|].
    + rewrite app_length. cbn [length]. lia.
    + intros b Hlt _. apply h_get_app_lt; exact Hlt.
    + intros b Hin. rewrite Hb in Hin.
      apply in_app_or in Hin. destruct Hin as [Hin|[Heq|[]]].
      * left; exact Hin.
      * right. subst b. lia.
    + intros [Hnd Hlt]. unfold sinv. rewrite Hb. rewrite app_length. cbn [length]. split.
      * apply NoDup_insert; rewrite app_nil_r; [exact Hnd|].
        intro Hin. specialize (Hlt _ Hin). lia.
      * intros b Hin. apply in_app_or in Hin. destruct Hin as [Hin|[Heq|[]]].
        -- specialize (Hlt _ Hin). lia.
        -- subst b. lia.
Qed.

(* -------------------------------------------- on_last ------------------------------------------ *)
Lemma on_last_same : forall f hp ts hp' ts' c,
  on_last f hp ts = Some (hp', ts', c) -> same hp ts hp' ts'.
Proof.
  intros f hp ts hp' ts' c Ho. unfold on_last in Ho.
  destruct (rev ts) as [|t older] eqn:Erev.
  - inversion Ho; subst. apply same_refl.
  - assert (Hts : ts = rev older ++ [t]).
    { rewrite <- (rev_involutive ts), Erev. reflexivity. }
    destruct (f (load hp t)) as [bt| |].
    + destruct (unload hp t bt) as [hp1 t1] eqn:Eu. inversion Ho; subst hp' ts' c; clear Ho.
      assert (Hin : In t ts). { rewrite Hts. apply in_or_app. right. left. reflexivity. }
      destruct (unload_same hp ts t bt hp1 t1 Hin Eu) as (Hb & Hl & Hf).
      split; [exact Hl|]. split; [|exact Hf].
      cbn [rev]. rewrite Hts. unfold blks. rewrite !map_app. cbn [map]. rewrite Hb. reflexivity.
    + inversion Ho; subst. apply same_refl.
    + discriminate.
Qed.

(* ------------------------------------------ del_butlast ---------------------------------------- *)
Lemma del_butlast_cons2 : forall h hp t t2 r,
  del_butlast h hp (t :: t2 :: r) =
  let '(hp1, t') := unload hp t (b_delete h (load hp t)) in
  let '(hp2, r') := del_butlast h hp1 (t2 :: r) in
  (hp2, t' :: r').
Proof. reflexivity. Qed.

Lemma del_butlast_same : forall h ts hp hp' ts',
  del_butlast h hp ts = (hp', ts') -> same hp ts hp' ts'.
Proof.
  intros h. induction ts as [|t r IH]; intros hp hp' ts' Hd.
  - cbn [del_butlast] in Hd. inversion Hd; subst. apply same_refl.
  - destruct r as [|t2 r2].
    + cbn [del_butlast] in Hd. inversion Hd; subst. apply same_refl.
    + rewrite del_butlast_cons2 in Hd.
      destruct (unload hp t (b_delete h (load hp t))) as [hp1 t1] eqn:Eu.
      destruct (del_butlast h hp1 (t2 :: r2)) as [hp2 r'] eqn:Ed.
      inversion Hd; subst hp' ts'; clear Hd.
      destruct (unload_same hp (t :: t2 :: r2) t _ hp1 t1 (or_introl eq_refl) Eu) as (Hb & Hl & Hf).
      destruct (IH hp1 hp2 r' Ed) as (Hl2 & Hb2 & Hf2).
      split; [congruence|]. split.
      * unfold blks in *. cbn [map] in *. rewrite Hb, Hb2. reflexivity.
      * intros b Hni. rewrite Hf2, Hf; auto.
        intro Hin. apply Hni. unfold blks in *. cbn [map] in *. right. exact Hin.
Qed.

(* ---------------------------------- hs_put_gen, hs_put, hs_put_raw ----------------------------- *)
Lemma hs_put_gen_good : forall f rawlen h size hp ts hp' ts' c,
  hs_put_gen f rawlen h size hp ts = (hp', ts', c) -> good hp ts hp' ts'.
Proof.
  intros f rawlen h size hp ts hp' ts' c Hp. unfold hs_put_gen in Hp.
  destruct (Nat.leb size rawlen).
  { inversion Hp; subst. apply good_refl. }
  assert (G0 : exists hp0 ts0,
            (if has_writable ts then (hp, ts) else make_table size hp ts) = (hp0, ts0) /\ good hp ts hp0 ts0).
  { destruct (has_writable ts).
    - exists hp, ts. split; [reflexivity|apply good_refl].
    - destruct (make_table size hp ts) as [a b] eqn:Em. exists a, b. split; [reflexivity|].
      eapply make_table_good; eauto. }
  destruct G0 as (hp0 & ts0 & E0 & G0). rewrite E0 in Hp.
  assert (G1 : exists hp1 ts1 c1,
            match on_last f hp0 ts0 with
            | Some r => r
            | None =>
              let '(hpm, tsm) := make_table size hp0 ts0 in
              match on_last f hpm tsm with
              | Some r => r
              | None => (hpm, tsm, CSpin)
              end
            end = (hp1, ts1, c1) /\ good hp0 ts0 hp1 ts1).
  { destruct (on_last f hp0 ts0) as [[[a b] d]|] eqn:Eo.
    - exists a, b, d. split; [reflexivity|]. apply same_good. eapply on_last_same; eauto.
    - destruct (make_table size hp0 ts0) as [hpm tsm] eqn:Em.
      pose proof (make_table_good _ _ _ _ _ Em) as Gm.
      destruct (on_last f hpm tsm) as [[[a b] d]|] eqn:Eo2.
      + exists a, b, d. split; [reflexivity|].
        eapply good_trans; [exact Gm|]. apply same_good. eapply on_last_same; eauto.
      + exists hpm, tsm, CSpin. split; [reflexivity|exact Gm]. }
  destruct G1 as (hp1 & ts1 & c1 & E1 & G1). rewrite E1 in Hp.
  assert (G01 : good hp ts hp1 ts1) by (eapply good_trans; eauto).
  destruct c1; try (inversion Hp; subst; exact G01).
  destruct (del_butlast h hp1 ts1) as [hp2 ts2] eqn:Ed. inversion Hp; subst hp' ts' c; clear Hp.
  eapply good_trans; [exact G01|]. apply same_good. eapply del_butlast_same; eauto.
Qed.

Lemma hs_put_good : forall now h e size hp ts hp' ts' c,
  hs_put now h e size hp ts = (hp', ts', c) -> good hp ts hp' ts'.
Proof. intros now h e size hp ts hp' ts' c Hp. unfold hs_put in Hp. eapply hs_put_gen_good; eauto. Qed.

Lemma hs_put_raw_good : forall h raw size hp ts hp' ts' c,
  hs_put_raw h raw size hp ts = (hp', ts', c) -> good hp ts hp' ts'.
Proof. intros h raw size hp ts hp' ts' c Hp. unfold hs_put_raw in Hp. eapply hs_put_gen_good; eauto. Qed.

(* ------------------------------------- hs_update, hs_delete ------------------------------------ *)
Lemma find_tab_in : forall h l t, find_tab h l = Some t -> In t l.
Proof.
  intros h. induction l as [|a r IH]; intros t Hf; cbn [find_tab] in Hf.
  - discriminate.
  - destruct (lookup h (b_idx (t_meta a))).
    + inversion Hf; subst. left; reflexivity.
    + right. auto.
Qed.

Lemma find_tab_rev_in : forall h ts t, find_tab h (rev ts) = Some t -> In t ts.
Proof. intros h ts t Hf. apply in_rev. eapply find_tab_in; eauto. Qed.

Lemma replace_tab_blks : forall t' ts, blks (replace_tab t' ts) = blks ts.
Proof.
  intros t'. unfold blks, replace_tab. induction ts as [|a r IH]; cbn [map]; [reflexivity|].
  rewrite IH. destruct (Nat.eqb (t_blk a) (t_blk t')) eqn:Eb; [|reflexivity].
  apply Nat.eqb_eq in Eb. rewrite Eb. reflexivity.
Qed.

(* the shape shared by hs_update and the stamping of w_get *)
Lemma unload_replace_same : forall hp ts t bt hp' t',
  In t ts -> unload hp t bt = (hp', t') -> same hp ts hp' (replace_tab t' ts).
Proof.
  intros hp ts t bt hp' t' Hin Hu.
  destruct (unload_same hp ts t bt hp' t' Hin Hu) as (Hb & Hl & Hf).
  split; [exact Hl|]. split; [apply replace_tab_blks|exact Hf].
Qed.

Lemma hs_update_same : forall h f hp ts hp' ts',
  hs_update h f hp ts = (hp', ts') -> same hp ts hp' ts'.
Proof.
  intros h f hp ts hp' ts' Hu. unfold hs_update in Hu.
  destruct (find_tab h (rev ts)) as [t|] eqn:Ef.
  - destruct (unload hp t (f (load hp t))) as [hp1 t1] eqn:Eu. inversion Hu; subst; clear Hu.
    eapply unload_replace_same; eauto using find_tab_rev_in.
  - inversion Hu; subst. apply same_refl.
Qed.

Lemma hs_delete_same : forall h hp ts hp' ts',
  hs_delete h hp ts = (hp', ts') -> same hp ts hp' ts'.
Proof. intros h hp ts hp' ts' Hd. unfold hs_delete in Hd. eapply hs_update_same; eauto. Qed.

(* ------------------------------------------ compaction ----------------------------------------- *)
Lemma evict_good : forall blk ord size hp ts hp' ts',
  evict blk ord size hp ts = (hp', ts') -> good hp ts hp' ts'.
Proof.
  intros blk. induction ord as [|h ord' IH]; intros size hp ts hp' ts' He; cbn [evict] in He.
  - inversion He; subst. apply good_refl.
  - destruct (find (fun t => Nat.eqb (t_blk t) blk) ts) as [t|].
    + destruct (b_get_raw h (load hp t)) as [raw|].
      * destruct (hs_put_raw h raw size hp ts) as [[hp1 ts1] c] eqn:Ep.
        pose proof (hs_put_raw_good _ _ _ _ _ _ _ _ Ep) as G1.
        destruct c; try (inversion He; subst; exact G1).
        eapply good_trans; [exact G1|]. eapply IH; eauto.
      * eapply IH; eauto.
    + inversion He; subst. apply good_refl.
Qed.

Lemma reset_if_empty_blks : forall blk ts, blks (reset_if_empty blk ts) = blks ts.
Proof.
  intros blk. unfold blks, reset_if_empty. induction ts as [|a r IH]; cbn [map]; [reflexivity|].
  rewrite IH.
  destruct (Nat.eqb (t_blk a) blk && negb (t_rec a) && Nat.eqb (b_inuse (t_meta a)) 0); reflexivity.
Qed.

Lemma same_blks_good : forall hp ts ts', blks ts' = blks ts -> good hp ts hp ts'.
Proof. intros hp ts ts' Hb. apply same_good. split; [reflexivity|]. split; auto. Qed.

Lemma hs_compaction_good : forall size hp ts hp' ts' d,
  hs_compaction size hp ts = (hp', ts', d) -> good hp ts hp' ts'.
Proof.
  intros size hp ts hp' ts' d Hc. unfold hs_compaction in Hc.
  destruct (find compactable (removelast ts)) as [t|].
  - destruct (evict (t_blk t) (map fst (b_idx (t_meta t))) size hp ts) as [hp1 ts1] eqn:Ee.
    inversion Hc; subst hp' ts' d; clear Hc.
    eapply good_trans; [eapply evict_good; eauto|]. apply same_blks_good. apply reset_if_empty_blks.
  - inversion Hc; subst. apply good_refl.
Qed.

Lemma hs_compact_all_good : forall fuel size hp ts hp' ts',
  hs_compact_all fuel size hp ts = (hp', ts') -> good hp ts hp' ts'.
Proof.
  induction fuel as [|f IH]; intros size hp ts hp' ts' Hc; cbn [hs_compact_all] in Hc.
  - inversion Hc; subst. apply good_refl.
  - destruct (hs_compaction size hp ts) as [[hp1 ts1] d] eqn:E1.
    pose proof (hs_compaction_good _ _ _ _ _ _ E1) as G1.
    destruct d.
    + inversion Hc; subst. exact G1.
    + eapply good_trans; [exact G1|]. eapply IH; eauto.
Qed.

(* ------------------------------------------- migration ----------------------------------------- *)
Lemma import_tab_good : forall now bt ord size hp ts hp' ts',
  import_tab now bt ord size hp ts = (hp', ts') -> good hp ts hp' ts'.
Proof.
  intros now bt. induction ord as [|h ord' IH]; intros size hp ts hp' ts' Hi; cbn [import_tab] in Hi.
  - inversion Hi; subst. apply good_refl.
  - destruct (b_get h bt) as [e|].
    + destruct (hs_put now h e size hp ts) as [[hp1 ts1] c] eqn:Ep.
      eapply good_trans; [eapply hs_put_good; eauto|]. eapply IH; eauto.
    + eapply IH; eauto.
Qed.

(* the source tables are only read: whatever they are, only the destination's slabs and new blocks are
   written *)
Lemma migrate_tabs_good : forall now src size hp dst hp' dst',
  migrate_tabs now src size hp dst = (hp', dst') -> good hp dst hp' dst'.
Proof.
  intros now. induction src as [|t r IH]; intros size hp dst hp' dst' Hm; cbn [migrate_tabs] in Hm.
  - inversion Hm; subst. apply good_refl.
  - destruct (t_rec t).
    + eapply IH; eauto.
    + cbv zeta in Hm.
      destruct (import_tab now (load hp t) (map fst (b_idx (load hp t))) size hp dst) as [hp1 dst1] eqn:Ei.
      eapply good_trans; [eapply import_tab_good; eauto|]. eapply IH; eauto.
Qed.

(* ============================================ worlds ============================================ *)
Definition Sep (w : world) : Prop :=
  NoDup (slabs w) /\ (forall b, In b (slabs w) -> b < length (w_heap w)) /\
  (forall s, In s (w_handles w) -> sblk s < length (w_heap w) /\ ~ In (sblk s) (slabs w)) /\
  (forall s, In s (w_bufs w) -> sblk s < length (w_heap w) /\ ~ In (sblk s) (slabs w)) /\
  NoDup (map sblk (w_handles w) ++ map sblk (w_bufs w)).

Theorem sep_init : forall size, Sep (empty_world size).
Proof.
  intros size. unfold Sep, slabs, empty_world. cbn [w_tabs w_heap w_handles w_bufs map app].
  split; [constructor|]. split; [intros b []|]. split; [intros s []|]. split; [intros s []|constructor].
Qed.

Ltac destr_match :=
  repeat match goal with
         | |- context [match ?x with _ => _ end] => destruct x eqn:?
         end.

(* ------------------------------ the shape of WGet with copy = true ----------------------------- *)
Definition stamped (w : world) (t : htable) (bt : btable) (v : list byte) : world :=
  let hp1 := h_set (w_heap w) (t_blk t) (b_mem bt) in
  {| w_heap := hp1 ++ [v]; w_size := w_size w;
     w_tabs := replace_tab {| t_blk := t_blk t; t_rec := t_rec t; t_meta := with_mem bt [] |} (w_tabs w);
     w_handles := w_handles w ++ [ {| sblk := length hp1; soff := 0; slen := length v |} ];
     w_bufs := w_bufs w |}.

Lemma w_get_true_cases : forall h now w,
  w_get true h now w = (w, OVal None) \/
  exists t bt v, In t (w_tabs w) /\ w_get true h now w = (stamped w t bt v, OVal (Some v)).
Proof.
  intros h now w. unfold w_get.
  destruct (find_tab h (rev (w_tabs w))) as [t|] eqn:Ef; [|left; reflexivity].
  destruct (b_get h (load (w_heap w) t)) as [e|]; [|left; reflexivity].
  destruct (lookup h (b_idx (load (w_heap w) t))) as [o|]; [|left; reflexivity].
  right. exists t, (b_stamp now h (load (w_heap w) t)), (evalue e).
  split; [eapply find_tab_rev_in; eauto|]. reflexivity.
Qed.

Lemma stamp_same : forall w t bt,
  In t (w_tabs w) ->
  same (w_heap w) (w_tabs w) (h_set (w_heap w) (t_blk t) (b_mem bt))
       (replace_tab {| t_blk := t_blk t; t_rec := t_rec t; t_meta := with_mem bt [] |} (w_tabs w)).
Proof. intros w t bt Hin. eapply unload_replace_same; [exact Hin|reflexivity]. Qed.

Lemma stamped_good : forall w t bt v,
  In t (w_tabs w) -> good (w_heap w) (w_tabs w) (w_heap (stamped w t bt v)) (w_tabs (stamped w t bt v)).
Proof.
  intros w t bt v Hin. unfold stamped. cbn [w_heap w_tabs].
  eapply good_trans; [apply same_good; apply stamp_same; exact Hin|apply alloc_good].
Qed.

(* ------------------------------------ WReset, WDrop, WMigrate ---------------------------------- *)
Lemma update_nth_reset_blks : forall i ts, blks (update_nth i reset_tab ts) = blks ts.
Proof.
  unfold blks. induction i as [|i IH]; intros [|a r]; cbn [update_nth map]; try reflexivity.
  rewrite IH. reflexivity.
Qed.

Lemma remove_nth_map : forall (A B : Type) (f : A -> B) i l, map f (remove_nth i l) = remove_nth i (map f l).
Proof.
  intros A B f. induction i as [|i IH]; intros [|a r]; cbn [remove_nth map]; try reflexivity.
  rewrite IH. reflexivity.
Qed.

Lemma remove_nth_in : forall (A : Type) i (l : list A) a, In a (remove_nth i l) -> In a l.
Proof.
  intros A. induction i as [|i IH]; intros [|x r] a Hin; cbn [remove_nth] in Hin; auto.
  - right; exact Hin.
  - destruct Hin as [Heq|Hin]; [left; exact Heq|right; auto].
Qed.

Lemma remove_nth_nodup : forall (A : Type) i (l : list A), NoDup l -> NoDup (remove_nth i l).
Proof.
  intros A. induction i as [|i IH]; intros [|x r] Hnd; cbn [remove_nth]; auto.
  - inversion Hnd; assumption.
  - inversion Hnd as [|y l' Hni Hnd']; subst. constructor; auto.
    intro Hin. apply Hni. eapply remove_nth_in; eauto.
Qed.

Lemma remove_nth_good : forall hp i ts, good hp ts hp (remove_nth i ts).
Proof.
  intros hp i ts.
  assert (Hb : blks (remove_nth i ts) = remove_nth i (blks ts)) by apply remove_nth_map.
  split; [split; [apply frame_refl|]|].
  - intros b Hin. left. rewrite Hb in Hin. eapply remove_nth_in; eauto.
  - intros [Hnd Hlt]. unfold sinv. rewrite Hb. split.
    + apply remove_nth_nodup; exact Hnd.
    + intros b Hin. apply Hlt. eapply remove_nth_in; eauto.
Qed.

(* a transition that starts from no table at all writes no old block, whatever tables are around *)
Lemma good_from_nil : forall hp ts hp' ts', good hp [] hp' ts' -> good hp ts hp' ts'.
Proof.
  intros hp ts hp' ts' [[[Hl Hf] Hs] Hi]. split; [split; [split|]|].
  - exact Hl.
  - intros b Hlt _. apply Hf; auto.
  - intros b Hin. destruct (Hs b Hin) as [[]|Hge]. right; exact Hge.
  - intros _. apply Hi. split; [constructor|intros b []].
Qed.

(* migration writes NO block of the old heap: neither the source slabs nor any client block *)
Lemma migrate_fresh : forall now src size hp hp' ts',
  migrate_tabs now src size hp [] = (hp', ts') ->
  (forall b, b < length hp -> h_get hp' b = h_get hp b) /\ (forall b, In b (blks ts') -> length hp <= b).
Proof.
  intros now src size hp hp' ts' Hm.
  destruct (migrate_tabs_good _ _ _ _ _ _ _ Hm) as [[[Hl Hf] Hs] _]. split.
  - intros b Hlt. apply Hf; auto.
  - intros b Hin. destruct (Hs b Hin) as [[]|Hge]. exact Hge.
Qed.

(* --------------------------- every store operation is a good transition ------------------------ *)
Lemma store_step_good : forall w o,
  is_client_op o = false ->
  good (w_heap w) (w_tabs w) (w_heap (fst (w_step true w o))) (w_tabs (fst (w_step true w o))).
Proof.
  intros w o Hc.
  destruct o as [bs|h key buf ttl ts now|h key buf ttl ts|h now|h| | |i|i|now|i pos x|i pos x|i|i];
    try discriminate Hc; unfold w_step.
  - (* WPut *)
    destruct (nth_error (w_bufs w) buf) as [s|]; [|apply good_refl].
    unfold h_alloc. cbv beta iota zeta.
    match goal with |- context [hs_put ?a ?b ?c ?d ?e ?f] => destruct (hs_put a b c d e f) as [[hp1 ts1] c1] eqn:Ep end.
    cbn [fst with_store w_heap w_tabs].
    eapply good_trans; [apply alloc_good|]. eapply hs_put_good; eauto.
  - (* WPutRaw *)
    destruct (nth_error (w_bufs w) buf) as [s|]; [|apply good_refl].
    unfold h_alloc. cbv beta iota zeta.
    match goal with |- context [hs_put_raw ?a ?b ?c ?d ?e] => destruct (hs_put_raw a b c d e) as [[hp1 ts1] c1] eqn:Ep end.
    cbn [fst with_store w_heap w_tabs].
    eapply good_trans; [apply alloc_good|]. eapply hs_put_raw_good; eauto.
  - (* WGet *)
    destruct (w_get_true_cases h now w) as [E|(t & bt & v & Hin & E)]; rewrite E; cbn [fst].
    + apply good_refl.
    + apply stamped_good; exact Hin.
  - (* WDel *)
    destruct (hs_delete h (w_heap w) (w_tabs w)) as [hp1 ts1] eqn:Ed.
    cbn [fst with_store w_heap w_tabs]. apply same_good. eapply hs_delete_same; eauto.
  - (* WCompact *)
    destruct (hs_compaction (w_size w) (w_heap w) (w_tabs w)) as [[hp1 ts1] d] eqn:Ec.
    cbn [fst with_store w_heap w_tabs]. eapply hs_compaction_good; eauto.
  - (* WCompactAll *)
    destruct (hs_compact_all 400 (w_size w) (w_heap w) (w_tabs w)) as [hp1 ts1] eqn:Ec.
    cbn [fst with_store w_heap w_tabs]. eapply hs_compact_all_good; eauto.
  - (* WReset *)
    cbn [fst with_store w_heap w_tabs]. apply same_blks_good. apply update_nth_reset_blks.
  - (* WDrop *)
    cbn [fst with_store w_heap w_tabs]. apply remove_nth_good.
  - (* WMigrate *)
    destruct (migrate_tabs now (w_tabs w) (w_size w) (w_heap w) []) as [hp1 ts1] eqn:Em.
    cbn [fst with_store w_heap w_tabs]. apply good_from_nil. eapply migrate_tabs_good; eauto.
Qed.

(* -------------------------------- handles and buffers only grow -------------------------------- *)
Lemma step_handles : forall w o,
  match o with
  | WGet _ _ => exists l, w_handles (fst (w_step true w o)) = w_handles w ++ l
  | _ => w_handles (fst (w_step true w o)) = w_handles w
  end.
Proof.
  intros w o.
  destruct o as [bs|h key buf ttl ts now|h key buf ttl ts|h now|h| | |i|i|now|i pos x|i pos x|i|i]; unfold w_step;
    try (destr_match; cbn [fst with_store w_handles]; reflexivity).
  destruct (w_get_true_cases h now w) as [E|(t & bt & v & Hin & E)]; rewrite E; cbn [fst].
  - exists []. rewrite app_nil_r. reflexivity.
  - unfold stamped. cbn [w_handles]. eexists; reflexivity.
Qed.

Lemma step_bufs : forall w o,
  match o with
  | WNewBuf bs => w_bufs (fst (w_step true w o)) = w_bufs w ++ [ {| sblk := length (w_heap w); soff := 0; slen := length bs |} ]
  | _ => w_bufs (fst (w_step true w o)) = w_bufs w
  end.
Proof.
  intros w o.
  destruct o as [bs|h key buf ttl ts now|h key buf ttl ts|h now|h| | |i|i|now|i pos x|i pos x|i|i]; unfold w_step;
    try (destr_match; cbn [fst with_store w_bufs]; reflexivity).
  { unfold h_alloc. reflexivity. }
  destruct (w_get_true_cases h now w) as [E|(t & bt & v & Hin & E)]; rewrite E; cbn [fst]; reflexivity.
Qed.

Theorem handles_stable : forall w o i s,
  nth_error (w_handles w) i = Some s -> nth_error (w_handles (fst (w_step true w o))) i = Some s.
Proof.
  intros w o i s Hn. pose proof (step_handles w o) as Hs.
  assert (Hl : exists l, w_handles (fst (w_step true w o)) = w_handles w ++ l).
  { destruct o; try exact Hs; exists []; rewrite app_nil_r; exact Hs. }
  destruct Hl as [l Hl]. rewrite Hl. rewrite nth_error_app1; [exact Hn|].
  apply nth_error_Some. congruence.
Qed.

Theorem bufs_stable : forall w o i s,
  nth_error (w_bufs w) i = Some s -> nth_error (w_bufs (fst (w_step true w o))) i = Some s.
Proof.
  intros w o i s Hn. pose proof (step_bufs w o) as Hs.
  assert (Hl : exists l, w_bufs (fst (w_step true w o)) = w_bufs w ++ l).
  { destruct o; try (exists []; rewrite app_nil_r; exact Hs). eexists; exact Hs. }
  destruct Hl as [l Hl]. rewrite Hl. rewrite nth_error_app1; [exact Hn|].
  apply nth_error_Some. congruence.
Qed.

Theorem handles_stable_run : forall ops w i s,
  nth_error (w_handles w) i = Some s -> nth_error (w_handles (w_run true w ops)) i = Some s.
Proof.
  induction ops as [|o r IH]; intros w i s Hn; cbn [w_run]; [exact Hn|].
  apply IH. apply handles_stable; exact Hn.
Qed.

Theorem bufs_stable_run : forall ops w i s,
  nth_error (w_bufs w) i = Some s -> nth_error (w_bufs (w_run true w ops)) i = Some s.
Proof.
  induction ops as [|o r IH]; intros w i s Hn; cbn [w_run]; [exact Hn|].
  apply IH. apply bufs_stable; exact Hn.
Qed.

(* ------------------------------------- Sep is an invariant ------------------------------------- *)
(* a store transition keeps Sep when the handles and buffers stay *)
Lemma sep_store : forall w w',
  Sep w -> good (w_heap w) (w_tabs w) (w_heap w') (w_tabs w') ->
  w_handles w' = w_handles w -> w_bufs w' = w_bufs w -> Sep w'.
Proof.
  intros w w' (Hnd & Hlt & Hh & Hb & Hnd2) [[[Hlen Hfr] Hsub] Hinv] Eh Eb.
  destruct (Hinv (conj Hnd Hlt)) as [Hnd' Hlt'].
  unfold Sep, slabs in *. rewrite Eh, Eb.
  split; [exact Hnd'|]. split; [exact Hlt'|]. split; [|split; [|exact Hnd2]].
  - intros s Hin. destruct (Hh s Hin) as [Hl Hn]. split; [lia|].
    intro Hin'. destruct (Hsub _ Hin') as [H1|H2]; [auto|lia].
  - intros s Hin. destruct (Hb s Hin) as [Hl Hn]. split; [lia|].
    intro Hin'. destruct (Hsub _ Hin') as [H1|H2]; [auto|lia].
Qed.

(* a new client block at the end of the heap: as a handle ... *)
Lemma sep_new_handle : forall w w' v s,
  Sep w -> w_heap w' = w_heap w ++ [v] -> w_tabs w' = w_tabs w ->
  w_handles w' = w_handles w ++ [s] -> sblk s = length (w_heap w) -> w_bufs w' = w_bufs w -> Sep w'.
Proof.
  intros w w' v s (Hnd & Hlt & Hh & Hb & Hnd2) Ehp Ets Eh Es Eb.
  unfold Sep, slabs in *. rewrite Ehp, Ets, Eh, Eb. rewrite app_length. cbn [length].
  split; [exact Hnd|]. split; [|split; [|split]].
  - intros b Hin. specialize (Hlt b Hin). lia.
  - intros s' Hin. apply in_app_or in Hin. destruct Hin as [Hin|[Heq|[]]].
    + destruct (Hh s' Hin) as [Hl Hn]. split; [lia|exact Hn].
    + subst s'. split; [lia|]. intro Hin. specialize (Hlt _ Hin). lia.
  - intros s' Hin. destruct (Hb s' Hin) as [Hl Hn]. split; [lia|exact Hn].
  - rewrite map_app. cbn [map]. rewrite <- app_assoc. cbn [app].
    apply NoDup_insert; [exact Hnd2|].
    intro Hin. apply in_app_or in Hin. destruct Hin as [Hin|Hin]; apply in_map_iff in Hin;
      destruct Hin as (s' & Heq & Hin).
    + destruct (Hh s' Hin) as [Hl _]. lia.
    + destruct (Hb s' Hin) as [Hl _]. lia.
Qed.

(* ... or as a buffer *)
Lemma sep_new_buf : forall w w' v s,
  Sep w -> w_heap w' = w_heap w ++ [v] -> w_tabs w' = w_tabs w ->
  w_handles w' = w_handles w -> w_bufs w' = w_bufs w ++ [s] -> sblk s = length (w_heap w) -> Sep w'.
Proof.
  intros w w' v s (Hnd & Hlt & Hh & Hb & Hnd2) Ehp Ets Eh Eb Es.
  unfold Sep, slabs in *. rewrite Ehp, Ets, Eh, Eb. rewrite app_length. cbn [length].
  split; [exact Hnd|]. split; [|split; [|split]].
  - intros b Hin. specialize (Hlt b Hin). lia.
  - intros s' Hin. destruct (Hh s' Hin) as [Hl Hn]. split; [lia|exact Hn].
  - intros s' Hin. apply in_app_or in Hin. destruct Hin as [Hin|[Heq|[]]].
    + destruct (Hb s' Hin) as [Hl Hn]. split; [lia|exact Hn].
    + subst s'. split; [lia|]. intro Hin. specialize (Hlt _ Hin). lia.
  - rewrite map_app. cbn [map]. rewrite app_assoc.
    apply NoDup_insert; rewrite app_nil_r; [exact Hnd2|].
    intro Hin. apply in_app_or in Hin. destruct Hin as [Hin|Hin]; apply in_map_iff in Hin;
      destruct Hin as (s' & Heq & Hin).
    + destruct (Hh s' Hin) as [Hl _]. lia.
    + destruct (Hb s' Hin) as [Hl _]. lia.
Qed.

(* a client write: same shape of the heap, same store, same handles and buffers *)
Lemma sep_same_shape : forall w w',
  Sep w -> length (w_heap w') = length (w_heap w) -> w_tabs w' = w_tabs w ->
  w_handles w' = w_handles w -> w_bufs w' = w_bufs w -> Sep w'.
Proof.
  intros w w' HS El Ets Eh Eb. unfold Sep, slabs in *. rewrite El, Ets, Eh, Eb. exact HS.
Qed.

Theorem sep_step : forall w o, Sep w -> Sep (fst (w_step true w o)).
Proof.
  intros w o HS.
  destruct (is_client_op o) eqn:Hc.
  - destruct o as [bs|h key buf ttl ts now|h key buf ttl ts|h now|h| | |i|i|now|i pos x|i pos x|i|i];
      try discriminate Hc; unfold w_step.
    + (* WNewBuf *)
      unfold h_alloc. cbn [fst].
      eapply sep_new_buf with (w := w); try reflexivity; exact HS.
    + (* WMut *)
      destruct (nth_error (w_handles w) i) as [s|]; cbn [fst]; [|exact HS].
      eapply sep_same_shape; [exact HS| | | |]; try reflexivity.
      cbn [with_store w_heap]. apply h_poke_length.
    + (* WMutBuf *)
      destruct (nth_error (w_bufs w) i) as [s|]; cbn [fst]; [|exact HS].
      eapply sep_same_shape; [exact HS| | | |]; try reflexivity.
      cbn [with_store w_heap]. apply h_poke_length.
    + exact HS.
    + exact HS.
  - pose proof (store_step_good w o Hc) as G.
    pose proof (step_handles w o) as Eh. pose proof (step_bufs w o) as Eb.
    destruct o as [bs|h key buf ttl ts now|h key buf ttl ts|h now|h| | |i|i|now|i pos x|i pos x|i|i];
      try discriminate Hc; try (eapply sep_store; eauto; fail).
    (* WGet *)
    clear G Eh Eb. unfold w_step.
    destruct (w_get_true_cases h now w) as [E|(t & bt & v & Hin & E)]; rewrite E; cbn [fst]; [exact HS|].
    eapply sep_new_handle with (w := with_store w (h_set (w_heap w) (t_blk t) (b_mem bt)) (w_tabs (stamped w t bt v)));
      try reflexivity.
    eapply sep_store; [exact HS| | reflexivity | reflexivity].
    cbn [with_store w_heap w_tabs stamped]. apply same_good. apply stamp_same; exact Hin.
Qed.

Theorem sep_run : forall ops w, Sep w -> Sep (w_run true w ops).
Proof.
  induction ops as [|o r IH]; intros w HS; cbn [w_run]; [exact HS|].
  apply IH. apply sep_step; exact HS.
Qed.

(* --------------- store operations write only slab blocks and allocate at the end --------------- *)
Theorem store_op_frame : forall w o b,
  Sep w -> is_client_op o = false -> b < length (w_heap w) -> ~ In b (slabs w) ->
  h_get (w_heap (fst (w_step true w o))) b = h_get (w_heap w) b.
Proof.
  intros w o b _ Hc Hlt Hni.
  destruct (store_step_good w o Hc) as [[[_ Hf] _] _]. apply Hf; assumption.
Qed.

(* without the Sep hypothesis, in the generic frame form *)
Lemma store_op_frame' : forall w o,
  is_client_op o = false -> frame (slabs w) (w_heap w) (w_heap (fst (w_step true w o))).
Proof. intros w o Hc. destruct (store_step_good w o Hc) as [[Hf _] _]. exact Hf. Qed.

(* the slabs after a store operation are old slabs or newly allocated blocks *)
Lemma store_op_slabs : forall w o b,
  is_client_op o = false -> In b (slabs (fst (w_step true w o))) -> In b (slabs w) \/ length (w_heap w) <= b.
Proof. intros w o b Hc Hin. destruct (store_step_good w o Hc) as [[_ Hs] _]. apply Hs; exact Hin. Qed.

(* a migration writes nothing at all below the old end of the heap *)
Lemma migrate_frame : forall w now b,
  b < length (w_heap w) -> h_get (w_heap (fst (w_step true w (WMigrate now)))) b = h_get (w_heap w) b.
Proof.
  intros w now b Hlt. unfold w_step.
  destruct (migrate_tabs now (w_tabs w) (w_size w) (w_heap w) []) as [hp1 ts1] eqn:Em.
  cbn [fst with_store w_heap]. destruct (migrate_fresh _ _ _ _ _ _ Em) as [Hf _]. apply Hf; exact Hlt.
Qed.

Theorem heap_grows : forall w o, length (w_heap w) <= length (w_heap (fst (w_step true w o))).
Proof.
  intros w o. destruct (is_client_op o) eqn:Hc.
  - destruct o as [bs|h key buf ttl ts now|h key buf ttl ts|h now|h| | |i|i|now|i pos x|i pos x|i|i];
      try discriminate Hc; unfold w_step.
    + unfold h_alloc. cbn [fst w_heap]. rewrite app_length. lia.
    + destruct (nth_error (w_handles w) i) as [s|]; cbn [fst with_store w_heap]; [|lia].
      rewrite h_poke_length. lia.
    + destruct (nth_error (w_bufs w) i) as [s|]; cbn [fst with_store w_heap]; [|lia].
      rewrite h_poke_length. lia.
    + cbn [fst]. lia.
    + cbn [fst]. lia.
  - destruct (store_step_good w o Hc) as [[[Hl _] _] _]. exact Hl.
Qed.

Lemma heap_grows_run : forall ops w, length (w_heap w) <= length (w_heap (w_run true w ops)).
Proof.
  induction ops as [|o r IH]; intros w; cbn [w_run]; [lia|].
  pose proof (heap_grows w o). pose proof (IH (fst (w_step true w o))). lia.
Qed.

(* --------------------------- client operations touch only their own block ---------------------- *)
Theorem client_mut_frame : forall w i pos x s b,
  nth_error (w_handles w) i = Some s -> b <> sblk s ->
  h_get (w_heap (fst (w_step true w (WMut i pos x)))) b = h_get (w_heap w) b.
Proof.
  intros w i pos x s b Hn Hne. unfold w_step. rewrite Hn. cbn [fst with_store w_heap].
  apply h_poke_other; exact Hne.
Qed.

Theorem client_mutbuf_frame : forall w i pos x s b,
  nth_error (w_bufs w) i = Some s -> b <> sblk s ->
  h_get (w_heap (fst (w_step true w (WMutBuf i pos x)))) b = h_get (w_heap w) b.
Proof.
  intros w i pos x s b Hn Hne. unfold w_step. rewrite Hn. cbn [fst with_store w_heap].
  apply h_poke_other; exact Hne.
Qed.

(* when the index names no handle / buffer nothing is written at all *)
Lemma client_mut_none : forall w i pos x,
  nth_error (w_handles w) i = None -> fst (w_step true w (WMut i pos x)) = w.
Proof. intros w i pos x Hn. unfold w_step. rewrite Hn. reflexivity. Qed.

Lemma client_mutbuf_none : forall w i pos x,
  nth_error (w_bufs w) i = None -> fst (w_step true w (WMutBuf i pos x)) = w.
Proof. intros w i pos x Hn. unfold w_step. rewrite Hn. reflexivity. Qed.

Theorem client_other_frame : forall w o b,
  match o with WRead _ | WReadBuf _ | WNewBuf _ => True | _ => False end ->
  b < length (w_heap w) ->
  h_get (w_heap (fst (w_step true w o))) b = h_get (w_heap w) b.
Proof.
  intros w o b Ho Hlt.
  destruct o as [bs|h key buf ttl ts now|h key buf ttl ts|h now|h| | |i|i|now|i pos x|i pos x|i|i];
    try contradiction; unfold w_step; cbn [fst]; try reflexivity.
  unfold h_alloc. cbn [fst w_heap]. apply h_get_app_lt; exact Hlt.
Qed.

Lemma client_read_frame : forall w i, fst (w_step true w (WRead i)) = w.
Proof. reflexivity. Qed.
Lemma client_readbuf_frame : forall w i, fst (w_step true w (WReadBuf i)) = w.
Proof. reflexivity. Qed.
Lemma client_newbuf_frame : forall w bs b,
  b < length (w_heap w) -> h_get (w_heap (fst (w_step true w (WNewBuf bs)))) b = h_get (w_heap w) b.
Proof. intros w bs b Hlt. apply client_other_frame; [exact I|exact Hlt]. Qed.

Theorem client_ops_keep_store : forall w o,
  is_client_op o = true -> w_tabs (fst (w_step true w o)) = w_tabs w.
Proof.
  intros w o Hc.
  destruct o as [bs|h key buf ttl ts now|h key buf ttl ts|h now|h| | |i|i|now|i pos x|i pos x|i|i];
    try discriminate Hc; unfold w_step; destr_match; reflexivity.
Qed.

(* ========================================= snapshots =========================================== *)
Lemma sep_handle_buf_neq : forall w s s',
  Sep w -> In s (w_handles w) -> In s' (w_bufs w) -> sblk s <> sblk s'.
Proof.
  intros w s s' (_ & _ & _ & _ & Hnd2) Hin Hin' Heq.
  eapply NoDup_app_disjoint; [exact Hnd2| |].
  - apply in_map; exact Hin.
  - rewrite Heq. apply in_map; exact Hin'.
Qed.

Lemma sep_handles_neq : forall w i j s s',
  Sep w -> i <> j -> nth_error (w_handles w) i = Some s -> nth_error (w_handles w) j = Some s' ->
  sblk s <> sblk s'.
Proof.
  intros w i j s s' (_ & _ & _ & _ & Hnd2) Hne Hi Hj.
  eapply NoDup_map_nth_neq; eauto. eapply NoDup_app_l; eauto.
Qed.

Lemma sep_bufs_neq : forall w i j s s',
  Sep w -> i <> j -> nth_error (w_bufs w) i = Some s -> nth_error (w_bufs w) j = Some s' ->
  sblk s <> sblk s'.
Proof.
  intros w i j s s' (_ & _ & _ & _ & Hnd2) Hne Hi Hj.
  eapply NoDup_map_nth_neq; eauto. eapply NoDup_app_r; eauto.
Qed.

(* one step leaves the block of handle i alone unless it is a write through handle i *)
Lemma handle_block_step : forall w o i s,
  Sep w -> nth_error (w_handles w) i = Some s -> (forall pos x, o <> WMut i pos x) ->
  h_get (w_heap (fst (w_step true w o))) (sblk s) = h_get (w_heap w) (sblk s).
Proof.
  intros w o i s HS Hn Hno.
  pose proof (nth_error_In _ _ Hn) as Hin.
  pose proof HS as HS'. destruct HS' as (Hnd & Hlt & Hh & Hb & Hnd2).
  destruct (Hh s Hin) as [Hl Hns].
  destruct (is_client_op o) eqn:Hc.
  - destruct o as [bs|h key buf ttl ts now|h key buf ttl ts|h now|h| | |j|j|now|j pos x|j pos x|j|j];
      try discriminate Hc.
    + apply client_other_frame; [exact I|exact Hl].
    + destruct (nth_error (w_handles w) j) as [s'|] eqn:Hj.
      * eapply client_mut_frame; [exact Hj|].
        assert (Hij : i <> j). { intro Heq. subst j. apply (Hno pos x). reflexivity. }
        eapply sep_handles_neq; eauto.
      * rewrite client_mut_none by exact Hj. reflexivity.
    + destruct (nth_error (w_bufs w) j) as [s'|] eqn:Hj.
      * eapply client_mutbuf_frame; [exact Hj|].
        eapply sep_handle_buf_neq; eauto. eapply nth_error_In; eauto.
      * rewrite client_mutbuf_none by exact Hj. reflexivity.
    + reflexivity.
    + reflexivity.
  - apply store_op_frame; assumption.
Qed.

(* one step leaves the block of buffer i alone unless it is a write into buffer i *)
Lemma buf_block_step : forall w o i s,
  Sep w -> nth_error (w_bufs w) i = Some s -> (forall pos x, o <> WMutBuf i pos x) ->
  h_get (w_heap (fst (w_step true w o))) (sblk s) = h_get (w_heap w) (sblk s).
Proof.
  intros w o i s HS Hn Hno.
  pose proof (nth_error_In _ _ Hn) as Hin.
  pose proof HS as HS'. destruct HS' as (Hnd & Hlt & Hh & Hb & Hnd2).
  destruct (Hb s Hin) as [Hl Hns].
  destruct (is_client_op o) eqn:Hc.
  - destruct o as [bs|h key buf ttl ts now|h key buf ttl ts|h now|h| | |j|j|now|j pos x|j pos x|j|j];
      try discriminate Hc.
    + apply client_other_frame; [exact I|exact Hl].
    + destruct (nth_error (w_handles w) j) as [s'|] eqn:Hj.
      * eapply client_mut_frame; [exact Hj|].
        apply not_eq_sym. eapply sep_handle_buf_neq; eauto. eapply nth_error_In; eauto.
      * rewrite client_mut_none by exact Hj. reflexivity.
    + destruct (nth_error (w_bufs w) j) as [s'|] eqn:Hj.
      * eapply client_mutbuf_frame; [exact Hj|].
        assert (Hij : i <> j). { intro Heq. subst j. apply (Hno pos x). reflexivity. }
        eapply sep_bufs_neq; eauto.
      * rewrite client_mutbuf_none by exact Hj. reflexivity.
    + reflexivity.
    + reflexivity.
  - apply store_op_frame; assumption.
Qed.

(* a returned value never changes, whatever the store and the other clients do afterwards *)
Theorem snapshot_read : forall ops w i s,
  Sep w -> nth_error (w_handles w) i = Some s -> (forall pos x, ~ In (WMut i pos x) ops) ->
  nth_error (w_handles (w_run true w ops)) i = Some s /\
  h_read (w_heap (w_run true w ops)) s = h_read (w_heap w) s.
Proof.
  induction ops as [|o r IH]; intros w i s HS Hn Hno; cbn [w_run].
  - split; [exact Hn|reflexivity].
  - destruct (IH (fst (w_step true w o)) i s) as [Hn' Hr'].
    + apply sep_step; exact HS.
    + apply handles_stable; exact Hn.
    + intros pos x Hin. apply (Hno pos x). right; exact Hin.
    + split; [exact Hn'|]. rewrite Hr'. apply h_read_block.
      eapply handle_block_step; eauto.
      intros pos x Heq. apply (Hno pos x). left; exact Heq.
Qed.

(* the store never writes into a caller's buffer *)
Theorem snapshot_buf : forall ops w i s,
  Sep w -> nth_error (w_bufs w) i = Some s -> (forall pos x, ~ In (WMutBuf i pos x) ops) ->
  h_read (w_heap (w_run true w ops)) s = h_read (w_heap w) s.
Proof.
  induction ops as [|o r IH]; intros w i s HS Hn Hno; cbn [w_run].
  - reflexivity.
  - rewrite (IH (fst (w_step true w o)) i s).
    + apply h_read_block. eapply buf_block_step; eauto.
      intros pos x Heq. apply (Hno pos x). left; exact Heq.
    + apply sep_step; exact HS.
    + apply bufs_stable; exact Hn.
    + intros pos x Hin. apply (Hno pos x). right; exact Hin.
Qed.

(* the store content depends only on the slab blocks *)
Lemma hs_find_slabs_only : forall hp hp' ts h,
  (forall b, In b (blks ts) -> h_get hp' b = h_get hp b) -> hs_find h hp' ts = hs_find h hp ts.
Proof.
  intros hp hp' ts h Heq. unfold hs_find.
  destruct (find_tab h (rev ts)) as [t|] eqn:Ef; [|reflexivity].
  unfold load. rewrite (Heq (t_blk t)); [reflexivity|].
  unfold blks. apply in_map. eapply find_tab_rev_in; eauto.
Qed.

Lemma hs_abs_slabs_only : forall hp hp' ts h,
  (forall b, In b (blks ts) -> h_get hp' b = h_get hp b) -> hs_abs hp' ts h = hs_abs hp ts h.
Proof.
  intros hp hp' ts h Heq. unfold hs_abs. rewrite (hs_find_slabs_only hp hp' ts h Heq). reflexivity.
Qed.

(* writing into a returned value never alters the stored content *)
Theorem mut_keeps_store : forall w i pos x h,
  Sep w -> w_abs (fst (w_step true w (WMut i pos x))) h = w_abs w h.
Proof.
  intros w i pos x h HS. unfold w_step.
  destruct (nth_error (w_handles w) i) as [s|] eqn:Hn; cbn [fst]; [|reflexivity].
  unfold w_abs. cbn [with_store w_heap w_tabs]. apply hs_abs_slabs_only.
  intros b Hin. apply h_poke_other. intro Heq. subst b.
  destruct HS as (_ & _ & Hh & _ & _). destruct (Hh s (nth_error_In _ _ Hn)) as [_ Hns].
  apply Hns. exact Hin.
Qed.

(* the buffer passed to Put may be reused as soon as Put has returned *)
Theorem mutbuf_keeps_store : forall w i pos x h,
  Sep w -> w_abs (fst (w_step true w (WMutBuf i pos x))) h = w_abs w h.
Proof.
  intros w i pos x h HS. unfold w_step.
  destruct (nth_error (w_bufs w) i) as [s|] eqn:Hn; cbn [fst]; [|reflexivity].
  unfold w_abs. cbn [with_store w_heap w_tabs]. apply hs_abs_slabs_only.
  intros b Hin. apply h_poke_other. intro Heq. subst b.
  destruct HS as (_ & _ & _ & Hb & _). destruct (Hb s (nth_error_In _ _ Hn)) as [_ Hns].
  apply Hns. exact Hin.
Qed.

(* what another caller holds is unchanged *)
Theorem mut_keeps_others : forall w i j pos x s,
  Sep w -> i <> j -> nth_error (w_handles w) j = Some s ->
  h_read (w_heap (fst (w_step true w (WMut i pos x)))) s = h_read (w_heap w) s.
Proof.
  intros w i j pos x s HS Hne Hn. apply h_read_block.
  eapply handle_block_step; eauto. intros pos' x' Heq. inversion Heq. congruence.
Qed.

Theorem mut_keeps_bufs : forall w i j pos x s,
  Sep w -> nth_error (w_bufs w) j = Some s ->
  h_read (w_heap (fst (w_step true w (WMut i pos x)))) s = h_read (w_heap w) s.
Proof.
  intros w i j pos x s HS Hn. apply h_read_block.
  eapply buf_block_step; eauto. intros pos' x' Heq. discriminate Heq.
Qed.

Theorem mutbuf_keeps_handles : forall w i j pos x s,
  Sep w -> nth_error (w_handles w) j = Some s ->
  h_read (w_heap (fst (w_step true w (WMutBuf i pos x)))) s = h_read (w_heap w) s.
Proof.
  intros w i j pos x s HS Hn. apply h_read_block.
  eapply handle_block_step; eauto. intros pos' x' Heq. discriminate Heq.
Qed.

Theorem mutbuf_keeps_others : forall w i j pos x s,
  Sep w -> i <> j -> nth_error (w_bufs w) j = Some s ->
  h_read (w_heap (fst (w_step true w (WMutBuf i pos x)))) s = h_read (w_heap w) s.
Proof.
  intros w i j pos x s HS Hne Hn. apply h_read_block.
  eapply buf_block_step; eauto. intros pos' x' Heq. inversion Heq. congruence.
Qed.

(* the handle returned by Get is a new block holding exactly the returned value *)
Theorem get_fresh : forall w h now w' v,
  Sep w -> w_step true w (WGet h now) = (w', OVal (Some v)) ->
  exists s, w_handles w' = w_handles w ++ [s] /\ h_read (w_heap w') s = v /\
            sblk s = length (w_heap w) /\ soff s = 0 /\ slen s = length v /\
            h_get (w_heap w') (sblk s) = v.
Proof.
  intros w h now w' v _ Hst. unfold w_step in Hst.
  destruct (w_get_true_cases h now w) as [E|(t & bt & v0 & Hin & E)]; rewrite E in Hst.
  - inversion Hst.
  - inversion Hst; subst w' v0; clear Hst. unfold stamped. cbn [w_handles w_heap].
    eexists. split; [reflexivity|].
    unfold h_read. cbn [sblk soff slen]. rewrite h_get_alloc_new. cbn [skipn].
    rewrite firstn_all. repeat split; auto. apply h_set_length.
Qed.

(* ========================================== sharpness =========================================== *)
(* copy = false is the code before fix 01-table-get-copy: Get returns a slice INTO the slab. *)
Definition alias_run_mut : list wop :=
  [WNewBuf [1; 2; 3]%N; WPut 7%N [97%N] 0 0%Z 5%Z 9%Z; WGet 7%N 1%Z; WMut 0 0 99%N].
Definition alias_run_get : list wop :=
  [WNewBuf [1; 2; 3]%N; WPut 7%N [97%N] 0 0%Z 5%Z 9%Z; WGet 7%N 1%Z].
(* the table is recycled and rewritten *)
Definition alias_run_recycle : list wop :=
  [WReset 0; WNewBuf [4; 5; 6]%N; WPut 8%N [98%N] 1 0%Z 5%Z 9%Z].
(* no explicit reset: the key is overwritten (the 64-byte table is full, a second table takes the new
   version and the old one is deleted), compaction recycles the emptied table, the next Put reuses it *)
Definition alias_run_overwrite : list wop :=
  [WNewBuf [4; 5; 6]%N; WPut 7%N [97%N] 1 0%Z 5%Z 9%Z; WCompactAll;
   WNewBuf [7; 8; 9]%N; WPut 9%N [99%N] 2 0%Z 5%Z 9%Z].

(* what handle 0 shows after a run from the empty world *)
Definition handle0 (copy : bool) (ops : list wop) : option (list byte) :=
  let w := w_run copy (empty_world 64) ops in
  option_map (h_read (w_heap w)) (nth_error (w_handles w) 0).

Example alias_breaks_without_copy :
  (* writing into the returned value changes the stored value *)
  w_abs (w_run false (empty_world 64) alias_run_mut) 7%N = Some ([97%N], [99; 2; 3]%N, 0%Z, 5%Z) /\
  (* the returned value changes when the store rewrites the recycled table *)
  handle0 false alias_run_get = Some [1; 2; 3]%N /\
  handle0 false (alias_run_get ++ alias_run_recycle) = Some [4; 5; 6]%N /\
  handle0 false (alias_run_get ++ alias_run_overwrite) = Some [7; 8; 9]%N /\
  (* and Sep fails: the handle's block is a slab *)
  ~ Sep (w_run false (empty_world 64) alias_run_get).
Proof.
  split; [vm_compute; reflexivity|]. split; [vm_compute; reflexivity|].
  split; [vm_compute; reflexivity|]. split; [vm_compute; reflexivity|].
  intros (_ & _ & Hh & _). destruct (Hh {| sblk := 2; soff := 30; slen := 3 |}) as [_ Hn].
  - vm_compute. left; reflexivity.
  - apply Hn. vm_compute. left; reflexivity.
Qed.

Example sep_example :
  (* the same runs with the copy: the store keeps its value, the caller's write lands in its own block *)
  w_abs (w_run true (empty_world 64) alias_run_mut) 7%N = Some ([97%N], [1; 2; 3]%N, 0%Z, 5%Z) /\
  handle0 true alias_run_mut = Some [99; 2; 3]%N /\
  handle0 true alias_run_get = Some [1; 2; 3]%N /\
  handle0 true (alias_run_get ++ alias_run_recycle) = Some [1; 2; 3]%N /\
  handle0 true (alias_run_get ++ alias_run_overwrite) = Some [1; 2; 3]%N /\
  w_abs (w_run true (empty_world 64) (alias_run_get ++ alias_run_recycle)) 8%N = Some ([98%N], [4; 5; 6]%N, 0%Z, 5%Z) /\
  w_abs (w_run true (empty_world 64) (alias_run_get ++ alias_run_overwrite)) 7%N = Some ([97%N], [4; 5; 6]%N, 0%Z, 5%Z) /\
  w_abs (w_run true (empty_world 64) (alias_run_get ++ alias_run_overwrite)) 9%N = Some ([99%N], [7; 8; 9]%N, 0%Z, 5%Z).
Proof. vm_compute. repeat split; reflexivity. Qed.

(* the general theorem instantiated on these runs *)
Example sep_example_general : forall ops,
  (forall pos x, ~ In (WMut 0 pos x) ops) ->
  handle0 true (alias_run_get ++ ops) = Some [1; 2; 3]%N.
Proof.
  intros ops Hno. unfold handle0.
  assert (Hrun : forall a b w, w_run true w (a ++ b) = w_run true (w_run true w a) b).
  { induction a as [|o r IH]; intros b w; cbn [app w_run]; auto. }
  rewrite Hrun.
  set (w0 := w_run true (empty_world 64) alias_run_get).
  assert (HS : Sep w0) by (apply sep_run, sep_init).
  assert (Hn : nth_error (w_handles w0) 0 = Some {| sblk := 3; soff := 0; slen := 3 |})
    by (vm_compute; reflexivity).
  destruct (snapshot_read ops w0 0 _ HS Hn Hno) as [Hn' Hr'].
  rewrite Hn'. cbn [option_map]. rewrite Hr'. vm_compute. reflexivity.
Qed.

Print Assumptions sep_run.
Print Assumptions store_op_frame.
Print Assumptions snapshot_read.
Print Assumptions mut_keeps_store.
Print Assumptions mutbuf_keeps_store.
Print Assumptions snapshot_buf.
Print Assumptions get_fresh.
Print Assumptions alias_breaks_without_copy.
