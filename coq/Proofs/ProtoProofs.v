(* Lemmas about Model/Proto.v: no parser, no dispatch path and no id-driven handler decision of the modelled
   front end can panic or spin (C16). Nothing executable is defined here. *)
From Coq Require Import String Ascii.
From Coq Require Import List NArith ZArith Bool Lia Arith.
Require Import Olric.Model.Proto.
Import ListNotations.

(* an outcome a client can live with: a parsed request or an error reply *)
Definition safe {A} (o : outcome A) : Prop :=
  match o with POk _ | PErr _ => True | PPanic | PSpin => False end.

Lemma bind_safe : forall A B (o : outcome A) (k : A -> outcome B),
  safe o -> (forall a, safe (k a)) -> safe (bind o k).
Proof. intros A B o k Ho Hk. destruct o; cbn in *; auto. Qed.

Lemma arg_safe : forall B (args : list tok) (i : nat) (k : tok -> outcome B),
  i < length args -> (forall t, safe (k t)) -> safe (arg args i k).
Proof.
  intros B args i k Hi Hk. unfold arg. destruct (nth_error args i) eqn:E; [apply Hk|].
  apply nth_error_None in E. lia.
Qed.

Lemma of_num_safe : forall A B (r : num_res A) (k : A -> outcome B),
  (forall a, safe (k a)) -> safe (of_num r k).
Proof. intros A B r k Hk. destruct r; cbn; auto. Qed.

Lemma flag_at_safe : forall (args : list tok) (n : nat) (kw : tok) (k : bool -> outcome bool),
  (forall b, safe (k b)) -> safe (flag_at args n kw k).
Proof.
  intros args n kw k Hk. unfold flag_at. destruct (Nat.eqb (length args) (S n)) eqn:E; [|apply Hk].
  apply Nat.eqb_eq in E. apply arg_safe; [lia|]. intro t. destruct (tok_eqb t kw); [apply Hk|exact I].
Qed.

(* errWrongNumber terminates within len(args)+1 iterations and never indexes an empty vector *)
Lemma wrong_number_loop_ok : forall (args : list tok) (fuel : nat) (acc : tok),
  length args < fuel -> exists t, wrong_number_loop fuel args acc = POk t.
Proof.
  induction args as [|a rest IH]; intros fuel acc H; destruct fuel as [|f]; try (cbn in H; lia).
  - eexists; reflexivity.
  - cbn [wrong_number_loop]. destruct rest as [|b rest']; [eexists; reflexivity|].
    apply IH. cbn in *. lia.
Qed.

Lemma err_wrong_number_safe : forall A (args : list tok), safe (@err_wrong_number A args).
Proof.
  intros A args. unfold err_wrong_number.
  destruct (wrong_number_loop_ok args (S (length args)) [] (Nat.lt_succ_diag_r _)) as [t Ht].
  rewrite Ht. exact I.
Qed.

Lemma collect_loop_safe : forall (fuel : nat) (args acc : list tok),
  length args < fuel -> safe (collect_loop fuel args acc).
Proof.
  induction fuel as [|f IH]; intros args acc H; [lia|].
  destruct args as [|a rest]; [exact I|].
  cbn [collect_loop arg nth_error skipn]. apply IH. cbn in H. lia.
Qed.

Ltac norm_hyps :=
  repeat match goal with
  | H : too_few _ _ = false |- _ => unfold too_few in H; apply Nat.ltb_ge in H
  | H : too_few _ _ = true |- _ => clear H
  | H : Nat.ltb _ _ = true |- _ => apply Nat.ltb_lt in H
  | H : Nat.ltb _ _ = false |- _ => apply Nat.ltb_ge in H
  | H : Nat.eqb _ _ = true |- _ => apply Nat.eqb_eq in H
  | H : Nat.eqb _ _ = false |- _ => apply Nat.eqb_neq in H
  | H : Nat.leb _ _ = true |- _ => apply Nat.leb_le in H
  | H : Nat.leb _ _ = false |- _ => apply Nat.leb_gt in H
  end.

Ltac safe_step :=
  match goal with
  | |- safe (POk _) => exact I
  | |- safe (PErr _) => exact I
  | |- safe (err_wrong_number _) => apply err_wrong_number_safe
  | |- safe (arg _ _ _) => apply arg_safe; [norm_hyps; cbn [length] in *; lia | intro]
  | |- safe (of_num _ _) => apply of_num_safe; intro
  | |- safe (flag_at _ _ _ _) => apply flag_at_safe; intro
  | |- safe (bind _ _) => apply bind_safe; [| intro]
  | |- safe (omap _ _) => apply bind_safe; [| intro]
  | |- safe (if ?c then _ else _) => destruct c eqn:?
  | |- safe (let _ := _ in _) => cbv zeta
  end.

Section ParserProofs.
  Variable F : Type.
  Variable fzero : F.
  Variable parse_float : tok -> num_res F.
  Variable fdur : F -> Z.

  Notation put_opts := (put_opts F parse_float).
  Notation parse_put := (parse_put F fzero parse_float).

  (* the option loop of ParsePutCommand: fuel above the number of remaining arguments always suffices *)
  Lemma put_opts_safe : forall (fuel : nat) (args : list tok) (p : put_t F),
    length args < fuel -> safe (put_opts fuel args p).
  Proof.
    induction fuel as [|f IH]; intros args p H; [lia|].
    destruct args as [|a0 rest]; [exact I|].
    cbn [Proto.put_opts arg nth_error].
    assert (Hr : length rest < f) by (cbn in H; lia).
    assert (H2 : forall (A : Type) (k : A -> put_t F) (r : num_res A),
               safe (if too_few (a0 :: rest) 2 then PErr ESyntax
                     else arg (a0 :: rest) 1 (fun v => of_num r (fun x => put_opts f (skipn 2 (a0 :: rest)) (k x))))).
    { intros A k r. destruct rest as [|a1 rest']; [exact I|].
      cbn [too_few length Nat.ltb Nat.leb arg nth_error skipn].
      apply of_num_safe. intro x. apply IH. cbn in Hr. lia. }
    destruct (tok_eqb (to_upper a0) kw_NX); [apply IH; exact Hr|].
    destruct (tok_eqb (to_upper a0) kw_XX); [apply IH; exact Hr|].
    destruct (tok_eqb (to_upper a0) kw_PX).
    { destruct rest as [|a1 rest']; [exact I|].
      cbn [too_few length Nat.ltb Nat.leb arg nth_error skipn].
      apply of_num_safe. intro x. apply IH. cbn in Hr. lia. }
    destruct (tok_eqb (to_upper a0) kw_EX).
    { destruct rest as [|a1 rest']; [exact I|].
      cbn [too_few length Nat.ltb Nat.leb arg nth_error skipn].
      apply of_num_safe. intro x. apply IH. cbn in Hr. lia. }
    destruct (tok_eqb (to_upper a0) kw_EXAT).
    { destruct rest as [|a1 rest']; [exact I|].
      cbn [too_few length Nat.ltb Nat.leb arg nth_error skipn].
      apply of_num_safe. intro x. apply IH. cbn in Hr. lia. }
    destruct (tok_eqb (to_upper a0) kw_PXAT).
    { destruct rest as [|a1 rest']; [exact I|].
      cbn [too_few length Nat.ltb Nat.leb arg nth_error skipn].
      apply of_num_safe. intro x. apply IH. cbn in Hr. lia. }
    exact I.
  Qed.

  Lemma scan_opts_safe : forall (fuel : nat) (args : list tok) (s : scan_t),
    length args < fuel -> safe (scan_opts fuel args s).
  Proof.
    induction fuel as [|f IH]; intros args s H; [lia|].
    destruct args as [|a0 rest]; [exact I|].
    cbn [scan_opts arg nth_error].
    assert (Hr : length rest < f) by (cbn in H; lia).
    destruct (tok_eqb (to_upper a0) kw_MATCH).
    { destruct rest as [|a1 rest']; [exact I|].
      cbn [too_few length Nat.ltb Nat.leb arg nth_error skipn]. apply IH. cbn in Hr. lia. }
    destruct (tok_eqb (to_upper a0) kw_COUNT).
    { destruct rest as [|a1 rest']; [exact I|].
      cbn [too_few length Nat.ltb Nat.leb arg nth_error skipn].
      apply of_num_safe. intro x. apply IH. cbn in Hr. lia. }
    destruct (tok_eqb (to_upper a0) kw_RC); [apply IH; exact Hr|].
    exact I.
  Qed.

  Lemma skipn_shorter : forall (n : nat) (l : list tok), length (skipn n l) < S (length l).
  Proof. intros n l. rewrite skipn_length. lia. Qed.

  Lemma parse_put_safe : forall args, safe (parse_put args).
  Proof.
    intro args. unfold Proto.parse_put. repeat safe_step. apply put_opts_safe. apply skipn_shorter.
  Qed.

  Lemma parse_putentry_safe : forall args, safe (parse_putentry args).
  Proof. intro args. unfold parse_putentry. repeat safe_step. Qed.

  Lemma parse_get_safe : forall args, safe (parse_get args).
  Proof. intro args. unfold parse_get. repeat safe_step. Qed.

  Lemma parse_getentry_safe : forall args, safe (parse_getentry args).
  Proof. intro args. unfold parse_getentry. repeat safe_step. Qed.

  Lemma parse_del_safe : forall args, safe (parse_del args).
  Proof. intro args. unfold parse_del. repeat safe_step. Qed.

  Lemma parse_delentry_safe : forall args, safe (parse_delentry args).
  Proof. intro args. unfold parse_delentry. repeat safe_step. Qed.

  Lemma parse_pexpire_safe : forall args, safe (parse_pexpire args).
  Proof. intro args. unfold parse_pexpire. repeat safe_step. Qed.

  Lemma parse_expire_safe : forall args, safe (parse_expire F parse_float fdur args).
  Proof. intro args. unfold parse_expire. repeat safe_step. Qed.

  Lemma parse_destroy_safe : forall args, safe (parse_destroy args).
  Proof. intro args. unfold parse_destroy. repeat safe_step. Qed.

  Lemma parse_scan_safe : forall args, safe (parse_scan args).
  Proof.
    intro args. unfold parse_scan. repeat safe_step. apply scan_opts_safe. apply skipn_shorter.
  Qed.

  Lemma parse_incr_safe : forall args, safe (parse_incr args).
  Proof. intro args. unfold parse_incr. repeat safe_step. Qed.

  Lemma parse_getput_safe : forall args, safe (parse_getput args).
  Proof. intro args. unfold parse_getput. repeat safe_step. Qed.

  Lemma parse_incrbyfloat_safe : forall args, safe (parse_incrbyfloat F parse_float args).
  Proof. intro args. unfold parse_incrbyfloat. repeat safe_step. Qed.

  Lemma parse_lock_safe : forall args, safe (parse_lock F fzero parse_float args).
  Proof. intro args. unfold parse_lock. repeat safe_step. Qed.

  Lemma parse_unlock_safe : forall args, safe (parse_unlock args).
  Proof. intro args. unfold parse_unlock. repeat safe_step. Qed.

  Lemma parse_locklease_safe : forall args, safe (parse_locklease F parse_float args).
  Proof. intro args. unfold parse_locklease. repeat safe_step. Qed.

  Lemma parse_plocklease_safe : forall args, safe (parse_plocklease args).
  Proof. intro args. unfold parse_plocklease. repeat safe_step. Qed.

  Lemma parse_ping_safe : forall args, safe (parse_ping args).
  Proof. intro args. unfold parse_ping. repeat safe_step. Qed.

  Lemma parse_movefragment_safe : forall args, safe (parse_movefragment args).
  Proof. intro args. unfold parse_movefragment. repeat safe_step. Qed.

  Lemma parse_updaterouting_safe : forall args, safe (parse_updaterouting args).
  Proof. intro args. unfold parse_updaterouting. repeat safe_step. Qed.

  Lemma parse_lengthofpart_safe : forall args, safe (parse_lengthofpart args).
  Proof. intro args. unfold parse_lengthofpart. repeat safe_step. Qed.

  Lemma parse_stats_safe : forall args, safe (parse_stats args).
  Proof. intro args. unfold parse_stats. repeat safe_step. Qed.

  Lemma parse_publish_safe : forall args, safe (parse_publish args).
  Proof. intro args. unfold parse_publish. repeat safe_step. Qed.

  Lemma parse_subscribe_safe : forall args, safe (parse_subscribe args).
  Proof.
    intro args. unfold parse_subscribe. repeat safe_step. apply collect_loop_safe. apply skipn_shorter.
  Qed.

  Lemma parse_pubsub_channels_safe : forall args, safe (parse_pubsub_channels args).
  Proof. intro args. unfold parse_pubsub_channels. repeat safe_step. Qed.

  Lemma parse_pubsub_numpat_safe : forall args, safe (parse_pubsub_numpat args).
  Proof. intro args. unfold parse_pubsub_numpat. repeat safe_step. Qed.

  Lemma parse_pubsub_numsub_safe : forall args, safe (parse_pubsub_numsub args).
  Proof.
    intro args. unfold parse_pubsub_numsub. repeat safe_step. apply collect_loop_safe. apply skipn_shorter.
  Qed.

  Lemma parse_cluster_noargs_safe : forall args, safe (parse_cluster_noargs args).
  Proof. intro args. unfold parse_cluster_noargs. repeat safe_step. Qed.

  (* the whole command table *)
  Lemma parse_safe : forall (c : cmd) (args : list tok), safe (parse F fzero parse_float fdur c args).
  Proof.
    intros c args. destruct c; cbn [parse]; (apply bind_safe; [| intro; exact I]).
    - apply parse_put_safe.
    - apply parse_putentry_safe.
    - apply parse_get_safe.
    - apply parse_getentry_safe.
    - apply parse_del_safe.
    - apply parse_delentry_safe.
    - apply parse_pexpire_safe.
    - apply parse_expire_safe.
    - apply parse_destroy_safe.
    - apply parse_scan_safe.
    - apply parse_incr_safe.
    - apply parse_incr_safe.
    - apply parse_getput_safe.
    - apply parse_incrbyfloat_safe.
    - apply parse_lock_safe.
    - apply parse_unlock_safe.
    - apply parse_locklease_safe.
    - apply parse_plocklease_safe.
    - apply parse_ping_safe.
    - apply parse_movefragment_safe.
    - apply parse_updaterouting_safe.
    - apply parse_lengthofpart_safe.
    - apply parse_stats_safe.
    - apply parse_publish_safe.
    - apply parse_publish_safe.
    - apply parse_subscribe_safe.
    - apply parse_subscribe_safe.
    - apply parse_pubsub_channels_safe.
    - apply parse_pubsub_numpat_safe.
    - apply parse_pubsub_numsub_safe.
    - apply parse_cluster_noargs_safe.
    - apply parse_cluster_noargs_safe.
  Qed.
End ParserProofs.

(* ---------------------------------------------------------------------------------------------- *)
(* dispatch                                                                                         *)
(* ---------------------------------------------------------------------------------------------- *)

Lemma tok_eqb_eq : forall a b, tok_eqb a b = true -> a = b.
Proof.
  induction a as [|x a IH]; destruct b as [|y b]; cbn; intro H; try discriminate; [reflexivity|].
  apply andb_true_iff in H. destruct H as [Hx Hr]. apply N.eqb_eq in Hx. subst. f_equal. apply IH. exact Hr.
Qed.

Lemma tok_eqb_refl : forall a, tok_eqb a a = true.
Proof. induction a as [|x a IH]; cbn; [reflexivity|]. rewrite N.eqb_refl. exact IH. Qed.

Lemma lower_pubsub : forall a, tok_eqb a kw_pubsub || tok_eqb a kw_PUBSUB = true -> to_lower a = kw_pubsub.
Proof.
  intros a H. apply orb_true_iff in H. destruct H as [H|H]; apply tok_eqb_eq in H; subst; reflexivity.
Qed.

Definition handled_name (d : dispatch) : option tok :=
  match d with DHandled n _ => Some n | _ => None end.

(* Handler.ServeRESP indexes Args[1] for "pubsub"/"PUBSUB"; it does not panic when the vector has two arguments,
   or when its first argument is not that word *)
Lemma handler_serve_total : forall name precond args,
  (2 <= length args \/ (forall a0, nth_error args 0 = Some a0 -> tok_eqb a0 kw_pubsub || tok_eqb a0 kw_PUBSUB = false)) ->
  handler_serve name precond args <> DPanic /\
  (forall n, handled_name (handler_serve name precond args) = Some n -> n = name).
Proof.
  intros name precond args H. unfold handler_serve.
  destruct args as [|a0 rest]; [split; [discriminate| cbn; intros n E; inversion E; reflexivity]|].
  cbn [nth_error].
  assert (K : forall c, (if tok_eqb c name_updaterouting then DHandled name false
                         else match precond with
                              | None => DHandled name false
                              | Some true => DHandled name true
                              | Some false => DBlocked
                              end) <> DPanic /\
                        (forall n, handled_name (if tok_eqb c name_updaterouting then DHandled name false
                                                 else match precond with
                                                      | None => DHandled name false
                                                      | Some true => DHandled name true
                                                      | Some false => DBlocked
                                                      end) = Some n -> n = name)).
  { intro c. destruct (tok_eqb c name_updaterouting); [split; [discriminate| cbn; intros n E; inversion E; reflexivity]|].
    destruct precond as [[|]|]; (split; [discriminate| cbn; intros n E; inversion E; reflexivity]). }
  destruct (tok_eqb a0 kw_pubsub || tok_eqb a0 kw_PUBSUB) eqn:E; [|apply K].
  destruct H as [H|H].
  - destruct rest as [|a1 rest']; [cbn in H; lia|]. cbn [nth_error]. apply K.
  - specialize (H a0 eq_refl). congruence.
Qed.

Lemma mux_serve_total : forall regs precond args,
  registered regs kw_pubsub = false ->
  mux_serve regs precond args <> DPanic /\
  (forall n, handled_name (mux_serve regs precond args) = Some n -> registered regs n = true).
Proof.
  intros regs precond args Hreg. unfold mux_serve.
  destruct args as [|a0 rest]; [split; [discriminate| cbn; discriminate]|].
  cbn [length Nat.eqb nth_error].
  destruct (registered regs (to_lower a0)) eqn:R.
  - assert (Hs : 2 <= length (a0 :: rest) \/
                 (forall b0, nth_error (a0 :: rest) 0 = Some b0 -> tok_eqb b0 kw_pubsub || tok_eqb b0 kw_PUBSUB = false)).
    { right. intros b0 Eb. cbn in Eb. injection Eb as Eb. subst b0.
      destruct (tok_eqb a0 kw_pubsub || tok_eqb a0 kw_PUBSUB) eqn:E; [|reflexivity].
      apply lower_pubsub in E. rewrite E in R. congruence. }
    destruct (handler_serve_total (to_lower a0) precond (a0 :: rest) Hs) as [Hp Hn].
    split; [exact Hp|]. intros n En. apply Hn in En. subst n. exact R.
  - destruct (tok_eqb (to_lower a0) kw_pubsub) eqn:P; [|split; [discriminate| cbn; discriminate]].
    destruct (Nat.ltb (S (length rest)) 2) eqn:L; [split; [discriminate| cbn; discriminate]|].
    apply Nat.ltb_ge in L.
    destruct rest as [|a1 rest']; [cbn in L; lia|]. cbn [nth_error].
    assert (L' : 2 <= length (a0 :: a1 :: rest')) by (cbn; lia).
    destruct (registered regs (to_lower a0 ++ [32%N] ++ to_lower a1)) eqn:R2; [|split; [discriminate| cbn; discriminate]].
    destruct (handler_serve_total (to_lower a0 ++ [32%N] ++ to_lower a1) precond (a0 :: a1 :: rest') (or_introl L')) as [Hp Hn].
    split; [exact Hp|]. intros n En. apply Hn in En. subst n. exact R2.
Qed.

(* ---------------------------------------------------------------------------------------------- *)
(* ids                                                                                              *)
(* ---------------------------------------------------------------------------------------------- *)

Lemma use_partition_in_range : forall pcount id, (id < pcount)%N -> use_partition pcount id = Deref id.
Proof. intros pcount id H. unfold use_partition, partition_exists. apply N.ltb_lt in H. rewrite H. reflexivity. Qed.

Lemma scan_decision_spec : forall pcount id,
  ((pcount <= id)%N -> scan_decision pcount id = Reject EInvalidPart) /\
  ((id < pcount)%N -> scan_decision pcount id = Deref id) /\
  scan_decision pcount id <> NilDeref.
Proof.
  intros pcount id. unfold scan_decision. destruct (N.leb_spec pcount id) as [H|H].
  - repeat split; try discriminate; intros; lia.
  - rewrite (use_partition_in_range _ _ H). repeat split; try discriminate; intros; lia.
Qed.

Lemma lengthofpart_decision_spec : forall pcount id,
  ((pcount <= id)%N -> lengthofpart_decision pcount id = Reject EInvalidPart) /\
  ((id < pcount)%N -> lengthofpart_decision pcount id = Deref id) /\
  lengthofpart_decision pcount id <> NilDeref.
Proof. exact scan_decision_spec. Qed.

Lemma updaterouting_decision_spec : forall pcount table,
  ~ In NilDeref (updaterouting_decision pcount table) /\
  ((exists e, In e table /\ ((pcount <= fst e)%N \/ snd e = false)) ->
   exists err, updaterouting_decision pcount table = [Reject err]).
Proof.
  intros pcount table. unfold updaterouting_decision, verify_routing_table.
  destruct (negb (N.of_nat (length table) =? pcount)%N).
  { split; [intros [H|[]]; discriminate| intros _; eexists; reflexivity]. }
  destruct (forallb (fun e => (fst e <? pcount)%N && snd e) table) eqn:V.
  - rewrite forallb_forall in V. split.
    + intro Hin. apply in_map_iff in Hin. destruct Hin as [e [He Hine]].
      specialize (V e Hine). apply andb_true_iff in V. destruct V as [V1 V2]. apply N.ltb_lt in V1.
      unfold apply_route in He. rewrite (use_partition_in_range _ _ V1), V2 in He. discriminate.
    + intros [e [Hine [Hbad|Hbad]]]; specialize (V e Hine); apply andb_true_iff in V; destruct V as [V1 V2].
      * apply N.ltb_lt in V1. lia.
      * congruence.
  - split; [intros [H|[]]; discriminate| intros _; eexists; reflexivity].
Qed.

Lemma safe_cases : forall A (o : outcome A), safe o <-> ((exists a, o = POk a) \/ (exists e, o = PErr e)).
Proof.
  intros A o. split.
  - destruct o; cbn; intro H; try contradiction; [left|right]; eexists; reflexivity.
  - intros [[a H]|[e H]]; subst; exact I.
Qed.
