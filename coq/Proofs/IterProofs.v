From Coq Require Import List NArith Bool Arith Lia.
Require Import Olric.Model.Iter.
Import ListNotations.

Lemma load_update l o c : load_cursor (update_cursor l o c) o = c.
Proof.
  induction l as [|[o' c'] l IH]; cbn.
  - now rewrite N.eqb_refl.
  - destruct (N.eqb o' o) eqn:E; cbn; [now rewrite N.eqb_refl|now rewrite E].
Qed.

Lemma kmem_in k l : kmem k l = true <-> In k l.
Proof.
  unfold kmem. rewrite existsb_exists. split.
  - intros (x & Hin & E). apply N.eqb_eq in E. now subst.
  - intros H. exists k. split; [exact H|apply N.eqb_refl].
Qed.

Lemma nodup_snoc {A} (l : list A) x : NoDup l -> ~ In x l -> NoDup (l ++ [x]).
Proof.
  induction l as [|y l IH]; intros Hnd Hn; cbn; [constructor; [intros []|constructor]|].
  inversion Hnd as [|? ? Hy Hd]; subst. constructor.
  - intros Hin. apply in_app_or in Hin as [Hin|[<-|[]]]; [contradiction|]. apply Hn. now left.
  - apply IH; [exact Hd|]. intros Hin. apply Hn. now right.
Qed.

(* updateIterator appends exactly the keys that were not seen, once each *)
Lemma add_keys_spec : forall ks sn pg,
  exists new, add_keys ks sn pg = (sn ++ new, pg ++ new) /\ incl new ks /\ incl ks (sn ++ new) /\
              (NoDup sn -> NoDup (sn ++ new)).
Proof.
  induction ks as [|k ks IH]; intros sn pg; cbn [add_keys].
  - exists []. rewrite !app_nil_r. repeat split; auto using incl_nil_l.
  - destruct (kmem k sn) eqn:E.
    + destruct (IH sn pg) as (new & H1 & H2 & H3 & H4). exists new. repeat split; auto.
      * now apply incl_tl.
      * intros x [<-|Hx]; [apply in_or_app; left; now apply kmem_in|now apply H3].
    + destruct (IH (sn ++ [k]) (pg ++ [k])) as (new & H1 & H2 & H3 & H4). exists (k :: new).
      rewrite H1. rewrite <- !app_assoc. cbn. repeat split.
      * intros x [<-|Hx]; [now left|right; now apply H2].
      * intros x [<-|Hx]; [apply in_or_app; right; now left|].
        specialize (H3 x Hx). rewrite <- app_assoc in H3. exact H3.
      * intros Hnd. rewrite <- app_assoc in H4. apply H4. apply nodup_snoc; [exact Hnd|].
        intros Hin. apply kmem_in in Hin. congruence.
Qed.

Lemma add_keys_seen ks sn pg : incl ks sn -> add_keys ks sn pg = (sn, pg).
Proof.
  revert sn pg. induction ks as [|k ks IH]; intros sn pg H; cbn [add_keys]; [reflexivity|].
  assert (E : kmem k sn = true) by (apply kmem_in, H; now left). rewrite E. apply IH. intros x Hx. apply H. now right.
Qed.

Lemma in_concat_nth (ps : pages) k : In k (concat ps) <-> exists j, In k (nth j ps []).
Proof.
  induction ps as [|p ps IH]; cbn.
  - split; [intros []|intros ([|j] & H); exact H].
  - rewrite in_app_iff, IH. split.
    + intros [H|(j & H)]; [exists 0; exact H|exists (S j); exact H].
    + intros ([|j] & H); [left; exact H|right; exists j; exact H].
Qed.

Section Lanes.
  Variable pg : bool -> owner -> pages.

  Definition rt_of (rep : bool) (st : ist) := if rep then rtR st else rtP st.
  Definition route_of (rep : bool) (st : ist) := if rep then routeR st else routeP st.
  Definition curs_of (rep : bool) (st : ist) := if rep then cursR st else cursP st.

  Lemma scan_owners_nil rep st : rt_of rep st = [] -> scan_owners pg rep st = st.
  Proof. unfold scan_owners, rt_of. destruct rep; intros ->; reflexivity. Qed.

  Lemma scan_owners_single rep st a : rt_of rep st = [a] -> scan_owners pg rep st = scan_one pg rep st (0, a).
  Proof. unfold scan_owners, rt_of. destruct rep; intros ->; reflexivity. Qed.

  Lemma scan_one_spec rep st a :
    rt_of rep st = [a] -> (route_of rep st = [a] \/ route_of rep st = []) ->
    let c := load_cursor (curs_of rep st) a in
    let ps := pg rep a in
    let c' := snd (scan_page ps c) in
    let r := add_keys (nth c ps []) (seen st) (page st) in
    let st' := scan_one pg rep st (0, a) in
    seen st' = fst r /\ page st' = snd r /\ rt_of rep st' = [a] /\
    route_of rep st' = (if Nat.eqb c' 0 then [] else route_of rep st) /\
    load_cursor (curs_of rep st') a = c' /\
    rt_of (negb rep) st' = rt_of (negb rep) st /\ route_of (negb rep) st' = route_of (negb rep) st /\
    curs_of (negb rep) st' = curs_of (negb rep) st.
  Proof.
    intros Hrt Hroute. cbv zeta. unfold scan_one, scan_page. cbn [fst snd].
    destruct (add_keys _ (seen st) (page st)) as [sn pgk] eqn:Ea.
    destruct rep; cbn [rt_of route_of curs_of negb andb] in *.
    - rewrite Hrt. destruct (Nat.eqb _ 0) eqn:Ef; cbn [andb].
      + destruct Hroute as [-> | ->]; cbn; rewrite load_update; repeat split; reflexivity.
      + cbn. rewrite load_update. repeat split; reflexivity.
    - rewrite Hrt. destruct (Nat.eqb _ 0) eqn:Ef; cbn [andb].
      + destruct Hroute as [-> | ->]; cbn; rewrite load_update; repeat split; reflexivity.
      + cbn. rewrite load_update. repeat split; reflexivity.
  Qed.

  (* keys an owner list of at most one member can contribute *)
  Definition lane_keys (rep : bool) (l : list owner) : list key :=
    match l with [a] => concat (pg rep a) | _ => [] end.

  Definition Lane (rep : bool) (st : ist) : Prop :=
    match rt_of rep st with
    | [] => route_of rep st = []
    | [a] =>
      let ps := pg rep a in
      let c := load_cursor (curs_of rep st) a in
      (c = 0 \/ c < length ps) /\
      ((route_of rep st = [a] /\ forall j, j < c -> incl (nth j ps []) (seen st)) \/
       (route_of rep st = [] /\ forall j, incl (nth j ps []) (seen st)))
    | _ => False
    end.

  Definition measure (rep : bool) (st : ist) : nat :=
    match route_of rep st, rt_of rep st with
    | _ :: _, [a] => Nat.max 1 (length (pg rep a)) - load_cursor (curs_of rep st) a
    | _, _ => 0
    end.

  Lemma Lane_measure_pos rep st : Lane rep st -> route_of rep st <> [] -> 0 < measure rep st.
  Proof.
    unfold Lane, measure. destruct (rt_of rep st) as [|a [|b l]]; [intros -> H; now elim H| |intros []].
    intros [Hc [[-> _]|[-> _]]] Hne; [|now elim Hne]. lia.
  Qed.

  Lemma measure_zero rep st : route_of rep st = [] -> measure rep st = 0.
  Proof. unfold measure. now intros ->. Qed.

  (* a finished lane contributes nothing new *)
  Lemma Lane_done_covered rep st : Lane rep st -> route_of rep st = [] -> incl (lane_keys rep (rt_of rep st)) (seen st).
  Proof.
    unfold Lane, lane_keys. destruct (rt_of rep st) as [|a [|b l]]; [intros _ _ x []| |intros []].
    intros [_ [[-> _]|[_ H]]] Hr; [discriminate|]. intros k Hk. apply in_concat_nth in Hk as (j & Hj). exact (H j k Hj).
  Qed.

  (* effect of scanning one lane *)
  Lemma scan_lane rep st :
    Lane rep st -> NoDup (seen st) ->
    let st' := scan_owners pg rep st in
    exists new,
      seen st' = seen st ++ new /\ page st' = page st ++ new /\ NoDup (seen st') /\
      incl new (lane_keys rep (rt_of rep st)) /\
      Lane rep st' /\ rt_of rep st' = rt_of rep st /\
      rt_of (negb rep) st' = rt_of (negb rep) st /\ route_of (negb rep) st' = route_of (negb rep) st /\
      curs_of (negb rep) st' = curs_of (negb rep) st /\
      measure rep st' <= measure rep st /\ (route_of rep st <> [] -> measure rep st' < measure rep st) /\
      (route_of rep st = [] -> route_of rep st' = [] /\ new = []).
  Proof.
    intros HL Hnd. cbv zeta. unfold Lane in HL. destruct (rt_of rep st) as [|a [|b l]] eqn:Hrt; [| |elim HL].
    - rewrite (scan_owners_nil rep st Hrt). exists []. rewrite !app_nil_r.
      repeat split; auto using incl_nil_l.
      + unfold Lane. now rewrite Hrt.
      + intros Hne. now elim Hne.
    - rewrite (scan_owners_single rep st a Hrt).
      destruct HL as [Hc Hcase].
      assert (Hroute : route_of rep st = [a] \/ route_of rep st = []) by (destruct Hcase as [[H _]|[H _]]; auto).
      destruct (scan_one_spec rep st a Hrt Hroute) as (Hs & Hp & Hrt' & Hro' & Hcu' & Ho1 & Ho2 & Ho3).
      set (st' := scan_one pg rep st (0, a)) in *.
      set (ps := pg rep a) in *. set (c := load_cursor (curs_of rep st) a) in *.
      destruct (add_keys_spec (nth c ps []) (seen st) (page st)) as (new & Ha & Hn1 & Hn2 & Hn3).
      rewrite Ha in Hs, Hp. cbn [fst snd] in Hs, Hp.
      unfold scan_page in Hro', Hcu'. cbn [snd] in Hro', Hcu'.
      assert (Hpage_in : incl (nth c ps []) (concat ps)).
      { intros k Hk. apply in_concat_nth. now exists c. }
      exists new. split; [exact Hs|]. split; [exact Hp|]. split; [rewrite Hs; now apply Hn3|].
      split; [cbn [lane_keys]; intros k Hk; apply Hpage_in, Hn1, Hk|].
      assert (Hcov : forall j, j < S c -> incl (nth j ps []) (seen st')).
      { intros j Hj. destruct (Nat.eq_dec j c) as [->|Hne].
        - rewrite Hs. exact Hn2.
        - destruct Hcase as [[_ H]|[_ H]]; rewrite Hs; intros k Hk; apply in_or_app; left; [apply (H j); [lia|exact Hk]|exact (H j k Hk)]. }
      split.
      { unfold Lane. rewrite Hrt'. fold ps. rewrite Hcu'. destruct (Nat.ltb_spec (S c) (length ps)) as [Hlt|Hge].
        - cbn [Nat.eqb] in Hro'. split; [right; exact Hlt|]. destruct Hcase as [[Hr Hc1]|[Hr Hc1]].
          + left. split; [now rewrite Hro'|exact Hcov].
          + right. split; [now rewrite Hro'|]. intros j k Hk. rewrite Hs. apply in_or_app. left. exact (Hc1 j k Hk).
        - cbn [Nat.eqb] in Hro'. split; [now left|]. right. split; [exact Hro'|].
          intros j. destruct (Nat.lt_ge_cases j (S c)) as [Hj|Hj]; [now apply Hcov|].
          rewrite nth_overflow by lia. apply incl_nil_l. }
      split; [exact Hrt'|]. split; [exact Ho1|]. split; [exact Ho2|]. split; [exact Ho3|].
      assert (Hm : route_of rep st <> [] -> measure rep st' < measure rep st).
      { intros Hne. destruct Hcase as [[Hr _]|[Hr _]]; [|now elim Hne].
        unfold measure. rewrite Hrt, Hrt', Hr, Hro', Hcu'. fold ps c.
        destruct (Nat.ltb_spec (S c) (length ps)) as [Hlt|Hge]; cbn [Nat.eqb]; rewrite ?Hr; [|destruct Hc]; lia. }
      split.
      { destruct (route_of rep st) as [|x xs] eqn:Hr.
        - unfold measure at 1. rewrite Hro'. destruct (Nat.eqb _ 0); cbn; lia.
        - apply Nat.lt_le_incl, Hm. discriminate. }
      split; [exact Hm|].
      intros Hr. split; [rewrite Hro', Hr; now destruct (Nat.eqb _ 0)|].
      destruct Hcase as [[Hr' _]|[_ Hall]]; [congruence|].
      rewrite (add_keys_seen _ _ _ (Hall c)) in Ha. injection Ha as Ha1 Ha2.
      apply (f_equal (@length key)) in Ha1. rewrite app_length in Ha1. destruct new; [reflexivity|cbn in Ha1; lia].
  Qed.

  Lemma Lane_mono rep st st' :
    Lane rep st -> rt_of rep st' = rt_of rep st -> route_of rep st' = route_of rep st -> curs_of rep st' = curs_of rep st ->
    incl (seen st) (seen st') -> Lane rep st'.
  Proof.
    unfold Lane. intros HL -> -> -> Hinc. destruct (rt_of rep st) as [|a [|b l]]; auto.
    destruct HL as [Hc [[Hr H]|[Hr H]]]; (split; [exact Hc|]); [left|right]; (split; [exact Hr|]).
    - intros j Hj k Hk. apply Hinc. exact (H j Hj k Hk).
    - intros j k Hk. apply Hinc. exact (H j k Hk).
  Qed.

  Lemma measure_frame rep st st' :
    rt_of rep st' = rt_of rep st -> route_of rep st' = route_of rep st -> curs_of rep st' = curs_of rep st ->
    measure rep st' = measure rep st.
  Proof. unfold measure. now intros -> -> ->. Qed.

  Definition Inv (oP oR : list owner) (st : ist) : Prop :=
    rtP st = oP /\ rtR st = oR /\ Lane false st /\ Lane true st /\ NoDup (seen st) /\
    incl (seen st) (lane_keys false oP ++ lane_keys true oR).

  Definition total (st : ist) := measure false st + measure true st.

  (* one round of fetchData *)
  Lemma fetch_round oP oR st :
    Inv oP oR st ->
    let st1 := fetch pg st in
    exists new,
      Inv oP oR st1 /\ seen st1 = seen st ++ new /\ page st1 = page st ++ new /\
      total st1 <= total st /\
      (routes_empty st = false -> total st1 < total st) /\
      (routes_empty st = true -> routes_empty st1 = true /\ new = []).
  Proof.
    intros (HrP & HrR & HLP & HLR & Hnd & Hsub). cbv zeta. unfold fetch.
    destruct (scan_lane false st HLP Hnd) as (n1 & Hs1 & Hp1 & Hnd1 & Hin1 & HL1 & Hrt1 & Hort1 & Horo1 & Hocu1 & Hm1 & Hmlt1 & Hdone1).
    set (sa := scan_owners pg false st) in *. cbn [negb] in *.
    assert (HLRa : Lane true sa).
    { apply (Lane_mono true st sa HLR Hort1 Horo1 Hocu1). rewrite Hs1. now apply incl_appl. }
    destruct (scan_lane true sa HLRa Hnd1) as (n2 & Hs2 & Hp2 & Hnd2 & Hin2 & HL2 & Hrt2 & Hort2 & Horo2 & Hocu2 & Hm2 & Hmlt2 & Hdone2).
    set (sb := scan_owners pg true sa) in *. cbn [negb] in *.
    assert (HLPb : Lane false sb).
    { apply (Lane_mono false sa sb HL1 Hort2 Horo2 Hocu2). rewrite Hs2. now apply incl_appl. }
    cbn [rt_of] in *.
    exists (n1 ++ n2). split; [|split; [|split; [|split; [|split]]]].
    - unfold Inv. split; [congruence|]. split; [congruence|]. split; [exact HLPb|]. split; [exact HL2|]. split; [exact Hnd2|].
      rewrite Hs2, Hs1. intros k Hk. apply in_app_or in Hk as [Hk|Hk]; [apply in_app_or in Hk as [Hk|Hk]|].
      + now apply Hsub.
      + apply in_or_app. left. rewrite <- HrP. now apply Hin1.
      + apply in_or_app. right. rewrite <- HrR, <- Hort1. now apply Hin2.
    - rewrite Hs2, Hs1. now rewrite app_assoc.
    - rewrite Hp2, Hp1. now rewrite app_assoc.
    - unfold total. rewrite (measure_frame false sa sb Hort2 Horo2 Hocu2).
      rewrite <- (measure_frame true st sa Hort1 Horo1 Hocu1). lia.
    - intros Hre. unfold total. rewrite (measure_frame false sa sb Hort2 Horo2 Hocu2).
      pose proof (measure_frame true st sa Hort1 Horo1 Hocu1) as Hf.
      unfold routes_empty in Hre. cbn [route_of] in *.
      destruct (routeP st) as [|x xs] eqn:HP.
      + destruct (routeR st) as [|y ys] eqn:HR; [discriminate|].
        assert (H : routeR sa <> []) by (rewrite Horo1; discriminate).
        specialize (Hmlt2 H). lia.
      + assert (H : x :: xs <> []) by discriminate.
        specialize (Hmlt1 H). lia.
    - intros Hre. unfold routes_empty in Hre. cbn [route_of] in *.
      destruct (routeP st) as [|x xs] eqn:HP; [|discriminate]. destruct (routeR st) as [|y ys] eqn:HR; [|discriminate].
      destruct (Hdone1 eq_refl) as [Hd1 ->]. assert (HR' : routeR sa = []) by congruence. destruct (Hdone2 HR') as [Hd2 ->].
      split; [|reflexivity]. unfold routes_empty. rewrite Horo2, Hd1, Hd2. reflexivity.
  Qed.

  Lemma routes_empty_total oP oR st : Inv oP oR st -> routes_empty st = false -> 0 < total st.
  Proof.
    intros (_ & _ & HLP & HLR & _) Hre. unfold total, routes_empty in *.
    destruct (routeP st) as [|x xs] eqn:HP.
    - destruct (routeR st) as [|y ys] eqn:HR; [discriminate|].
      assert (0 < measure true st) by (apply Lane_measure_pos; [exact HLR|cbn [route_of]; rewrite HR; discriminate]). lia.
    - assert (0 < measure false st) by (apply Lane_measure_pos; [exact HLP|cbn [route_of]; rewrite HP; discriminate]). lia.
  Qed.

  Lemma routes_empty_covered oP oR st :
    Inv oP oR st -> routes_empty st = true -> incl (lane_keys false oP ++ lane_keys true oR) (seen st).
  Proof.
    intros (HrP & HrR & HLP & HLR & _) Hre. unfold routes_empty in Hre.
    destruct (routeP st) eqn:HP; [|discriminate]. destruct (routeR st) eqn:HR; [|discriminate].
    intros k Hk. apply in_app_or in Hk as [Hk|Hk].
    - apply (Lane_done_covered false st HLP HP). cbn [rt_of]. now rewrite HrP.
    - apply (Lane_done_covered true st HLR HR). cbn [rt_of]. now rewrite HrR.
  Qed.

  Lemma reset_page_inv oP oR st : Inv oP oR st -> Inv oP oR (reset_page st).
  Proof. intros H. exact H. Qed.

  Lemma part_loop_correct oP oR : forall fuel st,
    Inv oP oR st -> page st = [] -> total st < fuel ->
    exists ys, part_loop pg fuel st (seen st) = Some ys /\ NoDup ys /\
               (forall k, In k ys <-> In k (lane_keys false oP ++ lane_keys true oR)).
  Proof.
    induction fuel as [|fuel IH]; intros st HI Hpg Hfuel; [lia|].
    cbn [part_loop]. destruct (fetch_round oP oR st HI) as (new & HI1 & Hs1 & Hp1 & Hle & Hlt & Hdone).
    set (st1 := fetch pg st) in *. rewrite Hpg in Hp1. cbn [app] in Hp1.
    destruct (routes_empty st) eqn:Hre.
    - destruct (Hdone eq_refl) as [Hre1 ->]. rewrite Hp1, Hre1. rewrite app_nil_r in Hs1.
      exists (seen st). split; [reflexivity|]. destruct HI as (A & B & C & D & Hnd & Hsub). split; [exact Hnd|].
      intros k. split; [apply Hsub|]. apply (routes_empty_covered oP oR st); [repeat split; assumption|exact Hre].
    - specialize (Hlt eq_refl). destruct (page st1) as [|k0 pk] eqn:Hpk.
      + destruct (routes_empty st1) eqn:Hre1.
        * subst new. rewrite app_nil_r in Hs1. exists (seen st). split; [reflexivity|].
          destruct HI1 as (A & B & C & D & Hnd & Hsub). rewrite Hs1 in *. split; [exact Hnd|].
          intros k. split; [apply Hsub|]. rewrite <- Hs1. apply (routes_empty_covered oP oR st1); [repeat split; try assumption; now rewrite Hs1|exact Hre1].
        * subst new. rewrite app_nil_r in Hs1. rewrite <- Hs1. apply IH; [exact HI1|exact Hpk|lia].
      + rewrite Hp1, <- Hs1. change (seen st1) with (seen (reset_page st1)).
        apply IH; [apply reset_page_inv, HI1|reflexivity|].
        unfold total, measure in *. cbn [reset_page route_of rt_of curs_of routeP routeR rtP rtR cursP cursR] in *. lia.
  Qed.
End Lanes.

Lemma init_inv pg oP oR : length oP <= 1 -> length oR <= 1 -> Inv pg oP oR (init_part oP oR).
Proof.
  intros HP HR. unfold Inv, init_part, Lane. cbn.
  split; [reflexivity|]. split; [reflexivity|]. split; [|split; [|split; [constructor|intros k []]]].
  - destruct oP as [|a [|b l]]; [reflexivity| |cbn in HP; lia]. split; [now left|]. left. split; [reflexivity|]. intros j Hj. lia.
  - destruct oR as [|a [|b l]]; [reflexivity| |cbn in HR; lia]. split; [now left|]. left. split; [reflexivity|]. intros j Hj. lia.
Qed.

Definition part_keys (p : part) : list key :=
  lane_keys (p_pages p) false (p_owners p) ++ lane_keys (p_pages p) true (p_replicas p).

Definition part_fuel (p : part) : nat :=
  total (p_pages p) (init_part (p_owners p) (p_replicas p)) + 1.

Definition stable_part (p : part) : Prop := length (p_owners p) <= 1 /\ length (p_replicas p) <= 1.

(* one partition: the iterator terminates and hands out exactly the keys its owners hold, each once *)
Theorem iter_part_exactly_once p fuel :
  stable_part p -> part_fuel p <= fuel ->
  exists ys, iter_part fuel p = Some ys /\ NoDup ys /\ (forall k, In k ys <-> In k (part_keys p)).
Proof.
  intros [HP HR] Hf. unfold iter_part, part_fuel in *.
  apply (part_loop_correct (p_pages p) (p_owners p) (p_replicas p) fuel (init_part (p_owners p) (p_replicas p))).
  - now apply init_inv.
  - reflexivity.
  - lia.
Qed.

Lemma nodup_app_disjoint {A} (a b : list A) :
  NoDup a -> NoDup b -> (forall x, In x a -> ~ In x b) -> NoDup (a ++ b).
Proof.
  induction a as [|x a IH]; intros Ha Hb Hd; [exact Hb|]. inversion Ha as [|? ? Hn Ha']; subst. cbn. constructor.
  - intros Hin. apply in_app_or in Hin as [Hin|Hin]; [contradiction|]. apply (Hd x); [now left|exact Hin].
  - apply IH; [exact Ha'|exact Hb|]. intros y Hy. apply Hd. now right.
Qed.

(* a key hashes to one partition: the key sets of different partitions are disjoint *)
Fixpoint disjoint_parts (ps : list part) : Prop :=
  match ps with
  | [] => True
  | p :: ps' => (forall k q, In k (part_keys p) -> In q ps' -> ~ In k (part_keys q)) /\ disjoint_parts ps'
  end.

(* the whole iteration *)
Theorem iter_all_exactly_once : forall ps fuel,
  Forall stable_part ps -> Forall (fun p => part_fuel p <= fuel) ps ->
  exists ys, iter_all fuel ps = Some ys /\
             (forall k, In k ys <-> exists p, In p ps /\ In k (part_keys p)) /\
             (disjoint_parts ps -> NoDup ys).
Proof.
  induction ps as [|p ps IH]; intros fuel Hs Hf.
  - exists []. split; [reflexivity|]. split; [|intros _; constructor]. intros k. split; [intros []|intros (p & [] & _)].
  - inversion Hs as [|? ? Hs1 Hs2]; inversion Hf as [|? ? Hf1 Hf2]; subst.
    destruct (iter_part_exactly_once p fuel Hs1 Hf1) as (a & Ha & Hnd & Hin).
    destruct (IH fuel Hs2 Hf2) as (b & Hb & Hinb & Hndb).
    exists (a ++ b). cbn [iter_all]. rewrite Ha, Hb. split; [reflexivity|]. split.
    + intros k. rewrite in_app_iff, Hin, Hinb. split.
      * intros [H|(q & Hq & H)]; [exists p; split; [now left|exact H]|exists q; split; [now right|exact H]].
      * intros (q & [<-|Hq] & H); [now left|right; now exists q].
    + intros [Hd Hds]. apply nodup_app_disjoint; [exact Hnd|now apply Hndb|].
      intros k Hk Hkb. apply Hin in Hk. apply Hinb in Hkb as (q & Hq & Hkq). exact (Hd k q Hk Hq Hkq).
Qed.

(* ------------------------------------------------------------------------------------------
   Beyond one owner per list the state machine as coded depends on the periodic re-fetch of the routing table:
   with two replica owners (ReplicaCount 3) whose scans take an even number of pages, removeScannedOwner(1) is
   a no-op on a route of length 1 and getOwners() keeps returning the entry whose array the first removal
   rewrote to [o2; o2]: every further round scans o2's pages 0 and 1, finishes at index 1 and changes nothing.
   The real iterator leaves this loop when fetchRoutingTablePeriodically replaces the entry (within a second). *)
Lemma part_loop_stuck pg st :
  fetch pg st = st -> page st = [] -> routes_empty st = false ->
  forall fuel acc, part_loop pg fuel st acc = None.
Proof.
  intros Hf Hp Hr. induction fuel as [|fuel IH]; intros acc; [reflexivity|].
  cbn [part_loop]. rewrite Hf, Hp, Hr. apply IH.
Qed.

Definition spin_pages (rep : bool) (o : owner) : pages :=
  if rep then (if N.eqb o 10 then [[3; 12]; [2]] else [[5; 10]; [9]])%N else [[7]]%N.
Definition spin_part : part := {| p_owners := [1%N]; p_replicas := [10%N; 11%N]; p_pages := spin_pages |}.

Lemma two_replica_owners_spin : forall fuel, iter_part fuel spin_part = None.
Proof.
  intros fuel. unfold iter_part.
  destruct fuel as [|[|[|fuel]]]; try reflexivity.
  set (s3 := reset_page (fetch spin_pages (reset_page (fetch spin_pages (init_part [1%N] [10%N; 11%N]))))).
  change (part_loop spin_pages (S fuel) s3 [7; 3; 12; 5; 10; 2; 9]%N = None).
  apply part_loop_stuck; reflexivity.
Qed.
