(* C01, the missing link between the two layers: the owner-side model of the DMap operations (Model/DMap.v, the
   model that the differential runs tie to internal/dmap) implements, for every single key, the register
   specification of Model/Lin.v that the linearizability theorems and the checker speak about.
   For every replica count, every placement of backup owners, every operation sequence in which the key itself is
   only touched by Put / Put NX / Put XX / Get / Delete (any number of keys per Delete) while every other key and
   every other DMap is subject to arbitrary operations (atomic operations, locks, expiries, Destroy of other DMaps,
   background eviction passes of any member over any sample). *)
From Coq Require Import List NArith ZArith Bool Lia.
Require Import Olric.Model.DMap Olric.Model.Lin Olric.Proofs.DMapProofs Olric.Proofs.LinProofs.
Import ListNotations.
Local Open Scope Z_scope.

Section Register.
  Variable E : env.
  Variables d k : bytes.
  Variable dec : bytes -> Z.          (* how a stored value is read as the register's number: any function *)
  Hypothesis Hnoidle : no_idle E.
  Hypothesis Hnottl : default_ttl E d = 0.

  Definition here (d' k' : bytes) : bool := bytes_eqb d' d && bytes_eqb k' k.
  Definition P : loc := ploc E d k.

  Definition put_rop (v : bytes) (c : pcfg) : rop :=
    if nx c then RPutNX (dec v) else if xx c then RPutXX (dec v) else RPut (dec v).

  Definition proj (o : dop) : option rop :=
    match o with
    | DPut d' k' v c =>
      if here d' k' then Some (put_rop v c) else None
    | DGet d' k' => if here d' k' then Some RGet else None
    | DDel d' ks => if bytes_eqb d' d && existsb (fun x => bytes_eqb x k) ks then Some RDel else None
    | _ => None
    end.

  (* what the property quantifies over: on the key itself plain and conditional Puts without an expiry option,
     Gets and Deletes; anything at all on the other keys and DMaps *)
  Definition allowed (o : dop) : bool :=
    match o with
    | DPut d' k' v c =>
      negb (here d' k') || ((match pexp c with ENone => true | _ => false end) && negb (nx c && xx c))
    | DGet _ _ | DDel _ _ => true
    | DExpire d' k' _ | DGetPut d' k' _ | DIncr d' k' _ | DLock d' k' _ _ | DUnlock d' k' _ | DLease d' k' _ _ =>
      negb (here d' k')
    | DDestroy d' => negb (bytes_eqb d' d)
    | DEvict _ _ => true
    end.

  Definition rmap (r : DMap.res) : option rres :=
    match r with
    | DMap.ROk => Some Lin.ROk
    | DMap.RKeyFound => Some Lin.RKeyFound
    | DMap.RNotFound => Some Lin.RNotFound
    | RVal v _ => Some (RValue (dec v))
    | RCount _ => Some Lin.ROk
    | _ => None
    end.

  Definition abs (s : state) : option Z := option_map (fun e => dec (ev e)) (lookup P s).
  Definition Z0 (s : state) : Prop := forall e, lookup P s = Some e -> ettl e = 0.

  Lemma bytes_eqb_sym_false a b : bytes_eqb a b = false -> bytes_eqb b a = false.
  Proof.
    intros H. destruct (bytes_eqb b a) eqn:H1; [|reflexivity]. apply bytes_eqb_eq in H1. subst. now rewrite bytes_eqb_refl in H.
  Qed.

  Lemma here_true d' k' : here d' k' = true -> d' = d /\ k' = k.
  Proof. unfold here. intros H. apply andb_true_iff in H as [A B]. apply bytes_eqb_eq in A, B. auto. Qed.

  Lemma holder_P d' k' : holder E d' k' P = here d' k'.
  Proof.
    destruct (here d' k') eqn:H.
    - apply here_true in H as [-> ->]. apply holder_ploc.
    - destruct (holder E d' k' P) eqn:H1; [|reflexivity]. apply holder_key in H1 as [A B]. cbn in A, B. subst d' k'.
      unfold here in H. now rewrite !bytes_eqb_refl in H.
  Qed.

  Lemma ploc_P d' k' : loc_eqb P (ploc E d' k') = true -> here d' k' = true.
  Proof.
    intros H. apply loc_eqb_eq in H. unfold P, ploc in H. injection H as _ A B. subst d' k'. unfold here.
    now rewrite !bytes_eqb_refl.
  Qed.

  Lemma visible_Z0 s e now : Z0 s -> lookup P s = Some e -> visible e now = true.
  Proof. intros Hz He. unfold visible, expired. rewrite (Hz e He). reflexivity. Qed.

  Lemma vlookup_Z0 s now : Z0 s -> vlookup now P s = lookup P s.
  Proof. intros Hz. unfold vlookup. destruct (lookup P s) as [e|] eqn:He; [|reflexivity]. now rewrite (visible_Z0 s e now Hz He). Qed.

  (* ------------------------------------------------------------ operations on other keys: frame *)

  Lemma other_put d' k' v c now ts s : here d' k' = false -> lookup P (fst (put E d' k' v c now ts s)) = lookup P s.
  Proof.
    intros H. unfold put. destruct (nx c && _); [reflexivity|]. destruct (xx c && _); [reflexivity|].
    cbn [fst]. now rewrite lookup_write_all, holder_P, H.
  Qed.
  Lemma other_expire d' k' ms now ts s : here d' k' = false -> lookup P (fst (expire E d' k' ms now ts s)) = lookup P s.
  Proof.
    intros H. unfold expire. destruct (lookup (ploc E d' k') s) as [e|]; [|reflexivity].
    destruct (visible e now); [|reflexivity]. cbn [fst]. now rewrite lookup_write_all, holder_P, H.
  Qed.
  Lemma lookup_delete d' ks : forall s,
    lookup P (fst (delete E d' ks s)) =
    if bytes_eqb d' d && existsb (fun x => bytes_eqb x k) ks then None else lookup P s.
  Proof.
    unfold delete. cbn [fst]. induction ks as [|k' ks IH]; intros s; cbn [fold_left existsb].
    - now rewrite andb_false_r.
    - rewrite IH, lookup_remove_all, holder_P. unfold here.
      destruct (bytes_eqb d' d); cbn [andb]; [|reflexivity].
      destruct (bytes_eqb k' k); cbn [orb]; [|reflexivity]. now destruct (existsb _ ks).
  Qed.
  Lemma other_delete1 d' k' s : here d' k' = false -> lookup P (fst (delete E d' [k'] s)) = lookup P s.
  Proof. intros H. rewrite lookup_delete. cbn [existsb]. rewrite orb_false_r. unfold here in H. now rewrite H. Qed.
  Lemma other_touch d' k' now s : here d' k' = false -> lookup P (touch (ploc E d' k') now s) = lookup P s.
  Proof.
    intros H. rewrite lookup_touch. destruct (loc_eqb P (ploc E d' k')) eqn:H1; [|reflexivity].
    apply ploc_P in H1. congruence.
  Qed.

  Lemma other_evict m now : forall sample s, Z0 s -> lookup P (evict_pass E m sample now s) = lookup P s.
  Proof.
    unfold evict_pass. induction sample as [|[d' k'] sample IH]; intros s Hz; cbn [fold_left]; [reflexivity|].
    destruct (Nat.eqb (owner E d' k') m); [|now apply IH].
    destruct (lookup (ploc E d' k') s) as [e|] eqn:He; [|now apply IH].
    destruct (expired (ettl e) now || idle E d' e now) eqn:Hc; [|now apply IH].
    assert (Hh : here d' k' = false).
    { destruct (here d' k') eqn:Hh; [|reflexivity]. apply here_true in Hh as [-> ->]. fold P in He.
      unfold idle in Hc. rewrite (Hnoidle d) in Hc. unfold expired in Hc. rewrite (Hz e He) in Hc. discriminate. }
    assert (Hl : lookup P (remove_all E d' k' s) = lookup P s) by now rewrite lookup_remove_all, holder_P, Hh.
    rewrite IH; [exact Hl|]. intros e0 H0. rewrite Hl in H0. now apply Hz.
  Qed.

  (* ------------------------------------------------------------ one step *)

  Lemma own_put v c now ts s :
    Z0 s -> pexp c = ENone -> nx c && xx c = false ->
    Z0 (fst (put E d k v c now ts s)) /\
    (abs (fst (put E d k v c now ts s)) = fst (rstep (abs s) (put_rop v c)) /\
     rmap (snd (put E d k v c now ts s)) = Some (snd (rstep (abs s) (put_rop v c)))).
  Proof.
    intros Hz Hp Hb. unfold put, put_rop. fold P.
    assert (Hvis : (match lookup P s with Some e => visible e now | None => false end)
                   = match lookup P s with Some _ => true | None => false end).
    { destruct (lookup P s) as [e|] eqn:He; [|reflexivity]. now apply (visible_Z0 s e now Hz). }
    rewrite Hvis.
    assert (Hw : forall e0, lookup P (write_all E d k e0 s) = Some e0).
    { intros e0. rewrite lookup_write_all. fold P. rewrite holder_P. unfold here. now rewrite !bytes_eqb_refl. }
    assert (Hpt : prepare_ttl E d (pexp c) now = 0) by (rewrite Hp; unfold prepare_ttl; now rewrite Hnottl).
    unfold abs, Z0.
    destruct (nx c) eqn:Hnx, (xx c) eqn:Hxx; try discriminate; destruct (lookup P s) as [e|] eqn:He;
      cbn [andb negb fst snd option_map rstep rmap]; rewrite ?Hw, ?He, ?Hpt; cbn [option_map ev ettl];
      (split; [intros e1 H1; try (injection H1 as <-; cbn [ettl]; first [reflexivity | now apply Hz]); try discriminate
              |split; reflexivity]).
  Qed.

  Definition step_ok (s : state) (o : dop) (s' : state) (r : DMap.res) : Prop :=
    match proj o with
    | Some ro => abs s' = fst (rstep (abs s) ro) /\ rmap r = Some (snd (rstep (abs s) ro))
    | None => abs s' = abs s
    end.

  Lemma same_abs s s' : Z0 s -> lookup P s' = lookup P s -> Z0 s' /\ abs s' = abs s.
  Proof. intros Hz H. unfold abs, Z0 in *. rewrite H. auto. Qed.

  Lemma step_refines now ts s o :
    Inv E s -> Z0 s -> allowed o = true ->
    Z0 (fst (step E now ts s o)) /\ step_ok s o (fst (step E now ts s o)) (snd (step E now ts s o)).
  Proof.
    intros HI Hz Ha. unfold step_ok. destruct o as [d' k' v c|d' k'|d' ks|d' k' ms|d' k' v|d' k' dl|d' k' tok tmo|d' k' tok|d' k' tok ms|d'|m sample];
      cbn [step proj allowed] in *.
    - (* Put *)
      destruct (here d' k') eqn:Hh.
      + apply here_true in Hh as [-> ->]. cbn [negb orb] in Ha. apply andb_true_iff in Ha as [Hx Hb].
        destruct (pexp c) eqn:Hp; try discriminate. apply negb_true_iff in Hb.
        exact (own_put v c now ts s Hz Hp Hb).
      + apply same_abs; [exact Hz|]; now apply other_put.
    - (* Get *)
      destruct (here d' k') eqn:Hh.
      + apply here_true in Hh as [-> ->]. rewrite get_result by assumption. cbn [get fst]. fold P.
        rewrite vlookup_Z0 by assumption.
        assert (Hl : lookup P (touch P now s) = option_map (fun e => {| ev := ev e; ettl := ettl e; ets := ets e; ela := now |}) (lookup P s)).
        { rewrite lookup_touch. now rewrite loc_eqb_refl. }
        unfold abs, Z0. rewrite Hl. destruct (lookup P s) as [e|] eqn:He; cbn [option_map ev rstep fst snd rmap].
        * split; [intros e1 H1; injection H1 as <-; cbn; now apply Hz|split; reflexivity].
        * split; [intros e1 H1; discriminate|split; reflexivity].
      + cbn [get fst]. apply same_abs; [exact Hz|]; now apply other_touch.
    - (* Delete *)
      pose proof (lookup_delete d' ks s) as Hl.
      destruct (bytes_eqb d' d && existsb (fun x => bytes_eqb x k) ks).
      + unfold abs, Z0. rewrite Hl. cbn. split; [intros e1 H1; discriminate|split; reflexivity].
      + apply same_abs; assumption.
    - apply negb_true_iff in Ha. apply same_abs; [exact Hz|]; now apply other_expire.
    - apply negb_true_iff in Ha. unfold getput. destruct (put E d' k' v plain now ts s) as [s' r'] eqn:Hp. cbn [fst snd].
      assert (Hl : lookup P s' = lookup P s) by (change s' with (fst (s', r')); rewrite <- Hp; now apply other_put).
      apply same_abs; assumption.
    - apply negb_true_iff in Ha. unfold incr.
      match goal with |- context [put E d' k' ?v0 ?c0 now ts s] => destruct (put E d' k' v0 c0 now ts s) as [s' r'] eqn:Hp end.
      cbn [fst snd].
      assert (Hl : lookup P s' = lookup P s) by (change s' with (fst (s', r')); rewrite <- Hp; now apply other_put).
      apply same_abs; assumption.
    - apply negb_true_iff in Ha. unfold lock. apply same_abs; [exact Hz|]; now apply other_put.
    - apply negb_true_iff in Ha. unfold unlock. destruct (get_entry E d' k' now s) as [e|]; [|apply same_abs; auto].
      destruct (bytes_eqb (ev e) tok); cbn [fst snd]; [|apply same_abs; auto].
      apply same_abs; [exact Hz|]; now apply other_delete1.
    - apply negb_true_iff in Ha. unfold lease. destruct (get_entry E d' k' now s) as [e|]; [|apply same_abs; auto].
      destruct (bytes_eqb (ev e) tok); cbn [fst snd]; [|apply same_abs; auto].
      pose proof (other_expire d' k' ms now ts s Ha) as Hl.
      destruct (expire E d' k' ms now ts s) as [s' r']. cbn [fst] in Hl. destruct r'; cbn [fst snd]; apply same_abs; assumption.
    - apply negb_true_iff in Ha. cbn [fst snd].
      assert (Hl : lookup P (destroy d' s) = lookup P s).
      { rewrite lookup_destroy. cbn [P ploc ld]. rewrite bytes_eqb_sym_false; [reflexivity|exact Ha]. }
      apply same_abs; assumption.
    - cbn [fst snd]. apply same_abs; [exact Hz|]; now apply other_evict.
  Qed.

  (* ------------------------------------------------------------ every run *)

  Fixpoint rrun (a : option Z) (l : list rop) : option Z * list rres :=
    match l with
    | [] => (a, [])
    | o :: l' => let '(a1, r) := rstep a o in let '(a2, rs) := rrun a1 l' in (a2, r :: rs)
    end.

  Definition proj_ops (l : list (Z * Z * dop)) : list rop :=
    flat_map (fun x => match proj (snd x) with Some ro => [ro] | None => [] end) l.
  Fixpoint proj_res (l : list (Z * Z * dop)) (rs : list DMap.res) : list (option rres) :=
    match l, rs with
    | x :: l', r :: rs' => match proj (snd x) with Some _ => rmap r :: proj_res l' rs' | None => proj_res l' rs' end
    | _, _ => []
    end.

  Lemma Inv_step1 now ts s o : Inv E s -> Inv E (fst (step E now ts s o)).
  Proof. apply Inv_step. Qed.

  Theorem run_refines : forall l s, Inv E s -> Z0 s -> Forall (fun x => allowed (snd x) = true) l ->
    proj_res l (snd (run E s l)) = map Some (snd (rrun (abs s) (proj_ops l))) /\
    abs (fst (run E s l)) = fst (rrun (abs s) (proj_ops l)) /\
    Z0 (fst (run E s l)) /\ Inv E (fst (run E s l)).
  Proof.
    induction l as [|[[now ts] o] l IH]; intros s HI Hz Ha; [cbn; auto|].
    inversion Ha as [|x l0 Ha1 Ha2]; subst. cbn [snd] in Ha1.
    destruct (step_refines now ts s o HI Hz Ha1) as [Hz1 Hs]. pose proof (Inv_step1 now ts s o HI) as HI1.
    cbn [run]. destruct (step E now ts s o) as [s1 r] eqn:Hst. cbn [fst snd] in *.
    specialize (IH s1 HI1 Hz1 Ha2). destruct (run E s1 l) as [s2 rs] eqn:Hr. cbn [fst snd] in *.
    destruct IH as (IH1 & IH2 & IH3 & IH4).
    unfold proj_ops. cbn [flat_map proj_res snd]. fold (proj_ops l). unfold step_ok in Hs.
    destruct (proj o) as [ro|].
    - destruct Hs as [Hs1 Hs2]. cbn [app rrun]. destruct (rstep (abs s) ro) as [a1 rr] eqn:Hrs. cbn [fst snd] in *.
      rewrite <- Hs1. destruct (rrun (abs s1) (proj_ops l)) as [a2 rrs]. cbn [fst snd map] in *.
      rewrite Hs2, IH1. auto.
    - cbn [app]. rewrite <- Hs. auto.
  Qed.

  (* ------------------------------------------------------------ executions with commit points *)

  (* one operation of a concurrent execution: invocation, response and commit instants, the clock reading and
     the write timestamp the owner used, and the operation *)
  Record xev := { xinv : Z; xrsp : Z; xcom : Z; xnow : Z; xts : Z; xop : dop }.
  Fixpoint ordered (l : list xev) : Prop :=
    match l with
    | [] => True
    | x :: l' => xinv x <= xcom x <= xrsp x /\ Forall (fun y => xcom x < xcom y) l' /\ ordered l'
    end.
  Definition steps (l : list xev) : list (Z * Z * dop) := map (fun x => (xnow x, xts x, xop x)) l.
  (* what the clients of the key saw *)
  Fixpoint history (l : list xev) (rs : list DMap.res) : list (cevent rop rres) :=
    match l, rs with
    | x :: l', r :: rs' =>
      match proj (xop x), rmap r with
      | Some ro, Some rr =>
        {| ce := {| inv := xinv x; rsp := xrsp x; eop := ro; eres := rr |}; com := xcom x |} :: history l' rs'
      | _, _ => history l' rs'
      end
    | _, _ => []
    end.

  Lemma rres_eqb_refl r : rres_eqb r r = true.
  Proof. destruct r; cbn; try reflexivity. apply Z.eqb_refl. Qed.

  Lemma history_Forall (Q : Z -> Prop) : forall l rs, Forall (fun y => Q (xcom y)) l ->
    Forall (fun c => Q (com _ _ c)) (history l rs).
  Proof.
    induction l as [|x l IH]; intros rs H; [constructor|]. inversion H as [|x0 l0 H1 H2]; subst.
    destruct rs as [|r rs]; [constructor|]. cbn [history].
    destruct (proj (xop x)); [|now apply IH]. destruct (rmap r); [|now apply IH]. constructor; [exact H1|now apply IH].
  Qed.

  Theorem executions_commit : forall l s, Inv E s -> Z0 s -> Forall (fun x => allowed (xop x) = true) l -> ordered l ->
    commit_run _ _ _ rstep rres_eqb (abs s) (history l (snd (run E s (steps l)))).
  Proof.
    induction l as [|x l IH]; intros s HI Hz Ha Ho; [exact I|].
    inversion Ha as [|x0 l0 Ha1 Ha2]; subst. destruct Ho as (Hc & Hlt & Ho).
    destruct (step_refines (xnow x) (xts x) s (xop x) HI Hz Ha1) as [Hz1 Hs].
    pose proof (Inv_step1 (xnow x) (xts x) s (xop x) HI) as HI1.
    cbn [steps map run]. fold (steps l). destruct (step E (xnow x) (xts x) s (xop x)) as [s1 r] eqn:Hst. cbn [fst snd] in *.
    specialize (IH s1 HI1 Hz1 Ha2 Ho). destruct (run E s1 (steps l)) as [s2 rs] eqn:Hr. cbn [fst snd history] in *.
    unfold step_ok in Hs. destruct (proj (xop x)) as [ro|].
    - destruct Hs as [Hs1 Hs2]. rewrite Hs2. cbn [commit_run ce com inv rsp eop eres].
      split; [exact Hc|]. split; [now apply (history_Forall (fun z => xcom x < z))|].
      destruct (rstep (abs s) ro) as [a1 rr]. cbn [fst snd] in *. split; [apply rres_eqb_refl|]. now rewrite <- Hs1.
    - now rewrite <- Hs.
  Qed.

  Corollary executions_linearize l s :
    Inv E s -> Z0 s -> Forall (fun x => allowed (xop x) = true) l -> ordered l ->
    let h := history l (snd (run E s (steps l))) in
    linearization _ _ _ rstep rres_eqb (abs s) (map (ce _ _) h) (map (ce _ _) h).
  Proof. intros HI Hz Ha Ho h. apply commit_order_linearizes. now apply executions_commit. Qed.
End Register.
