(* C08: the owner-side model of Lock / Unlock (Model/DMap.v: Lock = Put NX of a token, Unlock = Get, compare, Delete)
   implements, key by key, the lock specification of Model/Lin.v for locks without timeout - whatever happens to the
   other keys and DMaps, for every replica count and placement. With the commit-point theorem: executions whose lock
   operations take effect one at a time on the owner are linearizable w.r.t. the lock specification, i.e. at most one
   token holds the key at any instant and a stale token changes nothing. *)
From Coq Require Import List NArith ZArith Bool Lia.
Require Import Olric.Model.DMap Olric.Model.Lin Olric.Proofs.DMapProofs Olric.Proofs.LinProofs Olric.Proofs.DMapRegister.
Import ListNotations.
Local Open Scope Z_scope.

Section LockSpec.
  Variable E : env.
  Variables d k : bytes.
  Variable dec : bytes -> Z.                         (* tokens as numbers: any injective reading *)
  Hypothesis dec_inj : forall a b, dec a = dec b -> a = b.
  Hypothesis Hnoidle : no_idle E.
  Hypothesis Hnottl : default_ttl E d = 0.

  Notation P := (P E d k).
  Notation here := (here d k).

  Definition lproj (o : dop) : option lop :=
    match o with
    | DLock d' k' tok _ => if here d' k' then Some (LLock (dec tok)) else None
    | DUnlock d' k' tok => if here d' k' then Some (LUnlock (dec tok)) else None
    | _ => None
    end.

  (* on the key itself: Lock without timeout and Unlock with any token; anything on the other keys *)
  Definition lallowed (o : dop) : bool :=
    match o with
    | DLock d' k' _ tmo => negb (here d' k') || (tmo =? 0)
    | DUnlock _ _ _ => true
    | DGet d' k' => negb (here d' k')
    | DPut d' k' _ _ | DExpire d' k' _ | DGetPut d' k' _ | DIncr d' k' _ | DLease d' k' _ _ => negb (here d' k')
    | DDel d' ks => negb (bytes_eqb d' d && existsb (fun x => bytes_eqb x k) ks)
    | DDestroy d' => negb (bytes_eqb d' d)
    | DEvict _ _ => true
    end.

  Definition lmap (r : DMap.res) : option lres :=
    match r with
    | DMap.ROk => Some LOk
    | DMap.RKeyFound => Some LNotAcquired
    | DMap.RNoSuchLock => Some LNoSuchLock
    | _ => None
    end.

  Definition labs (s : state) : option Z := option_map (fun e => dec (ev e)) (lookup P s).
  Notation Z0 := (Z0 E d k).

  Lemma same_labs s s' : Z0 s -> lookup P s' = lookup P s -> Z0 s' /\ labs s' = labs s.
  Proof. intros Hz H. unfold labs, DMapRegister.Z0 in *. rewrite H. auto. Qed.

  Lemma get_entry_P now s : Inv E s -> Z0 s ->
    option_map ev (get_entry E d k now s) = option_map ev (lookup P s).
  Proof.
    intros HI Hz. pose proof (get_entry_content E d k now s HI Hnoidle) as H. fold P in H.
    rewrite (vlookup_Z0 E d k s now Hz) in H.
    destruct (get_entry E d k now s) as [e|], (lookup P s) as [p|]; cbn in *; try discriminate; [|reflexivity].
    unfold content in H. injection H as -> _ _. reflexivity.
  Qed.

  Definition lstep_ok (s : state) (o : dop) (s' : state) (r : DMap.res) : Prop :=
    match lproj o with
    | Some lo => labs s' = fst (lstep (labs s) lo) /\ lmap r = Some (snd (lstep (labs s) lo))
    | None => labs s' = labs s
    end.

  Lemma lstep_refines now ts s o :
    Inv E s -> Z0 s -> lallowed o = true ->
    Z0 (fst (step E now ts s o)) /\ lstep_ok s o (fst (step E now ts s o)) (snd (step E now ts s o)).
  Proof.
    intros HI Hz Ha. unfold lstep_ok.
    destruct o as [d' k' v c|d' k'|d' ks|d' k' ms|d' k' v|d' k' dl|d' k' tok tmo|d' k' tok|d' k' tok ms|d'|m sample];
      cbn [step lproj lallowed] in *.
    - apply negb_true_iff in Ha. apply same_labs; [exact Hz|]. now apply other_put.
    - apply negb_true_iff in Ha. cbn [get fst]. apply same_labs; [exact Hz|]. now apply other_touch.
    - apply negb_true_iff in Ha. pose proof (lookup_delete E d k d' ks s) as Hl. fold P in Hl. rewrite Ha in Hl.
      now apply same_labs.
    - apply negb_true_iff in Ha. apply same_labs; [exact Hz|]. now apply other_expire.
    - apply negb_true_iff in Ha. unfold getput. destruct (put E d' k' v plain now ts s) as [s' r'] eqn:Hp. cbn [fst snd].
      assert (Hl : lookup P s' = lookup P s) by (change s' with (fst (s', r')); rewrite <- Hp; now apply other_put).
      now apply same_labs.
    - apply negb_true_iff in Ha. unfold incr.
      match goal with |- context [put E d' k' ?v0 ?c0 now ts s] => destruct (put E d' k' v0 c0 now ts s) as [s' r'] eqn:Hp end.
      cbn [fst snd].
      assert (Hl : lookup P s' = lookup P s) by (change s' with (fst (s', r')); rewrite <- Hp; now apply other_put).
      now apply same_labs.
    - (* Lock *)
      destruct (here d' k') eqn:Hh.
      + apply here_true in Hh as [-> ->]. cbn [negb orb] in Ha. apply Z.eqb_eq in Ha. subst tmo. unfold lock. cbn [Z.eqb].
        unfold put. cbn [nx xx pexp andb]. fold P.
        destruct (lookup P s) as [e|] eqn:He.
        * rewrite (visible_Z0 E d k s e now Hz He). cbn [fst snd]. unfold labs. rewrite He. cbn [option_map lstep fst snd lmap].
          split; [exact Hz|split; reflexivity].
        * cbn [fst snd]. unfold labs, DMapRegister.Z0. rewrite He. cbn [option_map lstep fst snd lmap].
          assert (Hw : forall e0, lookup P (write_all E d k e0 s) = Some e0).
          { intros e0. rewrite lookup_write_all, holder_P. unfold DMapRegister.here. now rewrite !bytes_eqb_refl. }
          rewrite Hw. cbn [option_map ev]. split; [|split; reflexivity].
          intros e1 H1. injection H1 as <-. cbn [ettl]. unfold prepare_ttl. now rewrite Hnottl.
      + unfold lock. apply same_labs; [exact Hz|]. now apply other_put.
    - (* Unlock *)
      destruct (here d' k') eqn:Hh.
      + apply here_true in Hh as [-> ->]. unfold unlock. pose proof (get_entry_P now s HI Hz) as Hg.
        destruct (get_entry E d k now s) as [e|] eqn:Hge, (lookup P s) as [p|] eqn:Hp; cbn in Hg; try discriminate.
        * injection Hg as Hev. rewrite Hev.
          destruct (bytes_eqb (ev p) tok) eqn:Hb; cbn [fst snd].
          -- apply bytes_eqb_eq in Hb.
             pose proof (lookup_delete E d k d [k] s) as Hl. fold P in Hl. cbn [existsb] in Hl.
             rewrite !bytes_eqb_refl in Hl. cbn [andb orb] in Hl.
             unfold labs, DMapRegister.Z0. rewrite Hl, Hp. cbn [option_map lstep]. rewrite Hb, Z.eqb_refl. cbn [fst snd lmap].
             split; [intros e1 H1; discriminate|split; reflexivity].
          -- assert (Hne : (dec (ev p) =? dec tok) = false).
             { apply Z.eqb_neq. intros Heq. apply dec_inj in Heq. rewrite Heq, bytes_eqb_refl in Hb. discriminate. }
             unfold labs. rewrite Hp. cbn [option_map lstep]. rewrite Hne. cbn [fst snd lmap].
             split; [exact Hz|split; reflexivity].
        * cbn [fst snd]. unfold labs. rewrite Hp. cbn [option_map lstep fst snd lmap].
          split; [exact Hz|split; reflexivity].
      + unfold unlock. destruct (get_entry E d' k' now s) as [e|]; [|now apply same_labs].
        destruct (bytes_eqb (ev e) tok); cbn [fst snd]; [|now apply same_labs].
        apply same_labs; [exact Hz|]. now apply other_delete1.
    - apply negb_true_iff in Ha. unfold lease. destruct (get_entry E d' k' now s) as [e|]; [|now apply same_labs].
      destruct (bytes_eqb (ev e) tok); cbn [fst snd]; [|now apply same_labs].
      pose proof (other_expire E d k d' k' ms now ts s Ha) as Hl.
      destruct (expire E d' k' ms now ts s) as [s' r']. cbn [fst] in Hl. destruct r'; cbn [fst snd]; now apply same_labs.
    - apply negb_true_iff in Ha. cbn [fst snd].
      assert (Hl : lookup P (destroy d' s) = lookup P s).
      { rewrite lookup_destroy. cbn [DMapRegister.P ploc ld]. rewrite (bytes_eqb_sym_false _ _ Ha). reflexivity. }
      now apply same_labs.
    - cbn [fst snd]. apply same_labs; [exact Hz|]. now apply (other_evict E d k Hnoidle).
  Qed.

  Fixpoint lhistory (l : list xev) (rs : list DMap.res) : list (cevent lop lres) :=
    match l, rs with
    | x :: l', r :: rs' =>
      match lproj (xop x), lmap r with
      | Some lo, Some lr =>
        {| ce := {| inv := xinv x; rsp := xrsp x; eop := lo; eres := lr |}; com := xcom x |} :: lhistory l' rs'
      | _, _ => lhistory l' rs'
      end
    | _, _ => []
    end.

  Lemma lres_eqb_refl r : lres_eqb r r = true.
  Proof. destruct r; reflexivity. Qed.

  Lemma lhistory_Forall (Q : Z -> Prop) : forall l rs, Forall (fun y => Q (xcom y)) l ->
    Forall (fun c => Q (com _ _ c)) (lhistory l rs).
  Proof.
    induction l as [|x l IH]; intros rs H; [constructor|]. inversion H as [|x0 l0 H1 H2]; subst.
    destruct rs as [|r rs]; [constructor|]. cbn [lhistory].
    destruct (lproj (xop x)); [|now apply IH]. destruct (lmap r); [|now apply IH]. constructor; [exact H1|now apply IH].
  Qed.

  Theorem lock_executions_commit : forall l s,
    Inv E s -> Z0 s -> Forall (fun x => lallowed (xop x) = true) l -> ordered l ->
    commit_run _ _ _ lstep lres_eqb (labs s) (lhistory l (snd (run E s (steps l)))).
  Proof.
    induction l as [|x l IH]; intros s HI Hz Ha Ho; [exact I|].
    inversion Ha as [|x0 l0 Ha1 Ha2]; subst. destruct Ho as (Hc & Hlt & Ho).
    destruct (lstep_refines (xnow x) (xts x) s (xop x) HI Hz Ha1) as [Hz1 Hs].
    pose proof (Inv_step E (xnow x) (xts x) s (xop x) HI) as HI1.
    cbn [steps map run]. fold (steps l). destruct (step E (xnow x) (xts x) s (xop x)) as [s1 r] eqn:Hst. cbn [fst snd] in *.
    specialize (IH s1 HI1 Hz1 Ha2 Ho). destruct (run E s1 (steps l)) as [s2 rs] eqn:Hr. cbn [fst snd lhistory] in *.
    unfold lstep_ok in Hs. destruct (lproj (xop x)) as [lo|].
    - destruct Hs as [Hs1 Hs2]. rewrite Hs2. cbn [commit_run ce com inv rsp eop eres].
      split; [exact Hc|]. split; [now apply (lhistory_Forall (fun z => xcom x < z))|].
      destruct (lstep (labs s) lo) as [a1 rr]. cbn [fst snd] in *. split; [apply lres_eqb_refl|]. now rewrite <- Hs1.
    - now rewrite <- Hs.
  Qed.

  Corollary lock_executions_linearize l s :
    Inv E s -> Z0 s -> Forall (fun x => lallowed (xop x) = true) l -> ordered l ->
    let h := lhistory l (snd (run E s (steps l))) in
    linearization _ _ _ lstep lres_eqb (labs s) (map (ce _ _) h) (map (ce _ _) h).
  Proof. intros HI Hz Ha Ho h. apply commit_order_linearizes. now apply lock_executions_commit. Qed.
End LockSpec.
