(* Invariants of the owner-side DMap semantics (Model/DMap.v): replica mirror (C04), frame between DMaps
   (C19), lazy expiry behaves as eager expiry (C09). States are compared pointwise through [lookup]. *)
From Coq Require Import List NArith ZArith Lia Bool.
Require Import Olric.Model.DMap.
Import ListNotations.
Local Open Scope Z_scope.

(* ---------------------------------------------------------------- decidable equalities ------ *)

Lemma bytes_eqb_eq a b : bytes_eqb a b = true <-> a = b.
Proof.
  revert b. induction a as [|x a IH]; intros [|y b]; cbn; split; try discriminate; try reflexivity.
  - intros H. apply andb_true_iff in H as [H1 H2]. apply N.eqb_eq in H1. apply IH in H2. now subst.
  - intros [= -> ->]. apply andb_true_iff. split; [apply N.eqb_refl|now apply IH].
Qed.
Lemma bytes_eqb_refl a : bytes_eqb a a = true.
Proof. now apply bytes_eqb_eq. Qed.

Lemma kind_eqb_eq a b : kind_eqb a b = true <-> a = b.
Proof. destruct a, b; cbn; split; congruence. Qed.

Lemma loc_eqb_eq a b : loc_eqb a b = true <-> a = b.
Proof.
  destruct a as [m1 k1 d1 x1], b as [m2 k2 d2 x2]. unfold loc_eqb. cbn.
  rewrite !andb_true_iff, Nat.eqb_eq, kind_eqb_eq, !bytes_eqb_eq. split.
  - intros [[[-> ->] ->] ->]. reflexivity.
  - intros [= -> -> -> ->]. auto.
Qed.
Lemma loc_eqb_refl a : loc_eqb a a = true.
Proof. now apply loc_eqb_eq. Qed.
Lemma loc_eqb_neq a b : loc_eqb a b = false <-> a <> b.
Proof. split; intros H; [intros E; apply loc_eqb_eq in E; congruence|]. destruct (loc_eqb a b) eqn:E; [apply loc_eqb_eq in E; contradiction|reflexivity]. Qed.
Lemma loc_eqb_sym a b : loc_eqb a b = loc_eqb b a.
Proof.
  destruct (loc_eqb a b) eqn:E.
  - apply loc_eqb_eq in E. subst. symmetry. apply loc_eqb_refl.
  - symmetry. apply loc_eqb_neq. apply loc_eqb_neq in E. congruence.
Qed.

(* ---------------------------------------------------------------- lookup algebra ------------ *)

Lemma lookup_remove l l' s : lookup l (remove l' s) = if loc_eqb l l' then None else lookup l s.
Proof.
  induction s as [|[x e] s IH]; cbn; [now destruct (loc_eqb l l')|].
  destruct (loc_eqb l' x) eqn:E1.
  - apply loc_eqb_eq in E1. subst x. rewrite IH. destruct (loc_eqb l l'); reflexivity.
  - cbn. rewrite IH. destruct (loc_eqb l x) eqn:E2; [|reflexivity].
    apply loc_eqb_eq in E2. subst x. rewrite loc_eqb_sym, E1. reflexivity.
Qed.

Lemma lookup_set l l' e s : lookup l (set l' e s) = if loc_eqb l l' then Some e else lookup l s.
Proof. unfold set. cbn. destruct (loc_eqb l l') eqn:E; [reflexivity|]. rewrite lookup_remove, E. reflexivity. Qed.

Definition bset (bs : list nat) (d k : bytes) (l : loc) : bool := existsb (fun b => loc_eqb l (bloc b d k)) bs.
Definition holder (E : env) (d k : bytes) (l : loc) : bool := loc_eqb l (ploc E d k) || bset (backups E d k) d k l.

Lemma lookup_fold_set l e d k bs s :
  lookup l (fold_right (fun b acc => set (bloc b d k) e acc) s bs) = if bset bs d k l then Some e else lookup l s.
Proof.
  unfold bset. induction bs as [|b bs IH]; cbn [fold_right existsb]; [reflexivity|]. rewrite lookup_set, IH.
  destruct (loc_eqb l (bloc b d k)); reflexivity.
Qed.
Lemma lookup_fold_remove l d k bs s :
  lookup l (fold_right (fun b acc => remove (bloc b d k) acc) s bs) = if bset bs d k l then None else lookup l s.
Proof.
  unfold bset. induction bs as [|b bs IH]; cbn [fold_right existsb]; [reflexivity|]. rewrite lookup_remove, IH.
  destruct (loc_eqb l (bloc b d k)); reflexivity.
Qed.

Lemma lookup_write_all E d k e l s :
  lookup l (write_all E d k e s) = if holder E d k l then Some e else lookup l s.
Proof. unfold write_all, holder. rewrite lookup_set, lookup_fold_set. destruct (loc_eqb l (ploc E d k)); reflexivity. Qed.
Lemma lookup_remove_all E d k l s :
  lookup l (remove_all E d k s) = if holder E d k l then None else lookup l s.
Proof. unfold remove_all, holder. rewrite lookup_remove, lookup_fold_remove. destruct (loc_eqb l (ploc E d k)); reflexivity. Qed.

Lemma holder_key E d k l : holder E d k l = true -> ld l = d /\ lkey l = k.
Proof.
  unfold holder, bset. intros H. apply orb_true_iff in H as [H|H].
  - apply loc_eqb_eq in H. subst l. auto.
  - apply existsb_exists in H as (b & _ & H). apply loc_eqb_eq in H. subst l. auto.
Qed.
Lemma holder_ploc E d k : holder E d k (ploc E d k) = true.
Proof. unfold holder. now rewrite loc_eqb_refl. Qed.
Lemma holder_bloc E d k b : In b (backups E d k) -> holder E d k (bloc b d k) = true.
Proof.
  intros H. unfold holder, bset. apply orb_true_iff. right. apply existsb_exists. exists b. split; [exact H|apply loc_eqb_refl].
Qed.

Lemma lookup_touch l l' now s :
  lookup l (touch l' now s) =
  if loc_eqb l l' then option_map (fun e => {| ev := ev e; ettl := ettl e; ets := ets e; ela := now |}) (lookup l' s)
  else lookup l s.
Proof.
  unfold touch. destruct (lookup l' s) as [e|] eqn:E.
  - rewrite lookup_set. destruct (loc_eqb l l'); reflexivity.
  - destruct (loc_eqb l l') eqn:E2; [|reflexivity]. apply loc_eqb_eq in E2. subst. now rewrite E.
Qed.

Lemma lookup_destroy l d s : lookup l (destroy d s) = if bytes_eqb (ld l) d then None else lookup l s.
Proof.
  unfold destroy. induction s as [|[x e] s IH]; cbn; [now destruct (bytes_eqb (ld l) d)|].
  destruct (bytes_eqb (ld x) d) eqn:E1; cbn.
  - rewrite IH. destruct (loc_eqb l x) eqn:E2; [|reflexivity]. apply loc_eqb_eq in E2. subst x. now rewrite E1.
  - rewrite IH. destruct (loc_eqb l x) eqn:E2; [|reflexivity]. apply loc_eqb_eq in E2. subst x. now rewrite E1.
Qed.

(* ---------------------------------------------------------------- content of an entry ------- *)

(* what replicas must agree on: value, expiry, write timestamp (not the last-access stamp) *)
Definition content (e : ent) : bytes * Z * Z := (ev e, ettl e, ets e).
Definition ocontent (o : option ent) : option (bytes * Z * Z) := option_map content o.

(* C04: every backup copy mirrors the primary copy, and absent exactly when the primary copy is absent *)
Definition Mirror (E : env) (s : state) : Prop :=
  forall d k b, In b (backups E d k) -> ocontent (lookup (bloc b d k) s) = ocontent (lookup (ploc E d k) s).

(* no copy anywhere else *)
Definition Placed (E : env) (s : state) : Prop :=
  forall l e, lookup l s = Some e -> holder E (ld l) (lkey l) l = true.

Definition Inv (E : env) (s : state) : Prop := Mirror E s /\ Placed E s.

Lemma Inv_empty E : Inv E [].
Proof. split; [intros d k b _; reflexivity|intros l e H; discriminate]. Qed.

(* a state transformer described pointwise by the copies it overwrites *)
Lemma Inv_write_all E d k e s : Inv E s -> Inv E (write_all E d k e s).
Proof.
  intros [Hm Hp]. split.
  - intros d' k' b Hb. rewrite !lookup_write_all.
    destruct (holder E d k (bloc b d' k')) eqn:H1.
    + apply holder_key in H1 as [<- <-]. cbn. now rewrite holder_ploc.
    + destruct (holder E d k (ploc E d' k')) eqn:H2.
      * apply holder_key in H2 as [<- <-]. cbn in *. rewrite (holder_bloc E _ _ b Hb) in H1. discriminate.
      * now apply Hm.
  - intros l x. rewrite lookup_write_all. destruct (holder E d k l) eqn:H1.
    + intros _. destruct (holder_key _ _ _ _ H1) as [<- <-]. exact H1.
    + apply Hp.
Qed.

Lemma Inv_remove_all E d k s : Inv E s -> Inv E (remove_all E d k s).
Proof.
  intros [Hm Hp]. split.
  - intros d' k' b Hb. rewrite !lookup_remove_all.
    destruct (holder E d k (bloc b d' k')) eqn:H1.
    + apply holder_key in H1 as [<- <-]. cbn. now rewrite holder_ploc.
    + destruct (holder E d k (ploc E d' k')) eqn:H2.
      * apply holder_key in H2 as [<- <-]. cbn in *. rewrite (holder_bloc E _ _ b Hb) in H1. discriminate.
      * now apply Hm.
  - intros l x. rewrite lookup_remove_all. destruct (holder E d k l); [discriminate|apply Hp].
Qed.

Lemma Inv_touch E d k now s : Inv E s -> Inv E (touch (ploc E d k) now s).
Proof.
  intros [Hm Hp]. split.
  - intros d' k' b Hb. rewrite !lookup_touch.
    assert (Hne : loc_eqb (bloc b d' k') (ploc E d k) = false) by (apply loc_eqb_neq; discriminate).
    rewrite Hne. destruct (loc_eqb (ploc E d' k') (ploc E d k)) eqn:E1; [|now apply Hm].
    apply loc_eqb_eq in E1. rewrite <- E1. rewrite (Hm _ _ _ Hb).
    destruct (lookup (ploc E d' k') s); reflexivity.
  - intros l x. rewrite lookup_touch. destruct (loc_eqb l (ploc E d k)) eqn:E1; [|apply Hp].
    apply loc_eqb_eq in E1. subst l. destruct (lookup (ploc E d k) s) as [e|] eqn:E2; [|discriminate].
    intros _. eapply Hp; eauto.
Qed.

Lemma Inv_destroy E d s : Inv E s -> Inv E (destroy d s).
Proof.
  intros [Hm Hp]. split.
  - intros d' k' b Hb. rewrite !lookup_destroy. cbn. destruct (bytes_eqb d' d); [reflexivity|now apply Hm].
  - intros l x. rewrite lookup_destroy. destruct (bytes_eqb (ld l) d); [discriminate|apply Hp].
Qed.

Lemma Inv_fold_remove_all E d ks : forall s, Inv E s -> Inv E (fold_left (fun acc k => remove_all E d k acc) ks s).
Proof. induction ks as [|k ks IH]; cbn; intros s H; [exact H|]. apply IH, Inv_remove_all, H. Qed.

Lemma Inv_put E d k v c now ts s : Inv E s -> Inv E (fst (put E d k v c now ts s)).
Proof.
  intros H. unfold put. destruct (nx c && _); [exact H|]. destruct (xx c && _); [exact H|].
  cbn. now apply Inv_write_all.
Qed.

Lemma Inv_expire E d k ms now ts s : Inv E s -> Inv E (fst (expire E d k ms now ts s)).
Proof.
  intros H. unfold expire. destruct (lookup (ploc E d k) s) as [e|]; [|exact H].
  destruct (visible e now); [cbn; now apply Inv_write_all|exact H].
Qed.

Lemma Inv_delete E d ks s : Inv E s -> Inv E (fst (delete E d ks s)).
Proof. intros H. cbn. now apply Inv_fold_remove_all. Qed.

Lemma Inv_evict E m sample now : forall s, Inv E s -> Inv E (evict_pass E m sample now s).
Proof.
  unfold evict_pass. induction sample as [|[d k] sample IH]; cbn; intros s H; [exact H|]. apply IH.
  destruct (Nat.eqb (owner E d k) m); [|exact H]. destruct (lookup (ploc E d k) s) as [e|]; [|exact H].
  destruct (expired (ettl e) now || idle E d e now); [now apply Inv_remove_all|exact H].
Qed.

(* C04: the invariant holds after every operation of every sequence *)
Theorem Inv_step E now ts s o : Inv E s -> Inv E (fst (step E now ts s o)).
Proof.
  intros H. destruct o; cbn [step].
  - now apply Inv_put.
  - cbn. now apply Inv_touch.
  - now apply Inv_delete.
  - now apply Inv_expire.
  - unfold getput. pose proof (Inv_put E d k v plain now ts s H) as Hp.
    destruct (put E d k v plain now ts s) as [s' r]. exact Hp.
  - unfold incr. match goal with |- context [put E d k ?v ?c now ts s] => pose proof (Inv_put E d k v c now ts s H) as Hp;
      destruct (put E d k v c now ts s) as [s' r] end. exact Hp.
  - unfold lock. now apply Inv_put.
  - unfold unlock. destruct (get_entry E d k now s) as [e|]; [|exact H].
    destruct (bytes_eqb (ev e) tok); [|exact H]. cbn. now apply Inv_remove_all.
  - unfold lease. destruct (get_entry E d k now s) as [e|]; [|exact H].
    destruct (bytes_eqb (ev e) tok); [|exact H].
    pose proof (Inv_expire E d k ms now ts s H) as He. destruct (expire E d k ms now ts s) as [s' r].
    destruct r; exact He.
  - cbn. now apply Inv_destroy.
  - cbn. now apply Inv_evict.
Qed.

Theorem Inv_run E : forall l s, Inv E s -> Inv E (fst (run E s l)).
Proof.
  induction l as [|[[now ts] o] l IH]; intros s H; cbn [run]; [exact H|].
  pose proof (Inv_step E now ts s o H) as H1. destruct (step E now ts s o) as [s1 r].
  specialize (IH s1 H1). destruct (run E s1 l) as [s2 rs]. exact IH.
Qed.

(* consequently a read answered from any single copy returns the same content *)
Theorem single_copy_reads_agree E s d k l1 l2 e1 e2 :
  Inv E s -> ld l1 = d -> lkey l1 = k -> ld l2 = d -> lkey l2 = k ->
  lookup l1 s = Some e1 -> lookup l2 s = Some e2 -> content e1 = content e2.
Proof.
  intros [Hm Hp] Hd1 Hk1 Hd2 Hk2 H1 H2.
  assert (G : forall l e, ld l = d -> lkey l = k -> lookup l s = Some e ->
                          ocontent (lookup (ploc E d k) s) = Some (content e)).
  { intros l e Hd Hk Hl. pose proof (Hp _ _ Hl) as Hh. rewrite Hd, Hk in Hh.
    unfold holder in Hh. apply orb_true_iff in Hh as [Hh|Hh].
    - apply loc_eqb_eq in Hh. subst l. now rewrite Hl.
    - apply existsb_exists in Hh as (b & Hb & Hh). apply loc_eqb_eq in Hh. subst l.
      rewrite <- (Hm _ _ _ Hb), Hl. reflexivity. }
  pose proof (G _ _ Hd1 Hk1 H1) as G1. pose proof (G _ _ Hd2 Hk2 H2) as G2. congruence.
Qed.

(* C19 frame: an operation on DMap A never changes a copy of another DMap *)
Definition op_dmap (o : dop) : option bytes :=
  match o with
  | DPut d _ _ _ | DGet d _ | DDel d _ | DExpire d _ _ | DGetPut d _ _ | DIncr d _ _
  | DLock d _ _ _ | DUnlock d _ _ | DLease d _ _ _ | DDestroy d => Some d
  | DEvict _ _ => None
  end.

Lemma frame_write_all E d k e l s : ld l <> d -> lookup l (write_all E d k e s) = lookup l s.
Proof.
  intros H. rewrite lookup_write_all. destruct (holder E d k l) eqn:Hh; [|reflexivity].
  apply holder_key in Hh as [Hd _]. contradiction.
Qed.
Lemma frame_remove_all E d k l s : ld l <> d -> lookup l (remove_all E d k s) = lookup l s.
Proof.
  intros H. rewrite lookup_remove_all. destruct (holder E d k l) eqn:Hh; [|reflexivity].
  apply holder_key in Hh as [Hd _]. contradiction.
Qed.
Lemma frame_put E d k v c now ts l s : ld l <> d -> lookup l (fst (put E d k v c now ts s)) = lookup l s.
Proof.
  intros H. unfold put. destruct (nx c && _); [reflexivity|]. destruct (xx c && _); [reflexivity|].
  cbn. now apply frame_write_all.
Qed.
Lemma frame_expire E d k ms now ts l s : ld l <> d -> lookup l (fst (expire E d k ms now ts s)) = lookup l s.
Proof.
  intros H. unfold expire. destruct (lookup (ploc E d k) s) as [e|]; [|reflexivity].
  destruct (visible e now); [cbn; now apply frame_write_all|reflexivity].
Qed.
Lemma frame_fold_remove E d ks l : forall s, ld l <> d ->
  lookup l (fold_left (fun acc k => remove_all E d k acc) ks s) = lookup l s.
Proof. induction ks as [|k ks IH]; cbn; intros s H; [reflexivity|]. rewrite IH by exact H. now apply frame_remove_all. Qed.

Theorem frame_step E now ts s o d l :
  op_dmap o = Some d -> ld l <> d -> lookup l (fst (step E now ts s o)) = lookup l s.
Proof.
  intros Ho Hl. destruct o; cbn in Ho; try discriminate; injection Ho as ->; cbn [step].
  - now apply frame_put.
  - cbn. rewrite lookup_touch. destruct (loc_eqb l (ploc E d k)) eqn:E1; [|reflexivity].
    apply loc_eqb_eq in E1. subst l. cbn in Hl. contradiction.
  - cbn. now apply frame_fold_remove.
  - now apply frame_expire.
  - unfold getput. pose proof (frame_put E d k v plain now ts l s Hl) as Hp.
    destruct (put E d k v plain now ts s) as [s' r]. exact Hp.
  - unfold incr. match goal with |- context [put E d k ?v ?c now ts s] => pose proof (frame_put E d k v c now ts l s Hl) as Hp;
      destruct (put E d k v c now ts s) as [s' r] end. exact Hp.
  - unfold lock. now apply frame_put.
  - unfold unlock. destruct (get_entry E d k now s) as [e|]; [|reflexivity].
    destruct (bytes_eqb (ev e) tok); [|reflexivity]. cbn. now apply frame_remove_all.
  - unfold lease. destruct (get_entry E d k now s) as [e|]; [|reflexivity].
    destruct (bytes_eqb (ev e) tok); [|reflexivity].
    pose proof (frame_expire E d k ms now ts l s Hl) as He. destruct (expire E d k ms now ts s) as [s' r].
    destruct r; exact He.
  - cbn. rewrite lookup_destroy. destruct (bytes_eqb (ld l) d) eqn:E1; [|reflexivity].
    apply bytes_eqb_eq in E1. contradiction.
Qed.

(* ---------------------------------------------------------------- C09: lazy expiry ----------- *)

(* what a state looks like when expired entries are treated as absent *)
Definition vlookup (now : Z) (l : loc) (s : state) : option ent :=
  match lookup l s with
  | Some e => if visible e now then Some e else None
  | None => None
  end.
Definition veq (now : Z) (s s' : state) : Prop := forall l, vlookup now l s = vlookup now l s'.

Definition no_idle (E : env) : Prop := forall d, max_idle E d = 0.

Lemma visible_mono e now now' : now <= now' -> visible e now' = true -> visible e now = true.
Proof.
  unfold visible, expired. intros H. destruct (ettl e =? 0); cbn; [auto|].
  destruct (Z.leb_spec (ettl e) now'); cbn; [discriminate|]. intros _. destruct (Z.leb_spec (ettl e) now); [lia|reflexivity].
Qed.

Lemma veq_mono now now' s s' : now <= now' -> veq now s s' -> veq now' s s'.
Proof.
  intros Hle H l. specialize (H l). unfold vlookup in *.
  destruct (lookup l s) as [e|], (lookup l s') as [e'|]; try reflexivity.
  - destruct (visible e now') eqn:V1, (visible e' now') eqn:V2; try reflexivity.
    + rewrite (visible_mono _ _ _ Hle V1), (visible_mono _ _ _ Hle V2) in H. exact H.
    + rewrite (visible_mono _ _ _ Hle V1) in H. destruct (visible e' now); [|discriminate].
      injection H as ->. congruence.
    + rewrite (visible_mono _ _ _ Hle V2) in H. destruct (visible e now); [|discriminate].
      injection H as ->. congruence.
  - destruct (visible e now') eqn:V1; [|reflexivity]. rewrite (visible_mono _ _ _ Hle V1) in H. discriminate.
  - destruct (visible e' now') eqn:V1; [|reflexivity]. rewrite (visible_mono _ _ _ Hle V1) in H. discriminate.
Qed.

Lemma veq_refl now s : veq now s s. Proof. intros l. reflexivity. Qed.
Lemma veq_sym now s s' : veq now s s' -> veq now s' s. Proof. intros H l. symmetry. apply H. Qed.
Lemma veq_trans now a b c : veq now a b -> veq now b c -> veq now a c.
Proof. intros H1 H2 l. rewrite H1. apply H2. Qed.

(* pointwise transformers preserve veq *)
Lemma veq_write_all E d k e now s s' : veq now s s' -> veq now (write_all E d k e s) (write_all E d k e s').
Proof. intros H l. unfold vlookup. rewrite !lookup_write_all. destruct (holder E d k l); [reflexivity|apply H]. Qed.
Lemma veq_remove_all E d k now s s' : veq now s s' -> veq now (remove_all E d k s) (remove_all E d k s').
Proof. intros H l. unfold vlookup. rewrite !lookup_remove_all. destruct (holder E d k l); [reflexivity|apply H]. Qed.
Lemma veq_destroy d now s s' : veq now s s' -> veq now (destroy d s) (destroy d s').
Proof. intros H l. unfold vlookup. rewrite !lookup_destroy. destruct (bytes_eqb (ld l) d); [reflexivity|apply H]. Qed.
Lemma veq_fold_remove E d ks now : forall s s', veq now s s' ->
  veq now (fold_left (fun acc k => remove_all E d k acc) ks s) (fold_left (fun acc k => remove_all E d k acc) ks s').
Proof. induction ks as [|k ks IH]; cbn; intros s s' H; [exact H|]. apply IH, veq_remove_all, H. Qed.

Lemma veq_touch l0 now s s' : veq now s s' -> veq now (touch l0 now s) (touch l0 now s').
Proof.
  intros H l. unfold vlookup. rewrite !lookup_touch. destruct (loc_eqb l l0) eqn:E1; [|apply H].
  pose proof (H l0) as H0. unfold vlookup in H0.
  destruct (lookup l0 s) as [e|], (lookup l0 s') as [e'|]; cbn; try reflexivity.
  - unfold visible in *. cbn. destruct (negb (expired (ettl e) now)), (negb (expired (ettl e') now)); try discriminate; try reflexivity.
    injection H0 as ->. reflexivity.
  - unfold visible in *. cbn. destruct (negb (expired (ettl e) now)); [discriminate|reflexivity].
  - unfold visible in *. cbn. destruct (negb (expired (ettl e') now)); [discriminate|reflexivity].
Qed.

(* the newest of copies that all carry one content carries that content *)
Lemma newest_same_content c : forall l acc,
  (forall e, In e l -> content e = c) -> (forall a, acc = Some a -> content a = c) ->
  forall r, fold_left (fun acc e => match acc with
                                    | None => Some e
                                    | Some a => if ets a <=? ets e then Some e else Some a
                                    end) l acc = Some r -> content r = c.
Proof.
  induction l as [|e l IH]; cbn; intros acc Hl Ha r Hr; [now apply Ha|].
  eapply IH; [intros x Hx; apply Hl; now right| |exact Hr].
  intros a Ea. destruct acc as [a0|].
  - destruct (ets a0 <=? ets e); injection Ea as <-; [apply Hl; now left|now apply Ha].
  - injection Ea as <-. apply Hl. now left.
Qed.
Lemma newest_nonempty : forall l acc, (l <> [] \/ acc <> None) ->
  fold_left (fun acc e => match acc with
                          | None => Some e
                          | Some a => if ets a <=? ets e then Some e else Some a
                          end) l acc <> None.
Proof.
  induction l as [|e l IH]; cbn; intros acc H; [destruct H; congruence|].
  apply IH. right. destruct acc as [a|]; [destruct (ets a <=? ets e)|]; discriminate.
Qed.

Lemma gather_contents E d k s p :
  Mirror E s -> lookup (ploc E d k) s = Some p -> forall e, In e (gather E d k s) -> content e = content p.
Proof.
  intros Hm Hp e Hin. unfold gather in Hin. rewrite Hp in Hin. apply in_app_or in Hin as [[<-|[]]|Hin]; [reflexivity|].
  apply in_flat_map in Hin as (b & Hb & Hin). pose proof (Hm _ _ _ Hb) as Hmb. rewrite Hp in Hmb.
  destruct (lookup (bloc b d k) s) as [x|]; [|contradiction]. destruct Hin as [<-|[]]. cbn in Hmb. congruence.
Qed.
Lemma gather_empty E d k s : Mirror E s -> lookup (ploc E d k) s = None -> gather E d k s = [].
Proof.
  intros Hm Hp. unfold gather. rewrite Hp. cbn. induction (backups E d k) as [|b bs IH] eqn:Eb in Hm |- *; [reflexivity|].
  cbn. assert (Hb : In b (backups E d k)) by (rewrite Eb; now left).
  pose proof (Hm _ _ _ Hb) as Hmb. rewrite Hp in Hmb. destruct (lookup (bloc b d k) s); [discriminate|]. cbn.
  clear IH. assert (G : forall bs', (forall b', In b' bs' -> In b' (backups E d k)) ->
    flat_map (fun b0 => match lookup (bloc b0 d k) s with Some e => [e] | None => [] end) bs' = []).
  { induction bs' as [|b' bs' IH']; cbn; intros Hin; [reflexivity|].
    pose proof (Hm _ _ _ (Hin b' (or_introl eq_refl))) as H1. rewrite Hp in H1.
    destruct (lookup (bloc b' d k) s); [discriminate|]. cbn. apply IH'. intros x Hx. apply Hin. now right. }
  apply G. intros b' Hb'. rewrite Eb. now right.
Qed.

(* under the mirror invariant a read sees exactly the primary copy's content, expired = absent *)
Lemma get_entry_content E d k now s :
  Inv E s -> no_idle E ->
  option_map content (get_entry E d k now s) = option_map content (vlookup now (ploc E d k) s).
Proof.
  intros [Hm _] Hi. unfold get_entry, vlookup, newest.
  destruct (lookup (ploc E d k) s) as [p|] eqn:Hp.
  - pose proof (gather_contents E d k s p Hm Hp) as Hc.
    destruct (fold_left _ (gather E d k s) None) as [r|] eqn:Hr.
    + assert (Cr : content r = content p) by (eapply newest_same_content; [exact Hc| |exact Hr]; discriminate).
      unfold idle. rewrite Hi. cbn. rewrite andb_true_r.
      assert (Hv : visible r now = visible p now) by (unfold visible; unfold content in Cr; congruence).
      rewrite Hv. destruct (visible p now); cbn; congruence.
    + exfalso. revert Hr. apply newest_nonempty. left. unfold gather. rewrite Hp. discriminate.
  - now rewrite (gather_empty E d k s Hm Hp).
Qed.

Definition client_op (o : dop) : bool := match o with DEvict _ _ => false | _ => true end.

Lemma vlookup_ploc_vis now l s : (match lookup l s with Some e => visible e now | None => false end)
                               = match vlookup now l s with Some _ => true | None => false end.
Proof. unfold vlookup. destruct (lookup l s) as [e|]; [destruct (visible e now)|]; reflexivity. Qed.

Lemma put_veq E d k v c now ts s s' :
  veq now s s' ->
  snd (put E d k v c now ts s) = snd (put E d k v c now ts s') /\
  veq now (fst (put E d k v c now ts s)) (fst (put E d k v c now ts s')).
Proof.
  intros H. unfold put. rewrite !vlookup_ploc_vis, (H (ploc E d k)).
  destruct (vlookup now (ploc E d k) s'); destruct (nx c), (xx c); cbn; auto using veq_write_all.
Qed.

Lemma expire_veq E d k ms now ts s s' :
  veq now s s' ->
  snd (expire E d k ms now ts s) = snd (expire E d k ms now ts s') /\
  veq now (fst (expire E d k ms now ts s)) (fst (expire E d k ms now ts s')).
Proof.
  intros H. unfold expire. pose proof (H (ploc E d k)) as H0. unfold vlookup in H0.
  destruct (lookup (ploc E d k) s) as [e|], (lookup (ploc E d k) s') as [e'|].
  - destruct (visible e now), (visible e' now); try discriminate; cbn; auto.
    injection H0 as ->. auto using veq_write_all.
  - destruct (visible e now); [discriminate|]. cbn. auto.
  - destruct (visible e' now); [discriminate|]. cbn. auto.
  - cbn. auto.
Qed.

(* two states that differ only in expired entries are indistinguishable by every client operation *)
Theorem step_veq E now ts s s' o :
  Inv E s -> Inv E s' -> no_idle E -> veq now s s' -> client_op o = true ->
  snd (step E now ts s o) = snd (step E now ts s' o) /\
  veq now (fst (step E now ts s o)) (fst (step E now ts s' o)).
Proof.
  intros HI HI' Hi H Hc.
  assert (Hg : forall d k, option_map content (get_entry E d k now s) = option_map content (get_entry E d k now s')).
  { intros d k. rewrite !get_entry_content by assumption. now rewrite (H (ploc E d k)). }
  destruct o; cbn [step]; try discriminate.
  - now apply put_veq.
  - cbn. split; [|now apply veq_touch]. specialize (Hg d k).
    destruct (get_entry E d k now s) as [e|], (get_entry E d k now s') as [e'|]; cbn in *; try discriminate; [|reflexivity].
    unfold content in Hg. congruence.
  - cbn. split; [reflexivity|now apply veq_fold_remove].
  - now apply expire_veq.
  - unfold getput. destruct (put_veq E d k v plain now ts s s' H) as [_ Hv].
    destruct (put E d k v plain now ts s) as [s1 r1], (put E d k v plain now ts s') as [s1' r1']. cbn in *.
    split; [|exact Hv]. specialize (Hg d k).
    destruct (get_entry E d k now s) as [e|], (get_entry E d k now s') as [e'|]; cbn in *; try discriminate; [|reflexivity].
    unfold content in Hg. congruence.
  - unfold incr. specialize (Hg d k).
    assert (Hb : (match get_entry E d k now s with Some e => match parse_int (ev e) with Some z => z | None => 0 end | None => 0 end)
               = (match get_entry E d k now s' with Some e => match parse_int (ev e) with Some z => z | None => 0 end | None => 0 end)
             /\ (match get_entry E d k now s with Some e => if ettl e =? 0 then ENone else EAbs (ettl e) | None => ENone end)
               = (match get_entry E d k now s' with Some e => if ettl e =? 0 then ENone else EAbs (ettl e) | None => ENone end)).
    { destruct (get_entry E d k now s) as [e|], (get_entry E d k now s') as [e'|]; cbn in Hg; try discriminate; [|auto].
      unfold content in Hg. injection Hg as -> -> _. auto. }
    destruct Hb as [-> ->].
    match goal with |- context [put E d k ?v ?c now ts s] =>
      destruct (put_veq E d k v c now ts s s' H) as [_ Hv];
      destruct (put E d k v c now ts s) as [s1 r1], (put E d k v c now ts s') as [s1' r1'] end.
    cbn in *. auto.
  - unfold lock. now apply put_veq.
  - unfold unlock. specialize (Hg d k).
    destruct (get_entry E d k now s) as [e|], (get_entry E d k now s') as [e'|]; cbn in Hg; try discriminate; [|auto].
    unfold content in Hg. injection Hg as -> _ _. destruct (bytes_eqb (ev e') tok); cbn; auto using veq_remove_all.
  - unfold lease. specialize (Hg d k).
    destruct (get_entry E d k now s) as [e|], (get_entry E d k now s') as [e'|]; cbn in Hg; try discriminate; [|auto].
    unfold content in Hg. injection Hg as -> _ _. destruct (bytes_eqb (ev e') tok); cbn; [|auto].
    destruct (expire_veq E d k ms now ts s s' H) as [Hr Hv].
    destruct (expire E d k ms now ts s) as [s1 r1], (expire E d k ms now ts s') as [s1' r1']. cbn in *. subst r1'.
    destruct r1; auto.
  - cbn. split; [reflexivity|now apply veq_destroy].
Qed.

(* a background eviction pass only removes what is already invisible *)
Lemma evict_veq E m sample now : forall s, Inv E s -> no_idle E -> veq now (evict_pass E m sample now s) s.
Proof.
  unfold evict_pass. induction sample as [|[d k] sample IH]; cbn; intros s HI Hi; [apply veq_refl|].
  destruct (Nat.eqb (owner E d k) m); [|now apply IH]. destruct (lookup (ploc E d k) s) as [e|] eqn:Hp; [|now apply IH].
  unfold idle. rewrite Hi. cbn. rewrite orb_false_r. destruct (expired (ettl e) now) eqn:Hx; [|now apply IH].
  eapply veq_trans; [apply IH; [now apply Inv_remove_all|exact Hi]|].
  intros l. unfold vlookup. rewrite lookup_remove_all. destruct (holder E d k l) eqn:Hh; [|reflexivity].
  destruct (lookup l s) as [x|] eqn:Hl; [|reflexivity].
  (* every copy of the key has the primary's ttl, hence is expired too *)
  assert (Hc : content x = content e).
  { eapply (single_copy_reads_agree E s d k l (ploc E d k)); eauto; apply holder_key in Hh; tauto. }
  unfold visible. unfold content in Hc. injection Hc as _ -> _. now rewrite Hx.
Qed.

(* ---------------------------------------------------------------- runs ----------------------- *)

(* results of the client operations of a run (background eviction passes report nothing) *)
Fixpoint crun (E : env) (s : state) (l : list (Z * Z * dop)) : list res :=
  match l with
  | [] => []
  | (now, ts, o) :: l' =>
    let '(s1, r) := step E now ts s o in
    if client_op o then r :: crun E s1 l' else crun E s1 l'
  end.

Fixpoint times_from (t : Z) (l : list (Z * Z * dop)) : Prop :=
  match l with
  | [] => True
  | (now, _, _) :: l' => t <= now /\ times_from now l'
  end.

(* C09: background eviction passes, placed anywhere in a history with non-decreasing clock readings, change no
   result of any operation *)
Theorem eviction_invisible E : no_idle E -> forall l t s s',
  Inv E s -> Inv E s' -> veq t s s' -> times_from t l ->
  crun E s l = crun E s' (filter (fun x => client_op (snd x)) l).
Proof.
  intros Hi. induction l as [|[[now ts] o] l IH]; intros t s s' HI HI' Hv Ht; cbn [crun filter]; [reflexivity|].
  destruct Ht as [Hle Ht]. pose proof (veq_mono _ _ _ _ Hle Hv) as Hv'.
  cbn [snd]. destruct (client_op o) eqn:Hc.
  - cbn [crun]. destruct (step_veq E now ts s s' o HI HI' Hi Hv' Hc) as [Hr Hs].
    pose proof (Inv_step E now ts s o HI) as H1. pose proof (Inv_step E now ts s' o HI') as H1'.
    destruct (step E now ts s o) as [s1 r], (step E now ts s' o) as [s1' r']. cbn in *. subst r'. rewrite Hc.
    f_equal. eapply IH; eauto.
  - destruct o; try discriminate. cbn [step]. eapply IH; [now apply Inv_evict|exact HI'| |exact Ht].
    eapply veq_trans; [apply evict_veq; assumption|exact Hv'].
Qed.

(* ---------------------------------------------------------------- deadlines and ttl rules ---- *)

Lemma get_result E d k now s :
  Inv E s -> no_idle E ->
  snd (get E d k now s) = match vlookup now (ploc E d k) s with Some e => RVal (ev e) (ettl e) | None => RNotFound end.
Proof.
  intros HI Hi. cbn. pose proof (get_entry_content E d k now s HI Hi) as H.
  destruct (get_entry E d k now s) as [e|], (vlookup now (ploc E d k) s) as [e'|]; cbn in H; try discriminate; [|reflexivity].
  unfold content in H. injection H as -> -> _. reflexivity.
Qed.

Theorem deadline E d k v ms t ts s :
  Inv E s -> no_idle E -> 0 <= t -> 0 < ms ->
  let s1 := fst (put E d k v {| nx := false; xx := false; pexp := ERel ms |} t ts s) in
  forall t', snd (get E d k t' s1) = if t' <? t + ms then RVal v (t + ms) else RNotFound.
Proof.
  intros HI Hi Ht Hms s1 t'. unfold s1, put. cbn [nx xx pexp andb fst prepare_ttl].
  rewrite get_result; [|now apply Inv_write_all|exact Hi].
  unfold vlookup. rewrite lookup_write_all, holder_ploc. unfold visible, expired. cbn [ettl ev].
  destruct (Z.eqb_spec (t + ms) 0); [lia|]. cbn.
  destruct (Z.leb_spec (t + ms) t'), (Z.ltb_spec t' (t + ms)); try lia; reflexivity.
Qed.

(* plain Put (and GetPut) reset the expiry to the DMap default (none if there is no default) *)
Theorem plain_put_resets_ttl E d k v now ts s :
  exists e, lookup (ploc E d k) (fst (put E d k v plain now ts s)) = Some e /\ ev e = v /\
            ettl e = (if default_ttl E d =? 0 then 0 else now + default_ttl E d).
Proof.
  unfold put, plain. cbn [nx xx pexp andb fst]. rewrite lookup_write_all, holder_ploc. eexists. split; [reflexivity|]. cbn. auto.
Qed.

(* Expire replaces the expiry and leaves the value; on a missing or expired key it fails and changes nothing *)
Theorem expire_rule E d k ms now ts s :
  match vlookup now (ploc E d k) s with
  | Some e => snd (expire E d k ms now ts s) = ROk /\
              exists e', lookup (ploc E d k) (fst (expire E d k ms now ts s)) = Some e' /\ ev e' = ev e /\ ettl e' = now + ms
  | None => expire E d k ms now ts s = (s, RNotFound)
  end.
Proof.
  unfold vlookup, expire. destruct (lookup (ploc E d k) s) as [e|]; [|reflexivity].
  destruct (visible e now); [|reflexivity]. cbn [fst snd]. split; [reflexivity|]. rewrite lookup_write_all, holder_ploc.
  eexists. split; [reflexivity|]. cbn. auto.
Qed.

(* Incr/Decr keep the expiry of a visible key *)
Theorem incr_keeps_ttl E d k delta now ts s e :
  Inv E s -> no_idle E -> vlookup now (ploc E d k) s = Some e -> ettl e <> 0 ->
  exists e', lookup (ploc E d k) (fst (incr E d k delta now ts s)) = Some e' /\ ettl e' = ettl e.
Proof.
  intros HI Hi Hv Hne. unfold incr. pose proof (get_entry_content E d k now s HI Hi) as Hg. rewrite Hv in Hg.
  destruct (get_entry E d k now s) as [g|]; cbn in Hg; [|discriminate]. unfold content in Hg. injection Hg as Hev Httl _.
  rewrite Httl. destruct (Z.eqb_spec (ettl e) 0); [contradiction|].
  unfold put. cbn [nx xx pexp andb fst]. rewrite lookup_write_all, holder_ploc. eexists. split; [reflexivity|]. reflexivity.
Qed.

(* ---------------------------------------------------------------- Destroy (C19) -------------- *)

Theorem destroy_complete E d s :
  (forall l, ld l = d -> lookup l (destroy d s) = None) /\
  (forall k now, snd (get E d k now (destroy d s)) = RNotFound) /\
  (forall k v now ts, snd (put E d k v plain now ts (destroy d s)) = ROk).
Proof.
  assert (H : forall l, ld l = d -> lookup l (destroy d s) = None).
  { intros l Hl. rewrite lookup_destroy, Hl, bytes_eqb_refl. reflexivity. }
  split; [exact H|]. split.
  - intros k now. cbn. unfold get_entry, gather. rewrite (H (ploc E d k) eq_refl). cbn.
    assert (G : forall bs, flat_map (fun b => match lookup (bloc b d k) (destroy d s) with Some e => [e] | None => [] end) bs = []).
    { induction bs as [|b bs IH]; cbn; [reflexivity|]. now rewrite (H (bloc b d k) eq_refl). }
    now rewrite G.
  - intros k v now ts. reflexivity.
Qed.

(* ---------------------------------------------------------------- idle / expiry eviction (C10) -- *)

(* a background pass never removes a copy of a key whose primary copy is neither expired nor idle *)
Theorem evict_keeps E m now d k p : forall sample s,
  lookup (ploc E d k) s = Some p -> expired (ettl p) now = false -> idle E d p now = false ->
  forall l, holder E d k l = true -> lookup l (evict_pass E m sample now s) = lookup l s.
Proof.
  unfold evict_pass. induction sample as [|[d' k'] sample IH]; cbn; intros s Hp Hx Hi l Hl; [reflexivity|].
  destruct (Nat.eqb (owner E d' k') m); [|now apply IH].
  destruct (lookup (ploc E d' k') s) as [e|] eqn:He; [|now apply IH].
  destruct (expired (ettl e) now || idle E d' e now) eqn:Hc; [|now apply IH].
  assert (Hne : forall l0, holder E d k l0 = true -> holder E d' k' l0 = false).
  { intros l0 H0. destruct (holder E d' k' l0) eqn:H1; [|reflexivity].
    destruct (holder_key _ _ _ _ H0) as [<- <-]. destruct (holder_key _ _ _ _ H1) as [Hd Hk]. subst d' k'.
    rewrite Hp in He. injection He as <-. rewrite Hx, Hi in Hc. discriminate. }
  rewrite IH.
  - rewrite lookup_remove_all, (Hne l Hl). reflexivity.
  - rewrite lookup_remove_all, (Hne _ (holder_ploc E d k)). exact Hp.
  - exact Hx.
  - exact Hi.
  - exact Hl.
Qed.

(* ... and removes every copy of a sampled key of this member whose primary copy is expired or idle *)
Theorem evict_removes E m now d k p sample s :
  Inv E s -> In (d, k) sample -> owner E d k = m ->
  lookup (ploc E d k) s = Some p -> expired (ettl p) now || idle E d p now = true ->
  lookup (ploc E d k) (evict_pass E m sample now s) = None.
Proof.
  unfold evict_pass. revert s. induction sample as [|[d' k'] sample IH]; cbn; intros s HI Hin Ho Hp Hc; [contradiction|].
  assert (Gone : forall smp s0, lookup (ploc E d k) s0 = None ->
    lookup (ploc E d k) (fold_left (fun acc dk => let '(d0, k0) := dk in
       if Nat.eqb (owner E d0 k0) m then match lookup (ploc E d0 k0) acc with
         | Some e => if expired (ettl e) now || idle E d0 e now then remove_all E d0 k0 acc else acc
         | None => acc end else acc) smp s0) = None).
  { induction smp as [|[d0 k0] smp IHs]; cbn; intros s0 H0; [exact H0|]. apply IHs.
    destruct (Nat.eqb (owner E d0 k0) m); [|exact H0]. destruct (lookup (ploc E d0 k0) s0) as [e0|]; [|exact H0].
    destruct (expired (ettl e0) now || idle E d0 e0 now); [|exact H0].
    rewrite lookup_remove_all. destruct (holder E d0 k0 (ploc E d k)); [reflexivity|exact H0]. }
  destruct Hin as [[= -> ->]|Hin].
  - rewrite Ho, Nat.eqb_refl, Hp, Hc. apply Gone. now rewrite lookup_remove_all, holder_ploc.
  - destruct (Nat.eqb (owner E d' k') m); [|now apply IH].
    destruct (lookup (ploc E d' k') s) as [e|] eqn:He; [|now apply IH].
    destruct (expired (ettl e) now || idle E d' e now) eqn:Hc'; [|now apply IH].
    destruct (holder E d' k' (ploc E d k)) eqn:Hh.
    + apply Gone. now rewrite lookup_remove_all, Hh.
    + apply IH; [now apply Inv_remove_all|exact Hin|exact Ho| |exact Hc].
      now rewrite lookup_remove_all, Hh.
Qed.

(* ---------------------------------------------------------------- locks (C08) ----------------- *)

Definition held_by (E : env) (d k tok : bytes) (now : Z) (s : state) : Prop :=
  exists e, vlookup now (ploc E d k) s = Some e /\ ev e = tok.

(* Lock returns a token only if the key is free or its holder's timeout has elapsed *)
Theorem lock_ok_iff_free E d k tok timeout now ts s :
  snd (lock E d k tok timeout now ts s) = ROk <-> vlookup now (ploc E d k) s = None.
Proof.
  unfold lock, put. cbn [nx xx]. rewrite vlookup_ploc_vis. destruct (vlookup now (ploc E d k) s); cbn; split; congruence.
Qed.
Theorem lock_refused_keeps_state E d k tok timeout now ts s :
  snd (lock E d k tok timeout now ts s) <> ROk -> lock E d k tok timeout now ts s = (s, RKeyFound).
Proof.
  unfold lock, put. cbn [nx xx]. rewrite vlookup_ploc_vis. destruct (vlookup now (ploc E d k) s); cbn; congruence.
Qed.

(* after a successful Lock the caller holds the key; with timeout t (ms) exactly until now + t *)
Theorem lock_holds E d k tok timeout now ts s :
  0 <= now -> 0 <= timeout -> snd (lock E d k tok timeout now ts s) = ROk -> default_ttl E d = 0 ->
  forall t', now <= t' ->
    (held_by E d k tok t' (fst (lock E d k tok timeout now ts s)) <-> (timeout = 0 \/ t' < now + timeout)).
Proof.
  intros Hn Ht Hok Hd t' Hle. apply lock_ok_iff_free in Hok. unfold lock, put. cbn [nx xx pexp]. rewrite vlookup_ploc_vis, Hok.
  cbn [andb negb fst]. unfold held_by, vlookup. rewrite lookup_write_all, holder_ploc. unfold visible, expired. cbn [ettl ev].
  destruct (Z.eqb_spec timeout 0) as [->|Hne]; cbn [prepare_ttl].
  - rewrite Hd. cbn. split; [auto|]. intros _. eexists. split; reflexivity.
  - destruct (Z.eqb_spec (now + timeout) 0); [lia|]. cbn. destruct (Z.leb_spec (now + timeout) t'); cbn.
    + split; [intros (e & He & _); discriminate|lia].
    + split; [lia|]. intros _. eexists. split; reflexivity.
Qed.

(* token safety: Unlock / Lease with a token that is not the current holder's fail and change nothing *)
Theorem unlock_wrong_token E d k tok now s :
  Inv E s -> no_idle E -> ~ held_by E d k tok now s -> unlock E d k tok now s = (s, RNoSuchLock).
Proof.
  intros HI Hi Hn. unfold unlock. pose proof (get_entry_content E d k now s HI Hi) as Hg.
  destruct (get_entry E d k now s) as [g|]; [|reflexivity].
  destruct (vlookup now (ploc E d k) s) as [e|] eqn:Hv; cbn in Hg; [|discriminate].
  unfold content in Hg. injection Hg as Hev _ _. destruct (bytes_eqb (ev g) tok) eqn:Eb; [|reflexivity].
  apply bytes_eqb_eq in Eb. exfalso. apply Hn. exists e. split; [exact Hv|congruence].
Qed.
Theorem lease_wrong_token E d k tok ms now ts s :
  Inv E s -> no_idle E -> ~ held_by E d k tok now s -> lease E d k tok ms now ts s = (s, RNoSuchLock).
Proof.
  intros HI Hi Hn. unfold lease. pose proof (get_entry_content E d k now s HI Hi) as Hg.
  destruct (get_entry E d k now s) as [g|]; [|reflexivity].
  destruct (vlookup now (ploc E d k) s) as [e|] eqn:Hv; cbn in Hg; [|discriminate].
  unfold content in Hg. injection Hg as Hev _ _. destruct (bytes_eqb (ev g) tok) eqn:Eb; [|reflexivity].
  apply bytes_eqb_eq in Eb. exfalso. apply Hn. exists e. split; [exact Hv|congruence].
Qed.

(* the holder's Unlock releases the key *)
Theorem unlock_by_holder E d k tok now s :
  Inv E s -> no_idle E -> held_by E d k tok now s ->
  snd (unlock E d k tok now s) = ROk /\ vlookup now (ploc E d k) (fst (unlock E d k tok now s)) = None.
Proof.
  intros HI Hi (e & Hv & He). unfold unlock. pose proof (get_entry_content E d k now s HI Hi) as Hg. rewrite Hv in Hg.
  destruct (get_entry E d k now s) as [g|]; cbn in Hg; [|discriminate]. unfold content in Hg. injection Hg as Hev _ _.
  assert (Eb : bytes_eqb (ev g) tok = true) by (apply bytes_eqb_eq; congruence). rewrite Eb. cbn [fst snd delete fold_left].
  split; [reflexivity|]. unfold vlookup. now rewrite lookup_remove_all, holder_ploc.
Qed.

(* at most one holder at any instant *)
Theorem holder_unique E d k t1 t2 now s : held_by E d k t1 now s -> held_by E d k t2 now s -> t1 = t2.
Proof. intros (e1 & H1 & <-) (e2 & H2 & <-). congruence. Qed.

(* ---------------------------------------------------------------- losing members (C02) --------- *)

(* the members in F stop: their copies are gone *)
Definition crash (F : list nat) (s : state) : state :=
  filter (fun p => negb (existsb (Nat.eqb (lm (fst p))) F)) s.

Lemma lookup_crash F l s : lookup l (crash F s) = if existsb (Nat.eqb (lm l)) F then None else lookup l s.
Proof.
  unfold crash. induction s as [|[x e] s IH]; cbn; [now destruct (existsb _ F)|].
  destruct (existsb (Nat.eqb (lm x)) F) eqn:Ex; cbn.
  - rewrite IH. destruct (loc_eqb l x) eqn:El; [|reflexivity]. apply loc_eqb_eq in El. subst x. now rewrite Ex.
  - rewrite IH. destruct (loc_eqb l x) eqn:El; [|reflexivity]. apply loc_eqb_eq in El. subst x. now rewrite Ex.
Qed.

(* every copy of a key carries the same content in a state that satisfies the mirror invariant *)
Lemma all_copies_agree E s d k l e p :
  Inv E s -> lookup (ploc E d k) s = Some p -> ld l = d -> lkey l = k -> lookup l s = Some e -> content e = content p.
Proof. intros HI Hp Hd Hk Hl. eapply (single_copy_reads_agree E s d k l (ploc E d k)); eauto. Qed.

(* After the loss of any set F of members: if the routing in force afterwards (E') still reaches one surviving
   holder of the key, a read returns exactly the content that was acknowledged last (all copies carried it) - never
   an older value; and a key that was deleted (no copy anywhere) stays not-found. *)
Theorem survives_crash E E' F s d k now p l e :
  Inv E s -> no_idle E' ->
  lookup (ploc E d k) s = Some p ->                                   (* the key was present: p is its acknowledged content *)
  ld l = d -> lkey l = k -> lookup l (crash F s) = Some e ->          (* l is a holder that survived *)
  (l = ploc E' d k \/ exists b, In b (backups E' d k) /\ l = bloc b d k) ->   (* the new routing reaches it *)
  option_map content (get_entry E' d k now (crash F s)) = if visible p now then Some (content p) else None.
Proof.
  intros HI Hi Hp Hd Hk Hl Hreach.
  assert (Hc : forall x, In x (gather E' d k (crash F s)) -> content x = content p).
  { intros x Hx. unfold gather in Hx. apply in_app_or in Hx as [Hx|Hx].
    - destruct (lookup (ploc E' d k) (crash F s)) as [y|] eqn:Ey; [|contradiction]. destruct Hx as [<-|[]].
      rewrite lookup_crash in Ey. destruct (existsb _ F); [discriminate|].
      eapply (all_copies_agree E s d k (ploc E' d k)); eauto.
    - apply in_flat_map in Hx as (b & Hb & Hx). destruct (lookup (bloc b d k) (crash F s)) as [y|] eqn:Ey; [|contradiction].
      destruct Hx as [<-|[]]. rewrite lookup_crash in Ey. destruct (existsb _ F); [discriminate|].
      eapply (all_copies_agree E s d k (bloc b d k)); eauto. }
  assert (Hne : gather E' d k (crash F s) <> []).
  { unfold gather. destruct Hreach as [->|(b & Hb & ->)].
    - rewrite Hl. discriminate.
    - intros Hnil. apply app_eq_nil in Hnil as [_ Hnil].
      assert (In e (flat_map (fun b0 => match lookup (bloc b0 d k) (crash F s) with Some x => [x] | None => [] end) (backups E' d k))).
      { apply in_flat_map. exists b. split; [exact Hb|]. rewrite Hl. now left. }
      rewrite Hnil in H. contradiction. }
  unfold get_entry, newest. destruct (fold_left _ (gather E' d k (crash F s)) None) as [r|] eqn:Hr.
  - assert (Cr : content r = content p) by (eapply newest_same_content; [exact Hc| |exact Hr]; discriminate).
    assert (Hid : (match lookup (ploc E' d k) (crash F s) with
                   | Some q => idle E' d {| ev := ev q; ettl := ettl q; ets := ets q; ela := now |} now
                   | None => false end) = false).
    { destruct (lookup (ploc E' d k) (crash F s)); [|reflexivity]. unfold idle. now rewrite Hi. }
    rewrite Hid, andb_true_r. assert (Hv : visible r now = visible p now) by (unfold visible; unfold content in Cr; congruence).
    rewrite Hv. destruct (visible p now); cbn; congruence.
  - exfalso. revert Hr. apply newest_nonempty. left. exact Hne.
Qed.

Theorem deleted_stays_deleted E E' F s d k now :
  Inv E s -> lookup (ploc E d k) s = None -> get_entry E' d k now (crash F s) = None.
Proof.
  intros [Hm Hp] Hn.
  assert (Hall : forall l, ld l = d -> lkey l = k -> lookup l s = None).
  { intros l Hd Hk. destruct (lookup l s) as [e|] eqn:El; [|reflexivity]. exfalso.
    pose proof (Hp _ _ El) as Hh. rewrite Hd, Hk in Hh. unfold holder in Hh. apply orb_true_iff in Hh as [Hh|Hh].
    - apply loc_eqb_eq in Hh. subst l. congruence.
    - apply existsb_exists in Hh as (b & Hb & Hh). apply loc_eqb_eq in Hh. subst l.
      pose proof (Hm _ _ _ Hb) as Hmb. rewrite Hn, El in Hmb. discriminate. }
  unfold get_entry, gather. rewrite lookup_crash, (Hall (ploc E' d k) eq_refl eq_refl).
  destruct (existsb _ F); cbn;
  (assert (G : forall bs, flat_map (fun b => match lookup (bloc b d k) (crash F s) with Some e => [e] | None => [] end) bs = []);
   [induction bs as [|b bs IH]; cbn; [reflexivity|]; rewrite lookup_crash, (Hall (bloc b d k) eq_refl eq_refl); destruct (existsb _ F); exact IH|];
   now rewrite G).
Qed.

Lemma filter_len_le {A} (f : A -> bool) (l : list A) : (length (filter f l) <= length l)%nat.
Proof. induction l as [|x l IH]; cbn; [lia|]. destruct (f x); cbn; lia. Qed.

(* with R holders on R distinct members, any F of at most R-1 members misses one of them *)
Lemma some_holder_survives (holders F : list nat) :
  NoDup holders -> (length F < length holders)%nat -> exists h, In h holders /\ existsb (Nat.eqb h) F = false.
Proof.
  revert F. induction holders as [|h hs IH]; intros F Hnd Hlen; [cbn in Hlen; lia|].
  inversion Hnd as [|? ? Hnin Hnd']; subst.
  destruct (existsb (Nat.eqb h) F) eqn:Eh; [|exists h; split; [now left|exact Eh]].
  (* h is in F: remove it from F and recurse *)
  destruct (IH (filter (fun x => negb (Nat.eqb h x)) F) Hnd') as (x & Hx & Hex).
  - cbn in Hlen. apply existsb_exists in Eh as (y & Hy & Ey). apply Nat.eqb_eq in Ey. subst y.
    assert (Hl : (length (filter (fun x => negb (Nat.eqb h x)) F) < length F)%nat).
    { clear - Hy. induction F as [|z F IHF]; [contradiction|]. cbn. destruct Hy as [->|Hy].
      - rewrite Nat.eqb_refl. cbn. pose proof (filter_len_le (fun x => negb (Nat.eqb h x)) F). lia.
      - specialize (IHF Hy). destruct (negb (Nat.eqb h z)); cbn; lia. }
    lia.
  - exists x. split; [now right|].
    destruct (existsb (Nat.eqb x) F) eqn:Ex; [|reflexivity]. exfalso.
    apply existsb_exists in Ex as (y & Hy & Ey). apply Nat.eqb_eq in Ey. subst y.
    assert (Hne : x <> h) by (intros ->; contradiction).
    assert (existsb (Nat.eqb x) (filter (fun z => negb (Nat.eqb h z)) F) = true); [|congruence].
    apply existsb_exists. exists x. split; [|apply Nat.eqb_refl]. apply filter_In. split; [exact Hy|].
    apply negb_true_iff, Nat.eqb_neq. congruence.
Qed.
