(* internal/locker: mutual exclusion, no failing Unlock, no leaked entry - for every number of threads and every
   interleaving of the atomic stretches of Lock and Unlock (Model/Locker.v). *)
From Coq Require Import List NArith ZArith Bool Lia Arith.
Require Import Olric.Model.Locker.
Import ListNotations.

(* ------------------------------------------------------------------ lists *)
Lemma length_upd {A} i (x : A) l : length (upd i x l) = length l.
Proof. revert i; induction l as [|y l IH]; intros [|i]; cbn; auto. Qed.
Lemma nth_upd_eq {A} i (x d : A) l : i < length l -> nth i (upd i x l) d = x.
Proof. revert i; induction l as [|y l IH]; intros [|i] H; cbn in *; try lia; auto. apply IH. lia. Qed.
Lemma nth_upd_neq {A} i j (x d : A) l : i <> j -> nth j (upd i x l) d = nth j l d.
Proof. revert i j; induction l as [|y l IH]; intros [|i] [|j] H; cbn; auto; try lia. Qed.

Definition cnt (P : pc -> bool) (l : list pc) : nat := length (filter P l).
Lemma cnt_upd P i x l : i < length l ->
  cnt P (upd i x l) + (if P (nth i l Idle) then 1 else 0) = cnt P l + (if P x then 1 else 0).
Proof.
  unfold cnt. revert i; induction l as [|y l IH]; intros [|i] H; cbn in *; try lia.
  - destruct (P x), (P y); cbn; lia.
  - specialize (IH i ltac:(lia)). destruct (P y); cbn; lia.
Qed.
Lemma cnt_zero P l : (forall t, P (nth t l Idle) = false) -> cnt P l = 0.
Proof.
  unfold cnt. induction l as [|y l IH]; intros H; [reflexivity|]. cbn.
  pose proof (H 0) as H0. cbn in H0. rewrite H0. apply IH. intros t. exact (H (S t)).
Qed.
Lemma cnt_pos P l : 0 < cnt P l -> exists t, P (nth t l Idle) = true.
Proof.
  unfold cnt. induction l as [|y l IH]; cbn; intros H; [lia|].
  destruct (P y) eqn:E; [exists 0; exact E|]. destruct (IH H) as [t Ht]. exists (S t). exact Ht.
Qed.
Lemma cnt_ge P l : P Idle = false -> forall t, P (nth t l Idle) = true -> 0 < cnt P l.
Proof.
  unfold cnt. intros HI. induction l as [|y l IH]; intros [|t] H; cbn in *; try congruence.
  - rewrite H. cbn. lia.
  - specialize (IH t H). destruct (P y); cbn; lia.
Qed.

(* ------------------------------------------------------------------ the map *)
Lemma find_del n n' m : find n' (del n m) = if N.eqb n' n then None else find n' m.
Proof.
  induction m as [|[x a] m IH]; cbn; [now destruct (N.eqb n' n)|].
  destruct (N.eqb_spec n x) as [->|Hne].
  - rewrite IH. destruct (N.eqb_spec n' x); reflexivity.
  - cbn. rewrite IH. destruct (N.eqb_spec n' x) as [->|]; [|reflexivity].
    destruct (N.eqb_spec x n); [congruence|reflexivity].
Qed.

(* ------------------------------------------------------------------ the invariant *)
Definition refs (p : pc) : option (name * addr) :=
  match p with Idle => None | Waiting n a | Acquired n a | Holding n a => Some (n, a) end.
Definition cs (p : pc) : option (name * addr) :=
  match p with Acquired n a | Holding n a => Some (n, a) | _ => None end.
Definition is_wa (n : name) (a : addr) (p : pc) : bool :=
  match p with Waiting n' a' | Acquired n' a' => N.eqb n n' && Nat.eqb a a' | _ => false end.

Record LInv (s : lstate) : Prop := {
  I_range : forall n a, find n (lmap s) = Some a -> a < length (heap s);
  I_inj : forall n1 n2 a, find n1 (lmap s) = Some a -> find n2 (lmap s) = Some a -> n1 = n2;
  I_refs : forall t n a, refs (pc_of s t) = Some (n, a) -> find n (lmap s) = Some a;
  I_held : forall t n a, cs (pc_of s t) = Some (n, a) -> held (ctr_at s a) = Some t;
  I_count : forall n a, find n (lmap s) = Some a -> waiters (ctr_at s a) = Z.of_nat (cnt (is_wa n a) (pcs s));
  I_live : forall n a, find n (lmap s) = Some a -> exists t, refs (pc_of s t) = Some (n, a);
  I_owner : forall n a t, find n (lmap s) = Some a -> held (ctr_at s a) = Some t -> cs (pc_of s t) = Some (n, a)
}.

Lemma is_wa_refs n a p : is_wa n a p = true -> refs p = Some (n, a).
Proof.
  destruct p as [|n' a'|n' a'|n' a']; cbn; try discriminate; intros H; apply andb_true_iff in H as [H1 H2];
    apply N.eqb_eq in H1; apply Nat.eqb_eq in H2; subst; reflexivity.
Qed.
Lemma is_wa_self n a : is_wa n a (Waiting n a) = true /\ is_wa n a (Acquired n a) = true.
Proof. cbn. now rewrite N.eqb_refl, Nat.eqb_refl. Qed.
Lemma is_wa_other_addr n a n2 a2 p : refs p = Some (n, a) -> a2 <> a -> is_wa n2 a2 p = false.
Proof.
  destruct p as [|n' a'|n' a'|n' a']; cbn; try discriminate; intros [= -> ->] H; try reflexivity;
    (destruct (Nat.eqb_spec a2 a); [contradiction|apply andb_false_r]).
Qed.
Lemma is_wa_other_name n a n2 a2 p : refs p = Some (n, a) -> n2 <> n -> is_wa n2 a2 p = false.
Proof.
  destruct p as [|n' a'|n' a'|n' a']; cbn; try discriminate; intros [= -> ->] H; try reflexivity;
    (destruct (N.eqb_spec n2 n); [contradiction|reflexivity]).
Qed.

Lemma pc_upd_eq s t p pcs' : pcs' = upd t p (pcs s) -> t < length (pcs s) -> nth t pcs' Idle = p.
Proof. intros -> H. now apply nth_upd_eq. Qed.

Lemma busy_lt s t : pc_of s t <> Idle -> t < length (pcs s).
Proof.
  intros H. destruct (Nat.lt_ge_cases t (length (pcs s))) as [|Hge]; [assumption|].
  exfalso. apply H. unfold pc_of. now apply nth_overflow.
Qed.

Lemma LInv_init n : LInv (lk_init n).
Proof.
  constructor; cbn; try discriminate.
  - intros t n0 a. unfold pc_of. cbn. 
    assert (H : nth t (repeat Idle n) Idle = Idle).
    { destruct (Nat.lt_ge_cases t n); [apply nth_repeat|apply nth_overflow; now rewrite repeat_length]. }
    rewrite H. discriminate.
  - intros t n0 a. unfold pc_of. cbn.
    assert (H : nth t (repeat Idle n) Idle = Idle).
    { destruct (Nat.lt_ge_cases t n); [apply nth_repeat|apply nth_overflow; now rewrite repeat_length]. }
    rewrite H. discriminate.
Qed.

Lemma pc_of_upd s H' M' t p t' : t < length (pcs s) ->
  pc_of {| heap := H'; lmap := M'; pcs := upd t p (pcs s) |} t' = if Nat.eqb t' t then p else pc_of s t'.
Proof.
  intros Ht. unfold pc_of. cbn [pcs]. destruct (Nat.eqb_spec t' t) as [->|Hne]; [now apply nth_upd_eq|].
  apply nth_upd_neq. congruence.
Qed.
Lemma ctr_at_upd s a c M' P' a' : a < length (heap s) ->
  ctr_at {| heap := upd a c (heap s); lmap := M'; pcs := P' |} a' = if Nat.eqb a' a then c else ctr_at s a'.
Proof.
  intros Ha. unfold ctr_at. cbn [heap]. destruct (Nat.eqb_spec a' a) as [->|Hne]; [now apply nth_upd_eq|].
  apply nth_upd_neq. congruence.
Qed.

(* the count of waiters of (n2, a2) after thread t moved from [old] to [new] *)
Lemma cnt_move n2 a2 t new l : t < length l ->
  Z.of_nat (cnt (is_wa n2 a2) (upd t new l)) =
  (Z.of_nat (cnt (is_wa n2 a2) l) - (if is_wa n2 a2 (nth t l Idle) then 1 else 0) + (if is_wa n2 a2 new then 1 else 0))%Z.
Proof. intros H. pose proof (cnt_upd (is_wa n2 a2) t new l H). destruct (is_wa n2 a2 (nth t l Idle)), (is_wa n2 a2 new); lia. Qed.

Ltac inv_pc H := match type of H with context [if Nat.eqb ?x ?y then _ else _] => destruct (Nat.eqb_spec x y) as [->|?] end.

(* ------------------------------------------------------------------ Enter *)
Lemma LInv_enter s t n : LInv s -> LInv (fst (lk_step s (Enter t n))).
Proof.
  intros I. cbn [lk_step]. destruct (Nat.ltb_spec t (length (pcs s))) as [Ht|]; [|exact I].
  destruct (pc_of s t) eqn:Hpc; try exact I.
  destruct (find n (lmap s)) as [a|] eqn:Hf; cbn [fst].
  - (* the counter exists *)
    pose proof (I_range s I n a Hf) as Ha.
    constructor; cbn [heap lmap pcs].
    + intros n0 a0 H. rewrite length_upd. exact (I_range s I n0 a0 H).
    + exact (I_inj s I).
    + intros t' n' a'. rewrite pc_of_upd by exact Ht. destruct (Nat.eqb_spec t' t) as [->|Hne].
      * cbn. intros [= <- <-]. exact Hf.
      * apply (I_refs s I).
    + intros t' n' a'. rewrite pc_of_upd by exact Ht. destruct (Nat.eqb_spec t' t) as [->|Hne]; [discriminate|].
      intros H. rewrite ctr_at_upd by exact Ha. destruct (Nat.eqb_spec a' a) as [->|]; cbn [held]; exact (I_held s I t' n' _ H).
    + intros n2 a2 H2. rewrite ctr_at_upd by exact Ha. rewrite cnt_move by exact Ht. fold (pc_of s t). rewrite Hpc. cbn [is_wa].
      destruct (Nat.eqb_spec a2 a) as [->|Hne].
      * assert (n2 = n) by (eapply (I_inj s I); eauto). subst n2. cbn [waiters]. rewrite (I_count s I n a Hf).
        rewrite N.eqb_refl. cbn. lia.
      * rewrite (I_count s I n2 a2 H2). rewrite andb_false_r. lia.
    + intros n2 a2 H2. destruct (I_live s I n2 a2 H2) as [t0 H0]. exists t0. rewrite pc_of_upd by exact Ht.
      destruct (Nat.eqb_spec t0 t) as [->|]; [rewrite Hpc in H0; discriminate|exact H0].
    + intros n2 a2 t2 H2. rewrite ctr_at_upd by exact Ha. rewrite pc_of_upd by exact Ht.
      assert (Hh : held (if Nat.eqb a2 a then {| held := held (ctr_at s a); waiters := waiters (ctr_at s a) + 1 |} else ctr_at s a2) = held (ctr_at s a2))
        by (destruct (Nat.eqb_spec a2 a) as [->|]; reflexivity).
      rewrite Hh. intros Hheld. pose proof (I_owner s I n2 a2 t2 H2 Hheld) as Hc.
      destruct (Nat.eqb_spec t2 t) as [->|]; [rewrite Hpc in Hc; discriminate|exact Hc].
  - (* a new counter *)
    remember (length (heap s)) as a eqn:Ea.
    assert (Hold : forall n' a', find n' (lmap s) = Some a' -> a' < a) by (intros; subst a; eapply (I_range s I); eauto).
    assert (Hnth : forall a', a' < a -> nth a' (heap s ++ [{| held := None; waiters := 1 |}]) {| held := None; waiters := 0 |} = ctr_at s a').
    { intros a' H. unfold ctr_at. apply app_nth1. lia. }
    constructor; cbn [heap lmap pcs].
    + intros n0 a0. cbn [find]. rewrite app_length. cbn [length]. destruct (N.eqb n0 n); [intros [= <-]; lia|].
      intros H. specialize (Hold _ _ H). lia.
    + intros n1 n2 a0. cbn [find]. destruct (N.eqb_spec n1 n) as [->|], (N.eqb_spec n2 n) as [->|]; intros H1 H2; try reflexivity.
      * injection H1 as <-. specialize (Hold _ _ H2). lia.
      * injection H2 as <-. specialize (Hold _ _ H1). lia.
      * eapply (I_inj s I); eauto.
    + intros t' n' a'. rewrite pc_of_upd by exact Ht. destruct (Nat.eqb_spec t' t) as [->|Hne].
      * cbn [refs find]. intros [= <- <-]. rewrite N.eqb_refl. reflexivity.
      * intros H. pose proof (I_refs s I t' n' a' H) as H1. cbn [find].
        destruct (N.eqb_spec n' n) as [->|]; [congruence|exact H1].
    + intros t' n' a'. rewrite pc_of_upd by exact Ht. destruct (Nat.eqb_spec t' t) as [->|Hne]; [discriminate|].
      intros H. assert (Hr : refs (pc_of s t') = Some (n', a')) by (destruct (pc_of s t'); cbn in *; congruence).
      pose proof (Hold _ _ (I_refs s I t' n' a' Hr)) as Hlt. unfold ctr_at at 1. cbn [heap]. rewrite Hnth by exact Hlt.
      exact (I_held s I t' n' a' H).
    + intros n2 a2. cbn [find]. rewrite cnt_move by exact Ht. fold (pc_of s t). rewrite Hpc. cbn [is_wa].
      destruct (N.eqb_spec n2 n) as [->|Hne].
      * intros [= <-]. unfold ctr_at. cbn [heap]. rewrite app_nth2 by lia. rewrite <- Ea, Nat.sub_diag. cbn [nth waiters].
        rewrite Nat.eqb_refl. cbn.
        rewrite (cnt_zero (is_wa n a) (pcs s)); [reflexivity|].
        intros t0. destruct (is_wa n a (nth t0 (pcs s) Idle)) eqn:E; [|reflexivity].
        apply is_wa_refs in E. pose proof (I_refs s I t0 n a E). congruence.
      * intros H2. unfold ctr_at at 1. cbn [heap]. rewrite Hnth by (eapply Hold; eauto). rewrite (I_count s I n2 a2 H2). cbn [andb]. lia.
    + intros n2 a2. cbn [find]. destruct (N.eqb_spec n2 n) as [->|Hne].
      * intros [= <-]. exists t. rewrite pc_of_upd by exact Ht. now rewrite Nat.eqb_refl.
      * intros H2. destruct (I_live s I n2 a2 H2) as [t0 H0]. exists t0. rewrite pc_of_upd by exact Ht.
        destruct (Nat.eqb_spec t0 t) as [->|]; [rewrite Hpc in H0; discriminate|exact H0].
    + intros n2 a2 t2. cbn [find]. rewrite pc_of_upd by exact Ht. destruct (N.eqb_spec n2 n) as [->|Hne].
      * intros [= <-]. unfold ctr_at. cbn [heap]. rewrite app_nth2 by lia. rewrite <- Ea, Nat.sub_diag. cbn [nth held]. discriminate.
      * intros H2. unfold ctr_at at 1. cbn [heap]. rewrite Hnth by (eapply Hold; eauto). intros Hheld.
        pose proof (I_owner s I n2 a2 t2 H2 Hheld) as Hc.
        destruct (Nat.eqb_spec t2 t) as [->|]; [rewrite Hpc in Hc; discriminate|exact Hc].
Qed.

Lemma cs_refs p n a : cs p = Some (n, a) -> refs p = Some (n, a).
Proof. destruct p; cbn; congruence. Qed.

(* a thread moves between two program counters that refer to the same (n, a); the counter at a changes as given *)
Lemma LInv_move s t n a p' c' :
  LInv s -> refs (pc_of s t) = Some (n, a) -> refs p' = Some (n, a) ->
  (* the holder field stays right for everybody *)
  (forall t', t' <> t -> forall n' a', cs (pc_of s t') = Some (n', a') -> a' = a -> held c' = Some t') ->
  (cs p' = Some (n, a) -> held c' = Some t) ->
  (* the count stays right *)
  waiters c' = (waiters (ctr_at s a) - (if is_wa n a (pc_of s t) then 1 else 0) + (if is_wa n a p' then 1 else 0))%Z ->
  (* whoever the counter names as its holder is in the critical section *)
  (forall t2, held c' = Some t2 -> (t2 = t /\ cs p' = Some (n, a)) \/ (t2 <> t /\ cs (pc_of s t2) = Some (n, a))) ->
  (cs (pc_of s t) = Some (n, a) -> cs p' = Some (n, a)) ->
  LInv {| heap := upd a c' (heap s); lmap := lmap s; pcs := upd t p' (pcs s) |}.
Proof.
  intros I Hr Hr' Hheld Hself Hcount Hown Hkeep.
  assert (Ht : t < length (pcs s)) by (apply busy_lt; intros E; rewrite E in Hr; discriminate).
  pose proof (I_refs s I t n a Hr) as Hf. pose proof (I_range s I n a Hf) as Ha.
  constructor; cbn [heap lmap pcs].
  - intros n0 a0 H. rewrite length_upd. exact (I_range s I n0 a0 H).
  - exact (I_inj s I).
  - intros t' n' a'. rewrite pc_of_upd by exact Ht. destruct (Nat.eqb_spec t' t) as [->|Hne].
    + rewrite Hr'. intros [= <- <-]. exact Hf.
    + apply (I_refs s I).
  - intros t' n' a'. rewrite pc_of_upd by exact Ht. rewrite ctr_at_upd by exact Ha. destruct (Nat.eqb_spec t' t) as [->|Hne].
    + intros H. pose proof (cs_refs _ _ _ H) as H1. rewrite Hr' in H1. injection H1 as <- <-. rewrite Nat.eqb_refl.
      apply Hself. exact H.
    + intros H. destruct (Nat.eqb_spec a' a) as [->|]; [eapply Hheld; eauto|exact (I_held s I t' n' a' H)].
  - intros n2 a2 H2. rewrite ctr_at_upd by exact Ha. rewrite cnt_move by exact Ht. fold (pc_of s t).
    destruct (Nat.eqb_spec a2 a) as [->|Hne].
    + assert (n2 = n) by (eapply (I_inj s I); eauto). subst n2. rewrite Hcount, (I_count s I n a Hf). lia.
    + rewrite (I_count s I n2 a2 H2). rewrite (is_wa_other_addr n a n2 a2 _ Hr Hne), (is_wa_other_addr n a n2 a2 _ Hr' Hne). lia.
  - intros n2 a2 H2. destruct (I_live s I n2 a2 H2) as [t0 H0]. exists t0. rewrite pc_of_upd by exact Ht.
    destruct (Nat.eqb_spec t0 t) as [->|]; [|exact H0]. rewrite Hr in H0. rewrite Hr'. exact H0.
  - intros n2 a2 t2 H2. rewrite ctr_at_upd by exact Ha. rewrite pc_of_upd by exact Ht.
    destruct (Nat.eqb_spec a2 a) as [->|Hne].
    + assert (n2 = n) by (eapply (I_inj s I); eauto). subst n2. intros Hh. destruct (Hown t2 Hh) as [[-> Hc]|[Hne Hc]].
      * now rewrite Nat.eqb_refl.
      * destruct (Nat.eqb_spec t2 t); [contradiction|exact Hc].
    + intros Hh. pose proof (I_owner s I n2 a2 t2 H2 Hh) as Hc. destruct (Nat.eqb_spec t2 t) as [->|]; [|exact Hc].
      pose proof (cs_refs _ _ _ Hc) as Hc'. rewrite Hr in Hc'. injection Hc' as -> ->. contradiction.
Qed.

Lemma LInv_acquire s t : LInv s -> LInv (fst (lk_step s (Acquire t))).
Proof.
  intros I. cbn [lk_step]. destruct (pc_of s t) as [|n a|n a|n a] eqn:Hpc; try exact I.
  destruct (held (ctr_at s a)) eqn:Hh; [exact I|]. cbn [fst].
  apply (LInv_move s t n a (Acquired n a) _ I).
  - rewrite Hpc. reflexivity.
  - reflexivity.
  - intros t' Hne n' a' Hcs ->. pose proof (I_held s I t' n' a Hcs). congruence.
  - reflexivity.
  - rewrite Hpc. cbn [waiters is_wa]. rewrite N.eqb_refl, Nat.eqb_refl. cbn. lia.
  - cbn [held]. intros t2 [= <-]. left. split; reflexivity.
  - reflexivity.
Qed.

Lemma LInv_dec s t : LInv s -> LInv (fst (lk_step s (Dec t))).
Proof.
  intros I. cbn [lk_step]. destruct (pc_of s t) as [|n a|n a|n a] eqn:Hpc; try exact I. cbn [fst].
  assert (Hme : held (ctr_at s a) = Some t) by (apply (I_held s I t n a); rewrite Hpc; reflexivity).
  apply (LInv_move s t n a (Holding n a) _ I).
  - rewrite Hpc. reflexivity.
  - reflexivity.
  - intros t' Hne n' a' Hcs ->. cbn [held]. exact (I_held s I t' n' a Hcs).
  - intros _. exact Hme.
  - rewrite Hpc. cbn [waiters is_wa]. rewrite N.eqb_refl, Nat.eqb_refl. cbn. lia.
  - cbn [held]. rewrite Hme. intros t2 [= <-]. left. split; reflexivity.
  - reflexivity.
Qed.

(* the holder's Unlock always finds its own counter *)
Lemma holder_finds s t n a : LInv s -> pc_of s t = Holding n a -> find n (lmap s) = Some a.
Proof. intros I H. apply (I_refs s I t). rewrite H. reflexivity. Qed.

Lemma LInv_unlock s t n : LInv s -> LInv (fst (lk_step s (Unlock t n))).
Proof.
  intros I. cbn [lk_step]. destruct (pc_of s t) as [|n' a'|n' a'|n' a'] eqn:Hpc; try exact I.
  destruct (N.eqb_spec n n') as [<-|]; [|exact I].
  pose proof (holder_finds s t n a' I Hpc) as Hf. rewrite Hf. cbn [fst].
  rename a' into a.
  assert (Ht : t < length (pcs s)) by (apply busy_lt; rewrite Hpc; discriminate).
  pose proof (I_range s I n a Hf) as Ha.
  assert (Hme : held (ctr_at s a) = Some t) by (apply (I_held s I t n a); rewrite Hpc; reflexivity).
  assert (Hothers : forall t' n2 a2, t' <> t -> cs (pc_of s t') = Some (n2, a2) -> a2 <> a).
  { intros t' n2 a2 Hne Hcs ->. pose proof (I_held s I t' n2 a Hcs). congruence. }
  assert (Hcnt : forall n2 a2, cnt (is_wa n2 a2) (upd t Idle (pcs s)) = cnt (is_wa n2 a2) (pcs s)).
  { intros n2 a2. pose proof (cnt_upd (is_wa n2 a2) t Idle (pcs s) Ht) as H. fold (pc_of s t) in H. rewrite Hpc in H. cbn in H. lia. }
  destruct (Z.eqb_spec (waiters (ctr_at s a)) 0) as [Hz|Hnz].
  - (* nobody waits: the entry goes away *)
    assert (Hnowa : forall t', is_wa n a (pc_of s t') = false).
    { intros t'. destruct (is_wa n a (pc_of s t')) eqn:E; [|reflexivity].
      pose proof (cnt_ge (is_wa n a) (pcs s) eq_refl t' E) as Hp. pose proof (I_count s I n a Hf). lia. }
    assert (Hnoref : forall t' a2, t' <> t -> refs (pc_of s t') = Some (n, a2) -> False).
    { intros t' a2 Hne Hr. pose proof (I_refs s I t' n a2 Hr) as H. rewrite Hf in H. injection H as <-.
      destruct (pc_of s t') as [|n2 a2|n2 a2|n2 a2] eqn:E; cbn in Hr; try discriminate; injection Hr as -> ->.
      - pose proof (Hnowa t') as H. rewrite E in H. cbn in H. now rewrite N.eqb_refl, Nat.eqb_refl in H.
      - pose proof (Hnowa t') as H. rewrite E in H. cbn in H. now rewrite N.eqb_refl, Nat.eqb_refl in H.
      - apply (Hothers t' n a Hne); [rewrite E; reflexivity|reflexivity]. }
    constructor; cbn [heap lmap pcs].
    + intros n0 a0. rewrite find_del, length_upd. destruct (N.eqb n0 n); [discriminate|apply (I_range s I)].
    + intros n1 n2 a0. rewrite !find_del. destruct (N.eqb n1 n); [discriminate|]. destruct (N.eqb n2 n); [discriminate|].
      apply (I_inj s I).
    + intros t' n2 a2. rewrite pc_of_upd by exact Ht. destruct (Nat.eqb_spec t' t) as [->|Hne]; [discriminate|].
      intros Hr. rewrite find_del. destruct (N.eqb_spec n2 n) as [->|]; [exfalso; eapply Hnoref; eauto|exact (I_refs s I t' n2 a2 Hr)].
    + intros t' n2 a2. rewrite pc_of_upd by exact Ht. destruct (Nat.eqb_spec t' t) as [->|Hne]; [discriminate|].
      intros Hcs. rewrite ctr_at_upd by exact Ha. destruct (Nat.eqb_spec a2 a) as [->|]; [exfalso; eapply Hothers; eauto|exact (I_held s I t' n2 a2 Hcs)].
    + intros n2 a2. rewrite find_del. destruct (N.eqb_spec n2 n) as [->|Hne]; [discriminate|]. intros H2.
      assert (a2 <> a) by (intros ->; apply Hne; eapply (I_inj s I); eauto).
      rewrite ctr_at_upd by exact Ha. destruct (Nat.eqb_spec a2 a); [contradiction|]. rewrite Hcnt. exact (I_count s I n2 a2 H2).
    + intros n2 a2. rewrite find_del. destruct (N.eqb_spec n2 n) as [->|Hne]; [discriminate|]. intros H2.
      destruct (I_live s I n2 a2 H2) as [t0 H0]. exists t0. rewrite pc_of_upd by exact Ht.
      destruct (Nat.eqb_spec t0 t) as [->|]; [rewrite Hpc in H0; cbn in H0; congruence|exact H0].
    + intros n2 a2 t2. rewrite find_del. destruct (N.eqb_spec n2 n) as [->|Hne]; [discriminate|]. intros H2.
      assert (a2 <> a) by (intros ->; apply Hne; eapply (I_inj s I); eauto).
      rewrite ctr_at_upd by exact Ha. destruct (Nat.eqb_spec a2 a); [contradiction|]. intros Hh.
      pose proof (I_owner s I n2 a2 t2 H2 Hh) as Hc. rewrite pc_of_upd by exact Ht.
      destruct (Nat.eqb_spec t2 t) as [->|]; [rewrite Hpc in Hc; cbn in Hc; congruence|exact Hc].
  - (* somebody waits: the entry stays *)
    constructor; cbn [heap lmap pcs].
    + intros n0 a0 H. rewrite length_upd. exact (I_range s I n0 a0 H).
    + exact (I_inj s I).
    + intros t' n2 a2. rewrite pc_of_upd by exact Ht. destruct (Nat.eqb_spec t' t) as [->|Hne]; [discriminate|apply (I_refs s I)].
    + intros t' n2 a2. rewrite pc_of_upd by exact Ht. destruct (Nat.eqb_spec t' t) as [->|Hne]; [discriminate|].
      intros Hcs. rewrite ctr_at_upd by exact Ha. destruct (Nat.eqb_spec a2 a) as [->|]; [exfalso; eapply Hothers; eauto|exact (I_held s I t' n2 a2 Hcs)].
    + intros n2 a2 H2. rewrite ctr_at_upd by exact Ha. rewrite Hcnt. destruct (Nat.eqb_spec a2 a) as [->|]; [|exact (I_count s I n2 a2 H2)].
      cbn [waiters]. exact (I_count s I n2 a H2).
    + intros n2 a2 H2. destruct (I_live s I n2 a2 H2) as [t0 H0].
      destruct (Nat.eq_dec t0 t) as [->|Hne].
      * rewrite Hpc in H0. cbn in H0. injection H0 as <- <-.
        pose proof (I_count s I n a Hf) as Hc.
        assert (Hpos : 0 < cnt (is_wa n a) (pcs s)) by lia.
        destruct (cnt_pos _ _ Hpos) as [t1 H1]. exists t1. rewrite pc_of_upd by exact Ht.
        destruct (Nat.eqb_spec t1 t) as [->|]; [fold (pc_of s t) in H1; rewrite Hpc in H1; discriminate|].
        apply is_wa_refs. exact H1.
      * exists t0. rewrite pc_of_upd by exact Ht. destruct (Nat.eqb_spec t0 t); [contradiction|exact H0].
    + intros n2 a2 t2 H2. rewrite ctr_at_upd by exact Ha. destruct (Nat.eqb_spec a2 a) as [->|]; [cbn [held]; discriminate|]. intros Hh.
      pose proof (I_owner s I n2 a2 t2 H2 Hh) as Hc. rewrite pc_of_upd by exact Ht.
      destruct (Nat.eqb_spec t2 t) as [->|]; [rewrite Hpc in Hc; cbn in Hc; congruence|exact Hc].
Qed.

Theorem LInv_step s o : LInv s -> LInv (fst (lk_step s o)).
Proof.
  destruct o as [t n|t|t|t n]; [apply LInv_enter|apply LInv_acquire|apply LInv_dec|apply LInv_unlock].
Qed.

Theorem LInv_run : forall l s, LInv s -> LInv (lk_run s l).
Proof. induction l as [|o l IH]; intros s I; [exact I|]. cbn [lk_run]. apply IH. now apply LInv_step. Qed.

(* ------------------------------------------------------------------ what the invariant gives *)

Lemma in_cs_cs s t n : in_cs s t n = true -> exists a, cs (pc_of s t) = Some (n, a).
Proof.
  unfold in_cs. destruct (pc_of s t) as [|n' a|n' a|n' a]; try discriminate; intros H; apply N.eqb_eq in H; subst; eexists; reflexivity.
Qed.

Theorem mutual_exclusion s t1 t2 n : LInv s -> in_cs s t1 n = true -> in_cs s t2 n = true -> t1 = t2.
Proof.
  intros I H1 H2. apply in_cs_cs in H1 as [a1 H1]. apply in_cs_cs in H2 as [a2 H2].
  pose proof (I_refs s I t1 n a1 (cs_refs _ _ _ H1)) as F1. pose proof (I_refs s I t2 n a2 (cs_refs _ _ _ H2)) as F2.
  rewrite F1 in F2. injection F2 as <-.
  pose proof (I_held s I t1 n a1 H1) as E1. pose proof (I_held s I t2 n a1 H2) as E2. congruence.
Qed.

Theorem holder_unlock_succeeds s t n a : LInv s -> pc_of s t = Holding n a ->
  snd (lk_step s (Unlock t n)) = Done /\ pc_of (fst (lk_step s (Unlock t n))) t = Idle.
Proof.
  intros I Hpc. pose proof (holder_finds s t n a I Hpc) as Hf. cbn [lk_step]. rewrite Hpc, N.eqb_refl, Hf. cbn [fst snd].
  split; [reflexivity|]. rewrite pc_of_upd by (apply busy_lt; rewrite Hpc; discriminate). now rewrite Nat.eqb_refl.
Qed.

Theorem no_leak s n a : LInv s -> find n (lmap s) = Some a -> exists t, busy s t n = true.
Proof.
  intros I H. destruct (I_live s I n a H) as [t Ht]. exists t. unfold busy.
  destruct (pc_of s t) as [|n' a'|n' a'|n' a']; cbn in Ht; try discriminate; injection Ht as -> ->; apply N.eqb_refl.
Qed.


(* a Lock call is only ever blocked by a thread that is inside the critical section of the same name: the inner mutex of
   a counter in the map is never left taken by nobody (no lost hand-over) *)
Theorem blocked_by_a_holder s t n a : LInv s -> pc_of s t = Waiting n a -> snd (lk_step s (Acquire t)) = Blocked ->
  exists t', t' <> t /\ in_cs s t' n = true.
Proof.
  intros I Hpc. cbn [lk_step]. rewrite Hpc. destruct (held (ctr_at s a)) as [t'|] eqn:Hh; [intros _|discriminate].
  assert (Hf : find n (lmap s) = Some a) by (apply (I_refs s I t); rewrite Hpc; reflexivity).
  pose proof (I_owner s I n a t' Hf Hh) as Hc. exists t'. split.
  - intros ->. rewrite Hpc in Hc. discriminate.
  - unfold in_cs. destruct (pc_of s t') as [|n' a'|n' a'|n' a']; cbn in Hc; try discriminate; injection Hc as -> ->; apply N.eqb_refl.
Qed.

(* the guard of the abstract mutex of Model/AtomicRMW.v: a Lock call gets past the inner mutex only when nobody is inside
   the critical section of that name *)
Theorem acquire_only_when_free s t n a : LInv s -> pc_of s t = Waiting n a -> snd (lk_step s (Acquire t)) = Done ->
  forall t', in_cs s t' n = false.
Proof.
  intros I Hpc. cbn [lk_step]. rewrite Hpc. destruct (held (ctr_at s a)) as [h|] eqn:Hh; [discriminate|]. intros _ t'.
  destruct (in_cs s t' n) eqn:E; [|reflexivity]. apply in_cs_cs in E as [a' Hc].
  assert (Hf : find n (lmap s) = Some a) by (apply (I_refs s I t); rewrite Hpc; reflexivity).
  pose proof (I_refs s I t' n a' (cs_refs _ _ _ Hc)) as Hf'. rewrite Hf in Hf'. injection Hf' as <-.
  pose proof (I_held s I t' n a Hc). congruence.
Qed.
