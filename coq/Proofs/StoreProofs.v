(* Invariants and the map refinement of the storage-engine model (Model/Store.v). *)
From Coq Require Import List NArith ZArith Lia Bool Permutation.
From Coq Require Import ZifyN ZifyNat ZifyBool.
Require Import Olric.Gen.Consts Olric.Model.Codec Olric.Model.Store.
Import ListNotations.
Local Open Scope N_scope.

(* ------------------------------------------------------------------ generic list facts ---- *)

Lemma perm_filter {A} (f : A -> bool) (l l' : list A) :
  Permutation l l' -> Permutation (filter f l) (filter f l').
Proof.
  induction 1 as [|x l l' _ IH|x y l|l l' l'' _ IH1 _ IH2]; cbn.
  - constructor.
  - destruct (f x); [constructor|]; exact IH.
  - destruct (f x), (f y); try reflexivity. apply perm_swap.
  - etransitivity; eassumption.
Qed.

Lemma perm_concat_map {A B} (f : A -> list B) (l l' : list A) :
  Permutation l l' -> Permutation (concat (map f l)) (concat (map f l')).
Proof.
  induction 1 as [|x l l' _ IH|x y l|l l' l'' _ IH1 _ IH2]; cbn.
  - constructor.
  - apply Permutation_app_head, IH.
  - rewrite !app_assoc. apply Permutation_app_tail, Permutation_app_comm.
  - etransitivity; eassumption.
Qed.

Lemma filter_concat_map {A B} (p : B -> bool) (f : A -> list B) (l : list A) :
  filter p (concat (map f l)) = concat (map (fun a => filter p (f a)) l).
Proof.
  induction l as [|a l IH]; cbn; [reflexivity|]. rewrite filter_app, IH. reflexivity.
Qed.

Lemma nodup_map_inj {A B} (f : A -> B) (l : list A) a b :
  NoDup (map f l) -> In a l -> In b l -> f a = f b -> a = b.
Proof.
  induction l as [|x l IH]; cbn; intros Hnd Ha Hb Hf; [contradiction|].
  inversion Hnd as [|? ? Hnin Hnd']; subst.
  destruct Ha as [->|Ha], Hb as [->|Hb]; try reflexivity.
  - exfalso. apply Hnin. rewrite Hf. apply in_map, Hb.
  - exfalso. apply Hnin. rewrite <- Hf. apply in_map, Ha.
  - apply IH; assumption.
Qed.

Lemma nodup_map_filter {A B} (f : A -> B) (p : A -> bool) (l : list A) :
  NoDup (map f l) -> NoDup (map f (filter p l)).
Proof.
  induction l as [|x l IH]; cbn; intros Hnd; [constructor|].
  inversion Hnd as [|? ? Hnin Hnd']; subst.
  destruct (p x); cbn; [constructor|]; auto.
  intros Hin. apply Hnin. apply in_map_iff in Hin as (y & Hy & Hin). apply filter_In in Hin as [Hin _].
  rewrite <- Hy. apply in_map, Hin.
Qed.

Lemma nodup_app_disj {A} (l1 l2 : list A) x : NoDup (l1 ++ l2) -> In x l1 -> In x l2 -> False.
Proof.
  induction l1 as [|a l1 IH]; cbn; intros Hnd H1 H2; [contradiction|].
  inversion Hnd as [|? ? Hnin Hnd']; subst. destruct H1 as [->|H1].
  - apply Hnin, in_or_app. now right.
  - now apply IH.
Qed.

Lemma nodup_app_r {A} (l1 l2 : list A) : NoDup (l1 ++ l2) -> NoDup l2.
Proof. induction l1 as [|a l1 IH]; cbn; intros H; [exact H|]. inversion H; subst. auto. Qed.
Lemma nodup_app_l {A} (l1 l2 : list A) : NoDup (l1 ++ l2) -> NoDup l1.
Proof.
  induction l1 as [|a l1 IH]; cbn; intros H; [constructor|]. inversion H as [|? ? Hn Hd]; subst.
  constructor; [|auto]. intros Hin. apply Hn, in_or_app. now left.
Qed.

Lemma opt_ext {A} (a b : option A) : (forall v, a = Some v <-> b = Some v) -> a = b.
Proof.
  intros H. destruct a as [x|], b as [y|]; try reflexivity.
  - symmetry. exact (proj1 (H x) eq_refl).
  - discriminate (proj1 (H x) eq_refl).
  - discriminate (proj2 (H y) eq_refl).
Qed.

(* ------------------------------------------------------------------ records of a table ---- *)

Definition lnot (h : N) (r : rec) : bool := negb (has h r).
Definition hkeys (l : list rec) : list N := map rh l.

Lemma has_true h r : has h r = true <-> rh r = h.
Proof. unfold has. apply N.eqb_eq. Qed.
Lemma lnot_true h r : lnot h r = true <-> rh r <> h.
Proof. unfold lnot, has. rewrite negb_true_iff, N.eqb_neq. reflexivity. Qed.

Lemma find_none_filter h (l : list rec) : find (has h) l = None -> filter (lnot h) l = l.
Proof.
  induction l as [|r l IH]; cbn; [reflexivity|]. unfold lnot at 1.
  destruct (has h r) eqn:E; [discriminate|]. cbn. intros H. now rewrite IH.
Qed.

Lemma t_delete_recs h t : trecs (t_delete h t) = filter (lnot h) (trecs t).
Proof.
  unfold t_delete, t_find. destruct (find (has h) (trecs t)) eqn:E; cbn [trecs].
  - reflexivity.
  - symmetry. now apply find_none_filter.
Qed.

Lemma t_append_recs h e t : trecs (t_append h e t) = trecs t ++ [ {| rh := h; ro := toff t; re := e |} ].
Proof. reflexivity. Qed.

Lemma t_put_ok h e t t' : t_put h e t = TOk t' -> t' = t_append h e (t_delete h t).
Proof. unfold t_put. destruct (_ <=? _); [discriminate|]. destruct (_ <=? _); [discriminate|]. now intros [= <-]. Qed.
Lemma t_putraw_ok h e t t' : t_putraw h e t = TOk t' -> t' = t_append h e (t_delete h t).
Proof. unfold t_putraw. destruct (_ <=? _); [discriminate|]. now intros [= <-]. Qed.

(* the two write paths share everything the refinement needs *)
Definition putter (p : N -> entry -> table -> tres) : Prop :=
  forall h e t t', p h e t = TOk t' -> t' = t_append h e (t_delete h t).
Lemma putter_put : putter t_put. Proof. exact t_put_ok. Qed.
Lemma putter_putraw : putter t_putraw. Proof. exact t_putraw_ok. Qed.

(* ------------------------------------------------------------------ make_table ------------ *)

Lemma take_recycled_perm ts t rest : take_recycled ts = Some (t, rest) -> Permutation ts (t :: rest).
Proof.
  revert t rest. induction ts as [|x ts IH]; cbn; intros t rest H; [discriminate|].
  destruct (is_recycled x).
  - injection H as <- <-. reflexivity.
  - destruct (take_recycled ts) as [[y r']|]; [|discriminate]. injection H as <- <-.
    rewrite (IH _ _ eq_refl). apply perm_swap.
Qed.

Lemma seal_head_recs ts : map trecs (seal_head ts) = map trecs ts.
Proof. destruct ts as [|t r]; cbn; [reflexivity|]. destruct (is_recycled t); reflexivity. Qed.

Lemma make_table_all s : Permutation (s_all (make_table s)) (s_all s).
Proof.
  unfold make_table, s_all.
  destruct (take_recycled (rev (seal_head (stabs s)))) as [[t rest]|] eqn:E; cbn [stabs].
  - apply take_recycled_perm in E.
    assert (Hm : map trecs (t_set_state table_state_rw (t_set_coef (snext s) t) :: rev rest)
                 = map trecs (t :: rev rest)) by reflexivity.
    rewrite Hm, <- (seal_head_recs (stabs s)).
    apply perm_concat_map. transitivity (t :: rest).
    { apply perm_skip. symmetry. apply Permutation_rev. }
    symmetry. etransitivity; [apply Permutation_rev|exact E].
  - cbn. rewrite seal_head_recs. reflexivity.
Qed.

Lemma make_table_size s : ssize (make_table s) = ssize s.
Proof. unfold make_table. destruct (take_recycled _) as [[? ?]|]; reflexivity. Qed.

(* ------------------------------------------------------------------ effect of a put -------- *)

Definition newrec (h o : N) (e : entry) : rec := {| rh := h; ro := o; re := e |}.

Lemma put_on_head_ok p h e (Hp : putter p) s s' :
  put_on_head (p h e) s = Some (s', SOk) ->
  exists t older, stabs s = t :: older /\ stabs s' = t_append h e (t_delete h t) :: older /\ ssize s' = ssize s.
Proof.
  unfold put_on_head. destruct (stabs s) as [|t older] eqn:Et; [intros [= <-]; discriminate|].
  destruct (p h e t) as [t'| |] eqn:Ep; try discriminate.
  intros [= <-]. exists t, older. cbn. rewrite (Hp _ _ _ _ Ep). auto.
Qed.

Lemma put_loop_ok p h e (Hp : putter p) s s' :
  put_loop (p h e) s = (s', SOk) ->
  exists s0 t older, Permutation (s_all s0) (s_all s) /\ ssize s0 = ssize s /\
     stabs s0 = t :: older /\ stabs s' = t_append h e (t_delete h t) :: older /\ ssize s' = ssize s.
Proof.
  unfold put_loop. destruct (put_on_head (p h e) s) as [[s1 r]|] eqn:E1.
  - intros [= -> ->]. destruct (put_on_head_ok p h e Hp _ _ E1) as (t & older & H1 & H2 & H3).
    exists s, t, older. repeat split; auto.
  - destruct (put_on_head (p h e) (make_table s)) as [[s1 r]|] eqn:E2.
    + intros [= -> ->]. destruct (put_on_head_ok p h e Hp _ _ E2) as (t & older & H1 & H2 & H3).
      exists (make_table s), t, older. repeat split; auto using make_table_all, make_table_size.
      now rewrite H3, make_table_size.
    + intros [= ? ?]; discriminate.
Qed.

Lemma all_delete_stale_append h e t older :
  Permutation (concat (map trecs (delete_stale h (t_append h e (t_delete h t) :: older))))
              (newrec h (toff (t_delete h t)) e :: filter (lnot h) (concat (map trecs (t :: older)))).
Proof.
  cbn [delete_stale map concat]. rewrite t_append_recs, t_delete_recs.
  rewrite filter_app, filter_concat_map, map_map.
  rewrite (map_ext (fun x => trecs (t_delete h x)) (fun a => filter (lnot h) (trecs a))) by (intros; apply t_delete_recs).
  rewrite <- app_assoc. etransitivity; [apply Permutation_app_head, Permutation_app_comm|].
  rewrite app_assoc. etransitivity; [apply Permutation_app_comm|]. reflexivity.
Qed.

Theorem put_gen_all p (Hp : putter p) h e s s' :
  s_put_gen p h e s = (s', SOk) ->
  exists o, Permutation (s_all s') (newrec h o e :: filter (lnot h) (s_all s)) /\ ssize s' = ssize s.
Proof.
  unfold s_put_gen. destruct (ssize s <=? esize e); [discriminate|].
  set (s0 := if has_writable s then s else make_table s).
  assert (H0 : Permutation (s_all s0) (s_all s) /\ ssize s0 = ssize s).
  { unfold s0. destruct (has_writable s); [split; reflexivity|]. split; [apply make_table_all|apply make_table_size]. }
  destruct (put_loop (p h e) s0) as [s1 r] eqn:El. destruct r; try (intros [= ? ?]; discriminate).
  intros [= <-].
  destruct (put_loop_ok p h e Hp _ _ El) as (sx & t & older & Hperm & Hsz & Hx & H1 & Hsz1).
  exists (toff (t_delete h t)). split; [|cbn; lia].
  unfold s_all at 1. cbn [stabs with_tabs]. rewrite H1.
  etransitivity; [apply all_delete_stale_append|].
  constructor. apply perm_filter. change (concat (map trecs (t :: older))) with (concat (map trecs (t :: older))).
  rewrite <- Hx. fold (s_all sx). rewrite Hperm. apply H0.
Qed.

(* a put that is not acknowledged leaves the records alone *)
Lemma put_on_head_fail p s s' r : put_on_head p s = Some (s', r) -> r <> SOk -> s' = s.
Proof.
  unfold put_on_head. destruct (stabs s) as [|t older]; [now intros [= <- <-]|].
  destruct (p t); try discriminate; intros [= <- <-]; intros; congruence.
Qed.

Theorem put_gen_rejected p h e s s' r :
  s_put_gen p h e s = (s', r) -> r <> SOk -> Permutation (s_all s') (s_all s) /\ ssize s' = ssize s.
Proof.
  unfold s_put_gen. destruct (ssize s <=? esize e); [intros [= <- <-]; split; reflexivity|].
  set (s0 := if has_writable s then s else make_table s).
  assert (H0 : Permutation (s_all s0) (s_all s) /\ ssize s0 = ssize s).
  { unfold s0. destruct (has_writable s); [split; reflexivity|]. split; [apply make_table_all|apply make_table_size]. }
  destruct (put_loop (p h e) s0) as [s1 r1] eqn:El.
  assert (Hne : r1 <> SOk -> Permutation (s_all s1) (s_all s0) /\ ssize s1 = ssize s0).
  { revert El. unfold put_loop. destruct (put_on_head (p h e) s0) as [[sa ra]|] eqn:E1.
    - intros [= -> ->] Hr. rewrite (put_on_head_fail _ _ _ _ E1 Hr). split; reflexivity.
    - destruct (put_on_head (p h e) (make_table s0)) as [[sa ra]|] eqn:E2.
      + intros [= -> ->] Hr. rewrite (put_on_head_fail _ _ _ _ E2 Hr).
        split; [apply make_table_all|apply make_table_size].
      + intros [= <- <-] _. split; [apply make_table_all|apply make_table_size]. }
  destruct r1; intros [= <- <-] Hr; try congruence;
    (destruct (Hne ltac:(discriminate)) as [Ha Hb]; split; [rewrite Ha; apply H0|rewrite Hb; apply H0]).
Qed.

(* ------------------------------------------------------------------ uniqueness and abs ------ *)

Definition uniq (s : store) : Prop := NoDup (hkeys (s_all s)).

Lemma find_newest_in h ts r :
  find_newest h ts = Some r -> In r (concat (map trecs ts)) /\ rh r = h.
Proof.
  induction ts as [|t ts IH]; cbn; [discriminate|]. unfold t_find.
  destruct (find (has h) (trecs t)) as [x|] eqn:E.
  - intros [= ->]. apply find_some in E as [Hin Hh]. split; [apply in_or_app; now left|now apply has_true].
  - intros H. destruct (IH H) as [Hin Hh]. split; [apply in_or_app; now right|exact Hh].
Qed.

Lemma find_newest_none h ts :
  find_newest h ts = None -> forall r, In r (concat (map trecs ts)) -> rh r <> h.
Proof.
  induction ts as [|t ts IH]; cbn; [intros _ r []|]. unfold t_find.
  destruct (find (has h) (trecs t)) as [x|] eqn:E; [discriminate|].
  intros H r Hin. apply in_app_or in Hin as [Hin|Hin].
  - pose proof (find_none _ _ E _ Hin) as Hf. intros Heq. apply has_true in Heq. congruence.
  - now apply IH.
Qed.

Lemma s_find_unique s r : uniq s -> In r (s_all s) -> s_find (rh r) s = Some r.
Proof.
  intros Hu Hin. unfold s_find. destruct (find_newest (rh r) (stabs s)) as [x|] eqn:E.
  - apply find_newest_in in E as [Hx Hh]. f_equal. eapply nodup_map_inj; eauto.
  - exfalso. eapply find_newest_none; eauto.
Qed.

Definition holds (L : list rec) (h : N) (v : list byte * list byte * Z * Z) : Prop :=
  exists r, In r L /\ rh r = h /\ view (re r) = v.

Lemma abs_some s h v : uniq s -> (abs s h = Some v <-> holds (s_all s) h v).
Proof.
  intros Hu. unfold abs. split.
  - destruct (s_find h s) as [r|] eqn:E; [|discriminate]. cbn. intros [= <-].
    apply find_newest_in in E as [Hin Hh]. exists r. auto.
  - intros (r & Hin & Hh & Hv). subst h. rewrite (s_find_unique _ _ Hu Hin). cbn. now rewrite Hv.
Qed.

Lemma abs_none s h : abs s h = None <-> (forall r, In r (s_all s) -> rh r <> h).
Proof.
  unfold abs, s_find. split.
  - destruct (find_newest h (stabs s)) eqn:E; [discriminate|]. intros _. now apply find_newest_none.
  - intros H. destruct (find_newest h (stabs s)) as [r|] eqn:E; [|reflexivity].
    apply find_newest_in in E as [Hin Hh]. destruct (H _ Hin Hh).
Qed.

Lemma uniq_perm s s' : Permutation (s_all s') (s_all s) -> uniq s -> uniq s'.
Proof. unfold uniq, hkeys. intros Hp Hu. eapply Permutation_NoDup; [|exact Hu]. apply Permutation_map. now symmetry. Qed.

Lemma abs_perm s s' : Permutation (s_all s') (s_all s) -> uniq s -> forall h, abs s' h = abs s h.
Proof.
  intros Hp Hu h. pose proof (uniq_perm _ _ Hp Hu) as Hu'. apply opt_ext. intros v.
  rewrite (abs_some _ _ _ Hu), (abs_some _ _ _ Hu'). unfold holds.
  split; intros (r & Hin & Hr); exists r; (split; [|exact Hr]).
  - eapply Permutation_in; eauto.
  - eapply Permutation_in; [symmetry|]; eauto.
Qed.

(* the map effect of an acknowledged write, for both write paths *)
Theorem put_gen_spec p (Hp : putter p) h e s s' :
  uniq s -> s_put_gen p h e s = (s', SOk) ->
  uniq s' /\ forall h', abs s' h' = if h' =? h then Some (view e) else abs s h'.
Proof.
  intros Hu Hput. destruct (put_gen_all p Hp _ _ _ _ Hput) as (o & Hperm & _).
  assert (Hu' : uniq s').
  { unfold uniq, hkeys. eapply Permutation_NoDup; [apply Permutation_map; symmetry; exact Hperm|].
    cbn. constructor.
    - intros Hin. apply in_map_iff in Hin as (r & Hr & Hin). apply filter_In in Hin as [_ Hn].
      apply lnot_true in Hn. congruence.
    - apply nodup_map_filter, Hu. }
  split; [exact Hu'|]. intros h'. apply opt_ext. intros v. rewrite (abs_some _ _ _ Hu').
  destruct (N.eqb_spec h' h) as [->|Hne].
  - split.
    + intros (r & Hin & Hh & Hv). eapply Permutation_in in Hin; [|exact Hperm].
      destruct Hin as [<-|Hin]; [now rewrite <- Hv|].
      apply filter_In in Hin as [_ Hn]. apply lnot_true in Hn. congruence.
    + intros [= <-]. exists (newrec h o e). split; [|auto].
      eapply Permutation_in; [symmetry; exact Hperm|]. now left.
  - rewrite (abs_some _ _ _ Hu). split; intros (r & Hin & Hh & Hv); exists r; (split; [|auto]).
    + eapply Permutation_in in Hin; [|exact Hperm]. destruct Hin as [<-|Hin]; [cbn in Hh; congruence|].
      now apply filter_In in Hin as [Hin _].
    + eapply Permutation_in; [symmetry; exact Hperm|]. right. apply filter_In. split; [exact Hin|].
      apply lnot_true. congruence.
Qed.

Theorem put_gen_rejected_spec p h e s s' r :
  uniq s -> s_put_gen p h e s = (s', r) -> r <> SOk -> uniq s' /\ forall h', abs s' h' = abs s h'.
Proof.
  intros Hu Hput Hr. destruct (put_gen_rejected _ _ _ _ _ _ Hput Hr) as [Hperm _].
  split; [eapply uniq_perm; eauto|]. now apply abs_perm.
Qed.

(* ------------------------------------------------------------------ on_newest --------------- *)

Lemma t_check_find h t : t_check h t = true <-> exists r, t_find h t = Some r.
Proof.
  unfold t_check, t_find. rewrite existsb_exists. split.
  - intros (r & Hin & Hh). destruct (find (has h) (trecs t)) as [x|] eqn:E; [eauto|].
    pose proof (find_none _ _ E _ Hin). congruence.
  - intros (r & E). apply find_some in E. eauto.
Qed.

Lemma t_check_false h t : t_check h t = false -> filter (lnot h) (trecs t) = trecs t.
Proof.
  intros H. apply find_none_filter. destruct (find (has h) (trecs t)) as [x|] eqn:E; [|reflexivity].
  assert (t_check h t = true) by (apply t_check_find; eauto). congruence.
Qed.

(* applying f to the newest holder of h, when f only changes records with hkey h (by g) *)
Lemma on_newest_all_map h f (g : rec -> rec) ts :
  (forall t, trecs (f t) = map g (trecs t)) -> (forall r, rh r <> h -> g r = r) ->
  NoDup (hkeys (concat (map trecs ts))) ->
  concat (map trecs (on_newest h f ts)) = map g (concat (map trecs ts)).
Proof.
  intros Hf Hg. induction ts as [|t ts IH]; cbn; [reflexivity|]. intros Hnd.
  unfold hkeys in Hnd. rewrite map_app in Hnd.
  destruct (t_check h t) eqn:E; cbn; rewrite map_app.
  - rewrite Hf. f_equal. symmetry. rewrite <- (map_id (concat (map trecs ts))) at 2. apply map_ext_in.
    intros r Hin. apply Hg. intros Hh.
    apply t_check_find in E as (x & Ex). apply find_some in Ex as [Hx Hhx]. apply has_true in Hhx.
    eapply (nodup_app_disj _ _ (rh x) Hnd); [apply in_map, Hx|]. rewrite Hhx, <- Hh. apply in_map, Hin.
  - rewrite IH by (apply nodup_app_r in Hnd; exact Hnd). f_equal.
    rewrite <- (map_id (trecs t)) at 1. apply map_ext_in. intros r Hin. symmetry. apply Hg.
    intros Hh. assert (t_check h t = true); [|congruence]. apply existsb_exists. exists r. split; [exact Hin|now apply has_true].
Qed.

Lemma filter_lnot_id h (l : list rec) : (forall r, In r l -> rh r <> h) -> filter (lnot h) l = l.
Proof.
  induction l as [|r l IH]; cbn; intros H; [reflexivity|].
  assert (Hr : lnot h r = true) by (apply lnot_true, H; now left). rewrite Hr. f_equal. apply IH.
  intros x Hx. apply H. now right.
Qed.

Lemma on_newest_all_filter h ts :
  NoDup (hkeys (concat (map trecs ts))) ->
  concat (map trecs (on_newest h (t_delete h) ts)) = filter (lnot h) (concat (map trecs ts)).
Proof.
  induction ts as [|t ts IH]; cbn; [reflexivity|]. intros Hnd.
  unfold hkeys in Hnd. rewrite map_app in Hnd. rewrite filter_app.
  destruct (t_check h t) eqn:E; cbn.
  - rewrite t_delete_recs. f_equal. symmetry.
    apply t_check_find in E as (x & Ex). apply find_some in Ex as [Hx Hhx]. apply has_true in Hhx.
    apply filter_lnot_id. intros r Hin Hh.
    eapply (nodup_app_disj _ _ (rh x) Hnd); [apply in_map, Hx|]. rewrite Hhx, <- Hh. apply in_map, Hin.
  - rewrite IH by (apply nodup_app_r in Hnd; exact Hnd). f_equal. symmetry. now apply t_check_false.
Qed.

Theorem delete_all h s : uniq s -> s_all (s_delete h s) = filter (lnot h) (s_all s).
Proof. intros Hu. unfold s_delete, s_on_newest, s_all. cbn. now apply on_newest_all_filter. Qed.

Theorem delete_spec h s :
  uniq s -> uniq (s_delete h s) /\ forall h', abs (s_delete h s) h' = if h' =? h then None else abs s h'.
Proof.
  intros Hu. pose proof (delete_all h s Hu) as Hall.
  assert (Hu' : uniq (s_delete h s)). { unfold uniq. rewrite Hall. apply nodup_map_filter, Hu. }
  split; [exact Hu'|]. intros h'. destruct (N.eqb_spec h' h) as [->|Hne].
  - apply abs_none. rewrite Hall. intros r Hin. apply filter_In in Hin as [_ Hn]. now apply lnot_true.
  - apply opt_ext. intros v. rewrite (abs_some _ _ _ Hu), (abs_some _ _ _ Hu'), Hall.
    split; intros (r & Hin & Hh & Hv); exists r; (split; [|auto]).
    + now apply filter_In in Hin as [Hin _].
    + apply filter_In. split; [exact Hin|]. apply lnot_true. congruence.
Qed.

(* record-wise updates that keep the hkey (Get's lastAccess stamp, UpdateTTL) *)
Lemma touch_rh h now r : rh (touch h now r) = rh r.
Proof. unfold touch. destruct (has h r); reflexivity. Qed.
Lemma touch_view h now r : view (re (touch h now r)) = view (re r).
Proof. unfold touch. destruct (has h r); reflexivity. Qed.
Lemma touch_other h now r : rh r <> h -> touch h now r = r.
Proof. unfold touch. intros H. destruct (has h r) eqn:E; [|reflexivity]. apply has_true in E. congruence. Qed.
Lemma upd_rh h a b c r : rh (upd_ttl h a b c r) = rh r.
Proof. unfold upd_ttl. destruct (has h r); reflexivity. Qed.
Lemma upd_other h a b c r : rh r <> h -> upd_ttl h a b c r = r.
Proof. unfold upd_ttl. intros H. destruct (has h r) eqn:E; [|reflexivity]. apply has_true in E. congruence. Qed.

Lemma hkeys_map g l : (forall r, rh (g r) = rh r) -> hkeys (map g l) = hkeys l.
Proof. intros H. unfold hkeys. rewrite map_map. apply map_ext. exact H. Qed.

Lemma on_newest_map_all h f g s :
  (forall t, trecs (f t) = map g (trecs t)) -> (forall r, rh r <> h -> g r = r) ->
  uniq s -> s_all (s_on_newest h f s) = map g (s_all s).
Proof. intros Hf Hg Hu. unfold s_on_newest, s_all. cbn. now apply on_newest_all_map. Qed.

Theorem get_spec h now s :
  uniq s ->
  let '(s', r) := s_get h now s in
  option_map view r = abs s h /\ uniq s' /\ forall h', abs s' h' = abs s h'.
Proof.
  intros Hu. unfold s_get, abs at 1. destruct (s_find h s) as [r|] eqn:E; cbn; [|auto].
  pose proof (on_newest_map_all h (t_touch h now) (touch h now) s (fun t => eq_refl)
                (fun r => touch_other h now r) Hu) as Hall.
  assert (Hu' : uniq (s_on_newest h (t_touch h now) s)).
  { unfold uniq. rewrite Hall, hkeys_map; [exact Hu|apply touch_rh]. }
  split; [reflexivity|]. split; [exact Hu'|]. intros h'. apply opt_ext. intros v.
  rewrite (abs_some _ _ _ Hu), (abs_some _ _ _ Hu'), Hall. unfold holds. split.
  - intros (x & Hin & Hh & Hv). apply in_map_iff in Hin as (y & <- & Hin). exists y.
    rewrite touch_rh in Hh. rewrite touch_view in Hv. auto.
  - intros (y & Hin & Hh & Hv). exists (touch h now y). rewrite touch_rh, touch_view. split; [|auto].
    apply in_map, Hin.
Qed.

Theorem updatettl_spec h ttl ts now s :
  uniq s ->
  let '(s', r) := s_updatettl h ttl ts now s in
  uniq s' /\
  match abs s h with
  | None => r = SNotFound /\ forall h', abs s' h' = abs s h'
  | Some (k, v, _, _) => r = SOk /\ forall h', abs s' h' = if h' =? h then Some (k, v, ttl, ts) else abs s h'
  end.
Proof.
  intros Hu. unfold s_updatettl, abs at 1. destruct (s_find h s) as [r|] eqn:E; cbn; [|auto].
  pose proof (on_newest_map_all h (t_updatettl h ttl ts now) (upd_ttl h ttl ts now) s (fun t => eq_refl)
                (fun r => upd_other h ttl ts now r) Hu) as Hall.
  assert (Hu' : uniq (s_on_newest h (t_updatettl h ttl ts now) s)).
  { unfold uniq. rewrite Hall, hkeys_map; [exact Hu|apply upd_rh]. }
  split; [exact Hu'|]. destruct (view (re r)) as [[[k v] t0] s0] eqn:Ev. split; [reflexivity|].
  apply find_newest_in in E as [Hinr Hhr].
  intros h'. apply opt_ext. intros w. rewrite (abs_some _ _ _ Hu'), Hall. destruct (N.eqb_spec h' h) as [->|Hne].
  - split.
    + intros (x & Hin & Hh & Hv). apply in_map_iff in Hin as (y & <- & Hin). rewrite upd_rh in Hh.
      assert (y = r) by (apply (nodup_map_inj rh (s_all s) y r Hu Hin Hinr); congruence). subst y.
      unfold upd_ttl in Hv. assert (Hhas : has h r = true) by now apply has_true. rewrite Hhas in Hv.
      unfold view in *. cbn in Hv. injection Ev as <- <- _ _. now rewrite <- Hv.
    + intros [= <-]. exists (upd_ttl h ttl ts now r). rewrite upd_rh. split; [apply in_map, Hinr|]. split; [exact Hhr|].
      unfold upd_ttl. assert (Hhas : has h r = true) by now apply has_true. rewrite Hhas.
      unfold view in *. cbn. injection Ev as <- <- _ _. reflexivity.
  - rewrite (abs_some _ _ _ Hu). unfold holds. split.
    + intros (x & Hin & Hh & Hv). apply in_map_iff in Hin as (y & <- & Hin). rewrite upd_rh in Hh.
      rewrite upd_other in Hv by congruence. eauto.
    + intros (y & Hin & Hh & Hv). exists y. split; [|auto]. apply in_map_iff. exists y.
      split; [apply upd_other; congruence|exact Hin].
Qed.

(* ------------------------------------------------------------------ per-table accounting ---- *)

Definition sum_sizes (l : list rec) : N := fold_right (fun r a => rsize r + a) 0 l.

(* live records lie one after the other, inside [lo, hi) *)
Fixpoint chain (lo : N) (rs : list rec) (hi : N) : Prop :=
  match rs with
  | [] => lo <= hi
  | r :: rs' => lo <= ro r /\ chain (ro r + rsize r) rs' hi
  end.

Record twf (size : N) (t : table) : Prop := mk_twf {
  twf_alloc : talloc t = size;
  twf_off : toff t <= talloc t;
  twf_acc : tinuse t + tgarb t = toff t;
  twf_inuse : tinuse t = sum_sizes (trecs t);
  twf_nodup : NoDup (hkeys (trecs t));
  twf_chain : chain 0 (trecs t) (toff t);
  twf_rec : is_recycled t = true -> toff t = 0 }.

Lemma rsize_pos r : 0 < rsize r.
Proof. unfold rsize, esize, metadata_length. lia. Qed.

Lemma sum_sizes_cons r l : sum_sizes (r :: l) = rsize r + sum_sizes l.
Proof. reflexivity. Qed.
Lemma sum_sizes_nil : sum_sizes [] = 0.
Proof. reflexivity. Qed.

Lemma sum_sizes_app a b : sum_sizes (a ++ b) = sum_sizes a + sum_sizes b.
Proof. unfold sum_sizes. induction a as [|r a IH]; cbn; [reflexivity|]. rewrite IH. lia. Qed.
Arguments sum_sizes : simpl never.

Lemma sum_sizes_filter_one h l r :
  NoDup (hkeys l) -> find (has h) l = Some r -> sum_sizes (filter (lnot h) l) + rsize r = sum_sizes l.
Proof.
  induction l as [|x l IH]; cbn; [discriminate|]. intros Hnd. inversion Hnd as [|? ? Hnin Hnd']; subst.
  unfold lnot at 1. destruct (has h x) eqn:E; cbn; rewrite ?sum_sizes_cons.
  - intros [= ->]. rewrite filter_lnot_id; [lia|]. intros y Hy Hh. apply has_true in E. apply Hnin.
    rewrite E, <- Hh. apply in_map, Hy.
  - intros Hf. specialize (IH Hnd' Hf). lia.
Qed.

Lemma chain_le lo rs hi : chain lo rs hi -> lo <= hi.
Proof.
  revert lo. induction rs as [|r rs IH]; cbn; intros lo H; [exact H|]. destruct H as [H1 H2].
  specialize (IH _ H2). pose proof (rsize_pos r). lia.
Qed.
Lemma chain_weaken lo lo' rs hi : chain lo rs hi -> lo' <= lo -> chain lo' rs hi.
Proof. destruct rs as [|r rs]; cbn; [lia|]. intros [H1 H2] H. split; [lia|exact H2]. Qed.
Lemma chain_filter p lo rs hi : chain lo rs hi -> chain lo (filter p rs) hi.
Proof.
  revert lo. induction rs as [|r rs IH]; cbn; intros lo H; [exact H|]. destruct H as [H1 H2].
  destruct (p r); cbn.
  - split; [exact H1|apply IH, H2].
  - apply IH. eapply chain_weaken; [exact H2|]. pose proof (rsize_pos r). lia.
Qed.
Lemma chain_snoc lo rs r : chain lo rs (ro r) -> chain lo (rs ++ [r]) (ro r + rsize r).
Proof.
  revert lo. induction rs as [|x rs IH]; cbn; intros lo H.
  - split; [exact H|lia].
  - destruct H as [H1 H2]. split; [exact H1|apply IH, H2].
Qed.
Lemma chain_map g lo rs hi :
  (forall r, ro (g r) = ro r /\ rsize (g r) = rsize r) -> chain lo rs hi -> chain lo (map g rs) hi.
Proof.
  intros Hg. revert lo. induction rs as [|r rs IH]; cbn; intros lo H; [exact H|]. destruct H as [H1 H2].
  destruct (Hg r) as [-> ->]. split; [exact H1|apply IH, H2].
Qed.
Lemma sum_sizes_map g l : (forall r, rsize (g r) = rsize r) -> sum_sizes (map g l) = sum_sizes l.
Proof. intros Hg. induction l as [|r l IH]; cbn [map]; [reflexivity|]. now rewrite !sum_sizes_cons, Hg, IH. Qed.

Lemma state_ro_not_recycled : (table_state_ro =? table_state_recycled) = false.
Proof. reflexivity. Qed.
Lemma state_rw_not_recycled : (table_state_rw =? table_state_recycled) = false.
Proof. reflexivity. Qed.

Lemma twf_new size c : twf size (new_table size c).
Proof. constructor; cbn; try reflexivity; try lia; try constructor. Qed.

Lemma twf_delete size h t : twf size t -> twf size (t_delete h t).
Proof.
  intros [Ha Ho Hacc Hin Hnd Hch Hrec]. unfold t_delete, t_find.
  destruct (find (has h) (trecs t)) as [r|] eqn:E; [|constructor; assumption].
  pose proof (sum_sizes_filter_one _ _ _ Hnd E) as Hs. unfold lnot in Hs.
  constructor; cbn; try assumption.
  - lia.
  - lia.
  - unfold hkeys. apply nodup_map_filter, Hnd.
  - apply chain_filter, Hch.
Qed.

Lemma t_delete_off h t : toff (t_delete h t) = toff t /\ talloc (t_delete h t) = talloc t /\ tstate (t_delete h t) = tstate t.
Proof. unfold t_delete. destruct (t_find h t); auto. Qed.

Lemma twf_append size h e t :
  twf size t -> esize e + toff t < talloc t -> (forall r, In r (trecs t) -> rh r <> h) ->
  is_recycled t = false -> twf size (t_append h e t).
Proof.
  intros [Ha Ho Hacc Hin Hnd Hch Hrec] Hfit Hfresh Hlive. constructor; cbn; try assumption.
  - lia.
  - lia.
  - rewrite sum_sizes_app, sum_sizes_cons, sum_sizes_nil. unfold rsize. cbn. lia.
  - unfold hkeys. rewrite map_app. cbn.
    apply (Permutation_NoDup (Permutation_cons_append (map rh (trecs t)) h)).
    constructor; [|exact Hnd]. intros Hi. apply in_map_iff in Hi as (r & Hr & Hi). now apply (Hfresh r).
  - replace (toff t + esize e) with (ro (newrec h (toff t) e) + rsize (newrec h (toff t) e)) by reflexivity.
    apply chain_snoc. exact Hch.
  - unfold is_recycled in *. cbn. congruence.
Qed.

Lemma twf_set_state size st t : twf size t -> (st =? table_state_recycled) = false -> twf size (t_set_state st t).
Proof.
  intros [Ha Ho Hacc Hin Hnd Hch Hrec] Hst. constructor; cbn; try assumption.
  unfold is_recycled. cbn. congruence.
Qed.
Lemma twf_set_coef size c t : twf size t -> twf size (t_set_coef c t).
Proof. intros [Ha Ho Hacc Hin Hnd Hch Hrec]. constructor; cbn; assumption. Qed.
Lemma twf_reset size t : twf size t -> twf size (t_reset t).
Proof.
  intros [Ha Ho Hacc Hin Hnd Hch Hrec]. constructor; cbn; try reflexivity; try lia; try assumption; constructor.
Qed.
Lemma twf_map_recs size g t :
  (forall r, rh (g r) = rh r /\ ro (g r) = ro r /\ rsize (g r) = rsize r) ->
  twf size t -> twf size (t_map_recs g t).
Proof.
  intros Hg [Ha Ho Hacc Hin Hnd Hch Hrec]. constructor; cbn; try assumption.
  - rewrite sum_sizes_map; [exact Hin|]. intros r. apply Hg.
  - rewrite hkeys_map; [exact Hnd|]. intros r. apply Hg.
  - apply chain_map; [|exact Hch]. intros r. split; apply Hg.
Qed.
Lemma touch_keeps h now r : rh (touch h now r) = rh r /\ ro (touch h now r) = ro r /\ rsize (touch h now r) = rsize r.
Proof. unfold touch. destruct (has h r); auto. Qed.
Lemma upd_keeps h a b c r : rh (upd_ttl h a b c r) = rh r /\ ro (upd_ttl h a b c r) = ro r /\ rsize (upd_ttl h a b c r) = rsize r.
Proof. unfold upd_ttl. destruct (has h r); auto. Qed.

(* a table without in-use bytes holds no record *)
Lemma sum_sizes_zero l : sum_sizes l = 0 -> l = [].
Proof. destruct l as [|r l]; [reflexivity|]. rewrite sum_sizes_cons. pose proof (rsize_pos r). lia. Qed.
Lemma twf_inuse_zero size t : twf size t -> tinuse t = 0 -> trecs t = [].
Proof. intros H Hz. apply sum_sizes_zero. now rewrite <- (twf_inuse _ _ H). Qed.
Lemma twf_recycled_empty size t : twf size t -> is_recycled t = true -> trecs t = [].
Proof.
  intros H Hr. apply (twf_inuse_zero _ _ H). pose proof (twf_rec _ _ H Hr). pose proof (twf_acc _ _ H). lia.
Qed.

(* ------------------------------------------------------------------ store-level invariant --- *)

Definition tabs_wf (s : store) : Prop := Forall (twf (ssize s)) (stabs s).
Definition swf (s : store) : Prop := tabs_wf s /\ uniq s.

Lemma take_recycled_is ts t rest : take_recycled ts = Some (t, rest) -> is_recycled t = true.
Proof.
  revert t rest. induction ts as [|x ts IH]; cbn; intros t rest H; [discriminate|].
  destruct (is_recycled x) eqn:E.
  - injection H as <- <-. exact E.
  - destruct (take_recycled ts) as [[y r']|] eqn:E2; [|discriminate]. injection H as <- <-. eapply IH; eauto.
Qed.

Lemma seal_head_wf size ts : Forall (twf size) ts -> Forall (twf size) (seal_head ts).
Proof.
  destruct ts as [|t r]; cbn; intros H; [constructor|]. inversion H; subst. constructor; [|assumption].
  destruct (is_recycled t); [assumption|]. apply twf_set_state; [assumption|apply state_ro_not_recycled].
Qed.

Lemma make_table_wf s : tabs_wf s -> tabs_wf (make_table s).
Proof.
  unfold tabs_wf, make_table. intros H. apply seal_head_wf in H.
  destruct (take_recycled (rev (seal_head (stabs s)))) as [[t rest]|] eqn:E; cbn.
  - pose proof (take_recycled_perm _ _ _ E) as Hp.
    assert (Hall : Forall (twf (ssize s)) (t :: rest)).
    { eapply Permutation_Forall; [exact Hp|]. apply Forall_rev, H. }
    inversion Hall; subst. constructor.
    + apply twf_set_state; [apply twf_set_coef; assumption|apply state_rw_not_recycled].
    + now apply Forall_rev.
  - constructor; [apply twf_new|exact H].
Qed.

Lemma make_table_head s :
  tabs_wf s -> exists t r, stabs (make_table s) = t :: r /\ toff t = 0 /\ talloc t = ssize s /\ is_recycled t = false.
Proof.
  unfold tabs_wf, make_table. intros H. apply seal_head_wf in H.
  destruct (take_recycled (rev (seal_head (stabs s)))) as [[t rest]|] eqn:E; cbn.
  - pose proof (take_recycled_perm _ _ _ E) as Hp. pose proof (take_recycled_is _ _ _ E) as Hr.
    assert (Hall : Forall (twf (ssize s)) (t :: rest)).
    { eapply Permutation_Forall; [exact Hp|]. apply Forall_rev, H. }
    inversion Hall as [|? ? Ht _]; subst. eexists _, _. split; [reflexivity|]. cbn.
    split; [apply (twf_rec _ _ Ht Hr)|]. split; [apply (twf_alloc _ _ Ht)|reflexivity].
  - eexists _, _. split; [reflexivity|]. cbn. auto.
Qed.

Definition putter_fit (p : N -> entry -> table -> tres) : Prop :=
  (forall h e t t', p h e t = TOk t' -> esize e + toff t < talloc t) /\
  (forall h e t, p h e t = TNoSpace -> talloc t <= esize e + toff t).
Lemma putter_fit_put : putter_fit t_put.
Proof.
  split; intros h e t; unfold t_put; destruct (max_key_length <=? _); try discriminate;
    destruct (N.leb_spec (talloc t) (esize e + toff t)); try discriminate; intros; lia.
Qed.
Lemma putter_fit_putraw : putter_fit t_putraw.
Proof.
  split; intros h e t; unfold t_putraw;
    destruct (N.leb_spec (talloc t) (esize e + toff t)); try discriminate; intros; lia.
Qed.

Lemma twf_write size h e t :
  twf size t -> esize e + toff t < talloc t -> is_recycled t = false ->
  twf size (t_append h e (t_delete h t)).
Proof.
  intros H Hfit Hlive. destruct (t_delete_off h t) as (Ho & Ha & Hs).
  apply twf_append.
  - now apply twf_delete.
  - rewrite Ho, Ha. exact Hfit.
  - rewrite t_delete_recs. intros r Hin. apply filter_In in Hin as [_ Hn]. now apply lnot_true.
  - unfold is_recycled in *. now rewrite Hs.
Qed.

Lemma put_on_head_wf p (Hp : putter p) (Hf : putter_fit p) h e s s' r t0 rest0 :
  tabs_wf s -> stabs s = t0 :: rest0 -> is_recycled t0 = false ->
  put_on_head (p h e) s = Some (s', r) -> tabs_wf s' /\ ssize s' = ssize s /\ r <> SSpin.
Proof.
  unfold tabs_wf, put_on_head. intros Hwf Et Hlive. rewrite Et in *.
  destruct (p h e t0) as [t'| |] eqn:Ep; try discriminate.
  - intros [= <- <-]. cbn. split; [|split; [reflexivity|discriminate]].
    inversion Hwf; subst. constructor; [|assumption].
    rewrite (Hp _ _ _ _ Ep). apply twf_write; try assumption. eapply (proj1 Hf); eauto.
  - intros [= <- <-]. split; [now rewrite Et|split; [reflexivity|discriminate]].
Qed.

Lemma put_loop_wf p (Hp : putter p) (Hf : putter_fit p) h e s s' r t0 rest0 :
  tabs_wf s -> stabs s = t0 :: rest0 -> is_recycled t0 = false -> esize e < ssize s ->
  put_loop (p h e) s = (s', r) -> tabs_wf s' /\ ssize s' = ssize s /\ r <> SSpin.
Proof.
  intros Hwf Et Hlive Hsz. unfold put_loop.
  destruct (put_on_head (p h e) s) as [[s1 r1]|] eqn:E1.
  - intros [= <- <-]. eapply put_on_head_wf; eauto.
  - destruct (make_table_head s Hwf) as (t & rr & Est & Hoff & Hal & Hl).
    pose proof (make_table_wf s Hwf) as Hwf1.
    destruct (put_on_head (p h e) (make_table s)) as [[s1 r1]|] eqn:E2.
    + intros [= <- <-]. destruct (put_on_head_wf p Hp Hf h e _ _ _ _ _ Hwf1 Est Hl E2) as (A & B & C).
      split; [exact A|]. split; [now rewrite B, make_table_size|exact C].
    + exfalso. revert E2. unfold put_on_head. rewrite Est.
      destruct (p h e t) eqn:Ep; try discriminate.
      pose proof (proj2 Hf _ _ _ Ep). lia.
Qed.

Lemma delete_stale_wf size h ts : Forall (twf size) ts -> Forall (twf size) (delete_stale h ts).
Proof.
  destruct ts as [|t r]; cbn; intros H; [constructor|]. inversion H; subst. constructor; [assumption|].
  apply Forall_map. eapply Forall_impl; [|eassumption]. intros a Ha. now apply twf_delete.
Qed.

Theorem put_gen_wf p (Hp : putter p) (Hf : putter_fit p) h e s s' r :
  tabs_wf s -> s_put_gen p h e s = (s', r) -> tabs_wf s' /\ ssize s' = ssize s /\ r <> SSpin.
Proof.
  intros Hwf. unfold s_put_gen. destruct (N.leb_spec (ssize s) (esize e)) as [Hbig|Hsz].
  - intros [= <- <-]. split; [exact Hwf|split; [reflexivity|discriminate]].
  - set (s0 := if has_writable s then s else make_table s).
    assert (H0 : tabs_wf s0 /\ ssize s0 = ssize s /\ exists t r, stabs s0 = t :: r /\ is_recycled t = false).
    { unfold s0. destruct (has_writable s) eqn:Ew.
      - split; [exact Hwf|split; [reflexivity|]]. unfold has_writable in Ew.
        destruct (stabs s) as [|t rr]; [discriminate|]. exists t, rr. split; [reflexivity|].
        now apply negb_true_iff in Ew.
      - split; [now apply make_table_wf|split; [apply make_table_size|]].
        destruct (make_table_head s Hwf) as (t & rr & A & _ & _ & B). eauto. }
    destruct H0 as (Hwf0 & Hs0 & t & rr & Et & Hl).
    destruct (put_loop (p h e) s0) as [s1 r1] eqn:El.
    destruct (put_loop_wf p Hp Hf h e _ _ _ _ _ Hwf0 Et Hl ltac:(lia) El) as (A & B & C).
    destruct r1; intros [= <- <-]; try (split; [exact A|split; [lia|discriminate]]).
    + split; [|split; [cbn; lia|discriminate]]. unfold tabs_wf. cbn. apply delete_stale_wf. exact A.
    + congruence.
Qed.

Theorem put_gen_swf p (Hp : putter p) (Hf : putter_fit p) h e s s' r :
  swf s -> s_put_gen p h e s = (s', r) -> swf s'.
Proof.
  intros [Hw Hu] H. split; [eapply put_gen_wf; eauto|].
  destruct r; try (eapply put_gen_rejected_spec; eauto; discriminate).
  eapply put_gen_spec; eauto.
Qed.

Lemma on_newest_wf size h f ts :
  (forall t, twf size t -> twf size (f t)) -> Forall (twf size) ts -> Forall (twf size) (on_newest h f ts).
Proof.
  intros Hf. induction ts as [|t ts IH]; cbn; intros H; [constructor|]. inversion H; subst.
  destruct (t_check h t); constructor; auto.
Qed.

Lemma delete_wf h s : tabs_wf s -> tabs_wf (s_delete h s).
Proof. unfold tabs_wf, s_delete, s_on_newest. cbn. apply on_newest_wf. intros t. apply twf_delete. Qed.
Lemma get_wf h now s : tabs_wf s -> tabs_wf (fst (s_get h now s)).
Proof.
  unfold s_get. destruct (s_find h s); cbn; [|auto]. unfold tabs_wf, s_on_newest. cbn.
  apply on_newest_wf. intros t. apply twf_map_recs. apply touch_keeps.
Qed.
Lemma updatettl_wf h a b c s : tabs_wf s -> tabs_wf (fst (s_updatettl h a b c s)).
Proof.
  unfold s_updatettl. destruct (s_find h s); cbn; [|auto]. unfold tabs_wf, s_on_newest. cbn.
  apply on_newest_wf. intros t. apply twf_map_recs. apply upd_keeps.
Qed.

(* ------------------------------------------------------------------ compaction -------------- *)

Lemma find_by_coef_in c ts t : find_by_coef c ts = Some t -> In t ts.
Proof. unfold find_by_coef. intros H. now apply find_some in H as [H _]. Qed.

Lemma in_table_in_all s t r : In t (stabs s) -> In r (trecs t) -> In r (s_all s).
Proof. intros Ht Hr. unfold s_all. apply in_concat. exists (trecs t). split; [now apply in_map|exact Hr]. Qed.

(* rewriting a record into the store leaves the abstract map alone *)
Lemma putraw_same s h r s' res :
  swf s -> In r (s_all s) -> rh r = h -> s_putraw h (re r) s = (s', res) ->
  swf s' /\ (forall h', abs s' h' = abs s h') /\ ssize s' = ssize s.
Proof.
  intros [Hw Hu] Hin Hh Hp. split; [eapply put_gen_swf; eauto using putter_putraw, putter_fit_putraw; now split|].
  destruct (put_gen_wf _ putter_putraw putter_fit_putraw _ _ _ _ _ Hw Hp) as (_ & Hsz & _).
  split; [|exact Hsz]. destruct res.
  - destruct (put_gen_spec _ putter_putraw _ _ _ _ Hu Hp) as [_ Ha]. intros h'. rewrite Ha.
    destruct (N.eqb_spec h' h) as [->|]; [|reflexivity]. symmetry. apply (abs_some _ _ _ Hu). exists r. auto.
  - eapply put_gen_rejected_spec; eauto; discriminate.
  - eapply put_gen_rejected_spec; eauto; discriminate.
  - eapply put_gen_rejected_spec; eauto; discriminate.
  - eapply put_gen_rejected_spec; eauto; discriminate.
Qed.

Lemma evict_loop_spec c ord fuel : forall s,
  swf s -> swf (evict_loop c ord fuel s) /\ (forall h, abs (evict_loop c ord fuel s) h = abs s h) /\
           ssize (evict_loop c ord fuel s) = ssize s.
Proof.
  revert fuel. induction ord as [|h ord IH]; intros fuel s Hs; [destruct fuel; cbn; auto|].
  destruct fuel as [|fuel]; [cbn; auto|]. cbn [evict_loop].
  destruct (find_by_coef c (stabs s)) as [t|] eqn:Ef; [|auto].
  destruct (t_find h t) as [r|] eqn:Er; [|apply IH, Hs].
  destruct (s_putraw h (re r) s) as [s' res] eqn:Ep.
  apply find_by_coef_in in Ef. unfold t_find in Er. apply find_some in Er as [Hin Hh]. apply has_true in Hh.
  destruct (putraw_same s h r s' res Hs (in_table_in_all _ _ _ Ef Hin) Hh Ep) as (Hs' & Ha & Hz).
  destruct res; auto.
  destruct (IH fuel s' Hs') as (A & B & C). split; [exact A|]. split; [|lia]. intros h'. now rewrite B.
Qed.

Lemma reset_if_empty_spec c s :
  tabs_wf s -> tabs_wf (reset_if_empty c s) /\ s_all (reset_if_empty c s) = s_all s.
Proof.
  unfold tabs_wf, reset_if_empty, s_all. cbn. intros H. induction (stabs s) as [|t ts IH]; cbn; [auto|].
  inversion H as [|? ? Ht Hts]; subst. destruct (IH Hts) as [A B]. 
  destruct (negb (is_recycled t) && (tcoef t =? c) && (tinuse t =? 0)) eqn:E.
  - split; [constructor; [now apply twf_reset|exact A]|]. cbn. rewrite B.
    apply andb_true_iff in E as [_ E]. apply N.eqb_eq in E. now rewrite (twf_inuse_zero _ _ Ht E).
  - split; [constructor; assumption|]. now rewrite B.
Qed.

Lemma drop_recycled_spec size : forall ts n,
  Forall (twf size) ts ->
  Forall (twf size) (drop_recycled ts n) /\ concat (map trecs (drop_recycled ts n)) = concat (map trecs ts).
Proof.
  induction ts as [|t ts IH]; cbn; intros n H; [auto|]. inversion H as [|? ? Ht Hts]; subst.
  destruct (is_recycled t) eqn:E.
  - destruct (Nat.eqb n 1); [auto|]. destruct (IH (n - 1)%nat Hts) as [A B]. split; [exact A|].
    now rewrite B, (twf_recycled_empty _ _ Ht E).
  - destruct (IH n Hts) as [A B]. split; [constructor; assumption|]. cbn. now rewrite B.
Qed.

Theorem compaction_spec ord expired s :
  swf s ->
  swf (fst (s_compaction ord expired s)) /\ (forall h, abs (fst (s_compaction ord expired s)) h = abs s h) /\
  ssize (fst (s_compaction ord expired s)) = ssize s.
Proof.
  intros Hs. unfold s_compaction. destruct (find compactable (rev (tl (stabs s)))) as [t|]; cbn [fst].
  - unfold evict_table. destruct (evict_loop_spec (tcoef t) ord 1001 s Hs) as ([Hw Hu] & Ha & Hz).
    destruct (reset_if_empty_spec (tcoef t) _ Hw) as [Hw' Hall]. split; [|split].
    + split; [exact Hw'|]. unfold uniq. now rewrite Hall.
    + intros h. rewrite <- Ha. apply abs_perm; [now rewrite Hall|exact Hu].
    + exact Hz.
  - destruct expired; [|auto]. destruct Hs as [Hw Hu].
    destruct (drop_recycled_spec (ssize s) (rev (stabs s)) (length (stabs s)) (Forall_rev Hw)) as [A B].
    assert (Hp : Permutation (s_all (with_tabs s (rev (drop_recycled (rev (stabs s)) (length (stabs s)))))) (s_all s)).
    { unfold s_all. cbn [stabs with_tabs].
      etransitivity; [apply perm_concat_map; symmetry; apply Permutation_rev|]. rewrite B.
      apply perm_concat_map. symmetry. apply Permutation_rev. }
    split; [split|split].
    + unfold tabs_wf. cbn. now apply Forall_rev.
    + eapply uniq_perm; eauto.
    + now apply abs_perm.
    + reflexivity.
Qed.

(* ------------------------------------------------------------------ transfer ---------------- *)

Lemma first_live_spec : forall ts i j t,
  first_live ts i = Some (j, t) ->
  exists k, (j = i + k)%nat /\ nth_error ts k = Some t /\ is_recycled t = false.
Proof.
  induction ts as [|x ts IH]; cbn; intros i j t H; [discriminate|].
  destruct (is_recycled x) eqn:E.
  - destruct (IH _ _ _ H) as (k & -> & Hn & Hl). exists (S k). split; [lia|auto].
  - injection H as <- <-. exists 0%nat. split; [lia|auto].
Qed.

Lemma remove_nth_perm {A} : forall (l : list A) k x, nth_error l k = Some x -> Permutation l (x :: remove_nth k l).
Proof.
  induction l as [|y l IH]; intros [|k] x H; cbn in *; try discriminate.
  - injection H as ->. reflexivity.
  - rewrite (IH _ _ H) at 1. apply perm_swap.
Qed.

Lemma remove_nth_forall {A} (P : A -> Prop) : forall (l : list A) k, Forall P l -> Forall P (remove_nth k l).
Proof.
  induction l as [|y l IH]; intros [|k] H; cbn; try constructor; inversion H; subst; auto.
Qed.

(* Export hands out a live table of the store; Drop removes exactly its records *)
Theorem export_drop_spec s i t :
  swf s -> s_export s = Some (i, t) ->
  In t (stabs s) /\ is_recycled t = false /\
  Permutation (s_all s) (trecs t ++ s_all (s_drop i s)) /\ swf (s_drop i s) /\
  forall h, abs (s_drop i s) h = if existsb (has h) (trecs t) then None else abs s h.
Proof.
  intros [Hw Hu] He. unfold s_export in He. destruct (first_live_spec _ _ _ _ He) as (k & -> & Hn & Hl).
  cbn in Hn. pose proof (remove_nth_perm _ _ _ Hn) as Hp.
  assert (Hin : In t (stabs s)). { apply in_rev. eapply nth_error_In; eauto. }
  assert (Hall : Permutation (s_all s) (trecs t ++ s_all (s_drop (0 + k) s))).
  { unfold s_all, s_drop. cbn [stabs with_tabs].
    etransitivity; [apply perm_concat_map, Permutation_rev|].
    etransitivity; [apply perm_concat_map, Hp|]. cbn. apply Permutation_app_head.
    apply perm_concat_map, Permutation_rev. }
  assert (Hu' : uniq (s_drop (0 + k) s)).
  { unfold uniq, hkeys in *. eapply Permutation_NoDup in Hu; [|apply Permutation_map, Hall].
    rewrite map_app in Hu. eapply nodup_app_r; eauto. }
  split; [exact Hin|]. split; [exact Hl|]. split; [exact Hall|]. split.
  - split; [|exact Hu']. unfold tabs_wf, s_drop. cbn. apply Forall_rev, remove_nth_forall, Forall_rev, Hw.
  - intros h. destruct (existsb (has h) (trecs t)) eqn:Ex.
    + apply abs_none. intros r Hr Hh. apply existsb_exists in Ex as (x & Hx & Hhx). apply has_true in Hhx.
      unfold uniq, hkeys in Hu. eapply Permutation_NoDup in Hu; [|apply Permutation_map, Hall].
      rewrite map_app in Hu. eapply (nodup_app_disj _ _ h Hu).
      * rewrite <- Hhx. apply in_map, Hx.
      * rewrite <- Hh. apply in_map, Hr.
    + apply opt_ext. intros v. rewrite (abs_some _ _ _ Hu), (abs_some _ _ _ Hu'). unfold holds.
      split; intros (r & Hr & Hh & Hv); exists r; (split; [|auto]).
      * eapply Permutation_in; [symmetry; exact Hall|]. apply in_or_app. now right.
      * eapply Permutation_in in Hr; [|exact Hall]. apply in_app_or in Hr as [Hr|Hr]; [|exact Hr].
        exfalso. assert (existsb (has h) (trecs t) = true); [|congruence].
        apply existsb_exists. exists r. split; [exact Hr|now apply has_true].
Qed.

(* ------------------------------------------------------------------ Stats ------------------- *)

Lemma sumN_len ts : sumN (fun t => N.of_nat (length (trecs t))) ts = N.of_nat (length (concat (map trecs ts))).
Proof. unfold sumN. induction ts as [|t ts IH]; cbn; [reflexivity|]. rewrite app_length, IH. lia. Qed.

Lemma sumN_inuse size ts : Forall (twf size) ts -> sumN tinuse ts = sum_sizes (concat (map trecs ts)).
Proof.
  unfold sumN. induction ts as [|t ts IH]; cbn; intros H; [reflexivity|]. inversion H as [|? ? Ht Hts]; subst.
  rewrite sum_sizes_app, IH by assumption. now rewrite (twf_inuse _ _ Ht).
Qed.

Lemma sumN_acc size ts : Forall (twf size) ts ->
  sumN tinuse ts + sumN tgarb ts <= sumN talloc ts /\ sumN talloc ts = size * N.of_nat (length ts).
Proof.
  induction ts as [|t ts IH]; cbn [sumN fold_right length]; intros H; [lia|]. inversion H as [|? ? Ht Hts]; subst.
  destruct (IH Hts) as [A B]. unfold sumN in *.
  pose proof (twf_acc _ _ Ht). pose proof (twf_off _ _ Ht). pose proof (twf_alloc _ _ Ht). lia.
Qed.

(* Stats: the entry count is the length of a duplicate-free enumeration of exactly the present hkeys;
   in-use bytes are exactly the bytes of the present entries; inuse + garbage <= allocated = tables * size *)
Theorem stats_spec s :
  swf s ->
  st_len (s_stats s) = N.of_nat (length (hkeys (s_all s))) /\
  NoDup (hkeys (s_all s)) /\ (forall h, In h (hkeys (s_all s)) <-> abs s h <> None) /\
  st_inuse (s_stats s) = sum_sizes (s_all s) /\
  st_inuse (s_stats s) + st_garb (s_stats s) <= st_alloc (s_stats s) /\
  st_alloc (s_stats s) = ssize s * st_tables (s_stats s).
Proof.
  intros [Hw Hu]. unfold s_stats. cbn. split; [|split; [exact Hu|split; [|split; [|apply (sumN_acc _ _ Hw)]]]].
  - unfold hkeys. now rewrite map_length, sumN_len.
  - intros h. split.
    + intros Hin Hn. apply in_map_iff in Hin as (r & Hr & Hin). eapply (proj1 (abs_none s h) Hn); eauto.
    + intros Hn. destruct (abs s h) as [v|] eqn:E; [|congruence]. apply (abs_some _ _ _ Hu) in E as (r & Hin & Hh & _).
      rewrite <- Hh. apply in_map, Hin.
  - now apply (sumN_inuse (ssize s)).
Qed.

(* ------------------------------------------------------------------ initial states ---------- *)

Lemma swf_empty size : swf (empty_store size).
Proof. split; [constructor|constructor]. Qed.
Lemma swf_fork size : swf (fork_store size).
Proof. split; [constructor; [apply twf_new|constructor]|constructor]. Qed.
