(* Lemmas about Model/Routing.v (property C13). The property theorems are restated in Properties/C13.v. *)
From Coq Require Import List NArith ZArith Bool Arith Lia Sorting.Sorted Permutation.
From Coq Require Import ZifyN ZifyNat ZifyBool.
Require Import Olric.Gen.Consts Olric.Model.Routing.
Import ListNotations.
Local Open Scope N_scope.

(* ------------------------------------------------------------------------------------------------
   small facts *)
Lemma same_id_refl m : same_id m m = true.
Proof. unfold same_id. apply N.eqb_refl. Qed.
Lemma same_id_sym a b : same_id a b = same_id b a.
Proof. unfold same_id. apply N.eqb_sym. Qed.
Lemma same_id_true a b : same_id a b = true <-> m_id a = m_id b.
Proof. unfold same_id. apply N.eqb_eq. Qed.
Lemma same_id_false a b : same_id a b = false <-> m_id a <> m_id b.
Proof. unfold same_id. apply N.eqb_neq. Qed.

Definition NoDupIds (l : list member) : Prop := NoDup (map m_id l).

Lemma NoDupIds_filter f l : NoDupIds l -> NoDupIds (filter f l).
Proof.
  unfold NoDupIds. induction l as [|x l IH]; intros H; cbn; [constructor|].
  inversion H as [|? ? Hn Hd]; subst. destruct (f x); cbn.
  - constructor; [|now apply IH]. intros Hin. apply Hn.
    apply in_map_iff in Hin. destruct Hin as (y & Hy & Hin). apply filter_In in Hin.
    apply in_map_iff. exists y. tauto.
  - now apply IH.
Qed.

Lemma nodup_ids_spec l : nodup_ids l = true <-> NoDupIds l.
Proof.
  unfold NoDupIds. induction l as [|x l IH]; cbn.
  - split; [constructor|reflexivity].
  - rewrite andb_true_iff, negb_true_iff, IH. split.
    + intros [Hx Hl]. constructor; [|exact Hl]. intros Hin. apply in_map_iff in Hin.
      destruct Hin as (y & Hy & Hin).
      assert (existsb (same_id x) l = true) as E; [|congruence].
      apply existsb_exists. exists y. split; [exact Hin|]. apply same_id_true. congruence.
    + intros H. inversion H as [|? ? Hn Hd]; subst. split; [|exact Hd].
      destruct (existsb (same_id x) l) eqn:E; [|reflexivity]. exfalso. apply Hn.
      apply existsb_exists in E. destruct E as (y & Hin & Hy). apply same_id_true in Hy.
      apply in_map_iff. exists y. split; [congruence|exact Hin].
Qed.

(* ------------------------------------------------------------------------------------------------
   the pruning loop, as coded, is a filter *)
Lemma skipn_nth {A} (l : list A) : forall i x, nth_error l i = Some x -> skipn i l = x :: skipn (S i) l.
Proof.
  induction l as [|y l IH]; intros [|i] x H; cbn in *; try discriminate.
  - now injection H as ->.
  - now apply IH.
Qed.
Lemma firstn_nth {A} (l : list A) : forall i x, nth_error l i = Some x -> firstn (S i) l = firstn i l ++ [x].
Proof.
  induction l as [|y l IH]; intros [|i] x H; cbn in *; try discriminate.
  - now injection H as ->.
  - f_equal. now apply IH.
Qed.
Lemma remove_at_firstn {A} (l : list A) i : (i < length l)%nat -> firstn i (remove_at i l) = firstn i l.
Proof.
  intros H. unfold remove_at. rewrite firstn_app, firstn_firstn, Nat.min_id, firstn_length.
  replace (i - Nat.min i (length l))%nat with 0%nat by lia. cbn. now rewrite app_nil_r.
Qed.
Lemma remove_at_skipn {A} (l : list A) i : (i < length l)%nat -> skipn i (remove_at i l) = skipn (S i) l.
Proof.
  intros H. unfold remove_at. rewrite skipn_app, firstn_length.
  replace (i - Nat.min i (length l))%nat with 0%nat by lia. cbn [skipn].
  rewrite (skipn_all2 (firstn i l)) by (rewrite firstn_length; lia). reflexivity.
Qed.
Lemma remove_at_length {A} (l : list A) i : (i < length l)%nat -> length (remove_at i l) = (length l - 1)%nat.
Proof. intros H. unfold remove_at. rewrite app_length, firstn_length, skipn_length. lia. Qed.

Lemma prune_loop_filter keep : forall fuel i owners,
  (length owners - i <= fuel)%nat ->
  prune_loop fuel i keep owners = firstn i owners ++ filter keep (skipn i owners).
Proof.
  induction fuel as [|f IH]; intros i owners Hf.
  - cbn [prune_loop]. assert (length owners <= i)%nat as Hl by lia.
    rewrite (skipn_all2 owners) by exact Hl. rewrite firstn_all2 by exact Hl. cbn. now rewrite app_nil_r.
  - cbn [prune_loop]. destruct (nth_error owners i) as [o|] eqn:E.
    + assert (i < length owners)%nat as Hi by (apply nth_error_Some; congruence).
      rewrite (skipn_nth _ _ _ E). cbn [filter].
      destruct (keep o) eqn:K.
      * rewrite IH by lia. rewrite (firstn_nth _ _ _ E), <- app_assoc. reflexivity.
      * rewrite IH by (rewrite remove_at_length by exact Hi; lia).
        rewrite remove_at_firstn, remove_at_skipn by exact Hi. reflexivity.
    + apply nth_error_None in E. rewrite (skipn_all2 owners) by exact E. rewrite firstn_all2 by exact E.
      cbn. now rewrite app_nil_r.
Qed.

Lemma prune_filter keep owners : prune keep owners = filter keep owners.
Proof. unfold prune. rewrite prune_loop_filter by lia. reflexivity. Qed.

(* ------------------------------------------------------------------------------------------------
   move_to_end *)
Fixpoint rm_first (x : member) (l : list member) : list member :=
  match l with
  | [] => []
  | y :: r => if same_id y x then r else y :: rm_first x r
  end.

Lemma index_by_id_spec x : forall l k,
  match index_by_id x l k with
  | Some i => (k <= i)%nat /\ remove_at (i - k) l = rm_first x l
  | None => rm_first x l = l
  end.
Proof.
  induction l as [|y l IH]; intros k; cbn [index_by_id rm_first]; [reflexivity|].
  destruct (same_id y x) eqn:E.
  - split; [lia|]. rewrite Nat.sub_diag. reflexivity.
  - specialize (IH (S k)). destruct (index_by_id x l (S k)) as [i|].
    + destruct IH as [Hle Hr]. split; [lia|].
      replace (i - k)%nat with (S (i - S k)) by lia. unfold remove_at in *. cbn [firstn skipn app].
      f_equal. exact Hr.
    + f_equal. exact IH.
Qed.

Lemma move_to_end_rm owners x : move_to_end owners x = rm_first x owners ++ [x].
Proof.
  unfold move_to_end. pose proof (index_by_id_spec x owners 0) as H.
  destruct (index_by_id x owners 0) as [i|].
  - destruct H as [_ H]. rewrite Nat.sub_0_r in H. now rewrite H.
  - now rewrite H.
Qed.

Definition other_id (x y : member) : bool := negb (same_id y x).

Lemma filter_other_all x l : (forall z, In z l -> m_id z <> m_id x) -> filter (other_id x) l = l.
Proof.
  induction l as [|z l IH]; intros H; cbn; [reflexivity|].
  unfold other_id at 1. assert (same_id z x = false) as ->.
  { apply same_id_false. apply H. now left. }
  cbn. f_equal. apply IH. intros w Hw. apply H. now right.
Qed.

Lemma rm_first_filter x l : NoDupIds l -> rm_first x l = filter (other_id x) l.
Proof.
  unfold NoDupIds. induction l as [|y l IH]; intros H; cbn; [reflexivity|].
  inversion H as [|? ? Hn Hd]; subst. unfold other_id at 1. destruct (same_id y x) eqn:E; cbn.
  - symmetry. apply filter_other_all. intros z Hz Hid. apply same_id_true in E.
    apply Hn. apply in_map_iff. exists z. split; [congruence|exact Hz].
  - f_equal. now apply IH.
Qed.

Lemma move_to_end_filter owners x :
  NoDupIds owners -> move_to_end owners x = filter (other_id x) owners ++ [x].
Proof. intros H. rewrite move_to_end_rm, rm_first_filter by exact H. reflexivity. Qed.

Lemma NoDupIds_app_one l x : NoDupIds l -> (forall y, In y l -> m_id y <> m_id x) -> NoDupIds (l ++ [x]).
Proof.
  unfold NoDupIds. intros Hl Hx. rewrite map_app. cbn.
  assert (~ In (m_id x) (map m_id l)) as Hn.
  { intros Hin. apply in_map_iff in Hin. destruct Hin as (y & Hy & Hin). exact (Hx y Hin Hy). }
  clear Hx. induction (map m_id l) as [|a r IH]; cbn.
  - constructor; [intros []|constructor].
  - inversion Hl; subst. constructor.
    + rewrite in_app_iff. cbn. intros [H|[H|[]]]; [contradiction|]. apply Hn. cbn. now left.
    + apply IH; [assumption|]. intros H. apply Hn. cbn. now right.
Qed.

(* ------------------------------------------------------------------------------------------------
   discovery: GetMembers is a permutation of the live members sorted by birthdate *)
Lemma insert_birth_In x y l : In y (insert_birth x l) <-> y = x \/ In y l.
Proof.
  induction l as [|z l IH]; cbn.
  - intuition.
  - destruct (m_birth x <=? m_birth z)%Z; cbn; [intuition|]. rewrite IH. intuition.
Qed.

Lemma get_members_In live y : In y (get_members live) <-> In y live.
Proof.
  unfold get_members. induction live as [|x l IH]; cbn; [reflexivity|].
  rewrite insert_birth_In, IH. intuition.
Qed.

Definition birth_le (a b : member) : Prop := (m_birth a <= m_birth b)%Z.

Lemma insert_birth_sorted x l : StronglySorted birth_le l -> StronglySorted birth_le (insert_birth x l).
Proof.
  induction l as [|z l IH]; intros H; cbn.
  - constructor; constructor.
  - inversion H as [|? ? Hs Hall]; subst. destruct (Z.leb_spec (m_birth x) (m_birth z)).
    + constructor; [exact H|]. constructor; [exact H0|].
      eapply Forall_impl; [|exact Hall]. unfold birth_le. intros; lia.
    + constructor; [now apply IH|].
      apply Forall_forall. intros y Hy. apply insert_birth_In in Hy. destruct Hy as [->|Hy].
      * unfold birth_le. lia.
      * rewrite Forall_forall in Hall. now apply Hall.
Qed.

Lemma get_members_sorted live : StronglySorted birth_le (get_members live).
Proof.
  unfold get_members. induction live as [|x l IH]; cbn; [constructor|].
  now apply insert_birth_sorted.
Qed.

Lemma get_coordinator_oldest live c :
  get_coordinator live = Some c -> In c live /\ forall m, In m live -> (m_birth c <= m_birth m)%Z.
Proof.
  unfold get_coordinator. intros H. pose proof (get_members_sorted live) as Hs.
  destruct (get_members live) as [|x r] eqn:E; cbn in H; [discriminate|]. injection H as ->.
  split.
  - apply get_members_In. rewrite E. now left.
  - intros m Hm. apply (proj2 (get_members_In _ _)) in Hm. rewrite E in Hm. destruct Hm as [->|Hm]; [lia|].
    inversion Hs as [|? ? _ Hall]; subst. rewrite Forall_forall in Hall. exact (Hall _ Hm).
Qed.

Lemma get_coordinator_exists live : live <> [] -> exists c, get_coordinator live = Some c.
Proof.
  intros H. unfold get_coordinator. destruct (get_members live) as [|x r] eqn:E; [|now exists x].
  destruct live as [|y l]; [contradiction|]. exfalso.
  assert (In y (get_members (y :: l))) as Hy by (apply get_members_In; now left).
  rewrite E in Hy. exact Hy.
Qed.

(* two views with the same members (in any order) and pairwise distinct birthdates name the same coordinator *)
Lemma get_coordinator_view_independent l1 l2 :
  (forall x, In x l1 <-> In x l2) ->
  (forall a b, In a l1 -> In b l1 -> m_birth a = m_birth b -> a = b) ->
  get_coordinator l1 = get_coordinator l2.
Proof.
  intros Hsame Hinj.
  destruct (get_coordinator l1) as [c1|] eqn:E1; destruct (get_coordinator l2) as [c2|] eqn:E2.
  - destruct (get_coordinator_oldest _ _ E1) as [I1 M1]. destruct (get_coordinator_oldest _ _ E2) as [I2 M2].
    f_equal. apply Hinj; [exact I1|now apply Hsame|].
    pose proof (M1 c2 (proj2 (Hsame _) I2)). pose proof (M2 c1 (proj1 (Hsame _) I1)). lia.
  - exfalso. destruct (get_coordinator_oldest _ _ E1) as [I1 _]. apply Hsame in I1.
    destruct l2; [contradiction|]. destruct (get_coordinator_exists (m :: l2)) as [c Hc]; [discriminate|congruence].
  - exfalso. destruct (get_coordinator_oldest _ _ E2) as [I2 _]. apply Hsame in I2.
    destruct l1; [contradiction|]. destruct (get_coordinator_exists (m :: l1)) as [c Hc]; [discriminate|congruence].
  - reflexivity.
Qed.

Lemma find_by_name_spec live n c :
  find_by_name live n = Some c -> In c live /\ m_name c = n.
Proof.
  unfold find_by_name. intros H. apply find_some in H. destruct H as [Hin Hn].
  split; [now apply (proj1 (get_members_In _ _))|now apply N.eqb_eq].
Qed.

Lemma find_by_id_spec live i c :
  find_by_id live i = Some c -> In c live /\ m_id c = i.
Proof.
  unfold find_by_id. intros H. apply find_some in H. destruct H as [Hin Hn].
  split; [now apply (proj1 (get_members_In _ _))|now apply N.eqb_eq].
Qed.

(* with unique names, looking a live member up by its name finds that member *)
Lemma find_by_name_unique live m :
  NoDup (map m_name live) -> In m live -> find_by_name live (m_name m) = Some m.
Proof.
  intros Hnd Hin. unfold find_by_name.
  destruct (find (fun x => m_name x =? m_name m) (get_members live)) as [c|] eqn:E.
  - apply find_some in E. destruct E as [Hc Hn]. apply (proj1 (get_members_In _ _)) in Hc. apply N.eqb_eq in Hn.
    f_equal. clear -Hnd Hin Hc Hn. induction live as [|x l IH]; [contradiction|].
    cbn in Hnd. inversion Hnd as [|? ? Hx Hl]; subst. cbn in Hin, Hc.
    destruct Hin as [Hin|Hin]; destruct Hc as [Hc|Hc].
    + congruence.
    + exfalso. subst x. apply Hx. apply in_map_iff. exists c. split; [exact Hn|exact Hc].
    + exfalso. subst x. apply Hx. apply in_map_iff. exists m. split; [now symmetry|exact Hin].
    + now apply IH.
  - exfalso. apply (proj2 (get_members_In _ _)) in Hin.
    pose proof (find_none _ _ E _ Hin) as Hf. cbn in Hf. rewrite N.eqb_refl in Hf. discriminate.
Qed.

Lemma alive_same_id_live live o : alive_same_id live o = true -> live_by_id live o = true.
Proof.
  unfold alive_same_id, live_by_id. destruct (find_by_name live (m_name o)) as [c|] eqn:E; [|discriminate].
  intros Hid. destruct (find_by_name_spec _ _ _ E) as [Hin Hn].
  apply existsb_exists. exists c. split; [exact Hin|].
  rewrite same_id_sym, Hid. unfold same_name. now rewrite Hn, N.eqb_refl.
Qed.

Lemma alive_same_id_of_live live m :
  NoDup (map m_name live) -> In m live -> alive_same_id live m = true.
Proof.
  intros Hnd Hin. unfold alive_same_id. rewrite (find_by_name_unique _ _ Hnd Hin). apply same_id_refl.
Qed.

Lemma live_by_id_of_live live m : In m live -> live_by_id live m = true.
Proof.
  intros Hin. unfold live_by_id. apply existsb_exists. exists m. split; [exact Hin|].
  unfold same_name. now rewrite same_id_refl, N.eqb_refl.
Qed.

(* ------------------------------------------------------------------------------------------------
   distributePrimaryCopies *)
Definition kept (live : list member) (len : member -> option N) (prev : list member) : list member :=
  filter (nonempty_or_unknown len) (filter (alive_same_id live) prev).

Lemma distribute_primary_eq live len ro prev :
  NoDupIds prev ->
  distribute_primary live len ro prev = filter (other_id ro) (kept live len prev) ++ [ro].
Proof.
  intros Hnd. unfold distribute_primary, kept. destruct prev as [|x prev']; [reflexivity|].
  rewrite !prune_filter. apply move_to_end_filter. now apply NoDupIds_filter, NoDupIds_filter.
Qed.

(* without any hypothesis: the list ends with the ring's owner *)
Lemma distribute_primary_last live len ro prev :
  exists olds, distribute_primary live len ro prev = olds ++ [ro].
Proof.
  unfold distribute_primary. destruct prev as [|x prev']; [now exists []|].
  rewrite move_to_end_rm. eexists. reflexivity.
Qed.

Lemma last_opt_app_one {A} (l : list A) x : last_opt (l ++ [x]) = Some x.
Proof. unfold last_opt. now rewrite rev_app_distr. Qed.

Lemma distribute_primary_owner live len ro prev :
  last_opt (distribute_primary live len ro prev) = Some ro.
Proof. destruct (distribute_primary_last live len ro prev) as [olds ->]. apply last_opt_app_one. Qed.

Lemma other_id_filter_In x l y : In y (filter (other_id x) l) <-> In y l /\ m_id y <> m_id x.
Proof. rewrite filter_In. unfold other_id. rewrite negb_true_iff, same_id_false. reflexivity. Qed.

Theorem distribute_primary_valid live len ro prev :
  NoDupIds prev -> In ro live ->
  let out := distribute_primary live len ro prev in
  exists olds,
    out = olds ++ [ro] /\ NoDupIds out /\ live_by_id live ro = true /\
    (forall o, In o olds ->
       In o prev /\ live_by_id live o = true /\ nonempty_or_unknown len o = true /\ m_id o <> m_id ro) /\
    (forall o, In o out -> live_by_id live o = true).
Proof.
  intros Hnd Hro out. subst out. rewrite (distribute_primary_eq _ _ _ _ Hnd).
  set (olds := filter (other_id ro) (kept live len prev)).
  assert (forall o, In o olds ->
     In o prev /\ live_by_id live o = true /\ nonempty_or_unknown len o = true /\ m_id o <> m_id ro) as Holds.
  { intros o Ho. apply other_id_filter_In in Ho. destruct Ho as [Hk Hid]. unfold kept in Hk.
    apply filter_In in Hk. destruct Hk as [Hk Hne]. apply filter_In in Hk. destruct Hk as [Hp Hal].
    repeat split; try assumption. now apply alive_same_id_live. }
  exists olds. split; [reflexivity|]. split; [|split; [now apply live_by_id_of_live|split; [exact Holds|]]].
  - apply NoDupIds_app_one.
    + unfold olds, kept. now repeat apply NoDupIds_filter.
    + intros y Hy. now apply Holds.
  - intros o Ho. apply in_app_iff in Ho. destruct Ho as [Ho|[<-|[]]].
    + now apply Holds.
    + now apply live_by_id_of_live.
Qed.


Lemma NoDup_app_iff_local {A} (l1 l2 : list A) :
  NoDup l1 -> NoDup l2 -> (forall x, In x l1 -> In x l2 -> False) -> NoDup (l1 ++ l2).
Proof.
  induction l1 as [|a l1 IH]; intros H1 H2 Hd; cbn; [exact H2|].
  inversion H1; subst. constructor.
  - rewrite in_app_iff. intros [H|H]; [contradiction|]. apply (Hd a); [now left|exact H].
  - apply IH; [assumption|exact H2|]. intros x Hx1 Hx2. apply (Hd x); [now right|exact Hx2].
Qed.

(* ------------------------------------------------------------------------------------------------
   distributeBackups *)
Definition not_among (news : list member) (y : member) : bool := negb (existsb (same_id y) news).

Lemma not_among_cons n ns y : not_among (n :: ns) y = other_id n y && not_among ns y.
Proof. unfold not_among, other_id. cbn. now rewrite negb_orb. Qed.

Lemma filter_filter {A} (f g : A -> bool) l : filter f (filter g l) = filter (fun x => g x && f x) l.
Proof.
  induction l as [|x l IH]; cbn; [reflexivity|]. destruct (g x); cbn; [destruct (f x)|]; now rewrite IH.
Qed.

Lemma fold_move_to_end news : forall base,
  NoDupIds base -> NoDupIds news ->
  fold_left move_to_end news base = filter (not_among news) base ++ news.
Proof.
  induction news as [|n ns IH]; intros base Hb Hn; cbn [fold_left].
  - rewrite app_nil_r. symmetry. unfold not_among. cbn. clear. induction base; cbn; congruence.
  - rewrite (move_to_end_filter _ _ Hb).
    assert (NoDupIds (filter (other_id n) base ++ [n])) as Hb'.
    { apply NoDupIds_app_one; [now apply NoDupIds_filter|]. intros y Hy. now apply other_id_filter_In in Hy. }
    unfold NoDupIds in Hn. cbn in Hn. inversion Hn as [|? ? Hnn Hns]; subst.
    rewrite (IH _ Hb' Hns). rewrite filter_app, filter_filter. cbn [filter].
    assert (not_among ns n = true) as ->.
    { unfold not_among. apply negb_true_iff. destruct (existsb (same_id n) ns) eqn:E; [|reflexivity].
      exfalso. apply existsb_exists in E. destruct E as (z & Hz & Hid). apply same_id_true in Hid.
      apply Hnn. apply in_map_iff. exists z. split; [now symmetry|exact Hz]. }
    rewrite <- app_assoc. cbn [app]. f_equal.
    apply filter_ext. intros y. now rewrite not_among_cons.
Qed.

Lemma not_among_In news y : not_among news y = true <-> forall z, In z news -> m_id y <> m_id z.
Proof.
  unfold not_among. rewrite negb_true_iff. split.
  - intros H z Hz Hid. assert (existsb (same_id y) news = true); [|congruence].
    apply existsb_exists. exists z. split; [exact Hz|now apply same_id_true].
  - intros H. destruct (existsb (same_id y) news) eqn:E; [|reflexivity]. exfalso.
    apply existsb_exists in E. destruct E as (z & Hz & Hid). apply same_id_true in Hid. exact (H z Hz Hid).
Qed.

Lemma distribute_backups_eq R live len closest prev l :
  get_replica_owners closest R = Some l -> NoDupIds prev -> NoDupIds (tl l) ->
  distribute_backups R live len closest prev = filter (not_among (tl l)) (kept live len prev) ++ tl l.
Proof.
  intros Hg Hp Hn. unfold distribute_backups, kept. rewrite Hg. destruct prev as [|x prev']; [reflexivity|].
  rewrite !prune_filter. apply fold_move_to_end; [now apply NoDupIds_filter, NoDupIds_filter|exact Hn].
Qed.

(* the ring facts about GetClosestNForPartition for one partition; ring members = live members *)
Record closest_facts (live : list member) (ro : member) (closest : nat -> option (list member)) : Prop := {
  cf_some : forall n l, closest n = Some l ->
      length l = n /\ NoDupIds l /\ (forall x, In x l -> In x live) /\ (1 <= n -> hd_error l = Some ro)%nat;
  cf_none : forall n, (1 <= n)%nat -> (closest n = None <-> (length live < n)%nat)
}.

Lemma get_replica_owners_min live ro closest R :
  closest_facts live ro closest -> (1 <= R)%nat -> (1 <= length live)%nat ->
  exists l, get_replica_owners closest R = Some l /\ closest (Nat.min R (length live)) = Some l.
Proof.
  intros Hf HR HN. induction R as [|R IH]; [lia|]. cbn [get_replica_owners].
  destruct (closest (S R)) as [l|] eqn:E.
  - exists l. split; [reflexivity|].
    assert (~ (length live < S R)%nat) as Hle.
    { intros Hlt. apply (cf_none _ _ _ Hf (S R)) in Hlt; [congruence|lia]. }
    replace (Nat.min (S R) (length live)) with (S R) by lia. exact E.
  - apply (cf_none _ _ _ Hf (S R)) in E; [|lia].
    destruct R as [|R']; [lia|]. destruct IH as (l & Hg & Hc); [lia|].
    exists l. split; [exact Hg|]. replace (Nat.min (S (S R')) (length live)) with (Nat.min (S R') (length live)) by lia.
    exact Hc.
Qed.

Theorem distribute_backups_valid R live len ro closest prev :
  NoDupIds prev -> In ro live -> closest_facts live ro closest -> (1 <= R)%nat ->
  let out := distribute_backups R live len closest prev in
  exists l extras,
    closest (Nat.min R (length live)) = Some l /\
    out = extras ++ tl l /\ length (tl l) = backup_count R (length live) /\ NoDupIds out /\
    (forall b, In b (tl l) -> In b live /\ live_by_id live b = true /\ m_id b <> m_id ro) /\
    (forall b, In b extras ->
       In b prev /\ live_by_id live b = true /\ nonempty_or_unknown len b = true /\ not_among (tl l) b = true) /\
    (forall b, In b out -> live_by_id live b = true).
Proof.
  intros Hnd Hro Hf HR out. subst out.
  assert (1 <= length live)%nat as HN by (destruct live; [contradiction|cbn; lia]).
  destruct (get_replica_owners_min _ _ _ _ Hf HR HN) as (l & Hg & Hc).
  destruct (cf_some _ _ _ Hf _ _ Hc) as (Hlen & Hndl & Hlive & Hhd).
  assert (hd_error l = Some ro) as Hhd' by (apply Hhd; lia).
  destruct l as [|h news]; [discriminate|]. cbn in Hhd'. injection Hhd' as ->. cbn [tl] in *.
  assert (NoDupIds news) as Hnn by (unfold NoDupIds in *; cbn in Hndl; now inversion Hndl).
  rewrite (distribute_backups_eq _ _ _ _ _ _ Hg Hnd Hnn). cbn [tl].
  set (extras := filter (not_among news) (kept live len prev)).
  assert (forall b, In b news -> In b live /\ live_by_id live b = true /\ m_id b <> m_id ro) as Hnews.
  { intros b Hb. assert (In b live) as Hbl by (apply Hlive; now right).
    repeat split; [exact Hbl|now apply live_by_id_of_live|].
    intros Hid. unfold NoDupIds in Hndl. cbn in Hndl. inversion Hndl as [|? ? Hx _]; subst. apply Hx.
    apply in_map_iff. exists b. split; [exact Hid|exact Hb]. }
  assert (forall b, In b extras ->
     In b prev /\ live_by_id live b = true /\ nonempty_or_unknown len b = true /\ not_among news b = true) as Hex.
  { intros b Hb. apply filter_In in Hb. destruct Hb as [Hk Hna]. unfold kept in Hk.
    apply filter_In in Hk. destruct Hk as [Hk Hne]. apply filter_In in Hk. destruct Hk as [Hp Hal].
    repeat split; try assumption. now apply alive_same_id_live. }
  exists (ro :: news), extras. cbn [tl]. split; [exact Hc|]. split; [reflexivity|]. split.
  { cbn in Hlen. unfold backup_count. lia. }
  split; [|split; [exact Hnews|split; [exact Hex|]]].
  - unfold NoDupIds. rewrite map_app. apply NoDup_app_iff_local.
    + unfold extras, kept. now repeat apply NoDupIds_filter.
    + exact Hnn.
    + intros i Hi1 Hi2. apply in_map_iff in Hi1. destruct Hi1 as (b & Hb & Hbin).
      apply in_map_iff in Hi2. destruct Hi2 as (z & Hz & Hzin).
      destruct (Hex _ Hbin) as (_ & _ & _ & Hna). rewrite not_among_In in Hna. apply (Hna z Hzin). congruence.
  - intros b Hb. apply in_app_iff in Hb. destruct Hb as [Hb|Hb]; [now apply Hex|now apply Hnews].
Qed.

(* ------------------------------------------------------------------------------------------------
   fixpoint: settled data => minimal lists; recomputation changes nothing *)
Lemma filter_nil_iff {A} (f : A -> bool) l : (forall x, In x l -> f x = false) -> filter f l = [].
Proof.
  induction l as [|x l IH]; intros H; cbn; [reflexivity|]. rewrite (H x) by now left.
  apply IH. intros y Hy. apply H. now right.
Qed.

Lemma filter_all_true {A} (f : A -> bool) l : (forall x, In x l -> f x = true) -> filter f l = l.
Proof.
  induction l as [|x l IH]; intros H; cbn; [reflexivity|]. rewrite (H x) by now left.
  f_equal. apply IH. intros y Hy. apply H. now right.
Qed.

(* the moves completed: every listed member other than the ring's owner answered "0 keys" *)
Theorem distribute_primary_settled live len ro prev :
  NoDupIds prev ->
  (forall o, In o prev -> m_id o <> m_id ro -> len o = Some 0) ->
  distribute_primary live len ro prev = [ro].
Proof.
  intros Hnd H0. rewrite (distribute_primary_eq _ _ _ _ Hnd).
  rewrite filter_nil_iff; [reflexivity|].
  intros o Ho. unfold kept in Ho. apply filter_In in Ho. destruct Ho as [Ho Hne].
  apply filter_In in Ho. destruct Ho as [Hp _]. unfold other_id. apply negb_false_iff.
  destruct (same_id o ro) eqn:E; [reflexivity|]. exfalso. apply same_id_false in E.
  unfold nonempty_or_unknown in Hne. rewrite (H0 _ Hp E) in Hne. cbn in Hne. discriminate.
Qed.

Theorem distribute_primary_idempotent live len ro prev :
  NoDupIds prev -> NoDup (map m_name live) -> In ro live ->
  let out := distribute_primary live len ro prev in
  distribute_primary live len ro out = out.
Proof.
  intros Hnd Hnames Hro out.
  destruct (distribute_primary_valid live len ro prev Hnd Hro) as (olds & Hout & Hndo & _ & Holds & _).
  fold out in Hout, Hndo. rewrite (distribute_primary_eq _ _ _ _ Hndo). rewrite Hout. f_equal.
  unfold kept. rewrite !filter_app.
  assert (filter (alive_same_id live) olds = olds) as ->.
  { apply filter_all_true. intros o Ho. destruct (Holds _ Ho) as (Hp & _ & _ & _).
    (* o survived the first pruning of prev *)
    assert (In o out) as Hoo by (rewrite Hout; apply in_app_iff; now left).
    unfold out in Hoo. rewrite (distribute_primary_eq _ _ _ _ Hnd) in Hoo. apply in_app_iff in Hoo.
    destruct Hoo as [Hoo|[<-|[]]].
    - apply filter_In in Hoo. destruct Hoo as [Hk _]. unfold kept in Hk. apply filter_In in Hk.
      destruct Hk as [Hk _]. apply filter_In in Hk. tauto.
    - now apply alive_same_id_of_live. }
  assert (filter (nonempty_or_unknown len) olds = olds) as ->.
  { apply filter_all_true. intros o Ho. now apply Holds. }
  assert (filter (other_id ro) olds = olds) as ->.
  { apply filter_all_true. intros o Ho. unfold other_id. apply negb_true_iff, same_id_false. now apply Holds. }
  cbn [filter]. rewrite (alive_same_id_of_live _ _ Hnames Hro). cbn [filter].
  destruct (nonempty_or_unknown len ro); cbn [filter]; [|now rewrite app_nil_r].
  unfold other_id at 1. rewrite same_id_refl. cbn. now rewrite app_nil_r.
Qed.

Theorem distribute_backups_settled R live len ro closest prev :
  NoDupIds prev -> In ro live -> closest_facts live ro closest -> (1 <= R)%nat ->
  (forall l b, closest (Nat.min R (length live)) = Some l -> In b prev -> not_among (tl l) b = true -> len b = Some 0) ->
  exists l, closest (Nat.min R (length live)) = Some l /\
            distribute_backups R live len closest prev = tl l /\
            length (tl l) = backup_count R (length live).
Proof.
  intros Hnd Hro Hf HR H0.
  destruct (distribute_backups_valid R live len ro closest prev Hnd Hro Hf HR) as (l & extras & Hc & Hout & Hlen & _ & _ & Hex & _).
  exists l. split; [exact Hc|]. split; [|exact Hlen]. rewrite Hout.
  destruct extras as [|b ex]; [reflexivity|]. exfalso.
  destruct (Hex b (or_introl eq_refl)) as (Hp & _ & Hne & Hna).
  unfold nonempty_or_unknown in Hne. rewrite (H0 l b Hc Hp Hna) in Hne. cbn in Hne. discriminate.
Qed.

Theorem distribute_backups_idempotent R live len ro closest prev :
  NoDupIds prev -> NoDup (map m_name live) -> In ro live -> closest_facts live ro closest -> (1 <= R)%nat ->
  let out := distribute_backups R live len closest prev in
  distribute_backups R live len closest out = out.
Proof.
  intros Hnd Hnames Hro Hf HR out.
  destruct (distribute_backups_valid R live len ro closest prev Hnd Hro Hf HR)
    as (l & extras & Hc & Hout & _ & Hndo & Hnews & Hex & _).
  fold out in Hout, Hndo.
  assert (1 <= length live)%nat as HN by (destruct live; [contradiction|cbn; lia]).
  destruct (get_replica_owners_min _ _ _ _ Hf HR HN) as (l' & Hg & Hc'). rewrite Hc in Hc'. injection Hc' as <-.
  assert (NoDupIds (tl l)) as Hnn.
  { destruct (cf_some _ _ _ Hf _ _ Hc) as (_ & Hndl & _ & _). destruct l; [constructor|].
    unfold NoDupIds in *. cbn in *. now inversion Hndl. }
  rewrite (distribute_backups_eq _ _ _ _ _ _ Hg Hndo Hnn). rewrite Hout. f_equal.
  unfold kept. rewrite !filter_app.
  assert (forall b, In b extras -> alive_same_id live b = true) as Hal.
  { intros b Hb. assert (In b out) as Hbo by (rewrite Hout; apply in_app_iff; now left).
    unfold out in Hbo. rewrite (distribute_backups_eq _ _ _ _ _ _ Hg Hnd Hnn) in Hbo. apply in_app_iff in Hbo.
    destruct Hbo as [Hbo|Hbo].
    - apply filter_In in Hbo. destruct Hbo as [Hk _]. unfold kept in Hk. apply filter_In in Hk.
      destruct Hk as [Hk _]. apply filter_In in Hk. tauto.
    - apply alive_same_id_of_live; [exact Hnames|]. now apply Hnews. }
  rewrite (filter_all_true _ extras Hal).
  rewrite (filter_all_true (nonempty_or_unknown len) extras) by (intros b Hb; now apply Hex).
  rewrite (filter_all_true (not_among (tl l)) extras) by (intros b Hb; now apply Hex).
  rewrite <- (app_nil_r extras) at 2. f_equal.
  apply filter_nil_iff. intros b Hb. apply filter_In in Hb. destruct Hb as [Hb _].
  apply filter_In in Hb. destruct Hb as [Hb _].
  unfold not_among. apply negb_false_iff. apply existsb_exists. exists b. split; [exact Hb|apply same_id_refl].
Qed.

(* ------------------------------------------------------------------------------------------------
   the whole table *)
Lemma fill_from_map e prev : forall n s,
  fill_from e prev s n = map (fun p => distribute_route e (N.of_nat p) (route_of prev p)) (seq s n).
Proof. induction n as [|n IH]; intros s; cbn; [reflexivity|]. now rewrite IH. Qed.

Lemma fill_length e P prev : length (fill_routing_table e P prev) = P.
Proof. unfold fill_routing_table. now rewrite fill_from_map, map_length, seq_length. Qed.

Lemma fill_route e P prev p : (p < P)%nat ->
  route_of (fill_routing_table e P prev) p = distribute_route e (N.of_nat p) (route_of prev p).
Proof.
  intros Hp. unfold fill_routing_table, route_of at 1. rewrite fill_from_map.
  rewrite (nth_indep _ _ (distribute_route e (N.of_nat 0) (route_of prev 0))) by (now rewrite map_length, seq_length).
  change (distribute_route e (N.of_nat 0) (route_of prev 0)) with ((fun p => distribute_route e (N.of_nat p) (route_of prev p)) 0%nat).
  rewrite map_nth, seq_nth by exact Hp. reflexivity.
Qed.

(* well-formed previous table: no duplicate ids inside a list *)
Definition wf_table (t : table) : Prop :=
  forall p, NoDupIds (r_owners (route_of t p)) /\ NoDupIds (r_backups (route_of t p)).

Lemma wf_table_nil_route : NoDupIds (r_owners empty_route) /\ NoDupIds (r_backups empty_route).
Proof. split; constructor. Qed.

(* the ring facts for every partition of the table *)
Record ring_facts (e : env) (P : nat) : Prop := {
  rf_names : NoDup (map m_name (e_live e));
  rf_R : (1 <= e_R e)%nat;
  rf_owner : forall p, (p < P)%nat -> In (e_ring_owner e (N.of_nat p)) (e_live e);
  rf_closest : forall p, (p < P)%nat ->
      closest_facts (e_live e) (e_ring_owner e (N.of_nat p)) (e_ring_closest e (N.of_nat p))
}.

Theorem fill_idempotent e P prev :
  ring_facts e P -> wf_table prev ->
  fill_routing_table e P (fill_routing_table e P prev) = fill_routing_table e P prev.
Proof.
  intros Hf Hwf. unfold fill_routing_table at 1. rewrite fill_from_map.
  unfold fill_routing_table at 2. rewrite fill_from_map.
  apply map_ext_in. intros p Hp. apply in_seq in Hp.
  rewrite fill_route by lia. destruct (Hwf p) as [Ho Hb].
  unfold distribute_route. cbn [r_owners r_backups]. f_equal.
  - apply distribute_primary_idempotent; [exact Ho|apply (rf_names _ _ Hf)|apply (rf_owner _ _ Hf); lia].
  - destruct (N.to_nat minimum_replica_count <? e_R e)%nat; [|reflexivity].
    apply (distribute_backups_idempotent _ _ _ (e_ring_owner e (N.of_nat p)));
      [exact Hb|apply (rf_names _ _ Hf)|apply (rf_owner _ _ Hf); lia|apply (rf_closest _ _ Hf); lia|apply (rf_R _ _ Hf)].
Qed.

(* ------------------------------------------------------------------------------------------------
   balance: the primaries of a computed table are exactly the ring's owners *)
Lemma primaries_of_fill e P prev :
  primaries_of (fill_routing_table e P prev) = map (fun p => e_ring_owner e (N.of_nat p)) (seq 0 P).
Proof.
  unfold fill_routing_table. rewrite fill_from_map. generalize 0%nat as s.
  induction P as [|P IH]; intros s; cbn; [reflexivity|].
  unfold primaries_of in *. cbn [flat_map]. cbn [distribute_route r_owners].
  rewrite distribute_primary_owner. cbn [app]. f_equal. apply IH.
Qed.

Theorem fill_balanced e P prev load_num load_den :
  (forall m, In m (e_live e) ->
     N.of_nat (length (filter (same_id m) (map (fun p => e_ring_owner e (N.of_nat p)) (seq 0 P))))
     <= load_bound (N.of_nat P) (N.of_nat (length (e_live e))) load_num load_den) ->
  balanced (e_live e) load_num load_den (fill_routing_table e P prev) = true.
Proof.
  intros H. unfold balanced. rewrite fill_length. apply forallb_forall. intros m Hm.
  apply N.leb_le. unfold owned_count. rewrite primaries_of_fill. now apply H.
Qed.

(* ------------------------------------------------------------------------------------------------
   the push: who accepts what *)
Lemma verify_spec view sid t P :
  verify_routing_table view sid t P = true ->
  exists c, get_coordinator view = Some c /\ m_id c = sid /\ In c view /\ length t = P.
Proof.
  unfold verify_routing_table. destruct (find_by_id view sid) as [c|] eqn:E; [|discriminate].
  destruct (get_coordinator view) as [mine|] eqn:G; [|discriminate].
  rewrite andb_true_iff. intros [Hid Hlen]. apply same_id_true in Hid. apply Nat.eqb_eq in Hlen.
  destruct (find_by_id_spec _ _ _ E) as [_ Hc]. exists mine. repeat split; try congruence.
  now destruct (get_coordinator_oldest _ _ G).
Qed.

Lemma receive_spec P sid t nd nd' ok :
  receive P sid t nd = (nd', ok) ->
  (ok = true /\ n_table nd' = t /\ n_self nd' = n_self nd /\ n_view nd' = n_view nd /\
     exists c, get_coordinator (n_view nd) = Some c /\ m_id c = sid /\ length t = P)
  \/ (ok = false /\ nd' = nd).
Proof.
  unfold receive. destruct (verify_routing_table (n_view nd) sid t P) eqn:V; intros [= <- <-].
  - left. destruct (verify_spec _ _ _ _ V) as (c & Hc & Hid & _ & Hl). cbn. repeat split; trivial. now exists c.
  - now right.
Qed.

Theorem push_all_agreement P sid t nodes nodes' :
  push_all P sid t nodes = (nodes', true) ->
  length nodes' = length nodes /\
  (forall nd', In nd' nodes' -> n_table nd' = t) /\
  (forall nd, In nd nodes -> exists c, get_coordinator (n_view nd) = Some c /\ m_id c = sid).
Proof.
  unfold push_all. intros [= <- Hall]. rewrite !map_length. split; [reflexivity|].
  rewrite forallb_forall in Hall. split.
  - intros nd' Hin. apply in_map_iff in Hin. destruct Hin as ([x ok] & <- & Hin). cbn.
    pose proof (Hall _ Hin) as Hok. cbn in Hok. subst ok.
    apply in_map_iff in Hin. destruct Hin as (nd & Hr & _).
    destruct (receive_spec _ _ _ _ _ _ Hr) as [(_ & Ht & _)|[? _]]; [exact Ht|discriminate].
  - intros nd Hin. destruct (receive P sid t nd) as [x ok] eqn:Hr.
    assert (In (x, ok) (map (receive P sid t) nodes)) as Hin' by (apply in_map_iff; now exists nd).
    pose proof (Hall _ Hin') as Hok. cbn in Hok. subst ok.
    destruct (receive_spec _ _ _ _ _ _ Hr) as [(_ & _ & _ & _ & c & Hc & Hid & _)|[? _]]; [now exists c|discriminate].
Qed.

(* a node that does not see the sender as ITS coordinator keeps its table *)
Theorem receive_rejects P sid t nd c :
  get_coordinator (n_view nd) = Some c -> m_id c <> sid -> receive P sid t nd = (nd, false).
Proof.
  intros Hc Hne. unfold receive. destruct (verify_routing_table (n_view nd) sid t P) eqn:V; [|reflexivity].
  exfalso. destruct (verify_spec _ _ _ _ V) as (c' & Hc' & Hid & _). congruence.
Qed.

(* only the member every node considers coordinator can run updateRouting and have it accepted *)
Lemma is_coordinator_spec view self c :
  get_coordinator view = Some c -> (is_coordinator view self = true <-> m_id c = m_id self).
Proof. intros H. unfold is_coordinator. rewrite H. apply N.eqb_eq. Qed.

(* left-over reports of members that are already listed where they hold data change nothing *)
Lemma update_nth_id {A} (f : A -> A) : forall (l : list A) n,
  (forall r, nth_error l n = Some r -> f r = r) -> update_nth n f l = l.
Proof.
  induction l as [|x l IH]; intros [|n] H; cbn; try reflexivity.
  - f_equal. now apply H.
  - f_equal. apply IH. exact H.
Qed.

Lemma route_of_nth_error (t : table) p r : nth_error t p = Some r -> route_of t p = r.
Proof. intros H. unfold route_of. now apply nth_error_nth. Qed.

Lemma fold_left_id {A B} (f : A -> B -> A) (l : list B) (a : A) :
  (forall b, In b l -> f a b = a) -> fold_left f l a = a.
Proof.
  induction l as [|b l IH]; intros H; cbn; [reflexivity|]. rewrite (H b) by now left.
  apply IH. intros c Hc. apply H. now right.
Qed.

Theorem process_report_listed t r :
  (forall p, In p (rp_parts r) -> listed (rp_member r) (r_owners (route_of t p)) = true) ->
  (forall p, In p (rp_backups r) -> listed (rp_member r) (r_backups (route_of t p)) = true) ->
  process_report t r = t.
Proof.
  intros Hp Hb. unfold process_report.
  rewrite (fold_left_id (ensure_primary (rp_member r))).
  - apply fold_left_id. intros p Hin. unfold ensure_backup. apply update_nth_id. intros x Hx.
    pose proof (route_of_nth_error _ _ _ Hx) as Hr. subst x.
    unfold ensure_ownership. rewrite (Hb p Hin). now destruct (route_of t p).
  - intros p Hin. unfold ensure_primary. apply update_nth_id. intros x Hx.
    pose proof (route_of_nth_error _ _ _ Hx) as Hr. subst x.
    unfold ensure_ownership. rewrite (Hp p Hin). now destruct (route_of t p).
Qed.

Theorem process_reports_listed t rs :
  (forall r, In r rs ->
     (forall p, In p (rp_parts r) -> listed (rp_member r) (r_owners (route_of t p)) = true) /\
     (forall p, In p (rp_backups r) -> listed (rp_member r) (r_backups (route_of t p)) = true)) ->
  process_reports t rs = t.
Proof.
  intros H. unfold process_reports. apply fold_left_id. intros r Hr.
  destruct (H r Hr). now apply process_report_listed.
Qed.

(* ------------------------------------------------------------------------------------------------
   key -> partition -> owner *)
Theorem same_partition {A} (fetched : list A) P hkey :
  length fetched = P -> smart_pick_part (client_partition_count fetched) hkey = partition_id_by_hkey (N.of_nat P) hkey.
Proof. intros <-. reflexivity. Qed.

Lemma last_opt_map {A B} (f : A -> B) l : last_opt (map f l) = option_map f (last_opt l).
Proof. unfold last_opt. rewrite <- map_rev. now destruct (rev l). Qed.

Theorem client_owner_agrees (t : table) p :
  client_owner_of (map client_route t) p = option_map m_name (owner_of t p).
Proof.
  unfold client_owner_of, owner_of, route_of.
  change ([], []) with (client_route empty_route). rewrite map_nth. cbn [client_route fst].
  apply last_opt_map.
Qed.

(* ------------------------------------------------------------------------------------------------
   the computed table satisfies the executable predicate valid_table (all calls answered) *)
Lemma forallb_true {A} (f : A -> bool) l : (forall x, In x l -> f x = true) -> forallb f l = true.
Proof. intros H. now apply forallb_forall. Qed.

Lemma valid_routes_spec live R holds : forall t s,
  (forall i r, nth_error t i = Some r -> valid_route live R holds (N.of_nat (s + i)) r = true) ->
  valid_routes live R holds s t = true.
Proof.
  induction t as [|r t IH]; intros s H; cbn; [reflexivity|]. apply andb_true_iff. split.
  - specialize (H 0%nat r eq_refl). now rewrite Nat.add_0_r in H.
  - apply IH. intros i r' Hi. specialize (H (S i) r' Hi). now rewrite Nat.add_succ_r in H.
Qed.

Theorem fill_valid_routes e P prev holds :
  ring_facts e P -> wf_table prev ->
  (* every LengthOfPart call was answered, and the answer is what the member holds *)
  (forall k p m, exists n, e_len e k p m = Some n /\ holds k p m = negb (n =? 0)) ->
  forall p, (p < P)%nat ->
     valid_route (e_live e) (e_R e) holds (N.of_nat p) (route_of (fill_routing_table e P prev) p) = true.
Proof.
  intros Hf Hwf Hlen p Hp.
  rewrite fill_route by exact Hp. destruct (Hwf p) as [Hno Hnb].
  pose proof (rf_owner _ _ Hf p Hp) as Hro. set (ro := e_ring_owner e (N.of_nat p)) in *.
  unfold valid_route, distribute_route. cbn [r_owners r_backups].
  destruct (distribute_primary_valid (e_live e) (e_len e Primary (N.of_nat p)) ro _ Hno Hro)
    as (olds & Hout & Hndo & Hlro & Holds & _).
  fold ro. rewrite Hout at 1. rewrite rev_app_distr. cbn [rev app].
  assert (forall k m, nonempty_or_unknown (e_len e k (N.of_nat p)) m = true -> holds k (N.of_nat p) m = true) as Hh.
  { intros k m. unfold nonempty_or_unknown. destruct (Hlen k (N.of_nat p) m) as (n & -> & ->). trivial. }
  assert (forallb (fun o => live_by_id (e_live e) o && holds Primary (N.of_nat p) o) (rev olds) = true) as Hold.
  { apply forallb_true. intros o Ho. apply in_rev in Ho. destruct (Holds _ Ho) as (_ & Hl & Hne & _). rewrite Hl. cbn. now apply Hh. }
  destruct (Nat.ltb_spec (N.to_nat minimum_replica_count) (e_R e)) as [HR|HR].
  - destruct (distribute_backups_valid (e_R e) (e_live e) (e_len e Backup (N.of_nat p)) ro _ _ Hnb Hro (rf_closest _ _ Hf p Hp) (rf_R _ _ Hf))
      as (l & extras & Hc & Hbout & Hblen & Hbnd & Hnews & Hex & _).
    repeat (apply andb_true_iff; split).
    + exact Hlro.
    + now apply nodup_ids_spec.
    + now apply nodup_ids_spec.
    + exact Hold.
    + apply Nat.leb_le. rewrite Hbout, app_length, Hblen. lia.
    + rewrite Hbout. rewrite app_length, Hblen.
      replace (length extras + backup_count (e_R e) (length (e_live e)) - backup_count (e_R e) (length (e_live e)))%nat
        with (length extras) by lia.
      rewrite skipn_app, Nat.sub_diag, skipn_all. cbn [skipn app].
      apply forallb_true. intros b Hb. destruct (Hnews _ Hb) as (_ & Hl & Hid). rewrite Hl. cbn.
      apply negb_true_iff. now apply same_id_false.
    + rewrite Hbout. rewrite app_length, Hblen.
      replace (length extras + backup_count (e_R e) (length (e_live e)) - backup_count (e_R e) (length (e_live e)))%nat
        with (length extras) by lia.
      rewrite firstn_app, Nat.sub_diag, firstn_all. cbn [firstn]. rewrite app_nil_r.
      apply forallb_true. intros b Hb. destruct (Hex _ Hb) as (_ & Hl & Hne & _). rewrite Hl. cbn. now apply Hh.
  - (* ReplicaCount = MinimumReplicaCount: no backups at all, and none are due *)
    pose proof (rf_R _ _ Hf) as H1.
    assert (e_R e = 1%nat) as HR1 by (change (N.to_nat minimum_replica_count) with 1%nat in HR; lia).
    assert (backup_count (e_R e) (length (e_live e)) = 0%nat) as Hb0 by (unfold backup_count; lia).
    rewrite Hb0. cbn [length Nat.sub skipn firstn forallb nodup_ids Nat.leb].
    rewrite Hlro, Hold. rewrite (proj2 (nodup_ids_spec _) Hndo). reflexivity.
Qed.

Definition load_fact (e : env) (P : nat) (load_num load_den : N) : Prop :=
  forall m, In m (e_live e) ->
     N.of_nat (length (filter (same_id m) (map (fun p => e_ring_owner e (N.of_nat p)) (seq 0 P))))
     <= load_bound (N.of_nat P) (N.of_nat (length (e_live e))) load_num load_den.

Theorem fill_valid_table e P prev holds load_num load_den :
  ring_facts e P -> load_fact e P load_num load_den -> wf_table prev ->
  (forall k p m, exists n, e_len e k p m = Some n /\ holds k p m = negb (n =? 0)) ->
  valid_table (e_live e) (e_R e) P load_num load_den holds (fill_routing_table e P prev) = true.
Proof.
  intros Hf Hl Hwf Hlen. unfold valid_table. rewrite fill_length, Nat.eqb_refl. cbn [andb].
  apply andb_true_iff. split; [|now apply fill_balanced].
  apply valid_routes_spec. intros i r Hi. cbn [Nat.add].
  assert (i < P)%nat as HiP.
  { rewrite <- (fill_length e P prev). apply nth_error_Some. congruence. }
  rewrite <- (route_of_nth_error _ _ _ Hi). now apply fill_valid_routes.
Qed.

(* ------------------------------------------------------------------------------------------------
   table-level statements of the partition-level theorems *)
Theorem fill_distribute_valid e P prev p :
  ring_facts e P -> wf_table prev -> (p < P)%nat ->
  let r := route_of (fill_routing_table e P prev) p in
  let ro := e_ring_owner e (N.of_nat p) in
  (exists olds,
     r_owners r = olds ++ [ro] /\ NoDupIds (r_owners r) /\ live_by_id (e_live e) ro = true /\
     forall o, In o olds ->
       In o (r_owners (route_of prev p)) /\ live_by_id (e_live e) o = true /\
       nonempty_or_unknown (e_len e Primary (N.of_nat p)) o = true /\ m_id o <> m_id ro) /\
  ((N.to_nat minimum_replica_count < e_R e)%nat ->
   exists l extras,
     e_ring_closest e (N.of_nat p) (Nat.min (e_R e) (length (e_live e))) = Some l /\
     r_backups r = extras ++ tl l /\ length (tl l) = backup_count (e_R e) (length (e_live e)) /\
     NoDupIds (r_backups r) /\
     (forall b, In b (tl l) -> In b (e_live e) /\ live_by_id (e_live e) b = true /\ m_id b <> m_id ro) /\
     (forall b, In b extras ->
        In b (r_backups (route_of prev p)) /\ live_by_id (e_live e) b = true /\
        nonempty_or_unknown (e_len e Backup (N.of_nat p)) b = true /\
        forall z, In z (tl l) -> m_id b <> m_id z)) /\
  ((e_R e <= N.to_nat minimum_replica_count)%nat -> r_backups r = []) /\
  (forall m, In m (r_owners r) \/ In m (r_backups r) -> live_by_id (e_live e) m = true).
Proof.
  intros Hf Hwf Hp r ro. subst r. rewrite fill_route by exact Hp. destruct (Hwf p) as [Hno Hnb].
  pose proof (rf_owner _ _ Hf p Hp) as Hro. fold ro in Hro.
  unfold distribute_route. cbn [r_owners r_backups]. fold ro.
  destruct (distribute_primary_valid (e_live e) (e_len e Primary (N.of_nat p)) ro _ Hno Hro)
    as (olds & Hout & Hndo & Hlro & Holds & Hall).
  destruct (distribute_backups_valid (e_R e) (e_live e) (e_len e Backup (N.of_nat p)) ro _ _ Hnb Hro (rf_closest _ _ Hf p Hp) (rf_R _ _ Hf))
    as (l & extras & Hc & Hbout & Hblen & Hbnd & Hnews & Hex & Hball).
  split; [exists olds; repeat split; try assumption; now apply Holds|].
  destruct (Nat.ltb_spec (N.to_nat minimum_replica_count) (e_R e)) as [HR|HR].
  - split; [|split; [intros; lia|]].
    + intros _. exists l, extras. repeat split; try assumption; try (now apply Hnews); try (now apply Hex).
      destruct (Hex _ H) as (_ & _ & _ & Hna). now apply not_among_In.
    + intros m [Hm|Hm]; [now apply Hall|now apply Hball].
  - split; [intros; lia|]. split; [reflexivity|].
    intros m [Hm|[]]. now apply Hall.
Qed.

Theorem fill_settled e P prev p :
  ring_facts e P -> wf_table prev -> (p < P)%nat ->
  (forall o, In o (r_owners (route_of prev p)) -> m_id o <> m_id (e_ring_owner e (N.of_nat p)) ->
     e_len e Primary (N.of_nat p) o = Some 0) ->
  (forall l b, e_ring_closest e (N.of_nat p) (Nat.min (e_R e) (length (e_live e))) = Some l ->
     In b (r_backups (route_of prev p)) -> (forall z, In z (tl l) -> m_id b <> m_id z) ->
     e_len e Backup (N.of_nat p) b = Some 0) ->
  let r := route_of (fill_routing_table e P prev) p in
  r_owners r = [e_ring_owner e (N.of_nat p)] /\
  length (r_backups r) = (if (N.to_nat minimum_replica_count <? e_R e)%nat then backup_count (e_R e) (length (e_live e)) else 0)%nat /\
  ((N.to_nat minimum_replica_count < e_R e)%nat ->
   exists l, e_ring_closest e (N.of_nat p) (Nat.min (e_R e) (length (e_live e))) = Some l /\ r_backups r = tl l).
Proof.
  intros Hf Hwf Hp H0 H0b r. subst r. rewrite fill_route by exact Hp. destruct (Hwf p) as [Hno Hnb].
  unfold distribute_route. cbn [r_owners r_backups].
  split; [now apply distribute_primary_settled|].
  destruct (Nat.ltb_spec (N.to_nat minimum_replica_count) (e_R e)) as [HR|HR].
  - destruct (distribute_backups_settled (e_R e) (e_live e) (e_len e Backup (N.of_nat p)) (e_ring_owner e (N.of_nat p))
                (e_ring_closest e (N.of_nat p)) _ Hnb (rf_owner _ _ Hf p Hp) (rf_closest _ _ Hf p Hp) (rf_R _ _ Hf))
      as (l & Hc & Hout & Hlen).
    { intros l b Hc Hb Hna. apply (H0b l b Hc Hb). now apply not_among_In. }
    split; [now rewrite Hout|]. intros _. now exists l.
  - split; [reflexivity|]. intros; lia.
Qed.
